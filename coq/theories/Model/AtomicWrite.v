(** C19 — model of cogent3.util.io.atomic_write and of the writers that use it
    (src/cogent3/util/io.py l.181-303; format/alignment.py save_to_filename;
    Table.write; DictArray.write; tree write; ScoredTreeCollection.write).

    A write is a *program*: the sequence of file-system operations the code
    issues (exactly the events a sys.addaudithook sees: mkdtemp, open, remove,
    rename, rmtree), structured by Python's handler semantics:

        __init__   : Mkdtemp
        __enter__  : OpenTmp
        body       : Write c1; ...; Write cn        (may raise after j writes: "formatting fails")
        __exit__ ok : Close; <commit>; Rmtree
        __exit__ exc: Close; Rmtree

    Three executions are defined: a complete run, a run killed before its k-th
    operation ([run_prefix]), and a run in which the k-th operation raises
    OSError ([run_fault]; the handlers that Python still executes are applied).

    The commit sequence is a parameter: [commit_replace] (one os.replace, what
    the repaired code does) and [commit_unlink_rename] (unlink dest, then rename:
    what the code did before the fix; kept so that the non-atomicity is a
    theorem and a seeded regression has a formal counterpart). *)
From CG3 Require Import Lib.PyZ Lib.Val.

Definition content := list Z.

Record fs := {
  dest : option content;        (* the destination path: absent or its content *)
  tmpdir : bool;                (* the private temporary directory exists *)
  tmpfile : option content }.   (* the temporary file inside it *)

Inductive op :=
| Mkdtemp | OpenTmp | Write (c : content) | Close
| UnlinkDest          (* os.remove(dest), FileNotFoundError ignored *)
| Rename              (* os.rename(tmp, dest)  (POSIX: replaces atomically) *)
| Replace             (* os.replace(tmp, dest) (atomic) *)
| Rmtree              (* shutil.rmtree(tmpdir) *)
| UnlinkDestOnError.  (* save_to_filename's old `os.unlink(filename)` in its except branch *)

Definition exec (s : fs) (o : op) : fs :=
  match o with
  | Mkdtemp => {| dest := dest s; tmpdir := true; tmpfile := None |}
  | OpenTmp => {| dest := dest s; tmpdir := tmpdir s; tmpfile := Some [] |}
  | Write c => {| dest := dest s; tmpdir := tmpdir s;
                  tmpfile := match tmpfile s with Some t => Some (t ++ c) | None => None end |}
  | Close => s
  | UnlinkDest | UnlinkDestOnError => {| dest := None; tmpdir := tmpdir s; tmpfile := tmpfile s |}
  | Rename | Replace =>
      match tmpfile s with
      | Some t => {| dest := Some t; tmpdir := tmpdir s; tmpfile := None |}
      | None => s
      end
  | Rmtree => {| dest := dest s; tmpdir := false; tmpfile := None |}
  end.

Definition run (p : list op) (s : fs) : fs := fold_left exec p s.

Definition commit_replace : list op := [Replace].
Definition commit_unlink_rename : list op := [UnlinkDest; Rename].

Section Programs.
  Variable commit : list op.

  (** successful write of the chunks *)
  Definition prog_ok (chunks : list content) : list op :=
    [Mkdtemp; OpenTmp] ++ map Write chunks ++ [Close] ++ commit ++ [Rmtree].

  (** the body raises after having written the first j chunks (formatting failure);
      [extra] = operations the writer's own except-branch performs before re-raising *)
  Definition prog_fail (extra : list op) (chunks : list content) (j : nat) : list op :=
    [Mkdtemp; OpenTmp] ++ map Write (firstn j chunks) ++ extra ++ [Close; Rmtree].

  (** killed before operation k (k = length: ran to completion) *)
  Definition run_prefix (k : nat) (p : list op) (s : fs) : fs := run (firstn k p) s.

  (** operation k raises OSError instead of executing.  Handlers (repaired code):
      - in __init__ (Mkdtemp): nothing has been created, nothing else runs;
      - in __enter__ (OpenTmp): _get_fileobj removes the temporary directory
        (a with-statement whose __enter__ raised does not call __exit__);
      - in the body (a Write): __exit__(exc) runs Close; Rmtree;
      - inside __exit__ (Close, commit, Rmtree): the except-branch of __exit__
        removes the temporary directory and re-raises. *)
  Definition handler_after (o : op) : list op :=
    match o with
    | Mkdtemp => []
    | Write _ | UnlinkDestOnError => [Close; Rmtree]
    | _ => [Rmtree]
    end.

  Definition run_fault (k : nat) (p : list op) (s : fs) : fs :=
    match nth_error p k with
    | Some o => run (handler_after o) (run (firstn k p) s)
    | None => run p s
    end.
End Programs.

Definition init (old : option content) : fs := {| dest := old; tmpdir := false; tmpfile := None |}.
Definition no_tmp (s : fs) : bool := negb (tmpdir s) && match tmpfile s with None => true | Some _ => false end.

(** ---------- resume of apply_to (dictionary level) ----------
    apply_to derives an id per input, skips ids already completed in the output
    store and writes one record per remaining input, in order. *)
Section Resume.
  Variable f : Z -> Z.   (* the composed app on one input: id -> record content code *)

  Definition has (st : list (Z * Z)) (i : Z) : bool := existsb (fun p => fst p =? i) st.

  Definition step_input (st : list (Z * Z)) (i : Z) : list (Z * Z) :=
    if has st i then st else st ++ [(i, f i)].

  Definition apply_to (inputs : list Z) (st : list (Z * Z)) : list (Z * Z) :=
    fold_left step_input inputs st.

  (** the inputs a run actually processes *)
  Definition processed (inputs : list Z) (st : list (Z * Z)) : list Z :=
    filter (fun i => negb (has st i)) inputs.

  (** a run interrupted after its k-th *processed* record *)
  Definition interrupted (k : nat) (inputs : list Z) (st : list (Z * Z)) : list (Z * Z) :=
    apply_to (firstn k (processed inputs st)) st.
End Resume.
