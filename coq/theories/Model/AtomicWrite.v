(** C19 — model of cogent3.util.io.atomic_write and of the writers that use it
    (src/cogent3/util/io.py l.181-303; format/alignment.py save_to_filename;
    Table.write; DictArray.write; tree write; ScoredTreeCollection.write).

    A write is a *program*: the sequence of file-system operations the code
    issues (exactly the events a sys.addaudithook sees: mkdtemp, open, remove,
    rename, rmtree), structured by Python's handler semantics:

        __init__   : Mkdtemp
        __enter__  : OpenTmp
        body       : Write c1; ...; Write cn        (may raise after j writes: "formatting fails")
        __exit__ ok : Close; <commit>; Rmtree
        __exit__ exc: Close; Rmtree

    Three executions are defined: a complete run, a run killed before its k-th
    operation ([run_prefix]), and a run in which the k-th operation raises
    OSError ([run_fault]; the handlers that Python still executes are applied).

    The commit sequence is a parameter: [commit_replace] (one os.replace, what
    the repaired code does) and [commit_unlink_rename] (unlink dest, then rename:
    what the code did before the fix; kept so that the non-atomicity is a
    theorem and a seeded regression has a formal counterpart). *)
From CG3 Require Import Lib.PyZ Lib.Val.

Definition content := list Z.

Record fs := {
  dest : option content;        (* the destination path: absent or its content *)
  tmpdir : bool;                (* the private temporary directory exists *)
  tmpfile : option content }.   (* the temporary file inside it *)

Inductive op :=
| Mkdtemp | OpenTmp | Write (c : content) | Close
| UnlinkDest          (* os.remove(dest), FileNotFoundError ignored *)
| Rename              (* os.rename(tmp, dest)  (POSIX: replaces atomically) *)
| Replace             (* os.replace(tmp, dest) (atomic) *)
| Rmtree              (* shutil.rmtree(tmpdir) *)
| UnlinkDestOnError.  (* save_to_filename's old `os.unlink(filename)` in its except branch *)

Definition exec (s : fs) (o : op) : fs :=
  match o with
  | Mkdtemp => {| dest := dest s; tmpdir := true; tmpfile := None |}
  | OpenTmp => {| dest := dest s; tmpdir := tmpdir s; tmpfile := Some [] |}
  | Write c => {| dest := dest s; tmpdir := tmpdir s;
                  tmpfile := match tmpfile s with Some t => Some (t ++ c) | None => None end |}
  | Close => s
  | UnlinkDest | UnlinkDestOnError => {| dest := None; tmpdir := tmpdir s; tmpfile := tmpfile s |}
  | Rename | Replace =>
      match tmpfile s with
      | Some t => {| dest := Some t; tmpdir := tmpdir s; tmpfile := None |}
      | None => s
      end
  | Rmtree => {| dest := dest s; tmpdir := false; tmpfile := None |}
  end.

Definition run (p : list op) (s : fs) : fs := fold_left exec p s.

Definition commit_replace : list op := [Replace].
Definition commit_unlink_rename : list op := [UnlinkDest; Rename].

Section Programs.
  Variable commit : list op.

  (** successful write of the chunks *)
  Definition prog_ok (chunks : list content) : list op :=
    [Mkdtemp; OpenTmp] ++ map Write chunks ++ [Close] ++ commit ++ [Rmtree].

  (** the body raises after having written the first j chunks (formatting failure);
      [extra] = operations the writer's own except-branch performs before re-raising *)
  Definition prog_fail (extra : list op) (chunks : list content) (j : nat) : list op :=
    [Mkdtemp; OpenTmp] ++ map Write (firstn j chunks) ++ extra ++ [Close; Rmtree].

  (** killed before operation k (k = length: ran to completion) *)
  Definition run_prefix (k : nat) (p : list op) (s : fs) : fs := run (firstn k p) s.

  (** operation k raises OSError instead of executing.  Handlers (repaired code):
      - in __init__ (Mkdtemp): nothing has been created, nothing else runs;
      - in __enter__ (OpenTmp): _get_fileobj removes the temporary directory
        (a with-statement whose __enter__ raised does not call __exit__);
      - in the body (a Write): __exit__(exc) runs Close; Rmtree;
      - inside __exit__ (Close, commit, Rmtree): the except-branch of __exit__
        removes the temporary directory and re-raises. *)
  Definition handler_after (o : op) : list op :=
    match o with
    | Mkdtemp => []
    | Write _ | UnlinkDestOnError => [Close; Rmtree]
    | _ => [Rmtree]
    end.

  Definition run_fault (k : nat) (p : list op) (s : fs) : fs :=
    match nth_error p k with
    | Some o => run (handler_after o) (run (firstn k p) s)
    | None => run p s
    end.
End Programs.

Definition init (old : option content) : fs := {| dest := old; tmpdir := false; tmpfile := None |}.
Definition no_tmp (s : fs) : bool := negb (tmpdir s) && match tmpfile s with None => true | Some _ => false end.

(** ---------- resume of apply_to (dictionary level) ----------
    apply_to derives an id per input, skips ids already completed in the output
    store and writes one record per remaining input, in order. *)
Section Resume.
  Variable f : Z -> Z.   (* the composed app on one input: id -> record content code *)

  Definition has (st : list (Z * Z)) (i : Z) : bool := existsb (fun p => fst p =? i) st.

  Definition step_input (st : list (Z * Z)) (i : Z) : list (Z * Z) :=
    if has st i then st else st ++ [(i, f i)].

  Definition apply_to (inputs : list Z) (st : list (Z * Z)) : list (Z * Z) :=
    fold_left step_input inputs st.

  (** the inputs a run actually processes *)
  Definition processed (inputs : list Z) (st : list (Z * Z)) : list Z :=
    filter (fun i => negb (has st i)) inputs.

  (** a run interrupted after its k-th *processed* record *)
  Definition interrupted (k : nat) (inputs : list Z) (st : list (Z * Z)) : list (Z * Z) :=
    apply_to (firstn k (processed inputs st)) st.
End Resume.

(** ---------- exception classes and the handler set of atomic_write ----------
    [_get_fileobj] (runs inside __enter__) and [__exit__] each have ONE
    except-clause that removes the temporary directory and re-raises.  Which
    exception classes those clauses name decides whether a failure is cleaned
    up.  The classes are read from the source text by the driver (fail-closed)
    and passed in as [handlers]; nothing below assumes them. *)
Inductive exc := EOS | EValue | EAttr | EOther | EBase.
(* EOS: OSError family; EValue: ValueError; EAttr: AttributeError; EOther: any other
   subclass of Exception (RuntimeError ...); EBase: KeyboardInterrupt / SystemExit *)

Inductive hbase := BBaseException | BException | BOSError | BValueError | BAttributeError | BOtherName.

Definition subclass (e : exc) (b : hbase) : bool :=
  match b, e with
  | BBaseException, _ => true
  | BException, EBase => false
  | BException, _ => true
  | BOSError, EOS => true
  | BValueError, EValue => true
  | BAttributeError, EAttr => true
  | _, _ => false
  end.

Definition hclause := list hbase.     (* `except (A, B):`; a bare `except:` is [BBaseException] *)
Definition catches (h : hclause) (e : exc) : bool := existsb (subclass e) h.

Record handlers := { h_enter : hclause; h_exit : hclause }.

(** the failures the property calls "handled": everything that is an Exception *)
Definition handled_classes : list exc := [EOS; EValue; EAttr; EOther].
Definition covers_handled (H : handlers) : bool :=
  forallb (fun e => catches (h_enter H) e && catches (h_exit H) e) handled_classes.

Section ClassFaults.
  Variable H : handlers.

  (** operation [o] raises an exception of class [e] instead of executing:
      - __init__ (Mkdtemp): nothing exists yet;
      - __enter__ (OpenTmp): the except-clause of _get_fileobj, if it names the class;
      - the body (Write): the with-statement calls __exit__(exc) whatever the class;
      - inside __exit__ (Close, commit, Rmtree): its except-clause, if it names the class. *)
  Definition handler_after_cls (e : exc) (o : op) : list op :=
    match o with
    | Mkdtemp => []
    | OpenTmp => if catches (h_enter H) e then [Rmtree] else []
    | Write _ | UnlinkDestOnError => [Close; Rmtree]
    | _ => if catches (h_exit H) e then [Rmtree] else []
    end.

  Definition run_fault_cls (e : exc) (k : nat) (p : list op) (s : fs) : fs :=
    match nth_error p k with
    | Some o => run (handler_after_cls e o) (run (firstn k p) s)
    | None => run p s
    end.
End ClassFaults.

(** ---------- zip targets ----------
    A `.zip` destination: the file object handed to the writer is a second
    atomic_write (open_zip) whose temporary directory lives inside the first
    one's; it opens its file lazily, and on close appends the staged plain file
    to a TEMPORARY archive (ZipFile(tmp.zip, "a")) which the outer object then
    moves over the destination with one replace.
    An explicit [in_zip] archive (or a regression that commits a `.zip`
    destination the same way) is appended to IN PLACE: [zprog_append].
    ZipFile(path, "a") issues open(path, "r+") and, when that fails because the
    file is absent, open(path, "w+") which creates an EMPTY file (not yet an
    archive); the member and the directory are written after the staged file has
    been opened for reading. *)
Inductive arch := Garbage | Members (ms : list content).
Inductive ztarget := Staged | Dest.

Record zfs := {
  zdest : option arch;        (* the destination archive *)
  zouter : bool;              (* outer temporary directory *)
  zstaged : option arch;      (* temporary archive inside it *)
  zinner : bool;              (* inner temporary directory *)
  zfile : option content }.   (* the staged plain file *)

Inductive zop :=
| ZMkOuter | ZMkInner | ZOpenFile | ZWrite (c : content) | ZClose
| ZTryOpen (t : ztarget)      (* open(archive, "r+") *)
| ZCreate (t : ztarget)       (* open(archive, "w+"): only issued when the archive is absent *)
| ZAdd (t : ztarget)          (* open(staged file, "r"); member + directory written, archive closed *)
| ZRmInner | ZReplace | ZRmOuter.

Definition zget (s : zfs) (t : ztarget) := match t with Staged => zstaged s | Dest => zdest s end.
Definition zset (s : zfs) (t : ztarget) (a : option arch) : zfs :=
  match t with
  | Staged => {| zdest := zdest s; zouter := zouter s; zstaged := a; zinner := zinner s; zfile := zfile s |}
  | Dest => {| zdest := a; zouter := zouter s; zstaged := zstaged s; zinner := zinner s; zfile := zfile s |}
  end.

Definition zexec (s : zfs) (o : zop) : zfs :=
  match o with
  | ZMkOuter => {| zdest := zdest s; zouter := true; zstaged := None; zinner := false; zfile := None |}
  | ZMkInner => {| zdest := zdest s; zouter := zouter s; zstaged := zstaged s; zinner := true; zfile := zfile s |}
  | ZOpenFile => {| zdest := zdest s; zouter := zouter s; zstaged := zstaged s; zinner := zinner s; zfile := Some [] |}
  | ZWrite c => {| zdest := zdest s; zouter := zouter s; zstaged := zstaged s; zinner := zinner s;
                   zfile := match zfile s with Some t => Some (t ++ c) | None => None end |}
  | ZClose | ZTryOpen _ => s
  | ZCreate t => zset s t (Some Garbage)
  | ZAdd t =>
      match zfile s with
      | Some c => zset s t (Some (Members (match zget s t with Some (Members ms) => ms ++ [c] | _ => [c] end)))
      | None => s
      end
  | ZRmInner => {| zdest := zdest s; zouter := zouter s; zstaged := zstaged s; zinner := false;
                   zfile := if zinner s then None else zfile s |}
  | ZReplace =>
      match zstaged s with
      | Some a => {| zdest := Some a; zouter := zouter s; zstaged := None; zinner := zinner s; zfile := zfile s |}
      | None => s
      end
  | ZRmOuter => {| zdest := zdest s; zouter := false; zstaged := None; zinner := false; zfile := None |}
  end.

Definition zrun (p : list zop) (s : zfs) : zfs := fold_left zexec p s.
Definition zinit (old : option arch) : zfs :=
  {| zdest := old; zouter := false; zstaged := None; zinner := false; zfile := None |}.
Definition zno_tmp (s : zfs) : bool :=
  negb (zouter s) && negb (zinner s)
  && match zstaged s with None => true | _ => false end
  && match zfile s with None => true | _ => false end.

(** `.zip` destination, present code: temporary archive, then one replace *)
Definition zprog_staged (chunks : list content) : list zop :=
  [ZMkOuter; ZMkInner; ZOpenFile] ++ map ZWrite chunks
  ++ [ZClose; ZTryOpen Staged; ZCreate Staged; ZAdd Staged; ZRmInner; ZReplace; ZRmOuter].

(** archive appended to in place ([present] = the archive exists beforehand) *)
Definition zprog_append (present : bool) (chunks : list content) : list zop :=
  [ZMkOuter; ZOpenFile] ++ map ZWrite chunks
  ++ [ZClose; ZTryOpen Dest] ++ (if present then [] else [ZCreate Dest]) ++ [ZAdd Dest; ZRmOuter].

Definition is_present (old : option arch) : bool := match old with Some _ => true | None => false end.
(** what "the new content" of the archive is: a `.zip` destination holds exactly the
    new member; an explicit archive holds its previous members and the new one *)
Definition old_members (old : option arch) : list content :=
  match old with Some (Members ms) => ms | _ => [] end.

(** ---------- resume with not-completed records ----------
    A record is completed (true) or not-completed (false).  apply_to skips an
    input only when a COMPLETED record with its id exists; an input that ended
    not-completed is processed again and its record written again. *)
Section ResumeNC.
  Variable g : Z -> Z * bool.     (* the composed app: content code, completed? *)

  Definition rec := (Z * (Z * bool))%type.
  Definition has_c (st : list rec) (i : Z) : bool :=
    existsb (fun p => (fst p =? i) && snd (snd p)) st.

  Fixpoint set_rec (st : list rec) (i : Z) (v : Z * bool) : list rec :=
    match st with
    | [] => [(i, v)]
    | p :: t => if fst p =? i then (i, v) :: t else p :: set_rec t i v
    end.

  Definition step_nc (st : list rec) (i : Z) : list rec :=
    if has_c st i then st else set_rec st i (g i).

  Definition apply_nc (inputs : list Z) (st : list rec) : list rec := fold_left step_nc inputs st.

  Definition processed_nc (inputs : list Z) (st : list rec) : list Z :=
    filter (fun i => negb (has_c st i)) inputs.

  Definition interrupted_nc (k : nat) (inputs : list Z) (st : list rec) : list rec :=
    apply_nc (firstn k (processed_nc inputs st)) st.
End ResumeNC.
