(** Runner for the C05 correspondence: evaluates the rate-matrix model of
    [Model/RateMatrix.v] over the exact rationals [Qc] on one case and returns a
    [val].  Inputs are exact rationals (the harness converts the floats the
    implementation saw with float.as_integer_ratio); outputs are rationals
    rounded down to multiples of 2^-90 and returned as the integer numerator. *)
From Coq Require Import ZArith List Bool QArith Qcanon Qround Qabs.
From CG3 Require Import Lib.Val Lib.FieldAlg Lib.Mat Model.RateMatrix.
Import ListNotations.

Definition rat := (Z * Z)%type.
Definition q_of (p : rat) : Qc := Q2Qc (fst p # Z.to_pos (snd p)).
Definition qzero (x : Qc) : bool := Z.eqb (Qnum (this x)) 0.

Definition scaled (x : Qc) : Z := Qfloor (this x * (2 ^ 90 # 1)).
Definition vvec (v : list Qc) : val := VL (map (fun x => VZ (scaled x)) v).
Definition vmat (m : list (list Qc)) : val := VL (map vvec m).

Definition F := Qc_fld.

Inductive case : Type :=
| CaseQ (stationary : bool) (mpkind : Z) (k len : nat) (words : list (list nat))
        (preds : list (list (list bool) * rat)) (probs : list rat)
        (t : rat) (s terms : nat)
| CasePade (n q : nat) (A : list (list rat))
| CaseTaylor (n terms : nat) (A : list (list rat))
| CaseRates (kind : Z) (w v : list rat)
| CaseRatios (ratios : list rat)
| CasePick (stationary : bool) (n : nat) (pick : list (list nat)) (lic : list (nat * nat)) (params probs : list rat).

(** numpy.allclose(x, 0.0): |x| <= 1e-8 *)
Definition near0_1e8 (x : Qc) : bool := Qle_bool (Qabs (this x)) (1 # 100000000).

Definition run_case (c : case) : val :=
  match c with
  | CaseQ stationary mpkind k len words preds probs t s terms =>
      let n := length words in
      let inst := inst_mask words in
      let pr := map q_of probs in
      let Rm := exchangeability F n inst (map (fun mp => (fst mp, q_of (snd mp))) preds) in
      let mons := map (fun p => firstn k (skipn (p * k) pr)) (seq 0 len) in   (* mpkind 3: probs = [position][monomer] flattened *)
      let wp := if Z.eqb mpkind 1 then monomer_word_probs F words pr
                else if Z.eqb mpkind 3 then posn_word_probs F words mons else pr in
      let mpm := if Z.eqb mpkind 1 then mpm_monomer F n words inst pr
                 else if Z.eqb mpkind 3 then mpm_posn F n words inst mons
                 else if Z.eqb mpkind 2 then mpm_conditional F qzero n k len words inst pr
                 else mpm_simple F n pr in
      let Q := if stationary then calcQ_stationary F n wp mpm Rm else calcQ_general F n wp Rm in
      let P := match terms with
               | O => []
               | _ => expm_ss F n (lscale F n (q_of t) Q) s terms
               end in
      VL [vvec wp; vmat Rm; vmat Q; vmat P]
  | CasePade n q A =>
      let Al := map (map q_of) A in
      let ND := pade_ND F n q Al in
      VL [vmat (fst ND); vmat (snd ND)]
  | CaseTaylor n terms A =>
      vmat (taylor F n (map (map q_of) A) terms)
  | CaseRates kind w v =>
      let w' := map q_of w in
      let v' := map q_of v in
      vvec (if Z.eqb kind 0 then weighted_partition F w' v'
            else if Z.eqb kind 1 then monotonic F w' v'
            else gamma_rates F w' v')
  | CaseRatios ratios => vvec (psub_row F (map q_of ratios))
  | CasePick stationary n pick lic params probs =>
      let pr := map q_of probs in
      let ps := map q_of params in
      if stationary then
        match gs_exchangeability F Qc_neg near0_1e8 n pr ps pick lic with
        | None => VE 9
        | Some Rl => VL [vmat Rl; vmat (calcQ_stationary F n pr (mpm_simple F n pr) Rl)]
        end
      else
        let Rl := take_pick F n ps pick in
        VL [vmat Rl; vmat (calcQ_general F n pr Rl)]
  end.
