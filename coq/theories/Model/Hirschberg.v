(** C18 — model of the DIVIDE step of the linear-space (Hirschberg) aligner,
    [PairEmissionProbs.hirschberg] in cogent3/align/pairwise.py:

      last_row1 = scores_at_rows(..., last_row=[k], backward=False)   forward scores of row k
      last_row2 = scores_at_rows(..., last_row=[k], backward=True)    backward scores of row k
      middle_row = last_row1 + last_row2
      score = max(middle_row);  (anchor, anchor_state) = argmax

    Forward score of (k, j, s): the entry of the full table ([Model/PairAlign.v]).
    Backward score of (k, j, s): the code runs the same dynamic programme on the
    reversed sequences with the transposed transition matrix ([dp(..., backward=True)]:
    [T[1:-1,1:-1] = transpose; T[0,:] = origT[:,-1]; T[:,-1] = origT[0,:]], the
    latter set to 1 by [_half_row_scores] so that BEGIN is not counted twice) and
    closes each requested cell with [T2[:, -1] = T[:, state]], i.e. it maximises
    over the first state [prev] of the suffix: value(prev) + T[state, prev]
    (for the empty suffix: + T[state, END]).  No proofs in this file. *)
From CG3 Require Import Lib.PyZ Lib.Val Lib.MaxPlus Model.PairAlign.

(** the score table the backward pass uses *)
Definition mirror (P : params) : params :=
  {| tr := fun p s => match p with SB => te P s | _ => tr P s p end;
     te := fun _ => Some 0;
     em := em P; gx := gx P; gy := gy P |}.

Definition cell_at (t : list (list cell)) (i j : nat) : cell := nth j (nth i t []) dead.

(** max of a list of scores (numpy's max over -inf-padded floats) *)
Definition emaxl (l : list ez) : ez := fst (pick dead_entry (map (fun v => (v, [])) l)).

(** (the tables are arguments so that an evaluation builds each of them once) *)
Definition fwd_of (tf : list (list cell)) (k j : nat) (s : st) : ez := fst (cget (cell_at tf k j) s).

Definition bwd_of (P : params) (tb : list (list cell)) (m n k j : nat) (s : st) : ez :=
  let c := cell_at tb (m - k) (n - j) in
  emaxl (map (fun prev => eplus (fst (cget c prev)) (match prev with SB => te P s | _ => tr P s prev end))
             source_states).

Definition fwd_val (P : params) (xs ys : list Z) (k j : nat) (s : st) : ez :=
  fwd_of (table P false xs ys) k j s.

Definition bwd_val (P : params) (xs ys : list Z) (k j : nat) (s : st) : ez :=
  bwd_of P (table (mirror P) false (rev xs) (rev ys)) (length xs) (length ys) k j s.

(** [middle_row], flattened: j = 0..|ys|, state = BEGIN, X, Y, M *)
Definition middle (P : params) (xs ys : list Z) (k : nat) : list ez :=
  let tf := table P false xs ys in
  let tb := table (mirror P) false (rev xs) (rev ys) in
  let m := length xs in
  let n := length ys in
  flat_map (fun j => map (fun s => eplus (fwd_of tf k j s) (bwd_of P tb m n k j s)) source_states)
           (seq 0 (S n)).

Definition hirsch_score (P : params) (xs ys : list Z) (k : nat) : ez := emaxl (middle P xs ys k).

(** ---------------------------------------------------------------- the recursion

    [(link, anchor, anchor_state) = unravel_index(argmax(middle_row.flat))]:
    the first maximal entry in (j, state) order; then the two halves are solved
    by the same procedure — the first with every transition to END forbidden
    except from the anchor state ([T2[:, -1] = 0; T2[anchor_state, -1] = 1]),
    the second entered from the anchor state ([T2[0, :] = T[anchor_state, :]])
    — and the tracebacks concatenated; the reported score is the maximum of the
    middle row.  Below 3 residues in the first sequence [dp] does not divide. *)
Definition with_end (P : params) (s : st) : params :=
  {| tr := tr P; te := fun p => if st_eqb p s then Some 0 else None; em := em P; gx := gx P; gy := gy P |}.

Definition with_begin (P : params) (s : st) : params :=
  {| tr := fun p q => match p with SB => tr P s q | _ => tr P p q end;
     te := fun p => match p with SB => te P s | _ => te P p end;
     em := em P; gx := gx P; gy := gy P |}.

Definition middle_idx (P : params) (xs ys : list Z) (k : nat) : list (nat * st * ez) :=
  let tf := table P false xs ys in
  let tb := table (mirror P) false (rev xs) (rev ys) in
  let m := length xs in
  let n := length ys in
  flat_map (fun j => map (fun s => (j, s, eplus (fwd_of tf k j s) (bwd_of P tb m n k j s))) source_states)
           (seq 0 (S n)).

Definition argmax_first (l : list (nat * st * ez)) : nat * st * ez :=
  fold_left (fun best c => if egtb (snd c) (snd best) then c else best) l (0%nat, SB, None).

(** out of fuel: (None, [SB]) — a path no theorem accepts; fuel = S (length xs) always suffices *)
Fixpoint hirsch (fuel : nat) (P : params) (xs ys : list Z) : ez * list st :=
  match fuel with
  | O => (None, [SB])
  | S fuel' =>
      if (length xs <? 3)%nat then align_global P xs ys
      else
        let k := Nat.div (length xs) 2 in
        let '(j, s, v) := argmax_first (middle_idx P xs ys k) in
        let L := hirsch fuel' (with_end P s) (firstn k xs) (firstn j ys) in
        let R := hirsch fuel' (with_begin P s) (skipn k xs) (skipn j ys) in
        (v, snd L ++ snd R)
  end.

Definition hirsch_align (P : params) (xs ys : list Z) : ez * list st := hirsch (S (length xs)) P xs ys.
