(** Executable model of cogent3's sequence views.

    Transcribed branch-for-branch from
      /repo/src/cogent3/core/sequence.py      [_input_vals_pos_step] ... [SeqView.copy]   (l.1854-2413)
      /repo/src/cogent3/core/new_sequence.py  the textually identical [SliceRecordABC] kernel (l.1984-2430)
                                              and [SeqView] (l.2478-2635)
      /repo/src/cogent3/core/new_alignment.py [SeqDataView] (l.80-213)
    The integer kernel is shared by the three classes; they differ only in
    their zero-slice, [copy] and the way the string is realised (the
    [flavour]).  Python ints are [Z], [//] is [Z.div], strings are [list Z].

    Part 1 (views) is self-contained and is what other models reuse.
    Part 2 (sequences) adds the moltype-dependent behaviour of [Sequence]:
    complementing a reversed view in [__str__], [rc], [to_rna]/[to_dna],
    [copy(sliced=True)] and [parent_coordinates].

    No proofs here. *)
From CG3 Require Import Lib.PyZ Lib.Val Lib.PySlice.

(** * Part 1 - the view kernel *)

Record view := mkV { start : Z; stop : Z; step : Z; seq_len : Z; offset : Z }.

(** which concrete class: decides [_zero_slice], [copy] and [str_value] *)
Inductive flavour := FSeqView | FSeqDataView.

Inductive res (A : Type) : Type := Ok (a : A) | Err (code : Z).
Arguments Ok {A} a.
Arguments Err {A} code.

Definition bind {A B} (r : res A) (f : A -> res B) : res B :=
  match r with Ok a => f a | Err e => Err e end.

(** [_input_vals_pos_step(seqlen, start, stop, step)] *)
Definition input_vals_pos_step (seqlen : Z) (start stop : option Z) (step : Z) : Z * Z * Z :=
  let start := match start with None => 0 | Some s => s end in
  if (start >? 0) && (start >=? seqlen) then (0, 0, 1) else
  let stop := match stop with None => seqlen | Some e => e end in
  if (stop <? 0) && (Z.abs stop >=? seqlen) then (0, 0, 1) else
  let start := if start <? 0 then Z.max (seqlen + start) 0 else start in
  let stop := if stop >? 0 then Z.min seqlen stop
              else if stop <? 0 then stop + seqlen else stop in
  if start >=? stop then (0, 0, 1) else (start, stop, step).

(** [_input_vals_neg_step(seqlen, start, stop, step)] *)
Definition input_vals_neg_step (seqlen : Z) (start stop : option Z) (step : Z) : Z * Z * Z :=
  let start' : option Z :=             (* None: the early [return 0, 0, 1] *)
    match start with
    | None => Some (-1)
    | Some s =>
        if s >=? seqlen then Some (-1)
        else if s >=? 0 then Some (s - seqlen)
        else if s <? - seqlen then None
        else Some s
    end in
  match start' with
  | None => (0, 0, 1)
  | Some start =>
      let stop := match stop with
                  | None => - seqlen - 1
                  | Some e => if e >=? 0 then e - seqlen else e
                  end in
      let stop := Z.max stop (- seqlen - 1) in
      if start <? stop then (0, 0, 1) else (start, stop, step)
  end.

(** the constructor [SeqView(seq=.., start, stop, step, offset, seq_len)] /
    [SeqDataView(seq_len=.., start, stop, step, offset)]; [seqlen] is
    [len(seq)] resp. the given [seq_len] *)
Definition mk_view (seqlen : Z) (start stop step : option Z) (offset : Z) : res view :=
  match step with
  | Some 0 => Err E_Value
  | _ =>
      let step := match step with None => 1 | Some c => c end in
      let '(s, e, c) := if step >? 0 then input_vals_pos_step seqlen start stop step
                        else input_vals_neg_step seqlen start stop step in
      Ok (mkV s e c seqlen offset)
  end.

(** [__len__] *)
Definition vlen (v : view) : Z := Z.abs ((start v - stop v) / step v).

Definition is_reversed (v : view) : bool := step v <? 0.

(** [parent_start] / [parent_stop] (the [assert]s hold for every well-formed
    view, see Proofs) *)
Definition parent_start (v : view) : Z :=
  offset v + (if is_reversed v then stop v + seq_len v + 1 else start v).

Definition parent_stop (v : view) : Z :=
  offset v + (if is_reversed v then start v + seq_len v + 1 else stop v).

(** [_get_index(val, include_boundary)] -> (start, stop, step) of the one-element view *)
Definition get_index (v : view) (val : Z) (include_boundary : bool) : res (Z * Z * Z) :=
  let len := vlen v in
  if len =? 0 then Err E_Index else
  if (val >? 0) && include_boundary && (val >? len) then Err E_Index else
  if (val >? 0) && negb include_boundary && (val >=? len) then Err E_Index else
  if (val <? 0) && include_boundary && (Z.abs val >? len + 1) then Err E_Index else
  if (val <? 0) && negb include_boundary && (Z.abs val >? len) then Err E_Index else
  if step v >? 0 then
    let x := if val >=? 0 then start v + val * step v
             else start v + len * step v + val * Z.abs (step v) in
    Ok (x, x + 1, 1)
  else if step v <? 0 then
    let x := if val >=? 0 then start v + val * step v
             else start v + len * step v + val * step v in
    Ok (x, x - 1, -1)
  else Err E_Type.

(** [_zero_slice] *)
Definition zero_slice (fl : flavour) (v : view) : res view :=
  match fl with
  | FSeqView => mk_view 0 None None None 0                                  (* SeqView(seq="") *)
  | FSeqDataView => mk_view (seq_len v) (Some 0) (Some 0) None 0            (* start=0, stop=0, same seq_len *)
  end.

(** [copy()] (not sliced) *)
Definition copy_view (fl : flavour) (v : view) : res view :=
  match fl with
  | FSeqView => mk_view (seq_len v) (Some (start v)) (Some (stop v)) (Some (step v)) (offset v)
  | FSeqDataView => Ok v
  end.

(** re-construction with the current [offset], [seq_len] and class kwargs *)
Definition rebuild (v : view) (s e c : Z) : res view :=
  mk_view (seq_len v) (Some s) (Some e) (Some c) (offset v).

(** [__getitem__(int)] *)
Definition getitem_int (v : view) (i : Z) : res view :=
  bind (get_index v i false) (fun '(s, e, c) => rebuild v s e c).

Definition get_forward_slice_from_forward (fl : flavour) (v : view) (slice_start slice_stop stp : Z) : res view :=
  let len := vlen v in
  let s := if slice_start >=? 0 then start v + slice_start * step v
           else Z.max (start v + len * step v + slice_start * step v) (start v) in
  let e := if slice_stop >? stop v then stop v
           else if slice_stop >=? 0 then start v + slice_stop * step v
           else start v + len * step v + slice_stop * step v in
  if (s <? 0) || (e <? 0) then zero_slice fl v else
  if e <? s then zero_slice fl v else
  if s >? seq_len v then zero_slice fl v else
  rebuild v s (Z.min (stop v) e) (step v * stp).

Definition get_forward_slice_from_reverse (fl : flavour) (v : view) (slice_start slice_stop stp : Z) : res view :=
  let len := vlen v in
  let s := if slice_start >=? 0 then start v + slice_start * step v
           else if Z.abs slice_start >? len then start v
           else start v + len * step v + slice_start * step v in
  let e := if slice_stop >=? 0 then start v + slice_stop * step v
           else start v + len * step v + slice_stop * step v in
  if (s >=? 0) || (e >=? 0) then zero_slice fl v else
  rebuild v s (Z.max (stop v) e) (step v * stp).

Definition get_reverse_slice_from_forward (fl : flavour) (v : view) (slice_start slice_stop stp : Z) : res view :=
  let len := vlen v in
  let s := if slice_start >=? len then (start v + len * step v - step v) - seq_len v
           else if slice_start >=? 0 then (start v + slice_start * step v) - seq_len v
           else start v + len * step v + slice_start * step v - seq_len v in
  if slice_stop >=? seq_len v then zero_slice fl v else
  let e := if slice_stop >=? 0 then start v + slice_stop * step v - seq_len v
           else start v + len * step v + slice_stop * step v - seq_len v in
  if (s >=? 0) || (e >=? 0) then zero_slice fl v else
  rebuild v s (Z.max e (start v - seq_len v - 1)) (step v * stp).

Definition get_reverse_slice_from_reverse (fl : flavour) (v : view) (slice_start slice_stop stp : Z) : res view :=
  let len := vlen v in
  let s := if slice_start >=? len then seq_len v + start v + len * step v + Z.abs (step v)
           else if slice_start >=? 0 then seq_len v + (start v + slice_start * step v)
           else seq_len v + (start v + len * step v + slice_start * step v) in
  let e0 := if slice_stop >=? 0 then seq_len v + (start v + slice_stop * step v)
            else seq_len v + (start v + len * step v + slice_stop * step v) in
  if (slice_stop >=? 0) && (e0 <=? seq_len v + stop v) then zero_slice fl v else
  let e := if (slice_stop <? 0) && (e0 >? seq_len v + start v) then seq_len v + start v + 1 else e0 in
  if (e <? s) || (s >? seq_len v) || (Z.min s e <? 0) then zero_slice fl v else
  rebuild v s e (step v * stp).

(** [_get_slice] *)
Definition get_slice (fl : flavour) (v : view) (a b : option Z) (stp : Z) : res view :=
  let slice_start := match a with Some x => x | None => 0 end in
  let slice_stop := match b with Some x => x | None => vlen v end in
  if step v >? 0 then get_forward_slice_from_forward fl v slice_start slice_stop stp
  else if step v <? 0 then get_forward_slice_from_reverse fl v slice_start slice_stop stp
  else Err E_Type.

(** [_get_reverse_slice] *)
Definition get_reverse_slice (fl : flavour) (v : view) (a b : option Z) (stp : Z) : res view :=
  let slice_start := match a with Some x => x | None => -1 end in
  let slice_stop := match b with Some x => x | None => - vlen v - 1 end in
  if step v <? 0 then get_reverse_slice_from_reverse fl v slice_start slice_stop stp
  else if step v >? 0 then get_reverse_slice_from_forward fl v slice_start slice_stop stp
  else Err E_Type.

Definition opt_eqb (a b : option Z) : bool :=
  match a, b with Some x, Some y => x =? y | _, _ => false end.

(** [__getitem__(slice(a, b, c))] *)
Definition getitem_slice (fl : flavour) (v : view) (a b c : option Z) : res view :=
  match a, b, c with
  | None, None, None => copy_view fl v
  | _, _, _ =>
      if vlen v =? 0 then Ok v else
      if opt_eqb a b then zero_slice fl v else
      let slice_step := match c with None => 1 | Some x => x end in
      if slice_step >? 0 then get_slice fl v a b slice_step
      else if slice_step <? 0 then get_reverse_slice fl v a b slice_step
      else Err E_Value
  end.

(** [absolute_position(rel_index, include_boundary)] *)
Definition absolute_position (v : view) (rel_index : Z) (include_boundary : bool) : res Z :=
  if vlen v =? 0 then Ok 0 else
  if rel_index <? 0 then Err E_Index else
  bind (get_index v rel_index include_boundary) (fun '(seq_index, _, _) =>
    Ok (if is_reversed v then offset v + seq_len v + seq_index + 1 else offset v + seq_index)).

(** [relative_position(abs_index, stop)] *)
Definition relative_position (v : view) (abs_index : Z) (stop_flag : bool) : res Z :=
  if vlen v =? 0 then Ok 0 else
  if abs_index <? 0 then Err E_Index else
  if is_reversed v then
    let tmp := seq_len v - abs_index + offset v + start v + 1 in
    Ok (if (tmp mod step v =? 0) || stop_flag then tmp / Z.abs (step v) else tmp / Z.abs (step v) + 1)
  else
    let tmp := abs_index - (offset v + start v) in
    Ok (if (tmp mod step v =? 0) || stop_flag then tmp / step v else tmp / step v + 1).

(** [SeqView.value] / [str_value]: [self.seq[self.start : self.stop : self.step]] *)
Definition value {A} (v : view) (p : list A) : list A :=
  py_slice p (Some (start v)) (Some (stop v)) (step v).

(** [SeqDataView.str_value]: [raw = data[parent_start:parent_stop]; raw if step == 1 else raw[::step]] *)
Definition sdv_value {A} (v : view) (p : list A) : list A :=
  let raw := py_slice p (Some (parent_start v)) (Some (parent_stop v)) 1 in
  if step v =? 1 then raw else py_slice raw None None (step v).

Definition value_of {A} (fl : flavour) (v : view) (p : list A) : list A :=
  match fl with FSeqView => value v p | FSeqDataView => sdv_value v p end.

(** the plus-strand segment kept by [to_rich_dict]: [self.seq[start:stop]] with
    (start, stop) the plus-strand bounds without offset *)
Definition rich_bounds (v : view) : Z * Z :=
  if is_reversed v then (stop v + (seq_len v + 1), start v + (seq_len v + 1))
  else (start v, stop v).

Definition rich_seq {A} (v : view) (p : list A) : list A :=
  let '(s, e) := rich_bounds v in py_slice p (Some s) (Some e) 1.

(** [copy(sliced=True)] = [from_rich_dict(to_rich_dict())]: a view with the
    same step over the truncated parent.  Old-style drops the offset
    ([keep_offset = false]), new-style [SeqView.copy] passes it on. *)
Definition copy_sliced {A} (keep_offset : bool) (v : view) (p : list A) : res view * list A :=
  let seg := rich_seq v p in
  (mk_view (zlen seg) None None (Some (step v)) (if keep_offset then offset v else 0), seg).

(** * Part 2 - sequences over views *)

Inductive kind := KDna | KRna | KOther.

(** which Sequence implementation: [core.sequence] or [core.new_sequence] as
    they are on the pinned tree, or [Fixed]: both after the two repairs proposed
    in notes/proposed_fixes (old-style [to_moltype] converts [str(self)] instead
    of [self._seq.value]; new-style [SeqView.copy(sliced=True)] drops the offset
    like the old-style one, so that [Sequence.copy] can hand it on).  The
    correspondence check accepts an implementation that follows either its
    pinned variant or [Fixed]; the plain-string oracle decides what is a
    violation. *)
Inductive impl := OldStyle | NewStyle | Fixed.

(** IUPAC complement on code points, as [moltype.complement] does it for the
    upper-case alphabet; every other character is left unchanged.  The table
    is compared with both moltype implementations by the correspondence check. *)
Definition comp_common (c : Z) : Z :=
  if c =? 67 then 71        (* C -> G *)
  else if c =? 71 then 67   (* G -> C *)
  else if c =? 82 then 89   (* R -> Y *)
  else if c =? 89 then 82   (* Y -> R *)
  else if c =? 77 then 75   (* M -> K *)
  else if c =? 75 then 77   (* K -> M *)
  else if c =? 66 then 86   (* B -> V *)
  else if c =? 86 then 66   (* V -> B *)
  else if c =? 68 then 72   (* D -> H *)
  else if c =? 72 then 68   (* H -> D *)
  else c.                   (* S W N - ? and everything else *)

Definition comp (k : kind) (c : Z) : Z :=
  match k with
  | KDna => if c =? 65 then 84 else if c =? 84 then 65 else comp_common c     (* A <-> T *)
  | KRna => if c =? 65 then 85 else if c =? 85 then 65 else comp_common c     (* A <-> U *)
  | KOther => c              (* complement raises TypeError, suppressed by __str__ *)
  end.

Definition t2u (c : Z) : Z := if c =? 84 then 85 else c.
Definition u2t (c : Z) : Z := if c =? 85 then 84 else c.

Record pseq := mkS { sv : view; parent : list Z; skind : kind; has_id : bool }.

(** [__str__]: the view's string, complemented when the view is reversed *)
Definition realise (s : pseq) : list Z :=
  let raw := value (sv s) (parent s) in
  if is_reversed (sv s) then map (comp (skind s)) raw else raw.

Inductive op :=
| Slice (a b c : option Z)
| Index (i : Z)
| Rc
| ToRna
| ToDna
| CopySliced.

Definition with_view (s : pseq) (keeps_id : view -> bool) (r : res view) : res pseq :=
  match r with
  | Ok v' => Ok (mkS v' (parent s) (skind s) (has_id s && keeps_id v'))
  | Err e => Err e
  end.

(** the [SeqView] zero slice is a view of the empty string without seqid; it
    is the only way [seq_len] changes *)
Definition same_parent (v v' : view) : bool := seq_len v' =? seq_len v.

Definition fresh (k : kind) (p : list Z) : res pseq :=
  with_view (mkS (mkV 0 0 1 0 0) p k false) (fun _ => false) (mk_view (zlen p) None None None 0).

(** [to_moltype]: old-style converts [self._seq.value] (the raw view string),
    new-style converts [array(self)] (complemented when reversed); both wrap
    the result in a fresh view (no seqid, no offset). *)
Definition to_moltype (i : impl) (s : pseq) (target : kind) : res pseq :=
  match skind s, target with
  | KDna, KDna | KRna, KRna => Ok s                       (* moltype is self.moltype: return self *)
  | KOther, _ | _, KOther => Err E_Type
  | _, _ =>
      let src := match i with
                 | OldStyle => value (sv s) (parent s)
                 | NewStyle | Fixed => realise s
                 end in
      fresh target (map (match target with KRna => t2u | _ => u2t end) src)
  end.

Definition apply_op (i : impl) (s : pseq) (o : op) : res pseq :=
  match o with
  | Slice a b c => with_view s (same_parent (sv s)) (getitem_slice FSeqView (sv s) a b c)
  | Index n => with_view s (same_parent (sv s)) (getitem_int (sv s) n)
  | Rc => match skind s with
          | KOther => Err E_Type
          | _ => with_view s (same_parent (sv s)) (getitem_slice FSeqView (sv s) None None (Some (-1)))
          end
  | ToRna => to_moltype i s KRna
  | ToDna => to_moltype i s KDna
  | CopySliced =>
      (* Sequence.copy(sliced=True): the view is re-based on the kept segment
         and the constructor is given annotation_offset = parent_start *)
      let '(r, seg) := copy_sliced (match i with NewStyle => true | OldStyle | Fixed => false end) (sv s) (parent s) in
      match r with
      | Err e => Err e
      | Ok v' =>
          let ao := parent_start (sv s) in
          if negb (ao =? 0) && negb (offset v' =? 0) then Err E_Value   (* "cannot set offset on a SeqView with an offset" *)
          else Ok (mkS (if ao =? 0 then v' else mkV (start v') (stop v') (step v') (seq_len v') ao)
                       seg (skind s) (has_id s))
      end
  end.

(** a failing operation leaves the sequence as it was (the harness observes
    the exception and carries on with the previous object) *)
Definition apply_keep (i : impl) (s : pseq) (o : op) : pseq :=
  match apply_op i s o with Ok s' => s' | Err _ => s end.

Definition run_ops (i : impl) (s : pseq) (ops : list op) : pseq := fold_left (apply_keep i) ops s.

(** [parent_coordinates()] without the seqid: (start, stop, strand) *)
Definition parent_coords (s : pseq) : Z * Z * Z :=
  (parent_start (sv s), parent_stop (sv s), if is_reversed (sv s) then -1 else 1).

(** initial sequence [make_seq(p, name, moltype, annotation_offset=off)] *)
Definition init_seq (k : kind) (p : list Z) (off : Z) : res pseq :=
  with_view (mkS (mkV 0 0 1 0 0) p k true) (fun _ => true) (mk_view (zlen p) None None None off).
