(** C17 — model of cogent3.core.annotation_db (SqliteAnnotationDbMixin and the
    three concrete classes), transcribed from src/cogent3/core/annotation_db.py.

    A database is the list of its rows in insertion order, each tagged with the
    table it lives in.  A query is the WHERE clause [_matching_conditions]
    builds, evaluated on every row with sqlite's semantics ([=] on TEXT is
    case-sensitive, [LIKE] is ASCII-case-insensitive with [%] and [_]
    wildcards, a NULL column never satisfies a comparison).  The coordinate
    window clauses are *section variables*: Properties/C17.v instantiates them
    with the functions the translator regenerates from the SQL text the
    current source emits (gen/OverlapGen.v). *)
From CG3 Require Import Lib.PyZ Lib.Val.

Definition str := list Z.

Fixpoint str_eqb (a b : str) : bool :=
  match a, b with
  | [], [] => true
  | x :: a', y :: b' => (x =? y) && str_eqb a' b'
  | _, _ => false
  end.

Definition lower (c : Z) : Z := if (65 <=? c) && (c <=? 90) then c + 32 else c.
Definition chr_eq_ci (a b : Z) : bool := lower a =? lower b.

(** sqlite LIKE without ESCAPE: [%] = 37 any run, [_] = 95 any one char *)
Fixpoint like (p s : str) : bool :=
  match p with
  | [] => match s with [] => true | _ => false end
  | c :: p' =>
      if c =? 37 then
        (fix any (s : str) : bool :=
           like p' s || match s with [] => false | _ :: s' => any s' end) s
      else
        match s with
        | [] => false
        | x :: s' => ((c =? 95) || chr_eq_ci c x) && like p' s'
        end
  end.

Definition has_pct (s : str) : bool := existsb (fun c => c =? 37) s.

(** [str1 in str2] for "%%" *)
Fixpoint has_pctpct (s : str) : bool :=
  match s with
  | a :: ((b :: _) as t) => ((a =? 37) && (b =? 37)) || has_pctpct t
  | _ => false
  end.

(** tables: 0 = the class' own table (gff / gb), 1 = user *)
Record row := {
  r_table : Z;
  r_seqid : option str;
  r_biotype : option str;
  r_name : option str;
  r_strand : option str;
  r_attrs : option str;
  r_on_aln : option bool;      (* user table only *)
  r_spans : list (Z * Z);
  r_start : Z;
  r_stop : Z }.

(** a query value for seqid / biotype / name: absent, one string ([=] or [LIKE]),
    or a list / tuple / set of strings ([col IN (?, ...)]: exact, case-sensitive
    equality with one of them; the empty collection selects nothing) *)
Inductive qval := QAny | QOne (s : str) | QIn (l : list str).

Record query := {
  q_biotype : qval;
  q_seqid : qval;
  q_name : qval;
  q_strand : option str;
  q_attrs : option str;
  q_attrs_lit : bool;          (* which rule the source follows for % and _ inside the attributes text, see attrs_cond *)
  q_on_aln : option bool;
  q_start : option Z;
  q_stop : option Z;
  q_partial : bool }.

(** one string condition: skipped when the query value is None; [LIKE] iff the
    value contains [%], else [=]; NULL column never matches *)
Definition str_cond (qv : option str) (col : option str) : bool :=
  match qv with
  | None => true
  | Some v =>
      match col with
      | None => false
      | Some c => if has_pct v then like v c else str_eqb v c
      end
  end.

(** [_matching_conditions]: [isinstance(val, (tuple, set, list))] -> IN, else as [str_cond] *)
Definition val_cond (qv : qval) (col : option str) : bool :=
  match qv with
  | QAny => true
  | QOne v => str_cond (Some v) col
  | QIn l => match col with None => false | Some c => existsb (fun v => str_eqb v c) l end
  end.

(** [_get_records_matching]: attributes is wrapped in %…% unless it contains "%%" *)
Definition attrs_pattern (a : str) : str :=
  if has_pctpct a then a else 37 :: a ++ [37].

(** [t] occurs in [s], ASCII letters compared without case (LIKE '%t%' with every character of t literal) *)
Fixpoint prefix_ci (t s : str) : bool :=
  match t, s with
  | [], _ => true
  | a :: t', b :: s' => chr_eq_ci a b && prefix_ci t' s'
  | _ :: _, [] => false
  end.
Fixpoint contains_ci (t s : str) : bool :=
  prefix_ci t s || match s with [] => false | _ :: s' => contains_ci t s' end.

(** python truthiness of the attributes argument: None and "" are skipped.
    [lit = false]: the text is wrapped in %...% and used as a LIKE pattern, so a
    % or _ inside it is a wildcard (the source as first read, finding C17-6);
    [lit = true]: the wildcards of the text are escaped (notes/proposed_fixes/C17-6.diff),
    the text must occur in the column.  "%%" marks a caller's own pattern in both. *)
Definition attrs_cond_v (lit : bool) (qv : option str) (col : option str) : bool :=
  match qv with
  | None => true
  | Some [] => str_cond (Some []) col
  | Some a =>
      if lit && negb (has_pctpct a)
      then match col with None => false | Some c => contains_ci a c end
      else str_cond (Some (attrs_pattern a)) col
  end.
Definition attrs_cond (qv : option str) (col : option str) : bool := attrs_cond_v false qv col.

Definition bool_cond (qv : option bool) (col : option bool) : bool :=
  match qv with
  | None => true
  | Some v => match col with None => false | Some c => Bool.eqb v c end
  end.

Section Window.
  (** the four coordinate clauses, as functions of feature start/stop and the window *)
  Variable w_partial w_within : Z -> Z -> Z -> Z -> bool.
  Variable w_start w_stop : Z -> Z -> Z -> bool.

  Definition window (q : query) (r : row) : bool :=
    match q_start q, q_stop q with
    | Some qs, Some qe =>
        if q_partial q then w_partial (r_start r) (r_stop r) qs qe
        else w_within (r_start r) (r_stop r) qs qe
    | Some qs, None => w_start (r_start r) (r_stop r) qs
    | None, Some qe => w_stop (r_start r) (r_stop r) qe
    | None, None => true
    end.

  (** does row [r] of table [t] satisfy the WHERE clause for query [q]?
      ([on_alignment] is only a column of the user table; it is dropped from
      the conditions for the others) *)
  Definition row_match (q : query) (r : row) : bool :=
    val_cond (q_biotype q) (r_biotype r)
    && val_cond (q_seqid q) (r_seqid r)
    && val_cond (q_name q) (r_name r)
    && str_cond (q_strand q) (r_strand r)
    && attrs_cond_v (q_attrs_lit q) (q_attrs q) (r_attrs r)
    && (if r_table r =? 1 then bool_cond (q_on_aln q) (r_on_aln r) else true)
    && window q r.

  (** [table_names = ["user"] if on_alignment else self.table_names] *)
  Definition tables_for (q : query) (tables : list Z) : list Z :=
    match q_on_aln q with Some true => [1] | _ => tables end.

  Definition rows_of (t : Z) (db : list row) : list row :=
    filter (fun r => r_table r =? t) db.

  (** get_features_matching / get_records_matching: tables in order, rows in
      insertion order *)
  Definition query_db (tables : list Z) (db : list row) (q : query) : list row :=
    flat_map (fun t => filter (row_match q) (rows_of t db)) (tables_for q tables).

  Definition count_db (tables : list Z) (db : list row) (q : query) : Z :=
    zlen (flat_map (fun t => filter (row_match q) (rows_of t db)) tables).
End Window.

(** ---------- add_feature: span normalisation ---------- *)

Definition norm_span (p : Z * Z) : Z * Z := (Z.min (fst p) (snd p), Z.max (fst p) (snd p)).

Definition span_leb (a b : Z * Z) : bool :=
  (fst a <? fst b) || ((fst a =? fst b) && (snd a <=? snd b)).

Fixpoint insert_span (x : Z * Z) (l : list (Z * Z)) : list (Z * Z) :=
  match l with
  | [] => [x]
  | y :: t => if span_leb x y then x :: l else y :: insert_span x t
  end.

Definition sort_spans (l : list (Z * Z)) : list (Z * Z) := fold_right insert_span [] l.

(** [sorted(sorted(coords) for coords in spans)] *)
Definition norm_spans (l : list (Z * Z)) : list (Z * Z) := sort_spans (map norm_span l).

Definition coords (l : list (Z * Z)) : list Z := flat_map (fun p => [fst p; snd p]) l.

Definition zmin_list (d : Z) (l : list Z) : Z := fold_right Z.min d l.
Definition zmax_list (d : Z) (l : list Z) : Z := fold_right Z.max d l.

Definition spans_min (l : list (Z * Z)) : Z :=
  match coords l with [] => 0 | x :: t => zmin_list x t end.
Definition spans_max (l : list (Z * Z)) : Z :=
  match coords l with [] => 0 | x :: t => zmax_list x t end.

Definition add_feature (seqid biotype name : str) (strand : option str) (attrs : option str)
    (on_aln : option bool) (spans : list (Z * Z)) : row :=
  let s := norm_spans spans in
  {| r_table := 1; r_seqid := Some seqid; r_biotype := Some biotype; r_name := Some name;
     r_strand := strand; r_attrs := attrs; r_on_aln := on_aln;
     r_spans := s; r_start := spans_min s; r_stop := spans_max s |}.

(** ---------- GFF: 1-based closed -> 0-based half-open ([_gff_parser]) ---------- *)
Definition gff_coord (s e : Z) : Z * Z :=
  let s1 := s - 1 in
  let '(a, b) := if (s1 <? 0) || (e <? 0) then (Z.abs s1, Z.abs e) else (s1, e) in
  if a >? b then (b, a) else (a, b).

(** GffAnnotationDb.add_records: rows sorted, each span ordered, start/stop = min/max *)
Definition gff_row (seqid biotype name : str) (strand : option str) (attrs : option str)
    (lines : list (Z * Z)) : row :=
  let s := norm_spans (map (fun p => gff_coord (fst p) (snd p)) lines) in
  {| r_table := 0; r_seqid := Some seqid; r_biotype := Some biotype; r_name := Some name;
     r_strand := strand; r_attrs := attrs; r_on_aln := None;
     r_spans := s; r_start := spans_min s; r_stop := spans_max s |}.

(** ---------- GenBank: location expression -> spans, strand ---------- *)
(** [parse_location_line] + [Location.start/stop] + [LocationList.get_coordinates/strand]:
    a segment [a..b] (the [<]/[>] markers are dropped by [parse_simple_location_segment])
    or a single base [a]; [join(...)] splices its children, [complement(...)]
    reverses them and flips their strand *)
Inductive loc :=
| LSeg (a b : Z)
| LPoint (a : Z)
| LJoin (l : list loc)
| LCompl (l : list loc).

(** (start, last base, strand), 0-based, last base inclusive as [Location.stop] *)
Fixpoint loc_flat (x : loc) : list (Z * Z * Z) :=
  match x with
  | LSeg a b => [(a - 1, b - 1, 1)]
  | LPoint a => [(a - 1, a - 1, 1)]
  | LJoin l => (fix go (l : list loc) := match l with [] => [] | y :: t => loc_flat y ++ go t end) l
  | LCompl l =>
      map (fun p => (fst (fst p), snd (fst p), - snd p))
          (rev ((fix go (l : list loc) := match l with [] => [] | y :: t => loc_flat y ++ go t end) l))
  end.

(** [get_coordinates]: sorted (start, stop + 1) *)
Definition loc_spans (x : loc) : list (Z * Z) :=
  sort_spans (map (fun p => (fst (fst p), snd (fst p) + 1)) (loc_flat x)).

(** [LocationList.strand] then [add_records]: 1 -> "+", -1 -> "-", both (0) -> column left NULL *)
Definition loc_strand (x : loc) : option str :=
  match map snd (loc_flat x) with
  | [] => None
  | s :: t => if forallb (fun y => y =? s) t then (if s =? -1 then Some [45] else Some [43]) else None
  end.

(** GenbankAnnotationDb.add_records *)
Definition gb_row (seqid biotype name : str) (x : loc) : row :=
  let s := loc_spans x in
  {| r_table := 0; r_seqid := Some seqid; r_biotype := Some biotype; r_name := Some name;
     r_strand := loc_strand x; r_attrs := None; r_on_aln := None;
     r_spans := s; r_start := spans_min s; r_stop := spans_max s |}.

(** ---------- history operations on whole databases ---------- *)
(** [_update_db_from_other_db]: every table of [other] is appended to the same table of self *)
Definition db_update (self other : list row) : list row := self ++ other.
Definition db_union (a b : list row) : list row := db_update (db_update [] a) b.

(** the same, table by table as the loop [for tname in other_db.table_names] does it:
    [otables] are the tables of the class of [other] *)
Definition db_update_tw (otables : list Z) (self other : list row) : list row :=
  self ++ flat_map (fun t => rows_of t other) otables.
(** [union]: a new instance of the class with the larger table set, updated from self, then from other *)
Definition db_union_tw (stables otables : list Z) (a b : list row) : list row :=
  db_update_tw otables (db_update_tw stables [] a) b.

(** [to_rich_dict]: for each table (in [table_names] order) the list of its records;
    [from_dict] / [_update_db_from_rich_dict] insert them back table by table *)
Definition to_rich (tables : list Z) (db : list row) : list (Z * list row) :=
  map (fun t => (t, rows_of t db)) tables.
Definition from_rich (d : list (Z * list row)) : list row := flat_map snd d.

(** ---------- count_distinct ---------- *)
(** each of seqid / biotype / name is False (ignored), True (a GROUP BY column)
    or a string (a WHERE constraint, [=] or [LIKE] as in [_matching_conditions]) *)
Inductive cdarg := CDoff | CDcol | CDval (s : str).

Definition cd_constraint (a : cdarg) : option str := match a with CDval s => Some s | _ => None end.
Definition cd_proj (a : cdarg) (v : option str) : option (option str) :=
  match a with CDcol => Some v | _ => None end.
Definition is_col (a : cdarg) : bool := match a with CDcol => true | _ => false end.

Definition key := (option (option str) * option (option str) * option (option str))%type.

Definition ostr_eqb (a b : option str) : bool :=
  match a, b with
  | None, None => true
  | Some x, Some y => str_eqb x y
  | _, _ => false
  end.
Definition oostr_eqb (a b : option (option str)) : bool :=
  match a, b with
  | None, None => true
  | Some x, Some y => ostr_eqb x y
  | _, _ => false
  end.
Definition key_eqb (a b : key) : bool :=
  oostr_eqb (fst (fst a)) (fst (fst b)) && oostr_eqb (snd (fst a)) (snd (fst b)) && oostr_eqb (snd a) (snd b).

Definition cd_key (sa ba na : cdarg) (r : row) : key :=
  (cd_proj sa (r_seqid r), cd_proj ba (r_biotype r), cd_proj na (r_name r)).

Definition cd_match (sa ba na : cdarg) (r : row) : bool :=
  str_cond (cd_constraint sa) (r_seqid r)
  && str_cond (cd_constraint ba) (r_biotype r)
  && str_cond (cd_constraint na) (r_name r).

(** GROUP BY ... COUNT( * ): NULLs form one group *)
Fixpoint bump (k : key) (acc : list (key * Z)) : list (key * Z) :=
  match acc with
  | [] => [(k, 1)]
  | (k', n) :: t => if key_eqb k k' then (k', n + 1) :: t else (k', n) :: bump k t
  end.
Definition group_count (ks : list key) : list (key * Z) := fold_left (fun acc k => bump k acc) ks [].

(** one block of result rows per table, not merged across tables; None when no column is True *)
Definition count_distinct (tables : list Z) (db : list row) (sa ba na : cdarg) : option (list (key * Z)) :=
  if is_col sa || is_col ba || is_col na then
    Some (flat_map (fun t => group_count (map (cd_key sa ba na) (filter (cd_match sa ba na) (rows_of t db)))) tables)
  else None.

(** ---------- observation ---------- *)
Definition vostr (o : option str) : val := match o with Some s => VS s | None => VN end.
Definition vobool (o : option bool) : val := match o with Some b => VB b | None => VN end.
Definition row_val (r : row) : val :=
  VL [VZ (r_table r); vostr (r_seqid r); vostr (r_biotype r); vostr (r_name r); vostr (r_strand r);
      vobool (r_on_aln r); VL (map vpairZ (r_spans r)); VZ (r_start r); VZ (r_stop r)].
