(** C06 — runner used by the correspondence check: one [case] in, one [val] out. *)
From CG3 Require Import Lib.PyZ Lib.Val Lib.Chars Model.Formats.

Inductive case :=
| CFastaWrite (recs : list (str * list str))     (* seqs_to_fasta with the given textwrap lines *)
| CFastaWriteW (w : Z) (recs : list rec)         (* seqs_to_fasta(block_size=w), fixed-width lines *)
| CPhylipWrite (w : Z) (recs : list rec)
| CPamlWrite (w : Z) (recs : list rec)
| CGdeWrite (w : Z) (recs : list rec)
| CPhylipILWrite (w : Z) (recs : list rec)       (* the interleaved PHYLIP rendering (model only; input for the parsers) *)
| CParse (which : Z) (text : str)                (* 0 fasta strict | 1 fasta non-strict | 2 fasta bytes |
                                                    3 gde strict | 4 gde non-strict | 5 phylip | 6 paml |
                                                    7 fasta bytes, source variant "split on newline+'>'" *)
| CSplit (text : str)                            (* text.splitlines() *)
| CIter (n : Z) (text : str)                     (* iter_splitlines(path, chunk_size=n) *)
| CStream (which : Z) (n : Z) (text : str)        (* parser(iter_splitlines(path, chunk_size=n)) for the line-based parsers *)
| CGb (which : Z) (text : str)                   (* GenBank: 0 MinimalGenbankParser(text.splitlines()) | 1 minimal_parser(bytes), pinned |
                                                    2 minimal_parser(bytes), source variant that strips records *)
| CGbStream (n : Z) (text : str)                 (* MinimalGenbankParser(iter_splitlines(path, chunk_size=n)) *)
| CSuffixes (name : str)                         (* get_format_suffixes(name) *)
| CRound (fmt : Z) (w : Z) (recs : list rec).    (* parser_of_loader(writer(recs)) : 0 fasta | 1 phylip | 2 paml | 3 gde |
                                                    4 fasta with the bytes parser variant 7 *)

Definition vrec (r : rec) : val := VL [VS (fst r); VS (snd r)].
Definition vrecs (l : list rec) : val := VL (map vrec l).
Definition vpres (p : pres) : val := match p with POk l => vrecs l | PErr c => VE c end.

(** the line-based parsers on a list of lines (None for the bytes parsers) *)
Definition parse_lines (which : Z) (lines : list str) : option val :=
  if which =? 0 then Some (vpres (minimal_parser true fasta_lc lines))
  else if which =? 1 then Some (vpres (minimal_parser false fasta_lc lines))
  else if which =? 3 then Some (vpres (minimal_parser true gde_lc lines))
  else if which =? 4 then Some (vpres (minimal_parser false gde_lc lines))
  else if which =? 5 then Some (match phylip_parser lines with Some p => vpres p | None => VN end)
  else if which =? 6 then Some (vpres (paml_parser lines))
  else None.

Definition parse_text (which : Z) (text : str) : val :=
  if which =? 2 then vrecs (bytes_parser text)
  else if which =? 7 then vrecs (bytes_parser_fixed text)
  else if which =? 9 then vrecs (bytes_parser_fixed_cr text)          (* bytes parser, variants C06-1 + C06-8b *)
  else match parse_lines which (py_splitlines text) with Some v => v | None => VN end.

Definition vopt (o : option str) : val := match o with Some s => VS s | None => VN end.
Definition vgb (r : gb_res) : val :=
  match r with
  | GRecs l => VL (map (fun p => VL [vopt (fst p); vopt (snd p)]) l)
  | GErr c => VE c
  | GUnsup => VN
  end.

Definition run_case (c : case) : val :=
  match c with
  | CFastaWrite recs => VS (fasta_write recs)
  | CFastaWriteW w recs => if w <=? 0 then VE 2 else VS (fasta_write_w (Z.to_nat w) recs)
  | CPhylipWrite w recs => if w <=? 0 then VE 2 else VS (phylip_write (Z.to_nat w) recs)
  | CPamlWrite w recs => if w <=? 0 then VE 2 else VS (paml_write (Z.to_nat w) recs)
  | CGdeWrite w recs => if w <=? 0 then VE 2 else VS (gde_write (Z.to_nat w) recs)
  | CPhylipILWrite w recs => if w <=? 0 then VE 2 else VS (phylip_interleaved_write (Z.to_nat w) recs)
  | CParse which text => parse_text which text
  | CSplit text => VL (map VS (py_splitlines text))
  | CIter n text => if n <=? 0 then VE 2 else VL (map VS (iter_splitlines (chunks_of (Z.to_nat n) text)))
  | CStream which n text =>
      if n <=? 0 then VE 2
      else match parse_lines which (iter_splitlines (chunks_of (Z.to_nat n) text)) with Some v => v | None => VN end
  | CGb which text =>
      if which =? 0 then vgb (gb_lines_parser (py_splitlines text))
      else vgb (gb_bytes_parser (which =? 2) text)
  | CGbStream n text =>
      if n <=? 0 then VE 2 else vgb (gb_lines_parser (iter_splitlines (chunks_of (Z.to_nat n) text)))
  | CSuffixes name => let p := get_format_suffixes name in VL [vopt (fst p); vopt (snd p)]
  | CRound fmt w recs =>
      if w <=? 0 then VE 2 else
      let wn := Z.to_nat w in
      if fmt =? 0 then parse_text 2 (fasta_write_w wn recs)
      else if fmt =? 4 then parse_text 7 (fasta_write_w wn recs)
      else if fmt =? 5 then parse_text 9 (fasta_write_w wn recs)
      else if fmt =? 1 then parse_text 5 (phylip_write wn recs)
      else if fmt =? 2 then parse_text 6 (paml_write wn recs)
      else parse_text 3 (gde_write wn recs)
  end.
