(** C02 / C11 — executable model of the likelihood calculation, parametric in a
    record of semiring operations (instantiated with native floats or exact
    numbers in [LikRun.v]; the theorems in [Proofs/LikProofs.v] assume the
    commutative-semiring laws).  No proofs in this file.

    Transcribed from
      evolve/likelihood_tree.py        [_indexed], [get_matched_array],
                                       [make_likelihood_tree_leaf], [LikelihoodTreeEdge]
      evolve/likelihood_tree_numba.py  [sum_input_likelihoods], [inner_product],
                                       [get_log_sum_across_sites]
      evolve/likelihood_calculation.py [make_partial_likelihood_defns]
                                       (child term = [numpy.inner(child_plh, psub)]),
                                       [make_total_loglikelihood_defn], [BinnedSiteDistribution]
      core/moltype.py                  [resolve_ambiguity]
      core/alignment.py                [get_gapped_seq(recode_gaps=True)]
      core/sequence.py                 [get_in_motif_size]

    Simplification, stated: the code compresses columns node by node (unique
    tuples of the children's unique indices); because leaf index <-> motif is a
    bijection this yields, at the root, the same [counts]/[index] as
    compressing whole alignment columns, which is what [indexed] is applied to
    here; the per-node arrays are a memoisation of the per-column recursion
    [partial].  The correspondence check compares the root [index]/[counts]
    and every per-column likelihood with the implementation. *)
From CG3 Require Import Lib.PyZ Lib.Semiring Lib.LikTree.

Set Implicit Arguments.

(* ------------------------------------------------------------------ symbols, motifs *)

Definition motif := list Z.          (* a word of [motif_length] characters (code points) *)

Fixpoint zmem (c : Z) (l : list Z) : bool :=
  match l with [] => false | x :: l' => (x =? c) || zmem c l' end.

Fixpoint motif_eqb (a b : motif) : bool :=
  match a, b with
  | [], [] => true
  | x :: a', y :: b' => (x =? y) && motif_eqb a' b'
  | _, _ => false
  end.

(** [alignment.get_gapped_seq(name, recode_gaps=True)]: every gap character is
    replaced by the symbol that stands for "any canonical state" *)
Definition recode_gaps (gaps : list Z) (ambig : Z) (s : list Z) : list Z :=
  map (fun c => if zmem c gaps then ambig else c) s.

(** [Sequence.get_in_motif_size]: non-overlapping words, incomplete tail dropped *)
Definition in_motif_size (k : nat) (s : list Z) : list motif :=
  map (fun i => firstn k (skipn (i * k) s)) (seq 0 (length s / k)).

(** ambiguity table: character -> the canonical characters it stands for *)
Definition amb_table := list (Z * list Z).

Fixpoint amb_lookup (amb : amb_table) (c : Z) : option (list Z) :=
  match amb with
  | [] => None
  | (k, v) :: amb' => if k =? c then Some v else amb_lookup amb' c
  end.

(** every character of [m] has an entry ([ambiguities[c] for c in ambig_motif]
    raising KeyError otherwise) *)
Definition all_known (amb : amb_table) (m : motif) : bool :=
  forallb (fun c => match amb_lookup amb c with Some _ => true | None => false end) m.

(** is the alphabet word [w] an element of the cartesian product [itertools.product] of the resolved sets ? *)
Fixpoint in_product (amb : amb_table) (m w : motif) : bool :=
  match m, w with
  | [], [] => true
  | c :: m', x :: w' =>
      match amb_lookup amb c with
      | Some set => zmem x set && in_product amb m' w'
      | None => false
      end
  | _, _ => false
  end.

(** [MolType.resolve_ambiguity(m, alphabet)] as a membership vector over the
    alphabet; [None] = [AlphabetError] *)
Definition resolve (amb : amb_table) (alphabet : list motif) (m : motif) : option (list bool) :=
  if existsb (motif_eqb m) alphabet then Some (map (fun w => motif_eqb w m) alphabet)
  else if negb (all_known amb m) then None
  else
    let row := map (in_product amb m) alphabet in
    if existsb (fun b => b) row then Some row else None.

(* ------------------------------------------------------------------ column compression *)

Section Indexed.
  Variable A : Type.
  Variable eqb : A -> A -> bool.

  Fixpoint find_idx (x : A) (l : list A) (i : nat) : option nat :=
    match l with
    | [] => None
    | y :: l' => if eqb y x then Some i else find_idx x l' (S i)
    end.

  Fixpoint incr_nth (l : list nat) (i : nat) : list nat :=
    match l, i with
    | [], _ => []
    | c :: l', O => S c :: l'
    | c :: l', S i' => c :: incr_nth l' i'
    end.

  (** one iteration of the loop of [_indexed]; state = (unique, counts, index) *)
  Definition indexed_step (st : list A * list nat * list nat) (key : A) : list A * list nat * list nat :=
    let '(unique, counts, index) := st in
    match find_idx key unique 0 with
    | Some i => (unique, incr_nth counts i, index ++ [i])
    | None => (unique ++ [key], counts ++ [1%nat], index ++ [length unique])
    end.

  (** [_indexed(values)] = (unique values in first-occurrence order, their
      counts, for every position the index of its value) *)
  Definition indexed (values : list A) : list A * list nat * list nat :=
    fold_left indexed_step values ([], [], []).
End Indexed.

(* ------------------------------------------------------------------ alignment columns *)

(** dictionary lookup with default (the leaves are held in a dict keyed by
    sequence name: [leaves[edge.name]]) *)
Fixpoint lookup (A : Type) (d : A) (k : Z) (al : list (Z * A)) : A :=
  match al with
  | [] => d
  | (k', v) :: al' => if k' =? k then v else lookup d k al'
  end.

(** an alignment column: sequence name -> motif, in the alignment's row order *)
Definition column := list (Z * motif).

Fixpoint column_eqb (a b : column) : bool :=
  match a, b with
  | [], [] => true
  | (k, m) :: a', (k', m') :: b' => (k =? k') && motif_eqb m m' && column_eqb a' b'
  | _, _ => false
  end.

Definition aln_column (aln : list (Z * list motif)) (p : nat) : column :=
  map (fun row => (fst row, nth p (snd row) [])) aln.

Definition aln_length (aln : list (Z * list motif)) : nat :=
  match aln with [] => O | row :: _ => length (snd row) end.

Definition aln_columns (aln : list (Z * list motif)) : list column :=
  map (aln_column aln) (seq 0 (aln_length aln)).

(** the extra all-missing column appended after the unique columns, count 0
    ([uniq_motifs.append("?" * motif_len)] at the leaves,
     [uniq.append(tuple(len(c.uniq) - 1 ...))] at the edges) *)
Definition gap_column (aln : list (Z * list motif)) (motif_len : nat) : column :=
  map (fun row => (fst row, repeat 63 motif_len)) aln.

(* ------------------------------------------------------------------ the numerical part *)

Notation vec R := (list R) (only parsing).
Notation mat R := (list (list R)) (only parsing).
Notation ptree R := (tree (list R) (list (list R))) (only parsing).

Section Lik.
  Variable R : Type.
  Variable o : sr_ops R.
  Local Notation add := (sr_add o).
  Local Notation mul := (sr_mul o).
  Local Notation zero := (sr_zero o).
  Local Notation one := (sr_one o).

  (** vectors are lists; matrices are lists of rows, [P[i][j]] = probability
      parent state i -> child state j *)
  Local Notation vec := (list R).
  Local Notation mat := (list (list R)).

  (** [numpy.inner] of two vectors / [inner_product] *)
  Definition inner (u v : vec) : R := big_sum o (fun p => mul (fst p) (snd p)) (combine u v).

  (** [numpy.inner(child_plh, psub)] for one column: entry [i] = Σ_j plh[j]·P[i][j] *)
  Definition child_term (P : mat) (plh : vec) : vec := map (fun row => inner plh row) P.

  (** [result[parent_col, motif] *= plhs[child_col, motif]] over the motifs *)
  Definition vmul (a b : vec) : vec := map (fun p => mul (fst p) (snd p)) (combine a b).

  Definition ones (n : nat) : vec := repeat one n.

  (** [sum_input_likelihoods]: the array starts as ones; the first child
      assigns, the remaining children multiply *)
  Definition prod_children (n : nat) (terms : list vec) : vec :=
    match terms with
    | [] => ones n
    | t :: ts => fold_left vmul ts t
    end.

  (** tree with the data bound: profile vectors at the leaves, the matrix of
      each edge next to the child it leads to *)
  Local Notation ptree := (tree (list R) (list (list R))).

  (** partial likelihoods of one column at a node ([make_partial_likelihood_defns]) *)
  Fixpoint partial (n : nat) (t : ptree) : vec :=
    match t with
    | Leaf p => p
    | Node ch => prod_children n (map (fun ec => child_term (fst ec) (partial n (snd ec))) ch)
    end.

  (** [lh = numpy.inner(plh_root, root_mprobs)] *)
  Definition col_lik (n : nat) (t : ptree) (pi : vec) : R := inner (partial n t) pi.

  (** [get_matched_array]: 0/1 row of a motif *)
  Definition indicator_row (bs : list bool) : vec := map (fun b : bool => if b then one else zero) bs.

  Definition profile (amb : amb_table) (alphabet : list motif) (m : motif) : vec :=
    match resolve amb alphabet m with
    | Some bs => indicator_row bs
    | None => []
    end.

  (** binding one column and the edge matrices into the (named) tree:
      leaf names key the column, child names key the matrices *)
  Definition bind (prof : motif -> vec) (psub : Z -> mat) (col : column) (t : tree Z Z) : ptree :=
    tmap (fun nm => prof (lookup [] nm col)) psub t.

  Definition lik_column (n : nat) (prof : motif -> vec) (psub : Z -> mat) (pi : vec)
             (t : tree Z Z) (col : column) : R :=
    col_lik n (bind prof psub col t) pi.

  (** [BinnedSiteDistribution.get_weighted_sum_lh] for one column:
      [result = 0; for bprob, lh: result += lh * bprob] *)
  Definition mixture (bprobs : vec) (lhs : vec) : R :=
    fold_left (fun acc bl => add acc (mul (snd bl) (fst bl))) (combine bprobs lhs) zero.

  (** likelihood of a column: one bin -> that bin's value, several -> mixture *)
  Definition site_lik (n : nat) (prof : motif -> vec) (psubs : list (Z -> mat)) (bprobs : vec) (pi : vec)
             (t : tree Z Z) (col : column) : R :=
    match psubs with
    | [psub] => lik_column n prof psub pi t col
    | _ => mixture bprobs (map (fun psub => lik_column n prof psub pi t col) psubs)
    end.

  (** [get_log_sum_across_sites]: Σ_u log(lh[u]) · counts[u]; the logarithm is
      an uninterpreted function into a commutative monoid, multiplication by
      a count is the n-fold sum *)
  Section Log.
    Variable Lg : Type.
    Variable lm : cm_ops Lg.
    Variable lg : R -> Lg.

    Definition log_sum (counts : list nat) (lhs : list R) : Lg :=
      big_op lm (fun cl => nscale lm (fst cl) (lg (snd cl))) (combine counts lhs).

    (** the whole calculation for a list of columns *)
    Definition total_log_lik (lik : column -> R) (gapcol : column) (cols : list column) : Lg :=
      let '(uniq, counts, _) := indexed column_eqb cols in
      log_sum (counts ++ [O]) (map lik (uniq ++ [gapcol])).
  End Log.
End Lik.
