(** C16 — nested-model initialisation, the name/coordinate level logic of
    cogent3.evolve.likelihood_function, transcribed:

      _get_param_mapping                      l.118-148
      _ParamProjection._rate_same             l.191-198
      _ParamProjection.update_param_rules     l.200-228   (same = True)
      _get_keyed_rule_indices                 l.31-41
      update_rule_value / extend_rule_value   l.44-64
      update_scoped_rules                     l.67-115

    Names (parameter names, edge names) are strings = [list Z]; a parameter's
    matrix coordinates are a duplicate-free list of cells; dictionaries are
    association lists in insertion order.  Parameter values are integers in
    the executable model (the correspondence uses integer valued rules; the
    theorems about products of values are stated over any commutative
    monoid).  No proofs in this file. *)
From CG3 Require Import Lib.PyZ Lib.Val.

Definition name := list Z.
Definition cell := (Z * Z)%type.
Definition coords := list (name * list cell).

Fixpoint name_eqb (a b : name) : bool :=
  match a, b with
  | [], [] => true
  | x :: a', y :: b' => (x =? y) && name_eqb a' b'
  | _, _ => false
  end.

Definition cell_eqb (a b : cell) : bool := (fst a =? fst b) && (snd a =? snd b).
Definition mem_cell (c : cell) (l : list cell) : bool := existsb (cell_eqb c) l.
Definition mem_name (n : name) (l : list name) : bool := existsb (name_eqb n) l.

(** set [a <= b] *)
Definition subset (a b : list cell) : bool := forallb (fun c => mem_cell c b) a.

(** "ref_cell", "mprobs", "length" *)
Definition ref_cell : name := [114;101;102;95;99;101;108;108].
Definition n_mprobs : name := [109;112;114;111;98;115].
Definition n_length : name := [108;101;110;103;116;104].

(** * _get_param_mapping *)

(** Two variants of the source are transcribed, selected by a flag that the
    harness sets from the behaviour of the implementation it is running
    against (anything else is reported as a disagreement):
      [exact_rule = false]  the pinned code;
      [exact_rule = true]   the code with the proposed fix C16-2 (a simple
         parameter that exists with identical coordinates in the rich model is
         inherited by that rich parameter only). *)
Definition cells_seteq (a b : list cell) : bool := subset a b && subset b a.

(** the simple parameters whose coordinates contain those of a rich parameter
    (rich_to_simple[rich_param], l.127-132) *)
Definition supersets (exact_rule : bool) (rich simple : coords) (rc : list cell) : coords :=
  filter (fun p => subset rc (snd p) &&
                   (negb exact_rule || negb (existsb (fun r => cells_seteq (snd r) (snd p)) rich)
                    || cells_seteq rc (snd p))) simple.

Inductive pick := PNone | PTie | PChosen (n : name).

Fixpoint min_size (l : coords) (m : Z) : Z :=
  match l with [] => m | p :: t => min_size t (Z.min m (zlen (snd p))) end.

(** l.134-146: a single counterpart is kept; otherwise the counterparts are
    sorted by (size, name) and the first wins unless the first two have the
    same size (ValueError "tied for matrix space"), i.e. unless two
    counterparts have the minimal size *)
Definition pick_simple (exact_rule : bool) (rich simple : coords) (rc : list cell) : pick :=
  match supersets exact_rule rich simple rc with
  | [] => PNone
  | [p] => PChosen (fst p)
  | p :: t =>
      let m := min_size t (zlen (snd p)) in
      match filter (fun q => zlen (snd q) =? m) (p :: t) with
      | [q] => PChosen (fst q)
      | _ => PTie
      end
  end.

Definition is_tie (p : pick) : bool := match p with PTie => true | _ => false end.
Definition chosen_is (s : name) (p : pick) : bool :=
  match p with PChosen n => name_eqb n s | _ => false end.

Inductive mres (A : Type) := MOk (a : A) | MErr (code : Z).
Arguments MOk {A} a.
Arguments MErr {A} code.

(** simple_to_rich as [(simple_param, [rich_param ...])], in the order of the
    simple dictionary; AssertionError (9) when rich has fewer parameters,
    ValueError (2) on a tie *)
(** the chosen simple parameter of every rich parameter (computed once) *)
Definition pick_table (exact_rule : bool) (rich simple : coords) : list ((name * list cell) * pick) :=
  map (fun r => (r, pick_simple exact_rule rich simple (snd r))) rich.

Definition param_mapping (exact_rule : bool) (rich simple : coords) : mres (list (name * list name)) :=
  if zlen rich <? zlen simple then MErr 9
  else
    let tbl := pick_table exact_rule rich simple in
    if existsb (fun rp => is_tie (snd rp)) tbl then MErr 2
    else MOk (map (fun s => (fst s, map (fun rp => fst (fst rp)) (filter (fun rp => chosen_is (fst s) (snd rp)) tbl)))
                  simple).

(** * _ParamProjection (same = True) *)

Record rule := mkrule { r_par : name; r_edges : option (list name); r_val : Z }.

Fixpoint lookup_map (s : name) (m : list (name * list name)) : list name :=
  match m with
  | [] => []                       (* defaultdict(set) *)
  | (k, v) :: t => if name_eqb k s then v else lookup_map s t
  end.

Fixpoint coords_of (n : name) (cs : coords) : list cell :=
  match cs with [] => [] | (k, v) :: t => if name_eqb k n then v else coords_of n t end.

(** _rate_same, l.191-198: every rich parameter mapped to [simple_param]
    (except "ref_cell", and except parameters without any cell) gets the value *)
Definition rate_same (rich : coords) (pmap : list (name * list name)) (sp : name) (mle : Z) : list (name * Z) :=
  map (fun rp => (rp, mle))
      (filter (fun rp => negb (name_eqb rp ref_cell) && negb (match coords_of rp rich with [] => true | _ => false end))
              (lookup_map sp pmap)).

(** update_param_rules, l.200-228 with same = True: "mprobs" and "length"
    rules pass through; any other rule is replaced by one rule per projected
    rich parameter, keeping the rule's scope *)
Definition update_param_rules_same (rich : coords) (pmap : list (name * list name)) (rules : list rule) : list rule :=
  flat_map (fun r =>
              if name_eqb (r_par r) n_mprobs || name_eqb (r_par r) n_length then [r]
              else map (fun nv => mkrule (fst nv) (r_edges r) (snd nv)) (rate_same rich pmap (r_par r) (r_val r)))
           rules.

(** * update_scoped_rules *)

Definition edges_list (r : rule) : list name := match r_edges r with None => [] | Some es => es end.

Definition names_subset (a b : list name) : bool := forallb (fun x => mem_name x b) a.
Definition names_seteq (a b : list name) : bool := names_subset a b && names_subset b a.
Definition names_meet (a b : list name) : bool := existsb (fun x => mem_name x b) a.

(** equality of the keys frozenset([par_name] + edges) of two rules (parameter
    names and edge names being different strings) *)
Definition key_eqb (a b : rule) : bool :=
  name_eqb (r_par a) (r_par b) && names_seteq (edges_list a) (edges_list b).

(** _get_keyed_rule_indices builds a dict: a later rule with the same key
    replaces the earlier one *)
Fixpoint dedup_last (rules : list rule) : list rule :=
  match rules with
  | [] => []
  | r :: t => if existsb (key_eqb r) t then dedup_last t else r :: dedup_last t
  end.

Fixpoint find_key (r : rule) (rules : list rule) : option rule :=
  match rules with
  | [] => None
  | x :: t => if key_eqb r x then Some x else find_key r t
  end.

(** l.92-105: the null rules (of the remainder) matching a rich rule *)
Definition scope_matches (r : rule) (null_rem : list rule) : list rule :=
  filter (fun n =>
            name_eqb (r_par r) (r_par n) &&
            match r_edges r with
            | None => true
            | Some es => match r_edges n with None => true | Some ns => names_meet ns es end
            end) null_rem.

(** extend_rule_value, l.52-64 (None edges in a matched null rule: iteration
    over None, TypeError) *)
Fixpoint extend_rule_value (r : rule) (ms : list rule) : mres (list rule) :=
  match ms with
  | [] => MOk []
  | n :: t =>
      match r_edges n with
      | None => MErr 3
      | Some es =>
          match extend_rule_value r t with
          | MErr c => MErr c
          | MOk rest => MOk (map (fun e => mkrule (r_par r) (Some [e]) (r_val n)) es ++ rest)
          end
      end
  end.

(** one rich rule, l.80-114.  [keep_unmatched = false]: the pinned code
    ([matches[0]] on an empty list raises IndexError); [true]: the code with the
    proposed fix C16-1 (a scoped rich rule without counterpart keeps its value) *)
Definition scoped_one (keep_unmatched : bool) (nulld null_rem : list rule) (r : rule) : mres (list rule) :=
  match find_key r nulld with
  | Some n => MOk [mkrule (r_par r) (r_edges r) (r_val n)]            (* common key *)
  | None =>
      let ms := scope_matches r null_rem in
      match r_edges r with
      | None => extend_rule_value r ms                                 (* rich rule is "free" *)
      | Some _ =>
          match ms with
          | [] => if keep_unmatched then MOk [r] else MErr 1            (* matches[0]: IndexError *)
          | [n] => MOk [mkrule (r_par r) (r_edges r) (r_val n)]
          | _ => MErr 2                                                (* "too many mappings": ValueError *)
          end
      end
  end.

Fixpoint scoped_all (keep_unmatched : bool) (nulld null_rem : list rule) (rs : list rule) : mres (list rule) :=
  match rs with
  | [] => MOk []
  | r :: t =>
      match scoped_one keep_unmatched nulld null_rem r with
      | MErr c => MErr c
      | MOk a => match scoped_all keep_unmatched nulld null_rem t with MErr c => MErr c | MOk b => MOk (a ++ b) end
      end
  end.

Definition update_scoped_rules (keep_unmatched : bool) (rich null : list rule) : mres (list rule) :=
  let richd := dedup_last rich in
  let nulld := dedup_last null in
  let null_rem := filter (fun n => match find_key n richd with None => true | Some _ => false end) nulld in
  scoped_all keep_unmatched nulld null_rem richd.
