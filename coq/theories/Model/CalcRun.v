(** C07 — runners used by the correspondence check: the Calculator model and the
    controller model instantiated with integer values and a small algebra of
    cell functions (the same functions are given to the real Calculator /
    ParameterController by harness/props/c07_impl.py). *)
From CG3 Require Import Lib.PyZ Lib.Val Model.Calc Model.CalcScope.

(** cell descriptor: (kind, c, args, recycled)
    kind 0 = OptPar (c = 0: OptPar, c = 1: optimiser transform v -> 3v+1)
    kind 1 = ConstCell
    kind 2 = sum(args)+c mod 10007 ; 3 = prod(args)+c mod 10007 ;
    kind 4 = sum(args), raising ParameterOutOfBoundsError when sum > c ;
    kind 5 = (first arg - sum(other args)) * c mod 10007 *)
Definition cdesc := (Z * Z * list Z * bool)%type.

Definition to_cell (d : cdesc) : cell :=
  let '(k, c, args, rec) := d in
  if k =? 0 then COpt else if k =? 1 then CConst else CEval (map Z.to_nat args) rec.

Definition zsum (l : list Z) : Z := fold_left Z.add l 0.
Definition zprod (l : list Z) : Z := fold_left Z.mul l 1.

Definition cellfun (k c : Z) (args : list Z) : option Z :=
  if k =? 2 then Some ((zsum args + c) mod 10007)
  else if k =? 3 then Some ((zprod args + c) mod 10007)
  else if k =? 4 then (if c <? zsum args then None else Some (zsum args))
  else match args with
       | [] => Some c
       | a :: rest => Some (((a - zsum rest) * c) mod 10007)
       end.

Definition dnth (ds : list cdesc) (r : nat) : cdesc := nth r ds (1, 0, [], false).

Definition fZ (ds : list cdesc) (r : nat) (args : list Z) : option Z :=
  let '(k, c, _, _) := dnth ds r in cellfun k c args.
Definition trZ (ds : list cdesc) (i : nat) (v : Z) : Z :=
  let '(_, c, _, _) := dnth ds i in if c =? 1 then 3 * v + 1 else v.
Definition tinvZ (ds : list cdesc) (i : nat) (v : Z) : Z :=
  let '(_, c, _, _) := dnth ds i in if c =? 1 then (v - 1) / 3 else v.

Inductive zop := ZChange (l : list (Z * Z)) | ZVec (l : list Z).

Definition to_op (o : zop) : op Z :=
  match o with
  | ZChange l => OChange (map (fun p => (Z.to_nat (fst p), snd p)) l)
  | ZVec l => OVec l
  end.

Definition znat (n : nat) : val := VZ (Z.of_nat n).

Section Obs.
  Variable ds : list cdesc.
  Let g := map to_cell ds.
  Let st := state Z.

  Definition obs_slot (r : nat) (l : list (slot Z)) : val :=
    let s := slot_at Z 0 l r in
    if recycled_of (cell_at g r) && (sid s =? 0)%nat then VN else VZ (sval s).

  Definition obs_buf (l : list (slot Z)) : val := VL (map (fun r => obs_slot r l) (seq 0 (length g))).

  Definition obs_alias (s : st) : val :=
    VL (map (fun r =>
               let a0 := sid (slot_at Z 0 (cv0 Z s) r) in
               let a1 := sid (slot_at Z 0 (cv1 Z s) r) in
               let sp := sid (slot_at Z 0 (spare Z s) r) in
               VL [znat r; VB (a0 =? a1)%nat; VB (sp =? 0)%nat;
                   VB (negb (sp =? 0)%nat && (sp =? a0)%nat); VB (negb (sp =? 0)%nat && (sp =? a1)%nat)])
            (filter (fun r => recycled_of (cell_at g r)) (seq 0 (length g)))).

  Definition obs_state (s : st) : val :=
    VL [VB (sw Z s); vlistZ (lastv Z s);
        VL (map (fun u => VL [znat (fst u); VZ (snd u)]) (undo Z s));
        obs_buf (cv0 Z s); obs_buf (cv1 Z s); obs_alias s].

  Definition obs_res (r : res Z) : val :=
    match r with RVal v => VZ v | RExc _ => VE 9 | RAssert => VE 3 end.

  (** ranks whose calc was called during the step *)
  Fixpoint upto (r : nat) (l : list nat) : list nat :=
    match l with [] => [] | x :: t => if (x =? r)%nat then [x] else x :: upto r t end.

  Definition changes_of (s : st) (o : op Z) : list (nat * Z) :=
    match o with OChange c => c | OVec v => vec_changes Z Z.eqb 0 (lastv Z s) v end.

  Definition evaluated (s : st) (o : op Z) (r : res Z) : val :=
    let '(ch, _, _) := pre_undo Z Z.eqb s (changes_of s o) in
    let prog := program g (map fst ch) in
    VL (map znat match r with RVal _ => prog | RExc k => upto k prog | RAssert => [] end).

  Fixpoint run_obs (s : st) (ops : list (op Z)) : list val :=
    match ops with
    | [] => []
    | o :: rest =>
        let '(s1, r) := step Z 0 (fZ ds) (trZ ds) Z.eqb g s o in
        VL [obs_res r; evaluated s o r; obs_state s1] :: run_obs s1 rest
    end.
End Obs.

Definition run_case (c : list cdesc * list Z * list zop) : val :=
  let '(ds, inp0, ops) := c in
  let g := map to_cell ds in
  match init Z 0 (fZ ds) (tinvZ ds) g inp0 with
  | None => VE 9
  | Some s0 => VL (obs_state ds s0 :: run_obs ds s0 (map to_op ops))
  end.

(** ** controller runner.  defn descriptor (kind, c, args): no args = leaf;
    kinds as above (2,3,5) without failure *)
Definition ddesc := (Z * Z * list Z)%type.
Definition hZ (ds : list ddesc) (d : nat) (args : list Z) : Z :=
  let '(k, c, _) := nth d ds (2, 0, []) in
  match cellfun k c args with Some v => v | None => 0 end.
(** kind 4 raises when the sum of its arguments exceeds c *)
Definition failsZ (ds : list ddesc) (d : nat) (args : list Z) : bool :=
  let '(k, c, _) := nth d ds (2, 0, []) in
  match cellfun k c args with Some _ => false | None => true end.

Inductive zcop := ZAssign (d v : Z) | ZPost (body : list (Z * Z)) (raises : bool).
Definition to_cop (o : zcop) : cop Z :=
  match o with
  | ZAssign d v => CAssign (Z.to_nat d) v
  | ZPost body raises => CPostponed (map (fun p => (Z.to_nat (fst p), snd p)) body) raises
  end.

Definition obs_c (g : dgraph) (s : cstate Z) : val :=
  VL [vlistZ (values Z s); VB (suspended Z s)].

Fixpoint crun (fin retain : bool) (ds : list ddesc) (g : dgraph) (s : cstate Z) (ops : list (cop Z)) : list val :=
  match ops with
  | [] => []
  | o :: rest => let s1 := cstep Z 0 (hZ ds) (failsZ ds) retain fin g s o in obs_c g s1 :: crun fin retain ds g s1 rest
  end.

(** [fin]: does the current source of updates_postponed have a `finally:` clause *)
(** [retain]: is the dirty set only cleared after the loop of _updateIntermediateValues *)
Definition run_ccase (c : bool * bool * list ddesc * list Z * list zcop) : val :=
  let '(fin, retain, ds, asg, ops) := c in
  let g : dgraph := map (fun d => map Z.to_nat (snd d)) ds in
  let s0 := cinit Z 0 (hZ ds) (failsZ ds) retain g asg in
  VL (obs_c g s0 :: crun fin retain ds g s0 (map to_cop ops)).

(** a single entry point so that one generated cases file can hold both kinds *)
(** ** rule export/import runner.  Values are integers scaled by the harness
    (exact for the boundary values it generates).  case = (numeric, current
    setting of the target, source setting); settings as (kind, lower, v, upper)
    with kind 0 = ConstVal, 1 = numeric Var, 2 = non-scalar Var.  Output: keys of
    the exported rule, and the setting the import produces. *)
Definition zsetting := (Z * Z * Z * Z)%type.
Definition to_setting (d : zsetting) : setting Z :=
  let '(k, l, v, u) := d in if k =? 0 then SConst Z v else if k =? 1 then SVar Z l v u else SNVar Z v.
Definition obs_setting (o : outcome Z) : val :=
  match o with
  | ROk _ (SConst _ v) => VL [VZ 0; VZ v]
  | ROk _ (SVar _ l v u) => VL [VZ 1; VZ l; VZ v; VZ u]
  | ROk _ (SNVar _ v) => VL [VZ 2; VZ v]
  | RAssertionError _ => VE 9
  | RValueError _ => VE 2
  end.
Definition run_rcase (c : bool * zsetting * zsetting) : val :=
  let '(numeric, cur, src) := c in
  let r := export Z (to_setting src) in
  VL [VL (map VB (rule_keys Z r));
      obs_setting (import Z Z.ltb (fun v => negb (v =? 0)) 0 10000000 numeric (to_setting cur) r)].

(** ** scope-table runner.  Values are integers (the harness maps the floats of a
    case to integers order-preservingly).  A cell is (edge, bin, locus) by category
    number; a setting (group index, const, lower, value, upper). *)
Definition zcell := (Z * Z * Z)%type.
Definition zstg := (Z * bool * Z * Z * Z)%type.
Definition zscope := (option (list Z) * option (list Z) * option (list Z))%type.
Definition zrule := (zscope * option bool * bool * option Z * option Z * option Z)%type.
Inductive zsop := ZRule (r : zrule) | ZUpdate (l : list (zcell * Z)).

Definition to_cell_n (c : zcell) : scell := let '(e, b, l) := c in (Z.to_nat e, Z.to_nat b, Z.to_nat l).
Definition to_stg (s : zstg) : stg Z := let '(g, c, lo, v, hi) := s in mk_stg (Z.to_nat g) c lo v hi.
Definition to_scope (sc : zscope) : scope :=
  let '(e, b, l) := sc in
  let m o := match o with Some x => Some (map Z.to_nat x) | None => None end in mk_scope (m e) (m b) (m l).
Definition to_srule (r : zrule) : srule Z :=
  let '(sc, ind, c, v, lo, hi) := r in mk_srule (to_scope sc) ind c v lo hi.

Definition zmean (l : list Z) : Z := fold_left Z.add l 0 / Z.of_nat (length l).

Section ScopeObs.
  Variable dlo dhi : Z.
  Variable indep_default chrono : bool.

  Definition s_assign := assign_rule Z Z.ltb Z.eqb zmean dlo dhi indep_default.
  Definition s_export := export_rules Z indep_default chrono.

  Definition index_of (x : nat) (l : list nat) : Z :=
    (fix go (l : list nat) (k : Z) := match l with [] => -1 | y :: t => if (x =? y)%nat then k else go t (k + 1) end) l 0.

  Definition obs_table (t : table Z) : val :=
    let order := group_ids Z false t in
    VL (map (fun cs => let '(e, b, l) := fst cs in let s := snd cs in
                       VL [znat e; znat b; znat l; VZ (index_of (g_id s) order); VB (g_const s);
                           if g_const s then VN else VZ (g_lower s); VZ (g_val s); if g_const s then VN else VZ (g_upper s)]) t).

  Definition obs_olist (o : option (list nat)) : val := match o with None => VN | Some l => VL (map znat l) end.
  Definition obs_rule (r : srule Z) : val :=
    VL [obs_olist (sc_e (ru_scope r)); obs_olist (sc_b (ru_scope r)); obs_olist (sc_l (ru_scope r));
        match ru_indep r with None => VN | Some b => VB b end; VB (ru_const r);
        voptZ (ru_value r); voptZ (ru_lower r); voptZ (ru_upper r)].

  (** after each operation: the table, nfp, the exported rules, and the table / nfp a fresh
      controller [t0] has after importing them *)
  Definition obs_step (t0 : table Z) (nid0 : nat) (t : table Z) : val :=
    let rules := s_export t in
    VL [obs_table t; znat (nfp Z t); VL (map obs_rule rules);
        match assign_rules Z Z.ltb Z.eqb zmean dlo dhi indep_default rules (t0, nid0) with
        | Some (t', _) => VL [obs_table t'; znat (nfp Z t')]
        | None => VE 2
        end].

  Fixpoint srun (t0 : table Z) (nid0 : nat) (tn : table Z * nat) (ops : list zsop) : list val :=
    match ops with
    | [] => []
    | ZRule r :: rest =>
        (* a refused rule (ValueError caught by the caller) leaves the table as it was *)
        let tn' := match s_assign (to_srule r) tn with Some x => x | None => tn end in
        obs_step t0 nid0 (fst tn') :: srun t0 nid0 tn' rest
    | ZUpdate l :: rest =>
        let t' := fold_left (fun t cv => set_value Z t (to_cell_n (fst cv)) (snd cv)) l (fst tn) in
        obs_step t0 nid0 t' :: srun t0 nid0 (t', snd tn) rest
    end.
End ScopeObs.

(** case = (dlower, dupper, independent_by_default, chrono export order, initial table, operations) *)
Definition run_scase (c : Z * Z * bool * bool * list (zcell * zstg) * list zsop) : val :=
  let '(dlo, dhi, ind, chrono, t0z, ops) := c in
  let t0 := map (fun cs => (to_cell_n (fst cs), to_stg (snd cs))) t0z in
  let nid0 := S (length t0) in
  VL (obs_step dlo dhi ind chrono t0 nid0 t0 :: srun dlo dhi ind chrono t0 nid0 (t0, nid0) ops).

Inductive anycase := ACalc (c : list cdesc * list Z * list zop) | ACtl (c : bool * bool * list ddesc * list Z * list zcop)
                   | ARule (c : bool * zsetting * zsetting)
                   | AScope (c : Z * Z * bool * bool * list (zcell * zstg) * list zsop).
Definition run_any (c : anycase) : val :=
  match c with ACalc c => run_case c | ACtl c => run_ccase c | ARule c => run_rcase c | AScope c => run_scase c end.
