(** C06 — executable model of the sequence-format writers and parsers of cogent3.

    Transcribed branch-for-branch from
      format/fasta.py   seqs_to_fasta                     -> [fasta_lines], [fasta_write]
      format/util.py    slice_string_in_blocks / wrap_... -> [blocks], [wrap_lines]
      format/phylip.py  PhylipFormatter.format            -> [phylip_lines], [phylip_write]
      format/paml.py    PamlFormatter.format              -> [paml_lines], [paml_write]
      format/gde.py     GDEFormatter.format               -> [gde_lines], [gde_write]
      parse/fasta.py    _faster_parser / _strict_parser   -> [faster_go], [strict_go]
                        MinimalGdeParser                  -> the same with label characters "%#"
                        iter_fasta_records (bytes)        -> [bytes_parser]
      parse/phylip.py   MinimalPhylipParser (the branch taken for the two-field header the writer emits)
                                                          -> [phylip_parser]
      parse/paml.py     PamlParser                        -> [paml_parser]
      util/io.py        iter_splitlines                   -> [iter_splitlines]
      str.splitlines / str.strip / bytes.strip / str.split / re "\s+"  -> [py_splitlines], [strip], [bstrip], [split_ws], [remove_ws]

    Strings are [list Z] (code points; bytes for ASCII text).  No proofs here. *)
From CG3 Require Import Lib.PyZ Lib.Val Lib.Chars.

(* ------------------------------------------------------------------ characters *)

Definition NL : Z := 10.
Definition GT : Z := 62.       (* '>' *)
Definition HASH : Z := 35.     (* '#' *)
Definition PCT : Z := 37.      (* '%' *)
Definition SP : Z := 32.

(** line boundaries of [str.splitlines]: \n \v \f \r \x1c \x1d \x1e \x85     *)
Definition is_brk (c : Z) : bool :=
  (c =? 10) || (c =? 11) || (c =? 12) || (c =? 13) || (c =? 28) || (c =? 29) || (c =? 30)
  || (c =? 133) || (c =? 8232) || (c =? 8233).

(** [str.isspace] of one character (= what [str.strip()] strips and regex [\s] matches on str) *)
Definition is_space (c : Z) : bool :=
  ((9 <=? c) && (c <=? 13)) || ((28 <=? c) && (c <=? 32)) || (c =? 133) || (c =? 160) || (c =? 5760)
  || ((8192 <=? c) && (c <=? 8202)) || (c =? 8232) || (c =? 8233) || (c =? 8239) || (c =? 8287) || (c =? 12288).

(** whitespace of [bytes.strip()] *)
Definition is_bspace (c : Z) : bool := ((9 <=? c) && (c <=? 13)) || (c =? 32).

Definition memz (c : Z) (l : list Z) : bool := existsb (Z.eqb c) l.

(* ------------------------------------------------------------------ str methods *)

(** [s.splitlines()]; [after_cr] = the previous character was a '\r' that already ended a line *)
Fixpoint sl (after_cr : bool) (s : str) : list str :=
  match s with
  | [] => []
  | c :: t =>
      if after_cr && (c =? 10) then sl false t
      else if is_brk c then [] :: sl (c =? 13) t
      else match sl false t with
           | [] => [[c]]
           | l :: ls => (c :: l) :: ls
           end
  end.

Definition py_splitlines (s : str) : list str := sl false s.

Fixpoint lstrip_by (f : Z -> bool) (s : str) : str :=
  match s with
  | c :: t => if f c then lstrip_by f t else s
  | [] => []
  end.
Definition rstrip_by (f : Z -> bool) (s : str) : str := rev (lstrip_by f (rev s)).
Definition strip_by (f : Z -> bool) (s : str) : str := rstrip_by f (lstrip_by f s).

Definition strip (s : str) : str := strip_by is_space s.      (* str.strip() *)
Definition bstrip (s : str) : str := strip_by is_bspace s.    (* bytes.strip() *)

(** [_white_space.sub("", s)] *)
Definition remove_ws (s : str) : str := filter (fun c => negb (is_space c)) s.

(** [s.split()] *)
Fixpoint split_ws_go (cur : str) (s : str) : list str :=
  match s with
  | [] => match cur with [] => [] | _ => [rev cur] end
  | c :: t => if is_space c then (match cur with [] => split_ws_go [] t | _ => rev cur :: split_ws_go [] t end)
              else split_ws_go (c :: cur) t
  end.
Definition split_ws (s : str) : list str := split_ws_go [] s.

Definition all_space (s : str) : bool := forallb is_space s.

Definition ascii_upper_ch (c : Z) : Z := if (97 <=? c) && (c <=? 122) then c - 32 else c.
Definition ascii_upper (s : str) : str := map ascii_upper_ch s.

(** decimal text of a natural number, ["%d" % n] for n >= 0, through the standard library's
    decimal representation *)
Fixpoint uint_digits (u : Decimal.uint) : str :=
  match u with
  | Decimal.Nil => []
  | Decimal.D0 u => 48 :: uint_digits u | Decimal.D1 u => 49 :: uint_digits u
  | Decimal.D2 u => 50 :: uint_digits u | Decimal.D3 u => 51 :: uint_digits u
  | Decimal.D4 u => 52 :: uint_digits u | Decimal.D5 u => 53 :: uint_digits u
  | Decimal.D6 u => 54 :: uint_digits u | Decimal.D7 u => 55 :: uint_digits u
  | Decimal.D8 u => 56 :: uint_digits u | Decimal.D9 u => 57 :: uint_digits u
  end.
Definition dec (n : nat) : str := uint_digits (Nat.to_uint n).

(** [int(s)] for a plain digit string (what the writers emit); anything else is a ValueError here *)
Fixpoint digits_uint (s : str) : option Decimal.uint :=
  match s with
  | [] => Some Decimal.Nil
  | c :: t =>
      match digits_uint t with
      | None => None
      | Some u =>
          if c =? 48 then Some (Decimal.D0 u) else if c =? 49 then Some (Decimal.D1 u)
          else if c =? 50 then Some (Decimal.D2 u) else if c =? 51 then Some (Decimal.D3 u)
          else if c =? 52 then Some (Decimal.D4 u) else if c =? 53 then Some (Decimal.D5 u)
          else if c =? 54 then Some (Decimal.D6 u) else if c =? 55 then Some (Decimal.D7 u)
          else if c =? 56 then Some (Decimal.D8 u) else if c =? 57 then Some (Decimal.D9 u)
          else None
      end
  end.
Definition parse_nat (s : str) : option nat :=
  match s with
  | [] => None
  | _ => match digits_uint s with Some u => Some (Nat.of_uint u) | None => None end
  end.

(* ------------------------------------------------------------------ writers *)

Definition rec := (str * str)%type.          (* (name, sequence) *)

(** every line followed by '\n'  ( = "\n".join(lines + [""]) ) *)
Definition join_lines (ls : list str) : str := flat_map (fun l => l ++ [NL]) ls.

(** FASTA.  [textwrap.wrap(seq, block_size)] is abstracted as the list of lines it
    returned: the correspondence check verifies on every case that the lines are
    non-empty, at most [block_size] long and concatenate to the sequence (which is
    all it does on whitespace-free text), and that it is [blocks] on hyphen-free text. *)
Definition fasta_lines (recs : list (str * list str)) : list str :=
  flat_map (fun r => (GT :: fst r) :: snd r) recs.
Definition fasta_write (recs : list (str * list str)) : str := join_lines (fasta_lines recs).

(** [slice_string_in_blocks]: consecutive slices of width [w] *)
Fixpoint blocks_go (fuel : nat) (w : nat) (s : str) : list str :=
  match fuel with
  | O => []
  | S f => match s with
           | [] => []
           | _ => firstn w s :: blocks_go f w (skipn w s)
           end
  end.
Definition blocks (w : nat) (s : str) : list str := blocks_go (length s) w s.

Definition fasta_write_w (w : nat) (recs : list rec) : str :=
  fasta_write (map (fun r => (fst r, blocks w (snd r))) recs).

(** [wrap_string_to_block_size]: "\n".join(blocks) + "\n", as lines *)
Definition wrap_lines (w : nat) (s : str) : list str :=
  match blocks w s with [] => [[]] | bs => bs end.

Definition align_length (recs : list rec) : nat :=
  match recs with [] => O | r :: _ => length (snd r) end.

Definition header_line (recs : list rec) : str :=
  dec (length recs) ++ [SP; SP] ++ dec (align_length recs).

Definition paml_lines (w : nat) (recs : list rec) : list str :=
  header_line recs :: flat_map (fun r => fst r :: wrap_lines w (snd r)) recs.
Definition paml_write (w : nat) (recs : list rec) : str := join_lines (paml_lines w recs).

Definition gde_lines (w : nat) (recs : list rec) : list str :=
  flat_map (fun r => (PCT :: fst r) :: wrap_lines w (snd r)) recs.
Definition gde_write (w : nat) (recs : list rec) : str := join_lines (gde_lines w recs).

(** "%-10s" % name[:9]  (or name itself when len(name) <= 9) *)
Definition pad10 (name : str) : str :=
  let n := firstn 9 name in n ++ repeat SP (10 - length n).

(** for block in range(0, align_length, block_size): prefix + seq[block:to] *)
Fixpoint phylip_rec_go (fuel : nat) (w : nat) (first : bool) (name : str) (off alen : nat) (s : str) : list str :=
  match fuel with
  | O => []
  | S f =>
      if (off <? alen)%nat then
        let to := if (alen <? off + w)%nat then alen else (off + w)%nat in
        ((if first then pad10 name else repeat SP 10) ++ firstn (to - off) (skipn off s))
          :: phylip_rec_go f w false name (off + w) alen s
      else []
  end.
Definition phylip_rec_lines (w alen : nat) (r : rec) : list str :=
  phylip_rec_go (S alen) w true (fst r) 0 alen (snd r).

Definition phylip_lines (w : nat) (recs : list rec) : list str :=
  header_line recs :: flat_map (phylip_rec_lines w (align_length recs)) recs.
Definition phylip_write (w : nat) (recs : list rec) : str := join_lines (phylip_lines w recs).

(* ------------------------------------------------------------------ parsers *)

Inductive pres :=
| POk (l : list rec)
| PErr (code : Z).         (* exception class code of Lib/Val.v; 9 = RecordError *)

Definition pcons (r : rec) (p : pres) : pres :=
  match p with POk l => POk (r :: l) | PErr c => PErr c end.

Definition lbl_or_empty (l : option str) : str := match l with Some s => s | None => [] end.

(** _faster_parser(data, str, label_char) *)
Fixpoint faster_go (lc : list Z) (label : option str) (seq : list str) (lines : list str) : list rec :=
  match lines with
  | [] => match seq with
          | [] => []
          | _ => [(lbl_or_empty label, remove_ws (concat seq))]
          end
  | line :: rest =>
      match line with
      | [] => faster_go lc label seq rest
      | c :: tl_ =>
          if memz c lc then
            (match seq with
             | [] => []
             | _ => [(lbl_or_empty label, remove_ws (concat seq))]
             end) ++ faster_go lc (Some (strip tl_)) [] rest
          else faster_go lc label (seq ++ [strip line]) rest
      end
  end.
Definition faster_parser (lc : list Z) (lines : list str) : list rec := faster_go lc None [] lines.

(** _strict_parser(data, str, label_char) *)
Fixpoint strict_go (lc : list Z) (label : option str) (seq : list str) (lines : list str) : pres :=
  match lines with
  | [] => match seq with
          | [] => PErr 9
          | _ => match label with
                 | None => PErr 9
                 | Some l => POk [(l, remove_ws (concat seq))]
                 end
          end
  | line :: rest =>
      match line with
      | [] => strict_go lc label seq rest
      | c :: tl_ =>
          if c =? HASH then strict_go lc label seq rest
          else if memz c lc then
            match label with
            | Some l => match seq with
                        | [] => PErr 9
                        | _ => pcons (l, remove_ws (concat seq)) (strict_go lc (Some (strip tl_)) [] rest)
                        end
            | None => match seq with
                      | [] => strict_go lc (Some (strip tl_)) [] rest
                      | _ => PErr 9
                      end
            end
          else strict_go lc label (seq ++ [strip line]) rest
      end
  end.
Definition strict_parser (lc : list Z) (lines : list str) : pres := strict_go lc None [] lines.

(** MinimalFastaParser(lines, strict, label_characters): [if not path: return []] for an empty list *)
Definition minimal_parser (strict : bool) (lc : list Z) (lines : list str) : pres :=
  match lines with
  | [] => POk []
  | _ => if strict then strict_parser lc lines else POk (faster_parser lc lines)
  end.

Definition fasta_lc : list Z := [GT].
Definition gde_lc : list Z := [PCT; HASH].

(** minimal_converter: delete "\n\r\t " then upper-case a-z *)
Definition converter (body : str) : str :=
  ascii_upper (filter (fun c => negb ((c =? 10) || (c =? 13) || (c =? 9) || (c =? 32))) body).

(** iter_fasta_records(data: bytes) *)
Definition bytes_record (record : str) : list rec :=
  match record with
  | [] => []
  | _ => match split1 NL record with
         | None => []
         | Some (lab, body) => [(bstrip lab, converter body)]
         end
  end.
Definition bytes_parser (data : str) : list rec := flat_map bytes_record (split_on GT data).

(** [re.split(rb"(?<![^\n])>", s)]: split at every [c] that begins a line *)
Fixpoint split_linestart (c : Z) (at_start : bool) (s : str) : list str :=
  match s with
  | [] => [[]]
  | x :: t =>
      match split_linestart c (x =? NL) t with
      | [] => [[]]      (* unreachable *)
      | w :: ws => if at_start && (x =? c) then [] :: w :: ws else (x :: w) :: ws
      end
  end.

(** iter_fasta_records(data: bytes) after the proposed fix C06-1
    [records = re.split(rb"(?<![^\n])>", data)]: a record starts at a '>' that begins a line *)
Definition bytes_parser_fixed (data : str) : list rec :=
  flat_map bytes_record (split_linestart GT true data).

(** the line-based FASTA parsers applied to a file's text (text mode, universal newlines, then
    [splitlines]; [py_splitlines] already treats \r and \r\n as line ends) *)
Definition lines_faster (text : str) : list rec := faster_parser fasta_lc (py_splitlines text).
Definition lines_strict (text : str) : pres := strict_parser fasta_lc (py_splitlines text).

(** parse/phylip.py.  _get_header_info *)
Definition phylip_header (line : str) : option (nat * nat * bool) + Z :=
  match split_ws line with
  | a :: b :: more =>
      match parse_nat a, parse_nat b with
      | Some n, Some m => inl (Some (n, m, match more with [] => false | _ => true end))
      | _, _ => inr 2
      end
  | _ => inr 2
  end.

(** _split_line(line, 10): (None, None) is rendered as ([], []) — the caller only tests truthiness *)
Definition phylip_split_line (line : str) : str * str :=
  if all_space line then ([], [])
  else (strip (firstn 10 line), filter (fun c => negb (c =? SP)) (strip (skipn 10 line))).

Definition cache_out (cache : option (str * list str)) : list rec :=
  match cache with
  | None => []
  | Some (i, parts) => [(i, concat parts)]
  end.

(** the [not interleaved] loop *)
Fixpoint phylip_seq_go (cache : option (str * list str)) (lines : list str) : pres :=
  match lines with
  | [] => POk (cache_out cache)
  | line :: rest =>
      let '(i, s) := phylip_split_line line in
      match i, s with
      | [], [] => phylip_seq_go cache rest
      | [], _ => match cache with
                 | None => PErr 3        (* {}.append -> AttributeError *)
                 | Some (ci, parts) => phylip_seq_go (Some (ci, parts ++ [s])) rest
                 end
      | _, _ => match cache_out cache with
                | [] => phylip_seq_go (Some (i, [s])) rest
                | r :: _ => pcons r (phylip_seq_go (Some (i, [s])) rest)
                end
      end
  end.

(** _split_line(line, id_offset) for any offset *)
Definition phylip_split_line_off (off : nat) (line : str) : str * str :=
  if all_space line then ([], [])
  else (strip (firstn off line), filter (fun c => negb (c =? SP)) (strip (skipn off line))).

(** [l[ix] = f(l[ix])] *)
Fixpoint upd_nth {A} (ix : nat) (f : A -> A) (l : list A) : list A :=
  match l with
  | [] => []
  | x :: t => match ix with O => f x :: t | S k => x :: upd_nth k f t end
  end.

(** the [interleaved] loop of MinimalPhylipParser.  [cache] is seq_cache / interleaved_id_map: the keys are
    inserted in the order 0, 1, 2, ... (curr_ct grows by one), so the dict is the list of (id, parts) by index *)
Fixpoint phylip_il_go (num_seqs id_offset ct : nat) (cache : list (str * list str)) (lines : list str)
  : list (str * list str) :=
  match lines with
  | [] => cache
  | line :: rest =>
      let '(i, s) := phylip_split_line_off id_offset line in
      match i, s with
      | [], [] => phylip_il_go num_seqs id_offset ct cache rest
      | _, _ =>
          let ix := Nat.modulo ct num_seqs in
          let off' := if Nat.eqb (Nat.modulo (S ct) num_seqs) 0 then O else id_offset in
          let cache' := if (ix <? length cache)%nat
                        then upd_nth ix (fun e => (fst e, snd e ++ [s])) cache
                        else cache ++ [(i, [s])] in
          phylip_il_go num_seqs off' (S ct) cache' rest
      end
  end.

(** the final loop: join, check the length against the header, yield *)
Fixpoint phylip_il_out (seq_len : nat) (cache : list (str * list str)) : pres :=
  match cache with
  | [] => POk []
  | (i, parts) :: t =>
      let j := concat parts in
      if Nat.eqb (length j) seq_len then pcons (i, j) (phylip_il_out seq_len t) else PErr 9
  end.

(** MinimalPhylipParser (always [Some]; the option is kept for the callers) *)
Definition phylip_parser (lines : list str) : option pres :=
  match lines with
  | [] => Some (POk [])
  | h :: rest =>
      match phylip_header h with
      | inr c => Some (PErr c)
      | inl None => Some (PErr 2)
      | inl (Some (n, m, il)) =>
          if (Nat.eqb n 0) || (Nat.eqb m 0) then Some (POk [])
          else if il then Some (phylip_il_out m (phylip_il_go n 10 0 [] rest))
          else Some (phylip_seq_go None rest)
      end
  end.

(** the INTERLEAVED rendering of an alignment as the PHYLIP format defines it (cogent3's writer only emits the
    sequential one): header "n  m I"; first block: padded name + first slice of every sequence; then, after an
    empty line, one block per further slice, lines indented by ten blanks *)
Fixpoint il_rows (k : nat) (bss : list (list str)) : list (list str) :=
  match k with
  | O => []
  | S k' => map (hd []) bss :: il_rows k' (map (@tl str) bss)
  end.

Fixpoint map2 {A B C} (f : A -> B -> C) (la : list A) (lb : list B) : list C :=
  match la, lb with
  | a :: ta, b :: tb => f a b :: map2 f ta tb
  | _, _ => []
  end.

Definition il_header (recs : list rec) : str := header_line recs ++ [SP; 73].

Definition phylip_interleaved_lines (w : nat) (recs : list rec) : list str :=
  let m := align_length recs in
  let bss := map (fun r => blocks_go (S m) w (snd r)) recs in
  let k := match bss with [] => O | bs :: _ => length bs end in
  match il_rows k bss with
  | [] => [il_header recs]
  | row0 :: rows =>
      il_header recs :: map2 (fun r b => pad10 (fst r) ++ b) recs row0
        ++ flat_map (fun row => [] :: map (app (repeat SP 10)) row) rows
  end.
Definition phylip_interleaved_write (w : nat) (recs : list rec) : str :=
  join_lines (phylip_interleaved_lines w recs).

(** PamlParser *)
Fixpoint paml_go (seq_len num_seqs : nat) (seqname : option str) (cur : list str) (cur_len : nat) (n : nat)
         (lines : list str) : pres :=
  match lines with
  | [] => if Nat.eqb n num_seqs then POk [] else PErr 2
  | line0 :: rest =>
      let line := strip line0 in
      match line with
      | [] => paml_go seq_len num_seqs seqname cur cur_len n rest
      | _ =>
          match seqname with
          | None => paml_go seq_len num_seqs (Some line) cur cur_len n rest
          | Some nm =>
              let cur_len' := (cur_len + length line)%nat in
              let cur' := cur ++ [line] in
              if Nat.eqb cur_len' seq_len
              then pcons (nm, ascii_upper (concat cur')) (paml_go seq_len num_seqs None [] 0 (S n) rest)
              else paml_go seq_len num_seqs seqname cur' cur_len' n rest
          end
      end
  end.

Definition paml_parser (lines : list str) : pres :=
  match lines with
  | [] => PErr 1                         (* data.pop(0) on an empty list *)
  | h :: rest =>
      match split_ws h with
      | [a; b] => match parse_nat a, parse_nat b with
                  | Some n, Some m => paml_go m n None [] 0 0 rest
                  | _, _ => PErr 2
                  end
      | _ => PErr 2
      end
  end.

(* ------------------------------------------------------------------ chunked line streaming *)

Definition ends_nl (s : str) : bool := match rev s with c :: _ => c =? NL | [] => false end.

(** one iteration of the [while True] loop of iter_splitlines: (last, emitted so far) *)
Definition isl_step (st : str * list str) (chunk : str) : str * list str :=
  let data := fst st ++ chunk in
  let lines := py_splitlines data in
  let l := last lines [] in
  let last' := if ends_nl data then l ++ [NL] else l in
  (last', snd st ++ removelast lines).

Definition iter_splitlines (chunks : list str) : list str :=
  let st := fold_left isl_step chunks ([], []) in
  snd st ++ py_splitlines (fst st).

(** [infile.read(n)] repeatedly *)
Fixpoint chunks_go (fuel : nat) (n : nat) (s : str) : list str :=
  match fuel with
  | O => []
  | S f => match s with
           | [] => []
           | _ => firstn n s :: chunks_go f n (skipn n s)
           end
  end.
Definition chunks_of (n : nat) (s : str) : list str := chunks_go (length s) n s.

(* ------------------------------------------------------------------ GenBank *)
(** parse/genbank.py:  MinimalGenbankParser (line based: GbFinder + indent_splitter + handlers) -> [gb_lines_parser]
                       iter_genbank_records(bytes) / minimal_parser / rich_parser (bytes based)   -> [gb_bytes_parser]
    observed: (locus, sequence) of every record.  The handlers SOURCE / REFERENCE / FEATURES are not modelled
    ([GUnsupported]). *)

Definition rstrip (s : str) : str := rstrip_by is_space s.
Definition lstrip (s : str) : str := lstrip_by is_space s.
Definition SLASH : Z := 47.
Definition s_origin : str := [79; 82; 73; 71; 73; 78].          (* "ORIGIN" *)
Definition s_locus : str := [76; 79; 67; 85; 83].               (* "LOCUS" *)

(** GbFinder = DelimitedRecordFinder("//", constructor=rstrip): (records, lines left after the last "//") *)
Fixpoint gb_finder (cur : list str) (lines : list str) : list (list str) * list str :=
  match lines with
  | [] => ([], cur)
  | l0 :: rest =>
      let l := rstrip l0 in
      match l with
      | [] => gb_finder cur rest
      | _ => if str_eqb l [SLASH; SLASH]
             then let rl := gb_finder [] rest in ((cur ++ [l]) :: fst rl, snd rl)
             else gb_finder (cur ++ [l]) rest
      end
  end.

(** indent_splitter *)
Definition indent_of (l : str) : nat := (length l - length (lstrip l))%nat.

Fixpoint indent_split (indent : nat) (cur : list str) (lines : list str) : list (list str) :=
  match lines with
  | [] => match cur with [] => [] | _ => [cur] end
  | l0 :: rest =>
      let l := rstrip l0 in
      match l with
      | [] => indent_split indent cur rest
      | _ => if (indent <? length l)%nat && is_space (nth indent l 0)
             then indent_split indent (cur ++ [l]) rest
             else cur :: indent_split indent [l] rest
      end
  end.

Fixpoint indent_splitter (lines : list str) : list (list str) :=
  match lines with
  | [] => []
  | l0 :: rest =>
      let l := rstrip l0 in
      match l with
      | [] => indent_splitter rest
      | _ => indent_split (indent_of l) [l] rest
      end
  end.

(** parse_sequence: every line not starting with "ORIGIN", without digits, blank, tab, newline, CR, '/' *)
Definition gb_seq_clean (l : str) : str :=
  filter (fun c => negb (((48 <=? c) && (c <=? 57)) || (c =? 32) || (c =? 9) || (c =? 10) || (c =? 13) || (c =? SLASH))) l.
Definition gb_parse_sequence (lines : list str) : str :=
  concat (map gb_seq_clean (filter (fun l => negb (startswith l s_origin)) lines)).

(** str.join(" ", map(strip, lines)) *)
Fixpoint join_sp (ls : list str) : str :=
  match ls with
  | [] => []
  | [l] => l
  | l :: t => l ++ SP :: join_sp t
  end.

Inductive gb_step := GOk (locus seq : option str) | GExc | GUnsupported.

Definition s_double_slash : str := [SLASH; SLASH].
Definition s_source : str := [83; 79; 85; 82; 67; 69].
Definition s_reference : str := [82; 69; 70; 69; 82; 69; 78; 67; 69].
Definition s_features : str := [70; 69; 65; 84; 85; 82; 69; 83].
Definition s_locus_lc : str := [108; 111; 99; 117; 115].
Definition s_sequence_lc : str := [115; 101; 113; 117; 101; 110; 99; 101].

(** one field (block of lines) through its handler *)
Definition gb_handle (field : list str) (locus seq : option str) : gb_step :=
  match field with
  | [] => GOk locus seq
  | l0 :: _ =>
      match split_ws l0 with
      | [] => GExc                                          (* field[0].split(None, 1)[0] *)
      | w :: toks =>
          if str_eqb w s_locus then
            (* parse_locus: dict(zip(fields, line.split())), int(result["length"]) *)
            match toks with
            | nm :: len :: _ => match parse_nat len with Some _ => GOk (Some nm) seq | None => GExc end
            | _ => GExc
            end
          else if str_eqb w s_origin then GOk locus (Some (gb_parse_sequence field))
          else if str_eqb w s_double_slash || str_eqb w [63] then GOk locus seq
          else if str_eqb w s_source || str_eqb w s_reference || str_eqb w s_features then GUnsupported
          else
            (* generic_adaptor: curr[label.lower()] = " ".join(map(strip, lines)) *)
            let v := join_sp (map strip field) in
            let lab := ascii_lower w in
            if str_eqb lab s_locus_lc then GOk (Some v) seq
            else if str_eqb lab s_sequence_lc then GOk locus (Some v)
            else GOk locus seq
      end
  end.

Fixpoint gb_fields (fields : list (list str)) (locus seq : option str) : gb_step :=
  match fields with
  | [] => GOk locus seq
  | f :: rest => match gb_handle f locus seq with
                 | GOk l s => gb_fields rest l s
                 | other => other
                 end
  end.

Inductive gb_res :=
| GRecs (l : list (option str * option str))
| GErr (code : Z)
| GUnsup.

Fixpoint gb_records (recs : list (list str)) : option (list (option str * option str)) :=
  match recs with
  | [] => Some []
  | r :: rest =>
      match gb_fields (indent_splitter r) None None, gb_records rest with
      | GUnsupported, _ => None
      | _, None => None
      | GOk l s, Some t => Some ((l, s) :: t)
      | GExc, Some t => Some t                         (* bad_record: skipped *)
      end
  end.

(** MinimalGenbankParser(lines) as list(...): RecordError when lines follow the last "//" *)
Definition gb_lines_parser (lines : list str) : gb_res :=
  let rl := gb_finder [] lines in
  match gb_records (fst rl) with
  | None => GUnsup
  | Some l => match snd rl with [] => GRecs l | _ => GErr 9 end
  end.

(** bytes.split(sep) for a non-empty separator *)
Fixpoint split_sep (sep : str) (skip : nat) (s : str) : list str :=
  match s with
  | [] => [[]]
  | c :: t =>
      match skip with
      | S k => split_sep sep k t
      | O => if startswith s sep then [] :: split_sep sep (pred (length sep)) t
             else match split_sep sep O t with
                  | [] => [[c]]
                  | w :: ws => (c :: w) :: ws
                  end
      end
  end.

(** bytes.split() *)
Fixpoint split_bws_go (cur : str) (s : str) : list str :=
  match s with
  | [] => match cur with [] => [] | _ => [rev cur] end
  | c :: t => if is_bspace c then (match cur with [] => split_bws_go [] t | _ => rev cur :: split_bws_go [] t end)
              else split_bws_go (c :: cur) t
  end.
Definition split_bws (s : str) : list str := split_bws_go [] s.

(** default_seq_converter: delete "\n\r\t 0123456789", a-z -> A-Z *)
Definition gb_converter (s : str) : str :=
  ascii_upper (filter (fun c => negb ((c =? 10) || (c =? 13) || (c =? 9) || (c =? 32) || ((48 <=? c) && (c <=? 57)))) s).

Definition s_nl_slashes : str := [NL; SLASH; SLASH].
Definition s_nl_origin : str := NL :: s_origin.

(** features[: features.find(b"\n")] *)
Definition first_line_py (f : str) : str :=
  match split1 NL f with Some (a, _) => a | None => removelast f end.

(** one record of iter_genbank_records + the locus / sequence keys minimal_parser ends up with
    ({"locus": locus, "sequence": seq, **default_parse_metadata(features)}) *)
Definition gb_bytes_record (record : str) : gb_res :=
  match split_sep s_nl_origin O record with
  | [features; seq] =>
      match split_bws (first_line_py features) with
      | _ :: locus :: _ =>
          let sq := gb_converter seq in
          match gb_fields (indent_splitter (py_splitlines features)) None None with
          | GUnsupported => GUnsup
          | GExc => GRecs [(Some locus, Some sq)]
          | GOk l s => GRecs [(Some (match l with Some x => x | None => locus end),
                              Some (match s with Some x => x | None => sq end))]
          end
      | _ => GErr 1
      end
  | _ => GErr 2
  end.

Definition bytes_isspace (s : str) : bool := match s with [] => false | _ => forallb is_bspace s end.

Fixpoint gb_bytes_go (fixed : bool) (pieces : list str) : gb_res :=
  match pieces with
  | [] => GRecs []
  | p :: rest =>
      let p' := if fixed then lstrip_by is_bspace p else p in
      if (if fixed then match p' with [] => true | _ => false end else bytes_isspace p) then gb_bytes_go fixed rest
      else match gb_bytes_record p' with
           | GRecs l => match gb_bytes_go fixed rest with
                        | GRecs t => GRecs (l ++ t)
                        | other => other
                        end
           | other => other
           end
  end.

(** list(minimal_parser(data: bytes)); [fixed] = the source variant that strips leading white space of a record
    (proposed fix C06-7) *)
Definition gb_bytes_parser (fixed : bool) (data : str) : gb_res :=
  gb_bytes_go fixed (split_sep s_nl_slashes O data).

(** rendering of a GenBank flat file as the format defines it (for the theorems and as generated input):
    LOCUS line, optional one-line fields, ORIGIN, lines of 6 groups of 10 residues numbered from 1, "//" *)
Definition right_align (w : nat) (s : str) : str := repeat SP (w - length s) ++ s.

Fixpoint gb_groups (fuel : nat) (s : str) : str :=
  match fuel with
  | O => []
  | S f => match s with
           | [] => []
           | _ => SP :: firstn 10 s ++ gb_groups f (skipn 10 s)
           end
  end.

Fixpoint gb_origin_lines (fuel : nat) (pos : nat) (s : str) : list str :=
  match fuel with
  | O => []
  | S f => match s with
           | [] => []
           | _ => (right_align 9 (dec pos) ++ gb_groups 6 (firstn 60 s)) :: gb_origin_lines f (pos + 60) (skipn 60 s)
           end
  end.

Record gb_rec := { gb_name : str; gb_extra : list str; gb_seq : str }.

Definition gb_locus_of (name : str) (n : nat) : str :=
  s_locus ++ repeat SP 7 ++ name ++ [SP] ++ dec n ++ [SP; 98; 112; SP; SP; SP; SP; 68; 78; 65].
Definition gb_locus_line (r : gb_rec) : str := gb_locus_of (gb_name r) (length (gb_seq r)).

Definition gb_record_lines (r : gb_rec) : list str :=
  gb_locus_line r :: gb_extra r ++ s_origin :: gb_origin_lines (S (length (gb_seq r))) 1 (gb_seq r) ++ [s_double_slash].

Definition gb_write (recs : list gb_rec) : str := join_lines (flat_map gb_record_lines recs).

(* ------------------------------------------------------------------ file name -> (format, compression) *)
(** util/io.py get_format_suffixes.  [path_name], [path_suffix], [path_suffixes] are the pathlib properties of
    Lib/Chars.v; [_wout_period.sub("", sfx)] drops the leading '.'; [.lower()] is ASCII lower-casing here *)
Definition compression_suffixes : list str := [[98; 122; 50]; [103; 122]; [122; 105; 112]].     (* bz2 gz zip *)

Definition get_format_suffixes (filename : str) : option str * option str :=
  let name := path_name filename in
  match path_suffix name with
  | [] => (None, None)
  | _ =>
      let suffixes := map (fun sfx => ascii_lower (tl sfx)) (last_n 2 (path_suffixes name)) in
      let lst := last suffixes [] in
      let cmp := if mem_str lst compression_suffixes then Some lst else None in
      match cmp with
      | Some _ => (match suffixes with [a; _] => Some a | _ => None end, cmp)
      | None => (Some lst, None)
      end
  end.

(* ------------------------------------------------------------------ source variant after fix C06-8b *)
(** iter_fasta_records(bytes) with [if b"\r" in data and b"\n" not in data: data = data.replace(b"\r", b"\n")] *)
Definition cr_only_to_nl (data : str) : str :=
  if existsb (Z.eqb 13) data && negb (existsb (Z.eqb NL) data) then map (fun c => if c =? 13 then NL else c) data else data.
Definition bytes_parser_fixed_cr (data : str) : list rec := bytes_parser_fixed (cr_only_to_nl data).
