(** C09 — runner used by the correspondence check: one case = a tree and one
    operation; the observation is the resulting tree (structure, names,
    lengths), the distance matrix as the CODE computes it ([dist_matrix], the
    transcription of [_get_distances]) and as the SPECIFICATION defines it
    ([pathlen_matrix]), and the tip names.  No proofs here. *)
From CG3 Require Import Lib.PyZ Lib.Val Lib.Rose Model.Tree Model.TreeMid Model.TreeJson Model.TreeDist Model.TreeNames Model.TreeRemove Spec.TreeSpec Spec.TreeTopoSpec.

Inductive op : Type :=
| ORootedAt (nm : name)
| ORootedWithTip (nm : name)
| OUnrooted (fx : bool)
| OUnrootedDeepcopy
| OSubTree (fx : bool) (names : list name) (im kr tipsonly : bool)
| OSorted (order : list name)
| OPrune
| OCopy
| ONewick (esc with_len semicolon : bool)
| ONewickRT (unmunge : bool)
| OParse (text : list Z) (unmunge : bool)
| OJsonRT (fx : bool)
| ODist
| OMidpoint (fx : bool)
| OBifurcating
| OTreeDistRF (other : tree)
| OTreeDistSelf
| ORemoveDeleted (names : list name).

Fixpoint vtree (t : tree) : val :=
  match t with
  | Node n l cs => VL [VS n; voptZ l; VL (map vtree cs)]
  end.

Definition obs_tree (t : tree) : val :=
  VL [vtree t; VL (map voptZ (dist_matrix 1 t)); VL (map VZ (pathlen_matrix 1 t)); VL (map VS (tips t));
      (* the non-trivial splits of the specification (one side each) *)
      VL (map (fun c => VL (map VS c)) (splits t))].

Definition obs_res (r : res tree) : val :=
  match r with
  | Ok t => obs_tree t
  | Err e => VE e
  end.

(** The TreeBuilder used by the tree-to-tree transforms renames repeated and
    empty names ([_unique_name]); the transformation models do not.  Cases with
    such names are outside the model: the runner says so (VE 99). *)
Fixpoint nodup_names (l : list name) : bool :=
  match l with
  | [] => true
  | x :: r => negb (memb x r) && nodup_names r
  end.

Definition names_ok (t : tree) : bool :=
  let ns := map tname (nodes t) in
  nodup_names ns && forallb (fun n => match n with [] => false | _ => negb (str_eqb n edge_str) end) ns.

Definition E_OutsideModel : Z := 99.

Definition guarded (t : tree) (v : val) : val := if names_ok t then v else VE E_OutsideModel.

(** one step: tree-valued operations *)
Definition named (f : tree -> tree) (r : res tree) : res tree :=
  match r with Ok x => Ok (f x) | Err e => Err e end.

(** structure and lengths from Model/Tree.v, node names from Model/TreeNames.v (the TreeBuilder replay), so trees
    with unnamed, repeated or generated-looking names (edge.0, mouse.2) are inside the model *)
Definition step (t : tree) (o : op) : res tree :=
  match o with
  | ORootedAt nm => named name_rerooted (rooted_at t nm)
  | ORootedWithTip nm => named name_rerooted (rooted_with_tip t nm)
  | OUnrooted fx => Ok (name_unrooted (unrooted_v fx t))
  | OUnrootedDeepcopy => named name_rerooted (match reroot_go t [] None with Some r => Ok r | None => Err E_Other end)
  | OSubTree fx sel im kr tipsonly => get_sub_tree_named fx t sel im kr tipsonly
  | OSorted order =>
      (* equal scores (repeated tip names) fall back on comparing node objects: outside the model *)
      if nodup_names (tips t) then Ok (name_sorted (tree_sorted t order)) else Err E_OutsideModel
  | OPrune => Ok (prune t)
  | OCopy => Ok t
  | ONewick _ _ _ => Ok t
  | ONewickRT unmunge => newick_roundtrip unmunge t
  | OParse text unmunge => make_tree unmunge text
  | OJsonRT fx => json_roundtrip_v fx t
  | ODist => Ok t
  | OMidpoint fx =>
      if names_ok t && negb (memb edge0_str (map tname (nodes t)))
      then match root_at_midpoint fx t with Ok (r, _) => Ok r | Err e => Err e end
      else Err E_OutsideModel
  | OBifurcating => Ok (bifurcating t)
  | OTreeDistRF _ => Ok t
  | OTreeDistSelf => Ok t
  | ORemoveDeleted D => Ok (remove_deleted D t)
  end.

Definition obs_resZ (r : res Z) : val := match r with Ok z => VZ z | Err e => VE e end.

Fixpoint run_ops (t : tree) (ops : list op) : val :=
  match ops with
  | [] => obs_tree t
  | [ONewick esc with_len semicolon] => VS (get_newick esc with_len semicolon t)
  | [OTreeDistSelf] =>
      VL [obs_resZ (tree_distance_rf t t); obs_resZ (tree_distance_rf t t); obs_resZ (tree_distance_rf t t)]
  | [OTreeDistRF other] =>
      (* tree_distance(other, "rf") both ways and against itself *)
      VL [obs_resZ (tree_distance_rf t other); obs_resZ (tree_distance_rf other t); obs_resZ (tree_distance_rf t t)]
  | [OMidpoint fx] =>
      (* lengths in doubled units; the second component is the receiver afterwards *)
      if names_ok t && negb (memb edge0_str (map tname (nodes t)))
      then match root_at_midpoint fx t with
           | Ok (r, o) => VL [obs_tree r; vtree o]
           | Err e => VE e
           end
      else VE E_OutsideModel
  | o :: rest =>
      match step t o with
      | Ok t' => run_ops t' rest
      | Err e => VE e
      end
  end.

Definition run_case (c : tree * list op) : val := run_ops (fst c) (snd c).
