(** Runner of the C14 correspondence: a case is a store kind and a list of
    phases; each phase is one `apply_to` of a scripted pipeline on a list of
    inputs under a completion order; the store is closed and re-opened in
    append mode between phases.  The observation of a phase is the final store
    (completed / not-completed records with their contents, log count), the
    multiset of main() invocations and the result of calling the composed app
    on every input alone. *)
From CG3 Require Import Lib.PyZ Lib.Val Model.Apps.

Inductive action :=
| AOk
| ARaise (lastline : str)
| ANone
| ANCsrc (ty : str)        (* return NotCompleted(ty, name, "scripted", source=x) *)
| ANCnosrc (ty : str)      (* return NotCompleted(ty, name, "scripted") *)
| AWrong (cls : str)       (* return an instance of another class *)
| AEmpty                   (* return [] *)
| AList                    (* return [obj] *)
| AStr                     (* return the key as a plain str *)
| AFalsy                   (* return an object whose bool() is False *)
| ADropSrc                 (* return an object whose .source is None *)
| AOdd (cls : str).        (* return a value of class cls whose source cannot be discovered (dict with an odd "info",
                              object whose .source lookup raises, object without source) *)

Record sspec := mkspec {
  sp_name : str;
  sp_kind : apptype;
  sp_types : option (list str);
  sp_skip : bool;
  sp_out : str;
  sp_script : list (str * action) }.

Definition s_scripted : str := [115;99;114;105;112;116;101;100]. (* 'scripted' *)

Definition key_of (v : value) : str :=
  match v with
  | VStr s => s
  | VObj _ k _ _ _ => k
  | VList ((_, k, _, _) :: _) => k
  | _ => []
  end.
Definition trace_of (v : value) : str :=
  match v with
  | VObj _ _ t _ _ => t
  | VList ((_, _, t, _) :: _) => t
  | _ => []
  end.
Definition srcattr_of (v : value) : option str :=
  match v with
  | VStr s => Some s
  | VObj _ _ _ s _ => s
  | VList ((_, _, _, s) :: _) => s
  | _ => None
  end.

Fixpoint lookup_action (k : str) (l : list (str * action)) : action :=
  match l with
  | [] => AOk
  | (k', a) :: r => if str_eqb k k' then a else lookup_action k r
  end.

Definition mk_main (sp : sspec) (v : value) : outcome :=
  match v with
  | VNC _ _ _ _ => Ret v          (* only reachable when skip_not_completed=False: handed back *)
  | _ =>
    let k := key_of v in
    let t := trace_of v ++ sp_name sp ++ [59] in
    let s := srcattr_of v in
    match lookup_action k (sp_script sp) with
    | AOk => Ret (VObj (sp_out sp) k t s true)
    | ARaise m => Raise m
    | ANone => Ret VNone
    | ANCsrc ty => Ret (VNC ty (sp_name sp) s_scripted (source_of v))
    | ANCnosrc ty => Ret (VNC ty (sp_name sp) s_scripted None)
    | AWrong cls => Ret (VObj cls k t s true)
    | AEmpty => Ret (VList [])
    | AList => Ret (VList [(sp_out sp, k, t, s)])
    | AStr => Ret (VStr k)
    | AFalsy => Ret (VObj (sp_out sp) k t s false)
    | ADropSrc => Ret (VObj (sp_out sp) k t None true)
    | AOdd cls => Ret (VObj cls k t None true)
    end
  end.

Definition mk_step (sp : sspec) : step :=
  mkstep (sp_name sp) (sp_kind sp) (sp_types sp) (sp_skip sp) (mk_main sp).

(* -- rendering *)
Definition vostr (o : option str) : val := match o with Some s => VS s | None => VN end.

Definition show_obj (e : str * str * str * option str) : val :=
  let '(c, k, t, s) := e in VL [VS c; VS k; VS t; vostr s].

Definition show_value (v : value) : val :=
  match v with
  | VStr s => VL [VZ 0; VS s]
  | VObj c k t s b => VL [VZ 1; VS c; VS k; VS t; vostr s; VB b]
  | VList items => VL [VZ 2; VL (map show_obj items)]
  | VNone => VN
  | VNC ty o m s => VL [VZ 3; VS ty; VS o; VS m; vostr s]
  end.

Fixpoint dedup_last (l : list (str * value)) : list (str * value) :=
  match l with
  | [] => []
  | e :: r => if mem_str (fst e) (map fst r) then dedup_last r else e :: dedup_last r
  end.

(** live member names (with multiplicity), then the records on disk with contents, then the log count *)
Definition show_store (st : store) (disk_nc : list (str * value)) : list val :=
  [ VL (map (fun e => VS (fst e)) (st_done st));
    VL (map (fun e => VS (fst e)) (st_nc st));
    VL (map (fun e => VL [VS (fst e); VS (fst (snd e)); show_value (snd (snd e))]) (st_done st));
    VL (map (fun e => VL [VS (fst e); show_value (snd e)]) disk_nc);
    VZ (st_logs st) ].

(* -- phases *)
Definition phase := (list sspec * list value * option (list nat) * bool)%type.

Definition kind_of (k : Z) : skind :=
  if k =? 0 then dict_kind else if k =? 2 then dir_kind_fixed else dir_kind.

(** close + re-open in append mode: the member lists are re-read from disk,
    where a not-completed name exists once (last write wins) *)
Definition reopen (st : store) : store := mkstore (st_done st) (dedup_last (st_nc st)) (st_logs st) 2.

Definition item_arg (it : item) : value := match it with Bare v => v | Wrapped o _ => o end.

Definition calls_of (chain : list step) (its : list item) : val :=
  VL (flat_map (fun it => map (fun e => VL [VS (fst e); VS (key_of (snd e))]) (snd (call_log chain (item_arg it)))) its).

(** the case's code: units digit = store kind (0 dictionary, 1 directory pinned, 2 directory with exact-name
    retirement); tens = repairs present in the code under test as bits: 1 _proxy_input keeps falsy objects,
    2 apply_to wraps every input in a source_proxy, 4 store writes replace an existing member.  With no repair bit the
    pinned definitions ([apply_to], [proxy_input]) run, otherwise their [_v] variants. *)
Definition variant_of (k : Z) : variant :=
  let b := k / 10 in mkvariant (Z.odd b) (Z.odd (b / 2)) (Z.odd (b / 4)).

Definition run_phase (k : Z) (st : store) (ph : phase) : result store * val :=
  let K := kind_of (k mod 10) in
  let V := variant_of k in
  let pin := k / 10 =? 0 in
  let '(specs, inputs, sched, logging) := ph in
  let chain := rev (map mk_step specs) in
  let singles := VL (map (fun m => show_value (call chain m)) inputs) in
  (* list(app.as_completed(inputs)) of the composed app without writer *)
  let asc_items := if pin then proxy_input inputs else proxy_input_v V false inputs in
  let asc := VL (map (fun it => show_value (result_data (source_wrapped chain it))) asc_items) in
  let res := if pin then apply_to K chain st inputs sched logging else apply_to_v V K chain st inputs sched logging in
  match res with
  | Exc e => (Exc e, VL [VE e; singles; asc])
  | Ok st' =>
      let todo := match collect K st [] inputs with Ok t => map snd t | Exc _ => [] end in
      let its := if pin then proxy_input todo else proxy_input_v V (v_wrapall V) todo in
      (Ok st', VL (show_store st' (dedup_last (st_nc st')) ++ [calls_of chain its; singles; asc]))
  end.

Fixpoint run_phases (k : Z) (st : store) (phs : list phase) : list val :=
  match phs with
  | [] => []
  | ph :: r =>
      match run_phase k st ph with
      | (Exc _, o) => [o]
      | (Ok st', o) => o :: run_phases k (reopen st') r
      end
  end.

Definition case := (Z * list phase)%type.

Definition run_case (c : case) : val :=
  let '(k, phs) := c in
  VL (run_phases k (mkstore [] [] 0 1) phs).

(** the hypotheses of the exactly-one theorem, decided on the identifiers of a case
    (used by the driver to know which cases the theorem covers) *)
Definition ids_of_inputs (inputs : list value) : list (option str) :=
  map (fun m => unique_id_of (source_of m)) inputs.
