(** C07 — executable model of the scope table of ONE numeric input parameter
    (cogent3/recalculation/scope.py: _Defn.assignments / _indexed /
    interpret_scope / interpret_scopes / _LeafDefn.assign_all /
    get_current_bounds / get_mean_current_value;
    recalculation/definition.py: _InputDefn.get_param_rules,
    ParamDefn.make_cells (number of free parameters);
    evolve/parameter_controller.py: set_param_rule / apply_param_rules).

    The table [assignments] maps every scope tuple (edge, bin, locus) — a
    "scell" — to a Setting OBJECT; cells holding the same object share one
    optimisable parameter (_indexed groups by identity: Setting defines no
    __eq__).  Object identity is the [g_id] of the setting; ids are handed out
    in creation order.  Categories of each dimension are numbered in sorted
    name order, so that the lexicographic order on cells is Python's order
    on the sorted scope tuples.  No proofs in this file. *)
From Coq Require Import List Arith Bool Lia.
Import ListNotations.

Definition scell := (nat * nat * nat)%type.

Definition scell_eqb (a b : scell) : bool :=
  let '(a1, a2, a3) := a in let '(b1, b2, b3) := b in (a1 =? b1) && (a2 =? b2) && (a3 =? b3).

Definition nmem (x : nat) (l : list nat) : bool := existsb (Nat.eqb x) l.

(** a scope specification: per dimension a list of categories, None = the whole dimension *)
Record scope := mk_scope { sc_e : option (list nat); sc_b : option (list nat); sc_l : option (list nat) }.

Definition dim_ok (o : option (list nat)) (x : nat) : bool :=
  match o with None => true | Some l => nmem x l end.

(** interpret_scope: the cells of the table selected by a specification *)
Definition covers (sc : scope) (c : scell) : bool :=
  let '(e, b, l) := c in dim_ok (sc_e sc) e && dim_ok (sc_b sc) b && dim_ok (sc_l sc) l.

Section Scope.
  Variable V : Type.
  Variable ltb : V -> V -> bool.        (* Python < *)
  Variable veqb : V -> V -> bool.       (* Python == *)
  Variable mean : list V -> V.          (* sum(values) / len(values) *)
  Variable dlower dupper : V.           (* bounds of get_default_setting() *)
  Variable indep_default : bool.        (* defn.independent_by_default *)

  (** Var((lower, value, upper)) / ConstVal(value) with its identity *)
  Record stg := mk_stg { g_id : nat; g_const : bool; g_lower : V; g_val : V; g_upper : V }.

  Definition table := list (scell * stg).          (* keys in sorted order, unique *)

  (** one set_param_rule / assign_all call *)
  Record srule := mk_srule {
    ru_scope : scope; ru_indep : option bool; ru_const : bool;
    ru_value : option V; ru_lower : option V; ru_upper : option V }.

  Definition oget (o : option V) (d : V) : V := match o with Some v => v | None => d end.

  (** get_mean_current_value *)
  Definition mean_current (group : list stg) : V :=
    match group with
    | [s] => g_val s
    | _ => mean (map g_val group)
    end.

  (** get_current_bounds l.604-618: constants (get_bounds gives (None, v, None), so upper == lower)
      and settings with upper == lower are skipped; nothing left -> class defaults *)
  Definition current_bounds (group : list stg) : V * V :=
    let step (acc : option V * option V) (s : stg) :=
        if g_const s || veqb (g_upper s) (g_lower s) then acc
        else
          (match fst acc with
           | None => Some (g_lower s)
           | Some lo => if ltb (g_lower s) lo then Some (g_lower s) else Some lo
           end,
           match snd acc with
           | None => Some (g_upper s)
           | Some hi => if ltb hi (g_upper s) then Some (g_upper s) else Some hi
           end) in
    match fold_left step group (None, None) with
    | (Some lo, Some hi) => (lo, hi)
    | _ => (dlower, dupper)
    end.

  (** assign_all, the body of the loop over scopes: the new Setting for one group; None = ValueError *)
  Definition new_stg (r : srule) (id : nat) (group : list stg) : option stg :=
    let sv := match ru_value r with Some v => v | None => mean_current group end in
    if ru_const r then Some (mk_stg id true sv sv sv)
    else
      let '(cl, cu) := current_bounds group in
      let sl := oget (ru_lower r) cl in
      let su := oget (ru_upper r) cu in
      if ltb su sl then None
      else if ltb sv sl then Some (mk_stg id false sl sl su)
      else if ltb su sv then Some (mk_stg id false sl su su)
      else Some (mk_stg id false sl sv su).

  Definition is_indep (r : srule) : bool := match ru_indep r with Some b => b | None => indep_default end.

  (** interpret_scopes with plain category lists: `independent` applies to EVERY
      dimension, mentioned or not: each selected scell is its own group; otherwise
      all selected cells form one group.  All new settings are computed from the
      old table, then assigned. *)
  Fixpoint assign_indep (r : srule) (t : table) (nid : nat) : option (table * nat) :=
    match t with
    | [] => Some ([], nid)
    | (c, s) :: rest =>
        if covers (ru_scope r) c then
          match new_stg r nid [s] with
          | None => None
          | Some ns => match assign_indep r rest (S nid) with
                       | None => None
                       | Some (t', n') => Some ((c, ns) :: t', n')
                       end
          end
        else match assign_indep r rest nid with
             | None => None
             | Some (t', n') => Some ((c, s) :: t', n')
             end
    end.

  Definition assign_rule (r : srule) (tn : table * nat) : option (table * nat) :=
    let '(t, nid) := tn in
    if is_indep r then assign_indep r t nid
    else
      let sel := filter (fun cs => covers (ru_scope r) (fst cs)) t in
      match sel with
      | [] => Some (t, nid)          (* nothing selected (the real code raises InvalidScopeError for unknown categories) *)
      | _ =>
          match new_stg r nid (map snd sel) with
          | None => None
          | Some ns => Some (map (fun cs => if covers (ru_scope r) (fst cs) then (fst cs, ns) else cs) t, S nid)
          end
      end.

  (** apply_param_rules / a history of set_param_rule calls; a failing rule stops the history *)
  Fixpoint assign_rules (rs : list srule) (tn : table * nat) : option (table * nat) :=
    match rs with
    | [] => Some tn
    | r :: rest => match assign_rule r tn with None => None | Some tn' => assign_rules rest tn' end
    end.

  (** a history in which the caller catches the ValueError of a refused rule and carries on:
      assign_all builds the Setting of EVERY scope of the rule before it assigns any of them, so a
      rule one of whose scopes is refused (not necessarily the first one visited) assigns nothing *)
  Definition assign_rule_tol (r : srule) (tn : table * nat) : table * nat :=
    match assign_rule r tn with Some tn' => tn' | None => tn end.

  Definition assign_rules_tol (rs : list srule) (tn : table * nat) : table * nat :=
    fold_left (fun tn r => assign_rule_tol r tn) rs tn.

  (** update_from_calculator: the value of the Setting OBJECT at a scell is overwritten *)
  Definition lookup (t : table) (c : scell) : option stg :=
    match find (fun cs => scell_eqb (fst cs) c) t with Some cs => Some (snd cs) | None => None end.

  Definition set_value (t : table) (c : scell) (v : V) : table :=
    match lookup t c with
    | None => t
    | Some s0 => map (fun cs => if g_id (snd cs) =? g_id s0
                                then (fst cs, mk_stg (g_id (snd cs)) (g_const (snd cs)) (g_lower (snd cs)) v (g_upper (snd cs)))
                                else cs) t
    end.

  (** number of optimisable parameters of this defn: distinct non-constant Setting objects *)
  Fixpoint dedup (l : list nat) : list nat :=
    match l with
    | [] => []
    | x :: t => if nmem x t then dedup t else x :: dedup t
    end.

  Definition free_ids (t : table) : list nat :=
    dedup (map (fun cs => g_id (snd cs)) (filter (fun cs => negb (g_const (snd cs))) t)).

  Definition nfp (t : table) : nat := length (free_ids t).

  (** ** get_param_rules *)
  Definition proj1c (c : scell) := fst (fst c).
  Definition proj2c (c : scell) := snd (fst c).
  Definition proj3c (c : scell) := snd c.

  (** sorted(set(...)): the table is in sorted key order, so first occurrences of a
      projection are not sorted in general; insert-sort them *)
  Fixpoint insert_sorted (x : nat) (l : list nat) : list nat :=
    match l with
    | [] => [x]
    | y :: t => if x <? y then x :: l else if x =? y then l else y :: insert_sorted x t
    end.
  Definition sorted_set (l : list nat) : list nat := fold_right insert_sorted [] l.

  (** a dimension is kept in the exported scopes only if the table uses > 1 category of it *)
  Definition dimensioned (proj : scell -> nat) (t : table) : bool :=
    1 <? length (sorted_set (map (fun cs => proj (fst cs)) t)).

  Definition group_scope (t : table) (keys : list scell) : scope :=
    let d (proj : scell -> nat) := if dimensioned proj t then Some (sorted_set (map proj keys)) else None in
    mk_scope (d proj1c) (d proj2c) (d proj3c).

  Definition scope_has_list (sc : scope) : bool :=
    let m o := match o with Some (_ :: _ :: _) => true | _ => false end in
    m (sc_e sc) || m (sc_b sc) || m (sc_l sc).

  (** ids of the groups in the order get_param_rules emits them.
      [chrono] = false: order of the first scell of each group in the sorted table (the
      pinned code: scoped is filled by iterating self.index); true: creation order of the
      Setting objects (a proposed fix) *)
  Definition group_ids (chrono : bool) (t : table) : list nat :=
    let firsts := rev (dedup (rev (map (fun cs => g_id (snd cs)) t))) in
    if chrono then sorted_set firsts else firsts.

  Definition export_group (t : table) (nGroups : nat) (id : nat) : option srule :=
    let cells := filter (fun cs => g_id (snd cs) =? id) t in
    match cells with
    | [] => None
    | (_, s) :: _ =>
        let sc0 := group_scope t (map fst cells) in
        let flag := if indep_default && scope_has_list sc0 then Some false else None in
        let sc := if nGroups =? 1 then mk_scope None None None else sc0 in     (* is_global: the scope keys are popped *)
        Some (if g_const s then mk_srule sc flag true (Some (g_val s)) None None
              else mk_srule sc flag false (Some (g_val s)) (Some (g_lower s)) (Some (g_upper s)))
    end.

  Definition export_rules (chrono : bool) (t : table) : list srule :=
    let ids := group_ids chrono t in
    flat_map (fun id => match export_group t (length ids) id with Some r => [r] | None => [] end) ids.
End Scope.

Arguments mk_stg {V}.
Arguments g_id {V}.
Arguments g_const {V}.
Arguments g_lower {V}.
Arguments g_val {V}.
Arguments g_upper {V}.
Arguments mk_srule {V}.
Arguments ru_scope {V}.
Arguments ru_indep {V}.
Arguments ru_const {V}.
Arguments ru_value {V}.
Arguments ru_lower {V}.
Arguments ru_upper {V}.
