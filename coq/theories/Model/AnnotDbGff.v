(** C17 — model of the chunked GFF load: [annotation_db._db_from_gff] (one path),
    [parse.gff.merged_gff_records], [GffAnnotationDb.add_records],
    [GffAnnotationDb.update_record_spans], [_merge_spans] and
    [util.io.iter_line_blocks], transcribed from the source.

    A file is a list of lines; a line is [Some gline] (a data row) or [None]
    (comment / directive / blank line: it occupies a slot of a block but yields
    no record).  Names of ID-less rows are [unknown-<k>]; they are kept as
    [GFake k] so that they cannot collide with a real ID (a GFF file whose
    real IDs are literally [unknown-<k>] is outside the model).

    [fixed = false] is the rule in the source as first read (a name seen in an
    earlier block has its spans merged into the stored record, start/stop are
    left alone, and the rows are inserted again as a second record);
    [fixed = true] is the repaired rule of notes/proposed_fixes/C17-3.diff
    (spans merged, start/stop recomputed, no second record). *)
From CG3 Require Import Lib.PyZ Lib.Val Model.AnnotDb.

Inductive gname := GReal (s : str) | GFake (k : Z).

Definition gname_eqb (a b : gname) : bool :=
  match a, b with
  | GReal x, GReal y => str_eqb x y
  | GFake x, GFake y => x =? y
  | _, _ => false
  end.

Definition gmem (n : gname) (l : list gname) : bool := existsb (gname_eqb n) l.

(** one data row: ID attribute if any, the columns kept, raw 1-based closed coordinates *)
Record gline := {
  gl_id : option str;
  gl_seqid : str;
  gl_biotype : str;
  gl_strand : str;
  gl_attrs : str;
  gl_s : Z;
  gl_e : Z }.

Definition gl_span (l : gline) : Z * Z := gff_coord (gl_s l) (gl_e l).

(** an entry of the OrderedDict [reduced]: the first row with that name, spans in row order *)
Record grec := { g_name : gname; g_first : gline; g_spans : list (Z * Z) }.

Definition single (n : gname) (l : gline) : grec :=
  {| g_name := n; g_first := l; g_spans := [gl_span l] |}.

Fixpoint add_to (n : gname) (l : gline) (acc : list grec) : list grec :=
  match acc with
  | [] => [single n l]
  | r :: t =>
      if gname_eqb (g_name r) n
      then {| g_name := g_name r; g_first := g_first r; g_spans := g_spans r ++ [gl_span l] |} :: t
      else r :: add_to n l t
  end.

(** [merged_gff_records(records, num_fake_ids)] *)
Fixpoint merged (ls : list gline) (k : Z) (acc : list grec) : list grec * Z :=
  match ls with
  | [] => (acc, k)
  | l :: t =>
      match gl_id l with
      | Some s => merged t k (add_to (GReal s) l acc)
      | None => merged t (k + 1) (add_to (GFake k) l acc)
      end
  end.

(** a row of the gff table *)
Record grow := {
  gr_name : gname;
  gr_line : gline;
  gr_spans : list (Z * Z);
  gr_start : Z;
  gr_stop : Z }.

(** [add_records]: rows sorted, each span ordered, start/stop = min/max *)
Definition mk_grow (r : grec) : grow :=
  let s := norm_spans (g_spans r) in
  {| gr_name := g_name r; gr_line := g_first r; gr_spans := s;
     gr_start := spans_min s; gr_stop := spans_max s |}.

Definition span_eqb (a b : Z * Z) : bool := (fst a =? fst b) && (snd a =? snd b).

Fixpoint spans_eqb (a b : list (Z * Z)) : bool :=
  match a, b with
  | [], [] => true
  | x :: a', y :: b' => span_eqb x y && spans_eqb a' b'
  | _, _ => false
  end.

(** drop adjacent duplicates of a sorted list ([numpy.unique(axis=0)] after sorting) *)
Fixpoint dedup (l : list (Z * Z)) : list (Z * Z) :=
  match l with
  | x :: ((y :: _) as t) => if span_eqb x y then dedup t else x :: dedup t
  | _ => l
  end.

(** [_merge_spans(old, new)] *)
Definition merge_spans (old new : list (Z * Z)) : list (Z * Z) :=
  if spans_eqb old new then old else dedup (sort_spans (old ++ new)).

(** [update_record_spans(name, spans)]: the first row with that name supplies
    the old spans, every row with that name receives the merged spans *)
Definition update_spans (fixed : bool) (db : list grow) (n : gname) (new : list (Z * Z)) : list grow :=
  match new with
  | [] => db
  | _ =>
      match find (fun r => gname_eqb (gr_name r) n) db with
      | None => db
      | Some r0 =>
          let m := merge_spans (gr_spans r0) new in
          map (fun r =>
                 if gname_eqb (gr_name r) n then
                   {| gr_name := gr_name r; gr_line := gr_line r; gr_spans := m;
                      gr_start := if fixed then spans_min m else gr_start r;
                      gr_stop := if fixed then spans_max m else gr_stop r |}
                 else r) db
      end
  end.

Record gstate := { st_k : Z; st_seen : list gname; st_db : list grow }.

Definition st_init : gstate := {| st_k := 0; st_seen := []; st_db := [] |}.

Fixpoint data_lines (b : list (option gline)) : list gline :=
  match b with
  | [] => []
  | Some l :: t => l :: data_lines t
  | None :: t => data_lines t
  end.

(** body of [for block in iter_line_blocks(...)] *)
Definition block_step (fixed : bool) (st : gstate) (block : list (option gline)) : gstate :=
  let '(data, k') := merged (data_lines block) (st_k st) [] in
  let again := filter (fun r => gmem (g_name r) (st_seen st)) data in
  let db1 := fold_left (fun db r => update_spans fixed db (g_name r) (g_spans r)) again (st_db st) in
  let fresh := if fixed then filter (fun r => negb (gmem (g_name r) (st_seen st))) data else data in
  {| st_k := k'; st_seen := st_seen st ++ map g_name data; st_db := db1 ++ map mk_grow fresh |}.

(** [iter_line_blocks]: blocks of [n] lines, the last one shorter *)
Fixpoint chunks {A} (fuel : nat) (n : nat) (l : list A) : list (list A) :=
  match fuel with
  | O => []
  | S f => match l with [] => [] | _ => firstn n l :: chunks f n (skipn n l) end
  end.

(** [num_lines] None (here: any value <= 0, for which [len(lines) == num_lines]
    never holds either) gives one block *)
Definition blocks {A} (N : Z) (l : list A) : list (list A) :=
  if N <=? 0 then match l with [] => [] | _ => [l] end
  else chunks (length l) (Z.to_nat N) l.

Definition load (fixed : bool) (N : Z) (lines : list (option gline)) : gstate :=
  fold_left (block_step fixed) (blocks N lines) st_init.

(** ---------- several files (a path with wildcards) ---------- *)
(** [for path in paths]: [seen_ids] and the table are shared by the files;
    [carry = true]: the fake-id counter is shared as well (the rule of
    notes/proposed_fixes/C17-4.diff); [carry = false]: it restarts at 0 for
    every file (the source as first read, finding C17-4) *)
Definition file_step (fixed carry : bool) (N : Z) (st : gstate) (f : list (option gline)) : gstate :=
  fold_left (block_step fixed) (blocks N f)
    (if carry then st else {| st_k := 0; st_seen := st_seen st; st_db := st_db st |}).

Definition load_files (fixed carry : bool) (N : Z) (files : list (list (option gline))) : gstate :=
  fold_left (file_step fixed carry N) files st_init.

(** ---------- observation ---------- *)
Definition gname_val (n : gname) : val := match n with GReal s => VS s | GFake k => VL [VZ k] end.
Definition grow_val (r : grow) : val :=
  VL [gname_val (gr_name r); VS (gl_seqid (gr_line r)); VS (gl_biotype (gr_line r));
      VS (gl_strand (gr_line r)); VS (gl_attrs (gr_line r));
      VL (map vpairZ (gr_spans r)); VZ (gr_start r); VZ (gr_stop r)].

Definition mkgl (id : option str) (seqid biotype strand attrs : str) (s e : Z) : option gline :=
  Some {| gl_id := id; gl_seqid := seqid; gl_biotype := biotype; gl_strand := strand;
          gl_attrs := attrs; gl_s := s; gl_e := e |}.

(** a case: variant, file, block sizes; one record list per block size *)
Definition run_blocks (c : bool * list (option gline) * list Z) : val :=
  let '(fixed, lines, Ns) := c in
  VL (map (fun N => VL (map grow_val (st_db (load fixed N lines)))) Ns).

(** a case: variants, files in the order the loader visits them, block sizes *)
Definition run_files (c : bool * bool * list (list (option gline)) * list Z) : val :=
  let '(fixed, carry, files, Ns) := c in
  VL (map (fun N => VL (map grow_val (st_db (load_files fixed carry N files)))) Ns).
