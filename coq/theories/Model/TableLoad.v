(** Model of the load side of the delimited round trip (property C20):
    [load_table] (src/cogent3/__init__.py l.567-686) after [load_delimited]
    has produced the records: consistency check, columns of text, type
    inference per column with [cast_str_to_array] (src/cogent3/util/table.py
    l.93-135, after fix C20-3: numpy [astype] to int, float, complex on the
    whole column, else [ast.literal_eval] cell by cell keeping every result
    that is not a str/bytes), then [make_table].

    Text is CLASSIFIED first ([classify_text]); the classification is exact on
    the classes it names and says [TUnknown] for everything whose treatment by
    int()/float()/complex()/literal_eval is not transcribed here (signs '+',
    underscores, surrounding white space, inf/nan, hex, quotes, brackets,
    punctuation ...): a column holding such a cell is "not modelled"
    ([Er E_NotModelled]) and is compared by the correspondence only.

    Floats: a float literal is read as the decimal it denotes, normalised
    (no trailing zero in the mantissa).  This is the float CPython obtains and
    prints back with repr() whenever the decimal has at most 15 significant
    digits and a moderate exponent (IEEE-754 double: DBL_DIG = 15) -- that
    property of binary64 is an ASSUMPTION of this model (trusted base), which
    is why literals with more digits are [TUnknown].

    No proofs in this file. *)
From Coq Require Import QArith.
From CG3 Require Import Lib.PyZ Lib.Chars Lib.StableSort Lib.Val Model.Csv Model.Table.
Import ListNotations.
Open Scope Z_scope.

(* ------------------------------------------------------------------ scanning *)

Definition is_digit (c : Z) : bool := (48 <=? c) && (c <=? 57).

Fixpoint digits_val (acc : Z) (s : str) : Z :=
  match s with
  | [] => acc
  | c :: t => digits_val (acc * 10 + (c - 48)) t
  end.

(* longest prefix of digits, and the rest *)
Fixpoint span_digits (s : str) : str * str :=
  match s with
  | c :: t => if is_digit c then let '(d, r) := span_digits t in (c :: d, r) else ([], s)
  | [] => ([], [])
  end.

Definition split_sign (s : str) : bool * str :=
  match s with
  | 45 :: t => (true, t)
  | _ => (false, s)
  end.

(* [eE][+-]?digits+ at the end of the text *)
Definition parse_exponent (s : str) : option (option Z) :=
  match s with
  | [] => Some None
  | c :: t =>
      if (c =? 101) || (c =? 69) then
        let '(neg, r) := match t with
                         | 45 :: t' => (true, t')
                         | 43 :: t' => (false, t')
                         | _ => (false, t)
                         end in
        let '(d, r') := span_digits r in
        match d, r' with
        | _ :: _, [] => Some (Some (if neg then - digits_val 0 d else digits_val 0 d))
        | _, _ => None
        end
      else None
  end.

(* sign, integer digits, fraction digits (if there is a '.'), exponent (if there is one) *)
Definition scan_number (s : str) : option (bool * str * option str * option Z) :=
  let '(neg, r) := split_sign s in
  let '(ip, r1) := span_digits r in
  let '(frac, r2) := match r1 with
                     | 46 :: t => let '(f, r') := span_digits t in (Some f, r')
                     | _ => (None, r1)
                     end in
  match parse_exponent r2 with
  | None => None
  | Some ex =>
      match ip, frac with
      | [], None => None
      | [], Some [] => None
      | _, _ => Some (neg, ip, frac, ex)
      end
  end.

(* ------------------------------------------------------------------ classification of one cell text *)

Inductive tclass :=
| TInt (z : Z)          (* canonical decimal int, optional '-', no leading zero: int(), float() and literal_eval read it *)
| TIntLead (z : Z)      (* digits with leading zeros: int() and float() read it, literal_eval rejects it *)
| TFloat (m e : Z)      (* decimal float literal with <= 15 significant digits: the float m * 10^e *)
| TBool (b : bool)      (* exactly True / False *)
| TNone                 (* exactly None *)
| TPlain                (* text no reader converts: it stays text *)
| TUnknown.             (* not transcribed *)

Definition is_letter (c : Z) : bool := ((65 <=? c) && (c <=? 90)) || ((97 <=? c) && (c <=? 122)) || (c =? 95).
Definition is_word_char (c : Z) : bool := is_letter c || is_digit c || (c =? 32).

(* names float() / complex() read although they look like words *)
Definition special_names : list str :=
  [[110;97;110]; [105;110;102]; [105;110;102;105;110;105;116;121]; [106];
   [110;97;110;106]; [105;110;102;106]; [105;110;102;105;110;105;116;121;106]].

Definition last_char (s : str) : Z := last s 0.

Definition plain_textb (s : str) : bool :=
  match s with
  | [] => true                      (* the empty string: SyntaxError in literal_eval, ValueError in astype *)
  | c :: _ =>
      is_letter c && forallb is_word_char s && negb (last_char s =? 32) &&
      negb (mem_str (ascii_lower s) special_names) &&
      negb (str_eqb s s_True) && negb (str_eqb s s_False) && negb (str_eqb s s_None)
  end.

Definition pow10 (k : Z) : Z := 10 ^ k.

Definition classify_text (s : str) : tclass :=
  if str_eqb s s_True then TBool true
  else if str_eqb s s_False then TBool false
  else if str_eqb s s_None then TNone
  else if plain_textb s then TPlain
  else
    match scan_number s with
    | None => TUnknown
    | Some (neg, ip, None, None) =>
        let v := digits_val 0 ip in
        if neg && (v =? 0) then TUnknown            (* "-0": int 0 but float -0.0 *)
        else
          let z := if neg then - v else v in
          match ip with
          | 48 :: _ :: _ => TIntLead z
          | _ => TInt z
          end
    | Some (neg, ip, frac, ex) =>
        let f := match frac with Some f => f | None => [] end in
        let x := match ex with Some x => x | None => 0 end in
        let me := norm_dec (digits_val 0 (ip ++ f)) (x - zlen f) in
        let m := fst me in
        let e := snd me in
        if neg && (m =? 0) then TUnknown            (* -0.0 *)
        else if negb (m <? pow10 15) then TUnknown  (* more than 15 significant digits: needs binary rounding *)
        else if (e <? -290) || (290 <? e) then TUnknown
        else TFloat (if neg then - m else m) e
    end.

(* ------------------------------------------------------------------ cast_str_to_array *)

Definition int_like (c : tclass) : bool := match c with TInt _ => true | TIntLead _ => true | _ => false end.
Definition float_like (c : tclass) : bool := match c with TInt _ => true | TIntLead _ => true | TFloat _ _ => true | _ => false end.
Definition is_unknown (c : tclass) : bool := match c with TUnknown => true | _ => false end.

Definition int_of (c : tclass) : cell := match c with TInt z => CI z | TIntLead z => CI z | _ => CN end.

Definition float_of (c : tclass) : cell :=
  match c with
  | TInt z => to_float (CI z)
  | TIntLead z => to_float (CI z)
  | TFloat m e => CF m e
  | _ => CN
  end.

(* literal_eval on one cell of a column that is not numeric as a whole *)
Definition literal_cell (s : str) (c : tclass) : cell :=
  match c with
  | TInt z => CI z
  | TFloat m e => CF m e
  | TBool b => CB b
  | TNone => CN
  | _ => CS s                      (* TIntLead ("007": SyntaxError) and TPlain stay text *)
  end.

Definition int64_ok (c : tclass) : bool :=
  match c with
  | TInt z => (- 2 ^ 63 <=? z) && (z <? 2 ^ 63)
  | TIntLead z => (- 2 ^ 63 <=? z) && (z <? 2 ^ 63)
  | _ => true
  end.

(* ints read as floats are exact only below 2^53 *)
Definition float_exact (c : tclass) : bool :=
  match c with
  | TInt z => Z.abs z <? pow10 15
  | TIntLead z => Z.abs z <? pow10 15
  | _ => true
  end.

Definition cast_str_to_array (values : list str) : res (list cell) :=
  let cls := map classify_text values in
  match values with
  | [] => Ok []
  | _ =>
      if existsb is_unknown cls then Er E_NotModelled
      else if forallb int_like cls then
        (if forallb int64_ok cls then Ok (map int_of cls) else Er E_NotModelled)
      else if forallb float_like cls then
        (if forallb float_exact cls then Ok (map float_of cls) else Er E_NotModelled)
      else Ok (map (fun sc => literal_cell (fst sc) (snd sc)) (combine values cls))
  end.

(* ------------------------------------------------------------------ load_table on the parsed records *)

Definition text_columns (ncols : nat) (rows : list (list str)) : list (list str) :=
  map (fun j => map (fun r => nth j r []) rows) (seq 0 ncols).

Fixpoint cast_columns (cs : list (list str)) : res (list (list cell)) :=
  match cs with
  | [] => Ok []
  | c :: cs' => bind (cast_str_to_array c) (fun v => bind (cast_columns cs') (fun vs => Ok (v :: vs)))
  end.

Definition load_records (records : list (list str)) : res table :=
  match records with
  | [] => Er E_Index
  | header :: rows =>
      if negb (forallb (fun r => Nat.eqb (length r) (length header)) rows) then Er E_Value
      else bind (cast_columns (text_columns (length header) rows)) (fun data =>
             set_cols empty_table header data)
  end.

(* Table.write(sep=d) ; load_table(path, sep=d) *)
Definition write_then_load (d : Z) (records : list (list str)) : res table :=
  match csv_read d (fmt_rows d records) with
  | None => Er E_Other
  | Some recs => load_records recs
  end.
