(** C16 — _InputDefn.update_from_calculator (cogent3.recalculation.definition l.253-271):
    the step in the [finally:] of ParameterController.optimise that copies the
    optimiser's best point from the calculator back into the likelihood
    function.  A log-scale parameter comes back as exp(log(x)), which can miss a
    bound by a rounding error; such a value is snapped to THAT bound, a value
    further outside raises ParameterOutOfBoundsError.

        if setting.is_constant: ...
        elif setting.lower and output < setting.lower:
            if not numpy.allclose(output, setting.lower): raise ...
            output = setting.lower
        elif setting.upper and output > setting.upper:
            if not numpy.allclose(output, setting.upper): raise ...
            output = setting.upper
        setting.value = output

    Numbers are integers (a fixed-point unit); [close] is numpy.allclose.  Note
    the truth tests: a bound that is None or 0.0 is skipped.  No proofs here. *)
From CG3 Require Import Lib.PyZ Lib.Val.

Inductive ufc_res := UOk (v : Z) | UOutOfBounds.

(** [setting.lower and ...] *)
Definition truthy (o : option Z) : option Z := match o with Some 0 => None | x => x end.

Definition upper_branch (close : Z -> Z -> bool) (upper : option Z) (output : Z) : ufc_res :=
  match truthy upper with
  | Some u => if u <? output then (if close output u then UOk u else UOutOfBounds) else UOk output
  | None => UOk output
  end.

Definition update_one (close : Z -> Z -> bool) (is_const : bool) (lower upper : option Z) (output : Z) : ufc_res :=
  if is_const then UOk output
  else match truthy lower with
       | Some l => if output <? l then (if close output l then UOk l else UOutOfBounds)
                   else upper_branch close upper output
       | None => upper_branch close upper output
       end.

(** the copy-paste slip: the upper branch assigns the LOWER bound *)
Definition update_one_swapped (close : Z -> Z -> bool) (is_const : bool) (lower upper : option Z) (output : Z) : ufc_res :=
  if is_const then UOk output
  else match truthy lower with
       | Some l => if output <? l then (if close output l then UOk l else UOutOfBounds)
                   else match truthy upper with
                        | Some u => if u <? output then (if close output u then UOk l else UOutOfBounds) else UOk output
                        | None => UOk output
                        end
       | None => upper_branch close upper output
       end.

(** numpy.allclose(a, b) with the default rtol = 1e-5, atol = 1e-8, unit 1e-12 *)
Definition allclose (a b : Z) : bool := Z.abs (a - b) <=? 10000 + Z.abs b / 100000.

(** runner: (is_const, lower, upper, output) *)
Definition run_ufc (c : bool * option Z * option Z * Z) : val :=
  let '(k, lo, hi, out) := c in
  match update_one allclose k lo hi out with UOk v => VZ v | UOutOfBounds => VE 9 end.
