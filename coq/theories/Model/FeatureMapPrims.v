(** C08 — attribute reads of span objects used by the generated FeatureMap code
    (harness/translators/featuremap.py): [span.start], [span.end], [span.reverse]
    ([span.length] is [slen], [span.lost] is [is_lost] of Model/FeatureMap.v).
    A LostSpan has none of the three (AttributeError): the generated code only
    reads them after testing [lost]; the values given here for [FL] are never used. *)
From CG3 Require Import Lib.PyZ Lib.Val Model.IndelMap Model.FeatureMap.

Definition sp_start (sp : fspan) : Z := match sp with FS s _ _ => s | FL _ => 0 end.
Definition sp_end (sp : fspan) : Z := match sp with FS _ e _ => e | FL _ => 0 end.
Definition sp_rev (sp : fspan) : bool := match sp with FS _ _ r => r | FL _ => false end.

(** [IndelMap.make_seq_feature_map] l.1596 on a feature map in alignment coordinates: lost spans are skipped, every other
    span [start, end) becomes [Span(get_seq_index(start), get_seq_index(end))] (forward), parent = the sequence *)
Definition real_spans (afm : fmap) : list (Z * Z) :=
  flat_map (fun sp => match sp with FS s e _ => [(s, e)] | FL _ => [] end) (fspans afm).

Definition make_seq_feature_map (m : imap) (afm : fmap) : res fmap :=
  bind (make_seq_coords m (real_spans afm)) (fun cs =>
    Ok (mk_fmap (map (fun se : Z * Z => mk_span (fst se) (snd se) false) cs) (parent_length m))).
