(** C08 — attribute reads of span objects used by the generated FeatureMap code
    (harness/translators/featuremap.py): [span.start], [span.end], [span.reverse]
    ([span.length] is [slen], [span.lost] is [is_lost] of Model/FeatureMap.v).
    A LostSpan has none of the three (AttributeError): the generated code only
    reads them after testing [lost]; the values given here for [FL] are never used. *)
From CG3 Require Import Lib.PyZ Lib.Val Model.IndelMap Model.FeatureMap.

Definition sp_start (sp : fspan) : Z := match sp with FS s _ _ => s | FL _ => 0 end.
Definition sp_end (sp : fspan) : Z := match sp with FS _ e _ => e | FL _ => 0 end.
Definition sp_rev (sp : fspan) : bool := match sp with FS _ _ r => r | FL _ => false end.
