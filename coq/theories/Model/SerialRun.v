(** C10 - runner of the serialisation model for the correspondence check:
    [run_case : case -> val].  The state of the object (view fields, parent string, gap map) is the one
    observed on the real object after its history; the model encodes it, decodes the dict again and
    reports what the encoder wrote and what the decoder built.  No proofs here. *)
From Coq Require Import Strings.String.
From CG3 Require Import Lib.PyZ Lib.Val Lib.PySlice Model.View Model.Serial.
From CG3 Require Model.IndelMap Spec.IndelMapSpec Spec.SerialSpec.
From CG3 Require Lib.Rose Model.Tree Model.FeatureMap Model.AnnotDb.

Inductive case :=
| CSeq (st : style) (k : kind) (v : view) (p : list Z)
| CView (st : style) (v : view) (p : list Z)
| CAligned (gp cum : list Z) (plen : Z) (k : kind) (v : view) (p : list Z)
| CImap (gp cum : list Z) (plen : Z)
| CTree (t : Rose.tree)
| CTable (ix : option (list Z)) (attrs : dict) (cols : list (list Z * list Z * list json))
| CDarr (names : list (list json)) (arr : json)
| CNC (args : list json) (kwargs : dict)
| CDmat (names : list (list Z)) (rows : list (list json)) (invalid : json)
| CFmap (spans : list FeatureMap.fspan) (plen : Z)
| CDb (rows : list AnnotDb.row)
| CSeqDb (k : kind) (v : view) (p : list Z) (rows : list AnnotDb.row)
| CMolType (label : list Z)
| CAlphabet (motifs : list (list Z)) (gap : option (list Z)) (label : list Z)
| CDispatch (reg : list (list Z * list Z)) (types : list (list Z))
| CRegistry
| CExpected.

Definition vview (v : view) : val := VL [VZ (start v); VZ (stop v); VZ (step v); VZ (seq_len v); VZ (offset v)].

Definition vres {A} (f : A -> val) (r : res A) : val := match r with Ok a => f a | Err e => VE e end.

(** [parent_coordinates()] without the seqid *)
Definition vpc (v : view) : val :=
  VL [VZ (parent_start v); VZ (parent_stop v); VZ (if is_reversed v then -1 else 1)].

Definition dict_of (j : json) : dict := match j with JObj d => d | _ => [] end.

Definition field_str (k : list Z) (d : dict) : val := match jget k d with Some (JStr s) => VS s | _ => VN end.
Definition field_int (k : list Z) (d : dict) : val := match jget k d with Some (JInt z) => VZ z | _ => VN end.
Definition field_ints (k : list Z) (d : dict) : val :=
  match jget k d with Some (JArr l) => VL (map (fun j => match j with JInt z => VZ z | _ => VN end) l) | _ => VN end.
Definition sub_dict (k : list Z) (d : dict) : dict := match jget k d with Some (JObj o) => o | _ => [] end.

Definition vseq_after (s : seqobj) : val :=
  let c := s_core s in VL [vview (sv c); VS (parent c); VS (realise c); vpc (sv c)].

(** a JSON value as a [val]: objects and floats are tagged *)
Fixpoint vjson (j : json) : val :=
  match j with
  | JNull => VN
  | JBool b => VB b
  | JInt z => VZ z
  | JStr s => VS s
  | JArr l => VL (map vjson l)
  | JObj o => VL [VE 0; VL (map (fun kv => VL [VS (fst kv); vjson (snd kv)]) o)]
  | JFloat r => VL [VE 1; VS r]
  end.

Fixpoint vtree (t : Rose.tree) : val :=
  match t with
  | Rose.Node n l cs => VL [VS n; voptZ l; VL (map vtree cs)]
  end.

(** encode, decode through the registry, encode what came back *)
Definition reencode (x : obj) : val :=
  let j := to_dict x in
  VL [ vjson j; match deserialise_object j with Ok y => vjson (to_dict y) | Err e => VE e end ].

Definition decoder_name (f : decoder) : list Z :=
  match f with
  | DTabular => zs "cogent3.util.deserialise.deserialise_tabular"
  | DSeqView => zs "cogent3.util.deserialise.deserialise_seqview"
  | DNotCompleted => zs "cogent3.util.deserialise.deserialise_not_completed"
  | DResult => zs "cogent3.util.deserialise.deserialise_result"
  | DMolType => zs "cogent3.util.deserialise.deserialise_moltype"
  | DAlphabet => zs "cogent3.util.deserialise.deserialise_alphabet"
  | DAligned => zs "cogent3.util.deserialise.deserialise_aligned"
  | DSeq => zs "cogent3.util.deserialise.deserialise_seq"
  | DSeqCollections => zs "cogent3.util.deserialise.deserialise_seq_collections"
  | DTree => zs "cogent3.util.deserialise.deserialise_tree"
  | DSubstitutionModel => zs "cogent3.util.deserialise.deserialise_substitution_model"
  | DLikelihoodFunction => zs "cogent3.util.deserialise.deserialise_likelihood_function"
  | DIndelMap => zs "cogent3.core.location.deserialise_indelmap"
  | DFeatureMap => zs "cogent3.core.location.deserialise_featuremap"
  | DBasicDb => zs "cogent3.core.annotation_db.deserialise_basic_db"
  | DGffDb => zs "cogent3.core.annotation_db.deserialise_gff_db"
  | DGbDb => zs "cogent3.core.annotation_db.deserialise_gb_db"
  | DAnnotationToDb => zs "cogent3.core.annotation_db.convert_annotation_to_annotation_db"
  | DCharAlphabet => zs "cogent3.core.new_alphabet.deserialise_char_alphabet"
  | DKmerAlphabet => zs "cogent3.core.new_alphabet.deserialise_kmer_alphabet"
  | DCodonAlphabet => zs "cogent3.core.new_alphabet.deserialise_codon_alphabet"
  | DNewSequence => zs "cogent3.core.new_sequence.deserialise_sequence"
  | DNewProteinSequence => zs "cogent3.core.new_sequence.deserialise_protein_sequence"
  | DNewByteSequence => zs "cogent3.core.new_sequence.deserialise_bytes_sequence"
  | DNewProteinWithStopSequence => zs "cogent3.core.new_sequence.deserialise_protein_with_stop_sequence"
  | DNewDnaSequence => zs "cogent3.core.new_sequence.deserialise_dna_sequence"
  | DNewRnaSequence => zs "cogent3.core.new_sequence.deserialise_rna_sequence"
  | DSeqsData => zs "cogent3.core.new_alignment.deserialise_seqs_data"
  | DNewSequenceCollection => zs "cogent3.core.new_alignment.deserialise_sequence_collection"
  | DOther n => n
  end.

Definition run_case (c : case) : val :=
  match c with
  | CSeq st k v p =>
      let s := mkSeq (mkS v p k true) (Some (zs "s")) [] in
      let d := dict_of (seq_to_dict st s) in
      let ia := sub_dict k_init_args (sub_dict k_seq d) in
      VL [ field_str k_seq ia; field_int k_step ia; field_int k_annotation_offset d; field_str k_type d;
           (* through the registry, as deserialise_object does *)
           match deserialise_object (JObj d) with
           | Ok (OSeq _ s') => vseq_after s'
           | Ok _ => VE E_Other
           | Err e => VE e
           end ]
  | CView st v p =>
      let d := dict_of (view_to_dict st v p None) in
      let ia := sub_dict k_init_args d in
      VL [ field_str k_seq ia; field_int k_step ia;
           match st with
           | SOld => vres (fun '(v', sg, _) => VL [vview v'; VS sg; VS (value v' sg)]) (view_of_dict_old d)
           | SNew => let '(r, sg) := copy_sliced true v p in vres (fun v' => VL [vview v'; VS sg; VS (value v' sg)]) r
           end ]
  | CAligned gp cum plen k v p =>
      let a := mkAl (IndelMap.mk_imap gp cum plen) (mkSeq (mkS v p k true) (Some (zs "s")) []) in
      let d := dict_of (aligned_to_dict a) in
      let md := sub_dict k_map_init d in
      let sd := sub_dict k_seq_init d in
      let ia := sub_dict k_init_args (sub_dict k_seq sd) in
      VL [ VL [field_ints k_gap_pos md; field_ints k_cum_gap_lengths md; field_int k_parent_length md];
           field_str k_seq ia; field_int k_step ia; field_int k_annotation_offset sd;
           match deserialise_object (JObj d) with
           | Ok (OAligned a') =>
               let m' := a_map a' in
               VL [ VL [vlistZ (IndelMap.gap_pos m'); vlistZ (IndelMap.cum_gap_lengths m'); VZ (IndelMap.parent_length m')];
                    vseq_after (a_seq a');
                    VS (SerialSpec.gapped (IndelMapSpec.abs m') (realise (s_core (a_seq a')))) ]
           | Ok _ => VE E_Other
           | Err e => VE e
           end ]
  | CImap gp cum plen =>
      let d := dict_of (imap_to_dict (IndelMap.mk_imap gp cum plen)) in
      VL [ VL [field_ints k_gap_pos d; field_ints k_cum_gap_lengths d; field_int k_parent_length d];
           match deserialise_object (JObj d) with
           | Ok (OImap m') => VL [vlistZ (IndelMap.gap_pos m'); vlistZ (IndelMap.cum_gap_lengths m'); VZ (IndelMap.parent_length m')]
           | Ok _ => VE E_Other
           | Err e => VE e
           end ]
  | CTree t =>
      let d := dict_of (tree_to_dict t) in
      VL [ field_str k_newick d;
           VL (map (fun kv => VL [VS (fst kv); match snd kv with JObj ps => match jget k_length ps with Some (JInt z) => VZ z | _ => VN end | _ => VN end])
                   (sub_dict k_edge_attributes d));
           match deserialise_object (JObj d) with
           | Ok (OTree t') => vtree t'
           | Ok _ => VE E_Other
           | Err e => VE e
           end ]
  | CTable ix attrs cols => reencode (OTable (mkTab ix attrs (map (fun c => mkCol (fst (fst c)) (snd (fst c)) (snd c)) cols)))
  | CDarr names arr => reencode (ODarr (mkDarr names arr))
  | CNC args kwargs => reencode (ONotCompleted (mkNC args kwargs))
  | CDmat names rows inv => reencode (ODmat (mkDm names rows inv))
  | CFmap spans plen => reencode (OFmap (FeatureMap.mk_fmap spans plen))
  | CDb rows => reencode (ODb [0; 1] rows)
  | CSeqDb k v p rows => reencode (OSeqDb (mkSeq (mkS v p k true) (Some (zs "s")) []) [0; 1] rows)
  | CMolType l => reencode (OMolType l)
  | CAlphabet ms g l => reencode (OAlphabet (mkAlpha ms g l))
  | CDispatch reg types =>
      let r := map (fun kf => (fst kf, DOther (snd kf))) reg in
      VL (map (fun t => match dispatch r t with Some f => VS (decoder_name f) | None => VN end) types)
  | CRegistry => VL (map (fun kf => VL [VS (fst kf); VS (decoder_name (snd kf))]) registry)
  | CExpected => VL (map (fun kf => VL [VS (fst kf); VS (decoder_name (snd kf))]) expected_dispatch)
  end.
