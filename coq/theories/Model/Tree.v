(** C09 — executable model of cogent3.core.tree (TreeNode / PhyloNode
    transformations), cogent3.parse.newick and the JSON (rich dict) round trip.

    Transcribed from /repo/src/cogent3/core/tree.py, parse/newick.py,
    util/deserialise.py.  The implementation works on mutable nodes with parent
    pointers; the model is purely functional on rose trees ([Lib/Rose.v]):
    a position inside a tree is a path (list of child indices), the walk of
    [unrooted_deepcopy] "with a parent argument" becomes a descent along the
    path that carries the already-converted upward part.

    Lengths are exact integers (the harness scales the dyadic float lengths).
    [name_loaded] is not modelled: the model prints what
    [get_newick(with_distances=True, with_node_names=True)] prints.
    No proofs in this file. *)
From CG3 Require Import Lib.PyZ Lib.Val Lib.Rose.

(** results with an exception code (see Lib/Val.v) *)
Inductive res (A : Type) : Type :=
| Ok (a : A)
| Err (code : Z).
Arguments Ok {A} a.
Arguments Err {A} code.

Definition E_Tree : Z := 9.      (* TreeError(Exception) / TreeParseError / AssertionError *)

Definition root_name : name := [114; 111; 111; 116].   (* "root" *)

(* ------------------------------------------------------------------ lookup *)

(** [get_node_matching_name]: first match in preorder; as a path *)
Fixpoint find_path (nm : name) (t : tree) : option (list nat) :=
  match t with
  | Node n _ cs =>
      if str_eqb n nm then Some []
      else (fix go (i : nat) (l : list tree) : option (list nat) :=
              match l with
              | [] => None
              | c :: r => match find_path nm c with
                          | Some p => Some (i :: p)
                          | None => go (S i) r
                          end
              end) O cs
  end.

Fixpoint subtree_at (t : tree) (p : list nat) : option tree :=
  match p with
  | [] => Some t
  | i :: r => match nth_error (kids t) i with
              | Some c => subtree_at c r
              | None => None
              end
  end.

(* ------------------------------------------------------------------ unrooted_deepcopy *)

(** [self.unrooted_deepcopy()] called on the node at [path] below [t].

    [ctx = Some ks]: [t] has a parent [p] in the original tree and [ks] are the
    children the converted [p] will have (p's other children, then p's own
    converted parent).  The converted [p] takes name and length from [t]
    ("edge params are stored by the child", [edge = parent] branch).
    Children visited downwards are plain copies ([edge = self] branch).
    The node the walk starts from becomes the root: name "root", params {}. *)
Fixpoint reroot_go (t : tree) (path : list nat) (ctx : option (list tree)) : option tree :=
  let up := match ctx with
            | None => []
            | Some ks => [Node (tname t) (tlen t) ks]
            end in
  match path with
  | [] => Some (Node root_name None (kids t ++ up))
  | i :: rest =>
      match nth_error (kids t) i with
      | None => None
      | Some c => reroot_go c rest (Some (remove_nth i (kids t) ++ up))
      end
  end.

(** [rooted_at(edge_name)] *)
Definition rooted_at (t : tree) (nm : name) : res tree :=
  match find_path nm t with
  | None => Err E_Tree                                   (* TreeError: no node named *)
  | Some p =>
      match subtree_at t p with
      | None => Err E_Other
      | Some x =>
          if is_tip x then Err E_Tree                    (* can't use a tip as the root *)
          else match reroot_go t p None with Some r => Ok r | None => Err E_Other end
      end
  end.

(** [rooted_with_tip(outgroup_name)]: [tip.parent.unrooted_deepcopy()] *)
Definition rooted_with_tip (t : tree) (nm : name) : res tree :=
  match find_path nm t with
  | None => Err E_Tree
  | Some [] => Err E_Type                                (* None.unrooted_deepcopy *)
  | Some p =>
      match reroot_go t (removelast p) None with Some r => Ok r | None => Err E_Other end
  end.

(* ------------------------------------------------------------------ unrooted *)

(** [sib.length += oldnode.length] when both are not None *)
Definition add_len (ls lo : option Z) : option Z :=
  match ls, lo with
  | Some a, Some b => Some (a + b)
  | _, _ => ls
  end.

(** the loop of [unrooted()]: the first child that has children is replaced by
    its own children — each of them with the collapsed edge's length ADDED —
    while [need_to_expand] holds *)
Fixpoint unrooted_kids (need : bool) (cs : list tree) : list tree :=
  match cs with
  | [] => []
  | c :: r =>
      match kids c with
      | _ :: _ =>
          if need
          then map (fun s => Node (tname s) (add_len (tlen s) (tlen c)) (kids s)) (kids c)
               ++ unrooted_kids false r
          else c :: unrooted_kids need r
      | [] => c :: unrooted_kids need r
      end
  end.

Definition unrooted (t : tree) : tree :=
  Node (tname t) (tlen t) (unrooted_kids (Nat.ltb (length (kids t)) 3) (kids t)).

(** REPAIRED [unrooted()] (notes/proposed_fixes/C09-1.diff): the grandchildren
    keep their lengths; when the root has exactly two children the collapsed
    edge's length goes to the OTHER child of the root (the edge it is merged
    with); a single root child is simply dissolved.  The driver selects this
    variant when the source text of [unrooted] is the repaired one. *)
Definition bump (lo : option Z) (s : tree) : tree :=
  Node (tname s) (add_len (tlen s) lo) (kids s).

Definition unrooted_fixed (t : tree) : tree :=
  match kids t with
  | [x] => match kids x with
           | _ :: _ => Node (tname t) (tlen t) (kids x)
           | [] => t
           end
  | [x; y] =>
      match kids x with
      | _ :: _ => Node (tname t) (tlen t) (kids x ++ [bump (tlen x) y])
      | [] => match kids y with
              | _ :: _ => Node (tname t) (tlen t) (bump (tlen y) x :: kids y)
              | [] => t
              end
      end
  | _ => t
  end.

(** [fx = true]: the repaired source *)
Definition unrooted_v (fx : bool) (t : tree) : tree := if fx then unrooted_fixed t else unrooted t.

(* ------------------------------------------------------------------ get_sub_tree *)

(** merging a single-child node into its child: lengths are added when both
    are present and the sum is non-zero ([if length:]), otherwise the new
    params dict stays empty *)
Definition merge_len (lt lc : option Z) : option Z :=
  match lt, lc with
  | Some a, Some b => if a + b =? 0 then None else Some (a + b)
  | _, _ => None
  end.

Definition selected (S : list name) (tipsonly : bool) (t : tree) : bool :=
  memb (tname t) S && (negb tipsonly || is_tip t).

(** [_get_sub_tree] with [keep_root=False] (what children are called with) *)
Fixpoint gst (S : list name) (tipsonly : bool) (t : tree) : option tree :=
  match t with
  | Node n l cs =>
      if selected S tipsonly t then Some t
      else
        let sub := (fix go (l : list tree) : list tree :=
                      match l with
                      | [] => []
                      | c :: r => match gst S tipsonly c with
                                  | Some x => x :: go r
                                  | None => go r
                                  end
                      end) cs in
        match sub with
        | [] => None
        | [c] => Some (Node (tname c) (merge_len l (tlen c)) (kids c))
        | _ => Some (Node n l sub)
        end
  end.

Definition gst_kids (S : list name) (tipsonly : bool) (cs : list tree) : list tree :=
  flat_map (fun c => match gst S tipsonly c with Some x => [x] | None => [] end) cs.

(** the call on the root, which alone sees [keep_root] *)
Definition gst_top (S : list name) (tipsonly keep_root : bool) (t : tree) : option tree :=
  if selected S tipsonly t then Some t
  else
    let sub := gst_kids S tipsonly (kids t) in
    match sub with
    | [] => None
    | [c] => if keep_root then Some (Node (tname t) (tlen t) sub)
             else Some (Node (tname c) (merge_len (tlen t) (tlen c)) (kids c))
    | _ => Some (Node (tname t) (tlen t) sub)
    end.

Definition set_name (nm : name) (t : tree) : tree := Node nm (tlen t) (kids t).

Definition node_names (tipsonly : bool) (t : tree) : list name :=
  if tipsonly then tips t else map tname (nodes t).

(** [get_sub_tree(name_list, ignore_missing, keep_root, tipsonly)] without the
    final "keep unrooted" step *)
Definition get_sub_tree_core (t : tree) (S : list name) (ignore_missing keep_root tipsonly : bool) : res tree :=
  if negb ignore_missing && negb (forallb (fun n => memb n (node_names tipsonly t)) S)
  then Err E_Value
  else match gst_top S tipsonly keep_root t with
       | None => Err E_Tree
       | Some r => if is_tip r then Err E_Tree else Ok (set_name root_name r)
       end.

Definition get_sub_tree_v (fx : bool) (t : tree) (S : list name) (ignore_missing keep_root tipsonly : bool) : res tree :=
  match get_sub_tree_core t S ignore_missing keep_root tipsonly with
  | Err e => Err e
  | Ok r => if Nat.ltb 2 (length (kids t)) then Ok (unrooted_v fx r) else Ok r
  end.

Definition get_sub_tree := get_sub_tree_v false.

(* ------------------------------------------------------------------ sorted *)

Fixpoint index_of (nm : name) (l : list name) (i : Z) : Z :=
  match l with
  | [] => i
  | x :: r => if str_eqb x nm then i else index_of nm r (i + 1)
  end.

(** stable insertion sort on the score ([scored_subtrees.sort()]; scores of
    sibling subtrees are distinct when tip names are) *)
Fixpoint insert_scored (x : Z * tree) (l : list (Z * tree)) : list (Z * tree) :=
  match l with
  | [] => [x]
  | y :: r => if fst x <? fst y then x :: l else y :: insert_scored x r
  end.

Definition sort_scored (l : list (Z * tree)) : list (Z * tree) :=
  fold_right insert_scored [] l.

Fixpoint sorted_go (order : list name) (t : tree) : Z * tree :=
  match t with
  | Node n l [] => (index_of n order 0, t)
  | Node n l cs =>
      let scored := sort_scored (map (sorted_go order) cs) in
      (match scored with (s, _) :: _ => s | [] => 0 end, Node n l (map snd scored))
  end.

(** lexicographic comparison of names by code point ([list.sort()] on str) *)
Fixpoint str_ltb (a b : name) : bool :=
  match a, b with
  | [], [] => false
  | [], _ :: _ => true
  | _ :: _, [] => false
  | x :: a', y :: b' => (x <? y) || ((x =? y) && str_ltb a' b')
  end.

Fixpoint insert_name (x : name) (l : list name) : list name :=
  match l with
  | [] => [x]
  | y :: r => if str_ltb x y then x :: l else y :: insert_name x r
  end.

Definition sort_names (l : list name) : list name := fold_right insert_name [] l.

(** [sorted(sort_order)] *)
Definition tree_sorted (t : tree) (sort_order : list name) : tree :=
  snd (sorted_go (sort_order ++ sort_names (tips t)) t).

(* ------------------------------------------------------------------ prune (PhyloNode) *)

(** [child.length = ...] of PhyloNode.prune: [child.length or node.length]
    when one of them is None *)
Definition prune_len (lchild lnode : option Z) : option Z :=
  match lchild, lnode with
  | Some a, Some b => Some (a + b)
  | None, x => x
  | Some a, None => if a =? 0 then None else Some a
  end.

(** [pc t eff]: what the subtree [t], whose (possibly already updated) length
    is [eff], is replaced by; the flag says that [t] itself was removed, in
    which case the replacement has been re-attached at the END of the parent's
    child list ([child.parent = curr_parent] appends) *)
Fixpoint pc (t : tree) (eff : option Z) : tree * bool :=
  match t with
  | Node n l [c] => (fst (pc c (prune_len (tlen c) eff)), true)
  | Node n l cs =>
      let rs := map (fun c => pc c (tlen c)) cs in
      (Node n eff (map fst (filter (fun r => negb (snd r)) rs) ++ map fst (filter snd rs)), false)
  end.

(** the root is never removed *)
Definition prune (t : tree) : tree :=
  let rs := map (fun c => pc c (tlen c)) (kids t) in
  Node (tname t) (tlen t) (map fst (filter (fun r => negb (snd r)) rs) ++ map fst (filter snd rs)).

(* ------------------------------------------------------------------ distances *)

(** [_get_distances]: root-to-tip distances of the tips below each node and
    the tip-to-tip entries written when a node with several children is
    visited; [dflt] is the length used for a missing one (1 in the code) *)
Definition clen (dflt : Z) (t : tree) : Z := match tlen t with Some z => z | None => dflt end.

Fixpoint tip_depths (dflt : Z) (t : tree) : list (name * Z) :=
  match t with
  | Node n _ [] => [(n, 0)]
  | Node _ _ cs => flat_map (fun c => map (fun p => (fst p, snd p + clen dflt c)) (tip_depths dflt c)) cs
  end.

Definition shifted (dflt : Z) (c : tree) : list (name * Z) :=
  map (fun p => (fst p, snd p + clen dflt c)) (tip_depths dflt c).

(** pairs between different children, [combinations(node.children, 2)] *)
Fixpoint cross_pairs (groups : list (list (name * Z))) : list ((name * name) * Z) :=
  match groups with
  | [] => []
  | g :: r =>
      flat_map (fun p => flat_map (fun g2 => map (fun q => ((fst p, fst q), snd p + snd q)) g2) r) g
      ++ cross_pairs r
  end.

Fixpoint dist_entries (dflt : Z) (t : tree) : list ((name * name) * Z) :=
  match t with
  | Node _ _ cs =>
      flat_map (dist_entries dflt) cs ++ cross_pairs (map (shifted dflt) cs)
  end.

(** [get_distances()[(a, b)]]; the dict holds both orientations *)
Definition lookup_dist (es : list ((name * name) * Z)) (a b : name) : option Z :=
  match find (fun e => (str_eqb (fst (fst e)) a && str_eqb (snd (fst e)) b)
                       || (str_eqb (fst (fst e)) b && str_eqb (snd (fst e)) a)) es with
  | Some e => Some (snd e)
  | None => None
  end.

Definition get_distance (dflt : Z) (t : tree) (a b : name) : option Z :=
  lookup_dist (dist_entries dflt t) a b.

(** upper triangle in tip order *)
Fixpoint upper_pairs {A} (l : list A) : list (A * A) :=
  match l with
  | [] => []
  | x :: r => map (fun y => (x, y)) r ++ upper_pairs r
  end.

Definition dist_matrix (dflt : Z) (t : tree) : list (option Z) :=
  let es := dist_entries dflt t in
  map (fun p => lookup_dist es (fst p) (snd p)) (upper_pairs (tips t)).

(* ------------------------------------------------------------------ get_newick *)

Definition c_open : Z := 40.   Definition c_close : Z := 41.  Definition c_comma : Z := 44.
Definition c_colon : Z := 58.  Definition c_semi : Z := 59.   Definition c_lbr : Z := 91.
Definition c_rbr : Z := 93.    Definition c_sq : Z := 39.     Definition c_dq : Z := 34.
Definition c_us : Z := 95.     Definition c_sp : Z := 32.     Definition c_tab : Z := 9.
Definition c_nl : Z := 10.

(** the character class of the re.search in get_newick: brackets, single and
    double quote, parentheses, comma, colon, semicolon, underscore *)
Definition needs_quote_char (c : Z) : bool :=
  (c =? c_rbr) || (c =? c_lbr) || (c =? c_sq) || (c =? c_dq) || (c =? c_open) || (c =? c_close)
  || (c =? c_comma) || (c =? c_colon) || (c =? c_semi) || (c =? c_us).

Definition starts_with_sq (s : name) : bool := match s with c :: _ => c =? c_sq | [] => false end.
Definition ends_with_sq (s : name) : bool := match rev s with c :: _ => c =? c_sq | [] => false end.

Definition double_sq (s : name) : name := flat_map (fun c => if c =? c_sq then [c_sq; c_sq] else [c]) s.
Definition blanks_to_us (s : name) : name := map (fun c => if c =? c_sp then c_us else c) s.

(** the [escape_name] branch of get_newick *)
Definition escape_name (s : name) : name :=
  if starts_with_sq s && ends_with_sq s then s
  else if existsb needs_quote_char s then [c_sq] ++ double_sq s ++ [c_sq]
  else blanks_to_us s.

(** decimal rendering of an integer ([str(int)]) *)
Fixpoint dec_digits (fuel : nat) (n : Z) (acc : list Z) : list Z :=
  match fuel with
  | O => acc
  | S f => if n <? 10 then (48 + n) :: acc else dec_digits f (n / 10) ((48 + n mod 10) :: acc)
  end.

Definition dec (z : Z) : list Z :=
  if z <? 0 then 45 :: dec_digits (S (Z.to_nat (Z.log2 (- z)))) (- z) []
  else dec_digits (S (Z.to_nat (Z.log2 z))) z [].

Fixpoint join_with (sep : list Z) (parts : list (list Z)) : list Z :=
  match parts with
  | [] => []
  | [p] => p
  | p :: r => p ++ sep ++ join_with sep r
  end.

(** one node of [get_newick(with_distances=with_len, escape_name=esc, with_node_names=True)];
    the root prints an empty name.  (The implementation uses an explicit
    stack; the text is the same.) *)
Fixpoint newick_node (esc with_len is_root : bool) (t : tree) : list Z :=
  match t with
  | Node n l cs =>
      (match cs with
       | [] => []
       | _ => [c_open] ++ join_with [c_comma] (map (newick_node esc with_len false) cs) ++ [c_close]
       end)
      ++ (if is_root then [] else if esc then escape_name n else n)
      ++ (if with_len then match l with Some z => c_colon :: dec z | None => [] end else [])
  end.

Definition get_newick (esc with_len semicolon : bool) (t : tree) : list Z :=
  newick_node esc with_len true t ++ (if semicolon then [c_semi] else []).

(* ------------------------------------------------------------------ newick tokeniser *)

(** the re.split of _Tokeniser.tokens with the empty
    pieces dropped: maximal blank/tab runs, newline, doubled quotes and the
    single delimiter characters are tokens, everything between is a chunk *)
Definition is_blank (c : Z) : bool := (c =? c_sp) || (c =? c_tab).
Definition is_delim1 (c : Z) : bool :=
  (c =? c_rbr) || (c =? c_lbr) || (c =? c_sq) || (c =? c_dq) || (c =? c_open) || (c =? c_close)
  || (c =? c_comma) || (c =? c_colon) || (c =? c_semi).

Inductive lexmode := LNone | LChunk | LBlank.

Definition flush (m : lexmode) (acc : list Z) : list (list Z) :=
  match m with LNone => [] | _ => [rev acc] end.

Fixpoint lex (s : list Z) (m : lexmode) (acc : list Z) : list (list Z) :=
  match s with
  | [] => flush m acc
  | c :: r =>
      if is_blank c then
        match m with
        | LBlank => lex r LBlank (c :: acc)
        | _ => flush m acc ++ lex r LBlank [c]
        end
      else if c =? c_nl then flush m acc ++ [c] :: lex r LNone []
      else if (c =? c_sq) || (c =? c_dq) then
        match r with
        | c' :: r' => if c' =? c then flush m acc ++ [c; c] :: lex r' LNone []
                      else flush m acc ++ [c] :: lex r LNone []
        | [] => flush m acc ++ [[c]]
        end
      else if is_delim1 c then flush m acc ++ [c] :: lex r LNone []
      else
        match m with
        | LChunk => lex r LChunk (c :: acc)
        | _ => flush m acc ++ lex r LChunk [c]
        end
  end.

(** [str.strip()] on the ASCII range *)
Definition is_pyspace (c : Z) : bool :=
  (c =? 32) || ((9 <=? c) && (c <=? 13)) || ((28 <=? c) && (c <=? 31)).
Fixpoint lstrip (s : list Z) : list Z :=
  match s with c :: r => if is_pyspace c then lstrip r else s | [] => [] end.
Definition strip (s : list Z) : list Z := rev (lstrip (rev (lstrip s))).

Definition us_to_blank (s : name) : name := map (fun c => if c =? c_us then c_sp else c) s.

(** punctuation that ends an unquoted label: newline [ ] ( ) : , ; *)
Definition is_breaker (tok : list Z) : bool :=
  match tok with
  | [c] => (c =? c_nl) || (c =? c_lbr) || (c =? c_rbr) || (c =? c_open) || (c =? c_close)
           || (c =? c_colon) || (c =? c_comma) || (c =? c_semi)
  | _ => false
  end.

Definition list_eqb (a b : list Z) : bool := str_eqb a b.

(** the generator [_Tokeniser.tokens]; yields labels and punctuation as
    strings (the parser cannot tell them apart) and [None] for end of text.
    State: the label being collected and the pending closing quote.
    Comments ([ ... ]) are outside the model: [Err E_Other]. *)
Fixpoint tok_loop (unmunge : bool) (toks : list (list Z)) (text : option name) (closing : option (list Z))
  : list (res (option name)) :=
  let finish_label (t : name) : name :=
    let t1 := strip t in if unmunge then us_to_blank t1 else t1 in
  match toks with
  | [] => (* EOT *)
      match closing with
      | Some _ => [Err E_Tree]                          (* text ended inside quoted label *)
      | None =>
          match text with
          | Some ((_ :: _) as t) => [Ok (Some (finish_label t)); Ok None]
          | _ => [Ok None]
          end
      end
  | tok :: rest =>
      let cont (pre : list (option name)) (text' : option name) (closing' : option (list Z)) :=
        map Ok pre ++ tok_loop unmunge rest text' closing' in
      match closing with
      | Some q =>
          if list_eqb tok [c_nl] then [Err E_Tree]        (* line ended inside quoted label *)
          else if list_eqb tok q then cont [text] None None
          else
            let tok' := if list_eqb tok (q ++ q) then q else tok in
            cont [] (Some (match text with Some t => t ++ tok' | None => tok' end)) closing
      | None =>
          if is_breaker tok then
            let pre := match text with
                       | Some ((_ :: _) as t) => [Some (finish_label t)]
                       | _ => []
                       end in
            let text' := match text with Some (_ :: _) => None | _ => text end in
            if list_eqb tok [c_nl] then cont pre text' None
            else if list_eqb tok [c_lbr] then map Ok pre ++ [Err E_Other]  (* comment: not modelled *)
            else if list_eqb tok [c_rbr] then cont pre text' None
            else cont (pre ++ [Some tok]) text' None
          else
            match text with
            | Some t => cont [] (Some (t ++ tok)) None
            | None =>
                if list_eqb tok [c_sq; c_sq] || list_eqb tok [c_dq; c_dq] then cont [Some []] None None
                else if list_eqb tok [c_sq] || list_eqb tok [c_dq] then cont [] (Some []) (Some tok)
                else match strip tok with
                     | _ :: _ => cont [] (Some tok) None
                     | [] => cont [] None None
                     end
            end
      end
  end.

(** the token stream is a generator: an error in it is only raised if the
    parser gets that far (it stops at the first top-level sentinel) *)
Definition tokenise (unmunge : bool) (text : list Z) : list (res (option name)) :=
  tok_loop unmunge (lex text LNone []) None None.

(* ------------------------------------------------------------------ TreeBuilder naming *)

Definition edge_str : name := [101; 100; 103; 101].   (* "edge" *)

Fixpoint used_get (u : list (name * Z)) (n : name) : option Z :=
  match u with
  | [] => None
  | (k, v) :: r => if str_eqb k n then Some v else used_get r n
  end.

Fixpoint used_set (u : list (name * Z)) (n : name) (v : Z) : list (name * Z) :=
  match u with
  | [] => [(n, v)]
  | (k, w) :: r => if str_eqb k n then (k, v) :: r else (k, w) :: used_set r n v
  end.

(** [_unique_name]; [None] when the fuel runs out (never, with fuel > number of
    used names) *)
Fixpoint unique_name (fuel : nat) (u : list (name * Z)) (n : name) : option (name * list (name * Z)) :=
  match fuel with
  | O => None
  | S f =>
      let n := match n with [] => edge_str | _ => n end in
      match used_get u n with
      | Some k =>
          let u' := used_set u n (k + 1) in
          unique_name f u' (n ++ [46] ++ dec (k + 1))
      | None => Some (n, used_set u n 1)
      end
  end.

Definition used0 : list (name * Z) := [(edge_str, -1)].

(* ------------------------------------------------------------------ parse_string *)

(** decimal integer -> Z (the model prints lengths as scaled integers; the
    implementation's [float(token)] accepts more) *)
Fixpoint parse_digits (s : list Z) (acc : Z) : option Z :=
  match s with
  | [] => Some acc
  | c :: r => if (48 <=? c) && (c <=? 57) then parse_digits r (acc * 10 + (c - 48)) else None
  end.

Definition parse_Z (s : list Z) : option Z :=
  match s with
  | [] => None
  | 45 :: ((_ :: _) as r) => match parse_digits r 0 with Some z => Some (- z) | None => None end
  | _ => parse_digits s 0
  end.

(** a parsed node and whether its name was given in the text ([name_loaded]) *)
Definition pnode := (tree * bool)%type.

Record pframe := { f_nodes : list pnode; f_top : bool; f_haslen : option Z; f_has : bool }.

Record pstate := {
  p_stack : list (list pnode * bool);      (* saved (nodes, sentinels = top-level?) ; saved attributes are always {} *)
  p_nodes : list pnode;
  p_top : bool;                            (* sentinels = [semicolon, EOT] (true) or [close paren] (false) *)
  p_children : option (list pnode);
  p_name : option name;
  p_expect : bool;                         (* expected_attribute = ("length", float) *)
  p_len : option Z;                        (* attributes["length"] *)
  p_haslen : bool;                         (* "length" in attributes *)
  p_used : list (name * Z)
}.

Definition tok_is (tok : option name) (c : Z) : bool :=
  match tok with Some [x] => x =? c | _ => false end.

(** [constructor(children, name, attributes)] = [TreeBuilder.create_edge] *)
Definition build_node (st : pstate) : option (pnode * list (name * Z)) :=
  let nm := match p_name st with Some n => n | None => [] end in
  match unique_name (S (S (length (p_used st)))) (p_used st) nm with
  | None => None
  | Some (n', u') =>
      let cs := match p_children st with Some l => map fst l | None => [] end in
      Some ((Node n' (p_len st) cs,
             match p_name st with Some _ => true | None => false end), u')
  end.

Inductive pstep := PCont (st : pstate) | PDone (r : pnode) | PErr (e : Z).

Definition parse_step (st : pstate) (tok : option name) : pstep :=
  if p_expect st then
    match tok with
    | Some s => match parse_Z s with
                | Some z => PCont {| p_stack := p_stack st; p_nodes := p_nodes st; p_top := p_top st;
                                     p_children := p_children st; p_name := p_name st; p_expect := false;
                                     p_len := Some z; p_haslen := true; p_used := p_used st |}
                | None => PErr E_Tree
                end
    | None => PErr E_Type                     (* float(None) *)
    end
  else if tok_is tok c_open then
    match p_children st with
    | Some _ => PErr E_Tree                   (* two subtrees in one node *)
    | None =>
        if (match p_name st with Some (_ :: _) => true | _ => false end) || p_haslen st
        then PErr E_Tree                      (* subtree must be first element *)
        else PCont {| p_stack := (p_nodes st, p_top st) :: p_stack st; p_nodes := []; p_top := false;
                      p_children := None; p_name := p_name st; p_expect := false;
                      p_len := None; p_haslen := false; p_used := p_used st |}
    end
  else if tok_is tok c_colon then
    if p_haslen st then PErr E_Tree
    else PCont {| p_stack := p_stack st; p_nodes := p_nodes st; p_top := p_top st;
                  p_children := p_children st; p_name := p_name st; p_expect := true;
                  p_len := p_len st; p_haslen := p_haslen st; p_used := p_used st |}
  else if tok_is tok c_lbr then PErr E_Other  (* comments: not modelled *)
  else if tok_is tok c_close || tok_is tok c_semi || tok_is tok c_comma || (match tok with None => true | _ => false end) then
    match build_node st with
    | None => PErr E_Other
    | Some (nd, u') =>
        let nodes' := p_nodes st ++ [nd] in
        let is_sentinel := if p_top st then tok_is tok c_semi || (match tok with None => true | _ => false end)
                           else tok_is tok c_close in
        if is_sentinel then
          match p_stack st with
          | [] => match nodes' with
                  | [r] => PDone r
                  | _ => PErr E_Other         (* assert len(nodes) == 1 *)
                  end
          | (ns, top) :: stk =>
              PCont {| p_stack := stk; p_nodes := ns; p_top := top;
                       p_children := Some nodes'; p_name := None; p_expect := false;
                       p_len := None; p_haslen := false; p_used := u' |}
          end
        else if negb (tok_is tok c_comma) || p_top st then PErr E_Tree   (* was expecting to end with ... *)
        else PCont {| p_stack := p_stack st; p_nodes := nodes'; p_top := p_top st;
                      p_children := None; p_name := None; p_expect := false;
                      p_len := None; p_haslen := false; p_used := u' |}
    end
  else
    match p_name st with
    | None => PCont {| p_stack := p_stack st; p_nodes := p_nodes st; p_top := p_top st;
                       p_children := p_children st; p_name := tok; p_expect := false;
                       p_len := p_len st; p_haslen := p_haslen st; p_used := p_used st |}
    | Some _ => PErr E_Tree                   (* already have a name *)
    end.

Fixpoint parse_loop (st : pstate) (toks : list (res (option name))) : res pnode :=
  match toks with
  | [] => Err E_Other                          (* the token stream always ends with EOT *)
  | Err e :: _ => Err e                        (* the tokeniser raised *)
  | Ok tok :: rest =>
      match parse_step st tok with
      | PCont st' => parse_loop st' rest
      | PDone r => Ok r
      | PErr e => Err e
      end
  end.

Definition pstate0 : pstate :=
  {| p_stack := []; p_nodes := []; p_top := true; p_children := None; p_name := None;
     p_expect := false; p_len := None; p_haslen := false; p_used := used0 |}.

Definition has_char (c : Z) (s : list Z) : bool := existsb (Z.eqb c) s.

(** [make_tree(treestring, underscore_unmunge)] *)
Definition make_tree_tokens (toks : list (res (option name))) : res tree :=
  match parse_loop pstate0 toks with
  | Err e => Err e
  | Ok (t, loaded) => Ok (if loaded then t else set_name root_name t)
  end.

Definition make_tree (unmunge : bool) (text : list Z) : res tree :=
  if negb (has_char c_open text) && negb (has_char c_semi text) && (match strip text with [] => false | _ => true end)
  then Err E_Tree                              (* Not a Newick tree *)
  else make_tree_tokens (tokenise unmunge text).

(* ------------------------------------------------------------------ JSON (rich dict) round trip *)

(** [get_edge_vector()] : postorder *)
Fixpoint postorder (t : tree) : list tree :=
  match t with
  | Node _ _ cs => flat_map postorder cs ++ [t]
  end.

(** [attr[edge.name] = edge.params.copy()] — a dict: the last edge with a name wins *)
Definition edge_attributes (t : tree) : list (name * option Z) :=
  map (fun e => (tname e, tlen e)) (postorder t).

Fixpoint attr_get (a : list (name * option Z)) (n : name) (found : option (option Z)) : option (option Z) :=
  match a with
  | [] => found
  | (k, v) :: r => attr_get r n (if str_eqb k n then Some v else found)
  end.

(** [edge.params.update(edge_attr.get(edge.name, {}))] on every edge *)
Fixpoint apply_attrs (a : list (name * option Z)) (t : tree) : tree :=
  match t with
  | Node n l cs =>
      Node n (match attr_get a n None with Some v => v | None => l end) (map (apply_attrs a) cs)
  end.

(** [deserialise_tree(json.loads(t.to_json()))] *)
Definition json_roundtrip (t : tree) : res tree :=
  match make_tree false (get_newick false false false t) with
  | Err e => Err e
  | Ok t' => Ok (apply_attrs (edge_attributes t) t')
  end.

(** [make_tree(t.get_newick(with_distances=True, with_node_names=True), underscore_unmunge=unmunge)] *)
Definition newick_roundtrip (unmunge : bool) (t : tree) : res tree :=
  make_tree unmunge (get_newick true true true t).
