(** C18 — executable model of the pairwise Viterbi aligner
    (cogent3/align/pairwise.py: [py_calc_rows] — the pure-Python reference of
    the numba kernels —, [PairEmissionProbs.dp], [Pair.traceback]) for two
    plain sequences and the three emitting states X (dx=1,dy=0), Y (dx=0,dy=1),
    M (dx=1,dy=1) that [adapt_pair_tm] builds from a "XYM" transition matrix,
    in log space ([use_logs=True], the default of [get_viterbi_path]).

    Scores live in (max,+) over integers extended with -inf ([Lib/MaxPlus.v]):
    the code adds float logs; every theorem is for arbitrary score tables.

    State numbers as in the code: BEGIN = 0, X = 1, Y = 2, M = 3 (END = 4 is
    only a target).  The DP table is filled row by row exactly as
    [py_calc_rows] does (row [i] from row [i-1], cell [j] of a row from cell
    [j-1] of the same row for the Y state).

    Deviation from the source, stated once: the code stores one back-pointer
    [(a, b, prev_state)] per cell and state in [track] and rebuilds the path in
    [Pair.traceback]; the model stores in each cell entry the path those
    pointers denote (last state first, shared tails).  The candidate order and
    the strict [candidate > cumulative_score] test — which decide the path on
    ties — are the code's.  No proofs in this file. *)
From CG3 Require Import Lib.PyZ Lib.Val Lib.MaxPlus.

Inductive st := SB | SX | SY | SM.

Definition st_eqb (a b : st) : bool :=
  match a, b with SB, SB | SX, SX | SY, SY | SM, SM => true | _, _ => false end.

Record params := {
  tr : st -> st -> ez;      (* log T[prev_state, state], row BEGIN included *)
  te : st -> ez;            (* log T[prev_state, END] *)
  em : Z -> Z -> ez;        (* log match_scores[0, x, y] *)
  gx : Z -> ez;             (* log xgap_scores[0, x] *)
  gy : Z -> ez              (* log ygap_scores[0, y] *)
}.

(** value of [rows[plan[i]][j, state]] and the path its pointer chain denotes *)
Definition entry := (ez * list st)%type.
Record cell := { cB : entry; cX : entry; cY : entry; cM : entry }.

Definition dead_entry : entry := (None, []).
Definition dead : cell := {| cB := dead_entry; cX := dead_entry; cY := dead_entry; cM := dead_entry |}.

Definition cget (c : cell) (s : st) : entry :=
  match s with SB => cB c | SX => cX c | SY => cY c | SM => cM c end.

(** [source_states = range(len(T))]: BEGIN, X, Y, M (END's column of [rows] is never written: -inf) *)
Definition source_states : list st := [SB; SX; SY; SM].

(** the loop [for prev_state in source_states: ... if candidate > cumulative_score: ...] *)
Definition pick (init : entry) (cands : list entry) : entry :=
  fold_left (fun best c => if egtb (fst c) (fst best) then c else best) cands init.

Definition cands (P : params) (src : cell) (s : st) : list entry :=
  map (fun p => (eplus (fst (cget src p)) (tr P p s), snd (cget src p))) source_states.

(** one (cell, state) of py_calc_rows: [src] is the cell at (i-dx, j-dy) (all
    -inf when there is no predecessor), [d] the emission score *)
Definition step (P : params) (local : bool) (src : cell) (s : st) (d : ez) : entry :=
  let init := if local && st_eqb s SM then (tr P SB s, []) else dead_entry in
  let r := pick init (cands P src s) in
  (eplus (fst r) d, s :: snd r).

(** [current_row[:, 0] = impossible; if i == 0 and not local: current_row[0, 0] = neutral_score] *)
Definition begin_entry (local origin : bool) : entry :=
  if origin && negb local then (Some 0, []) else dead_entry.

(** cell (i, j): [up] = (i-1, j), [diag] = (i-1, j-1), [left] = (i, j-1);
    [oa]/[ob] = residue x_i / y_j ([None] in row 0 / column 0, where the
    corresponding states have no predecessor and stay -inf) *)
Definition mkcell (P : params) (local origin : bool) (oa ob : option Z) (up diag left : cell) : cell :=
  {| cB := begin_entry local origin;
     cX := match oa with Some a => step P local up SX (gx P a) | None => dead_entry end;
     cY := match ob with Some b => step P local left SY (gy P b) | None => dead_entry end;
     cM := match oa, ob with Some a, Some b => step P local diag SM (em P a b) | _, _ => dead_entry end |}.

(** cells j = 1.. of a row; [ups] = cells j.. of the previous row *)
Fixpoint fill (P : params) (local : bool) (oa : option Z) (ups : list cell) (diag left : cell) (ys : list Z) : list cell :=
  match ys, ups with
  | b :: ys', up :: ups' =>
      let c := mkcell P local false oa (Some b) up diag left in
      c :: fill P local oa ups' up c ys'
  | _, _ => []
  end.

Definition dead_row (ys : list Z) : list cell := dead :: map (fun _ => dead) ys.

Definition next_row (P : params) (local origin : bool) (oa : option Z) (prev : list cell) (ys : list Z) : list cell :=
  match prev with
  | up0 :: ups =>
      let c0 := mkcell P local origin oa None up0 dead dead in
      c0 :: fill P local oa ups up0 c0 ys
  | [] => []
  end.

Definition row0 (P : params) (local : bool) (ys : list Z) : list cell :=
  next_row P local true None (dead_row ys) ys.

(** all rows, row 0 first *)
Fixpoint rows_from (P : params) (local : bool) (prev : list cell) (xs ys : list Z) : list (list cell) :=
  match xs with
  | [] => []
  | a :: xs' => let r := next_row P local false (Some a) prev ys in r :: rows_from P local r xs' ys
  end.

Definition table (P : params) (local : bool) (xs ys : list Z) : list (list cell) :=
  let r0 := row0 P local ys in r0 :: rows_from P local r0 xs ys.

(** the END cell: [calc_rows(M-1, M, N-1, N, end_state_only, ...)], emission log 1 = 0,
    then [traceback(..., skip_last=True)] *)
Definition finish (P : params) (c : cell) : entry :=
  pick dead_entry (map (fun p => (eplus (fst (cget c p)) (te P p), snd (cget c p))) source_states).

Definition last_cell (t : list (list cell)) : cell := last (last t []) dead.

(** global alignment: (score, path first state first) *)
Definition align_global (P : params) (xs ys : list Z) : ez * list st :=
  let e := finish P (last_cell (table P false xs ys)) in (fst e, rev (snd e)).

(** local alignment: [best] = first strictly better M entry in row-major order;
    result (score, path, i, j) with (i, j) the end cell *)
Definition lbest := (ez * list st * Z * Z)%type.

Fixpoint best_in_row (i j : Z) (cs : list cell) (best : lbest) : lbest :=
  match cs with
  | [] => best
  | c :: cs' =>
      let best' := if egtb (fst (cM c)) (fst (fst (fst best))) then (fst (cM c), snd (cM c), i, j) else best in
      best_in_row i (j + 1) cs' best'
  end.

Fixpoint best_in_rows (i : Z) (rows : list (list cell)) (best : lbest) : lbest :=
  match rows with
  | [] => best
  | r :: rows' => best_in_rows (i + 1) rows' (best_in_row i 0 r best)
  end.

Definition align_local (P : params) (xs ys : list Z) : lbest :=
  let '(v, q, i, j) := best_in_rows 0 (table P true xs ys) (None, [], 0, 0) in (v, rev q, i, j).

(** gapped rows of a path over the residues it consumes (gap = -1) *)
Definition GAP : Z := -1.
Fixpoint rows_of (p : list st) (xs ys : list Z) : list Z * list Z :=
  match p with
  | [] => ([], [])
  | SM :: p' => match xs, ys with
                | a :: xs', b :: ys' => let '(r1, r2) := rows_of p' xs' ys' in (a :: r1, b :: r2)
                | _, _ => ([], []) end
  | SX :: p' => match xs with
                | a :: xs' => let '(r1, r2) := rows_of p' xs' ys in (a :: r1, GAP :: r2)
                | _ => ([], []) end
  | SY :: p' => match ys with
                | b :: ys' => let '(r1, r2) := rows_of p' xs ys' in (GAP :: r1, b :: r2)
                | _ => ([], []) end
  | SB :: _ => ([], [])
  end.

Definition consumes_x (s : st) : bool := match s with SX | SM => true | _ => false end.
Definition consumes_y (s : st) : bool := match s with SY | SM => true | _ => false end.
Definition count_x (p : list st) : nat := length (filter consumes_x p).
Definition count_y (p : list st) : nat := length (filter consumes_y p).
