(** C16 — executable runner for the correspondence check of the optimiser
    wrapper: a synthetic objective function given by a table, an adversary
    script, the arguments of maximise/minimise; the observation is everything
    the harness can see of the real run: how it ended, the returned vector, the
    evaluation count, the values handed to the optimiser, and the complete
    history of evaluations of the raw function (its last entry is the state the
    "calculator" is left in). *)
From CG3 Require Import Lib.PyZ Lib.Val Model.Optim.

Fixpoint sqdist (x c : point) : Z :=
  match x, c with
  | a :: x', b :: c' => (a - b) * (a - b) + sqdist x' c'
  | _, _ => 0
  end.

Fixpoint point_eqb (a b : point) : bool :=
  match a, b with
  | [], [] => true
  | x :: a', y :: b' => (x =? y) && point_eqb a' b'
  | _, _ => false
  end.

Fixpoint lookup (x : point) (tbl : list (point * fv)) : option fv :=
  match tbl with
  | [] => None
  | (p, v) :: rest => if point_eqb p x then Some v else lookup x rest
  end.

(** f(x) = c0 - |x - centre|^2 unless the table overrides the point *)
Definition synth (centre : point) (c0 : Z) (tbl : list (point * fv)) (x : point) : fv :=
  match lookup x tbl with Some v => v | None => Fin (c0 - sqdist x centre) end.

Record case := mkcase {
  c_centre : point; c_c0 : Z; c_tbl : list (point * fv);
  c_maxev : option Z; c_bounds : bounds; c_local : option bool; c_minimise : bool;
  c_x0 : point; c_g : list act; c_l : list act
}.

Definition vfv (v : fv) : val :=
  match v with
  | Fin z => VZ z
  | PInf => VL [VZ 1]
  | NInf => VL [VZ 2]
  | NaN => VL [VZ 3]
  | FArith => VL [VZ 4]
  | FOther => VL [VZ 5]
  end.

Definition voutcome (o : outcome) : val :=
  match o with Done => VL [VZ 0] | Limit n => VL [VZ 1; VZ n] | Crashed => VL [VZ 2] end.

Definition vfinal (fin : final) : val :=
  match fin with
  | InitInvalid => VL [VZ 10]
  | InitLimit n => VL [VZ 11; VZ n]
  | InitOther => VL [VZ 12]
  | Broken => VL [VZ 13]
  | InitBoundsError => VL [VZ 14]
  | Ran o bf bx n seen => VL [VZ 20; voutcome o; vfv bf; vlistZ bx; VZ n; VL (map vfv seen)]
  end.

Definition run_case (c : case) : val :=
  let f := synth (c_centre c) (c_c0 c) (c_tbl c) in
  let '(fin, s) :=
    if c_minimise c
    then minimise f (c_maxev c) (c_bounds c) (c_local c) (c_x0 c) (c_g c) (c_l c)
    else maximise f (c_maxev c) (c_bounds c) (c_local c) (c_x0 c) (c_g c) (c_l c) in
  VL [vfinal fin; VL (map vlistZ (rev (calls s)))].
