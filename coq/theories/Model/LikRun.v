(** C02 / C11 — runner of the likelihood model for the correspondence check.

    The semiring is instantiated with [Z_ops] (exact integers, laws proved in
    [Lib/Semiring.v] as [Z_laws], so every theorem of [Properties/C02.v] and
    [C11.v] applies verbatim to what is evaluated here).  The harness converts
    the implementation's float matrices / motif probabilities / bin
    probabilities to exact integers by multiplying every one of them by the
    same power of two [2^K] ([float.as_integer_ratio]: floats are dyadic
    rationals).  Every term of the sum-product contains exactly one factor per
    edge, one root probability (and one bin probability when there are several
    bins), so the integer result is the exact rational likelihood times
    [2^(K * (edges + 1 [+ 1]))]; the harness divides by that power.

    No proofs in this file. *)
From CG3 Require Import Lib.PyZ Lib.Val Lib.Semiring Lib.LikTree Model.Lik.

Record case : Type := mkcase {
  k_mlen : nat;                                  (* motif length *)
  k_alphabet : list motif;                       (* the model's alphabet, in order *)
  k_amb : amb_table;                             (* moltype.ambiguities: char -> chars *)
  k_gaps : list Z;                               (* moltype.gaps *)
  k_missing : Z;                                 (* symbol gaps are recoded to ('?') *)
  k_tree : tree Z Z;                             (* leaf payload = sequence name, edge payload = child name *)
  k_psubs : list (list (Z * list (list Z)));     (* per bin: child name -> P (scaled) *)
  k_bprobs : list Z;                             (* bin probabilities (scaled) *)
  k_pi : list Z;                                 (* root motif probabilities (scaled) *)
  k_aln : list (Z * list Z)                      (* alignment rows: name, characters *)
}.

Definition psub_of (al : list (Z * list (list Z))) : Z -> list (list Z) :=
  fun nm => lookup [] nm al.

(** [convert_alignment]: recode gaps, cut into motifs *)
Definition prepared_aln (c : case) : list (Z * list motif) :=
  map (fun row => (fst row, in_motif_size (k_mlen c) (recode_gaps (k_gaps c) (k_missing c) (snd row))))
      (k_aln c).

Definition unresolvable (c : case) (col : column) : bool :=
  existsb (fun km => match resolve (k_amb c) (k_alphabet c) (snd km) with None => true | Some _ => false end) col.

Definition vnat (n : nat) : val := VZ (Z.of_nat n).

(** big integers are handed back as sign + little-endian base-2^32 limbs
    (printing a several-hundred-bit numeral is slow in Coq; this is output
    formatting only) *)
Fixpoint limbs (fuel : nat) (z : Z) : list Z :=
  match fuel with
  | O => []
  | S f => if z =? 0 then [] else (z mod 4294967296) :: limbs f (z / 4294967296)
  end.
Definition vbig (z : Z) : val :=
  VL (VZ (Z.sgn z) :: map VZ (limbs (Z.to_nat (Z.log2 (Z.abs z) / 32 + 1)) (Z.abs z))).

(** observation: root [index], root [counts] (incl. the count-0 gap column),
    likelihood of every unique column (incl. the gap column) *)
Definition run_case (c : case) : val :=
  let aln := prepared_aln c in
  let cols := aln_columns aln in
  let n := length (k_alphabet c) in
  if existsb (unresolvable c) cols then VE E_Value
  else
    let '(uniq, counts, index) := indexed column_eqb cols in
    let allc := uniq ++ [gap_column aln (k_mlen c)] in
    let prof := profile Z_ops (k_amb c) (k_alphabet c) in
    let liks := map (site_lik Z_ops n prof (map psub_of (k_psubs c)) (k_bprobs c) (k_pi c) (k_tree c)) allc in
    VL [VL (map vnat index); VL (map vnat (counts ++ [O])); VL (map vbig liks)].

(** C11: the same observation after moving the root along a path of child
    indices inside the model ([reroot_path]); [VN] when the path leaves the tree *)
Definition run_reroot (pc : list nat * case) : val :=
  let '(p, c) := pc in
  match reroot_path p (k_tree c) with
  | Some t' => run_case (mkcase (k_mlen c) (k_alphabet c) (k_amb c) (k_gaps c) (k_missing c) t'
                                (k_psubs c) (k_bprobs c) (k_pi c) (k_aln c))
  | None => VN
  end.
