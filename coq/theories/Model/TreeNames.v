(** C09 — the names the library itself hands out: every tree-to-tree transform
    builds its result through a [TreeBuilder] ([edge_from_edge] ->
    [create_edge] -> [_unique_name], the registry [used] of Model/Tree.v with its
    recursion), so unnamed nodes become edge.0, edge.1, ... and repeated names
    get a numeric suffix — skipping names that are already taken.

    The structural models of Model/Tree.v ([reroot_go], [unrooted_v], [gst],
    [sorted_go]) compute shape, lengths and which original node each new node
    takes its name from; the functions here replay the naming, in the order in
    which the implementation creates the nodes.  No proofs in this file. *)
From CG3 Require Import Lib.PyZ Lib.Val Lib.Rose Model.Tree.

Definition used := list (name * Z).

Definition uname (u : used) (n : name) : name * used :=
  match unique_name (S (S (length u))) u n with
  | Some r => r
  | None => (n, u)
  end.

(** one shared builder, nodes created children-first (postorder) *)
Fixpoint uniq_post (t : tree) (u : used) : tree * used :=
  match t with
  | Node n l cs =>
      let '(cs', u1) :=
        (fix go (cs : list tree) (u : used) : list tree * used :=
           match cs with
           | [] => ([], u)
           | c :: r => let '(c', u') := uniq_post c u in
                       let '(r', u'') := go r u' in (c' :: r', u'')
           end) cs u in
      let '(n', u2) := uname u1 n in
      (Node n' l cs', u2)
  end.

Fixpoint uniq_list (cs : list tree) (u : used) : list tree * used :=
  match cs with
  | [] => ([], u)
  | c :: r => let '(c', u') := uniq_post c u in
              let '(r', u'') := uniq_list r u' in (c' :: r', u'')
  end.

(** [unrooted_deepcopy]: all nodes through one builder; the start node is
    created last as "root" (and renamed "root" whatever the registry says) *)
Definition name_rerooted (r : tree) : tree :=
  Node root_name (tlen r) (fst (uniq_list (kids r) used0)).

(** a builder used for ONE node: only an empty name or "edge" changes *)
Definition fresh_name (n : name) : name := fst (uname used0 n).

(** [unrooted()]: only the root goes through a (new) builder; children are copies *)
Definition name_unrooted (r : tree) : tree := Node (fresh_name (tname r)) (tlen r) (kids r).

(** [sorted()]: every internal node is rebuilt by its own new builder; tips are copies *)
Fixpoint name_sorted (t : tree) : tree :=
  match t with
  | Node n l [] => t
  | Node n l cs => Node (fresh_name n) l (map name_sorted cs)
  end.

(** [_get_sub_tree] with the builder threaded through the recursion: selected
    nodes are copies (not registered), a node with one surviving child is
    merged into it (no node created), a node with several is created *)
Fixpoint gstn (S : list name) (tipsonly : bool) (t : tree) (u : used) : option tree * used :=
  match t with
  | Node n l cs =>
      if selected S tipsonly t then (Some t, u)
      else
        let '(sub, u1) :=
          (fix go (cs : list tree) (u : used) : list tree * used :=
             match cs with
             | [] => ([], u)
             | c :: r => let '(o, u') := gstn S tipsonly c u in
                         let '(r', u'') := go r u' in
                         (match o with Some x => x :: r' | None => r' end, u'')
             end) cs u in
        match sub with
        | [] => (None, u1)
        | [c] => (Some (Node (tname c) (merge_len l (tlen c)) (kids c)), u1)
        | _ => let '(n', u2) := uname u1 n in (Some (Node n' l sub), u2)
        end
  end.

Fixpoint gstn_kids (S : list name) (tipsonly : bool) (cs : list tree) (u : used) : list tree * used :=
  match cs with
  | [] => ([], u)
  | c :: r => let '(o, u') := gstn S tipsonly c u in
              let '(r', u'') := gstn_kids S tipsonly r u' in
              (match o with Some x => x :: r' | None => r' end, u'')
  end.

Definition gstn_top (S : list name) (tipsonly keep_root : bool) (t : tree) : option tree :=
  if selected S tipsonly t then Some t
  else
    let '(sub, u1) := gstn_kids S tipsonly (kids t) used0 in
    match sub with
    | [] => None
    | [c] => if keep_root then Some (Node (fst (uname u1 (tname t))) (tlen t) sub)
             else Some (Node (tname c) (merge_len (tlen t) (tlen c)) (kids c))
    | _ => Some (Node (fst (uname u1 (tname t))) (tlen t) sub)
    end.

(** [get_sub_tree] with names *)
Definition get_sub_tree_named (fx : bool) (t : tree) (S : list name) (ignore_missing keep_root tipsonly : bool) : res tree :=
  if negb ignore_missing && negb (forallb (fun n => memb n (node_names tipsonly t)) S)
  then Err E_Value
  else match gstn_top S tipsonly keep_root t with
       | None => Err E_Tree
       | Some r => if is_tip r then Err E_Tree
                   else let r1 := set_name root_name r in
                        if Nat.ltb 2 (length (kids t)) then Ok (name_unrooted (unrooted_v fx r1)) else Ok r1
       end.
