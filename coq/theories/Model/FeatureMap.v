(** C08 — executable model of [cogent3.core.location.FeatureMap]
    (location.py l.1791-2140), [Span] / [LostSpan] (l.147-480) with
    [Span.remap_with] (l.285), [_norm_index], [as_map] for slices and
    [_spans_from_locations] (l.903), transcribed branch for branch.
    No proofs in this file.

    A span is [FS start end reverse] or [FL length] (LostSpan); [tidy_start],
    [tidy_end], [value] are not modelled (they do not influence coordinates).
    [bisect_right(offsets, x)] / [bisect_left(offsets, x, lo)] are modelled by
    linear scans (offsets is non-decreasing).  Exceptions: AssertionError and
    RuntimeError are class "other" (9), AttributeError is 3. *)
From CG3 Require Import Lib.PyZ Lib.Val Model.IndelMap.

Inductive fspan : Type :=
| FS (s e : Z) (rev : bool)
| FL (n : Z).

Record fmap : Type := mk_fmap { fspans : list fspan; fplen : Z }.

Definition is_lost (sp : fspan) : bool := match sp with FL _ => true | FS _ _ _ => false end.
Definition slen (sp : fspan) : Z := match sp with FS s e _ => e - s | FL n => n end.

(** [Span.__init__]/[_new_init]: start and end are swapped if start > end *)
Definition mk_span (s e : Z) (r : bool) : fspan := if s >? e then FS e s r else FS s e r.

(** [__post_init__]: offsets, length, useful, complete, _start, _end *)
Fixpoint offsets_from (posn : Z) (l : list fspan) : list Z :=
  match l with [] => [] | sp :: t => posn :: offsets_from (posn + slen sp) t end.
Definition offsets (fm : fmap) : list Z := offsets_from 0 (fspans fm).
Definition flen (fm : fmap) : Z := fold_left (fun a sp => a + slen sp) (fspans fm) 0.
Definition fcomplete (fm : fmap) : bool := forallb (fun sp => negb (is_lost sp)) (fspans fm).
Definition fuseful (fm : fmap) : bool := existsb (fun sp => negb (is_lost sp)) (fspans fm).

Fixpoint start_end (acc : option (Z * Z)) (l : list fspan) : option (Z * Z) :=
  match l with
  | [] => acc
  | FL _ :: t => start_end acc t
  | FS s e _ :: t =>
      start_end (match acc with None => Some (s, e) | Some (a, b) => Some (Z.min a s, Z.max b e) end) t
  end.
(** the [start] / [end] properties: [self._start or 0] *)
Definition fstart (fm : fmap) : Z := match start_end None (fspans fm) with Some (a, _) => a | None => 0 end.
Definition fend (fm : fmap) : Z := match start_end None (fspans fm) with Some (_, b) => b | None => 0 end.

(** [_norm_index] *)
Definition norm_index (i : option Z) (length dflt : Z) : Z :=
  let i := match i with None => dflt | Some i => if i <? 0 then i + length else i end in
  Z.min (Z.max i 0) length.

(** [Span.__getitem__(slice)] / [_LostSpan.__getitem__(slice)] *)
Definition span_getitem (sp : fspan) (a b : option Z) : res fspan :=
  let length := slen sp in
  let start := norm_index a length 0 in
  let end_ := norm_index b length length in
  match sp with
  | FL _ => Ok (FL (Z.abs (end_ - start)))
  | FS s e r =>
      if start >? end_ then Err E_Other
      else if r then Ok (mk_span (e - end_) (e - start) true)
      else Ok (mk_span (s + start) (s + end_) false)
  end.

Definition span_reversed (sp : fspan) : fspan :=
  match sp with FS s e r => mk_span s e (negb r) | FL n => FL n end.

(** list helpers *)
Fixpoint set_at {A} (l : list A) (i : Z) (x : A) : list A :=
  match l with [] => [] | y :: t => if i =? 0 then x :: t else y :: set_at t (i - 1) x end.
Definition nth_span (l : list fspan) (i : Z) : fspan := nth (Z.to_nat i) l (FL 0).

(** [Span.remap_with(map)] l.285 *)
Definition remap_with (sp : fspan) (fm : fmap) : res (list fspan) :=
  match sp with
  | FL n => Ok [FL n]
  | FS sstart send srev =>
      let offs := offsets fm in
      let spans := fspans fm in
      if zlen spans =? 0 then Err E_Index        (* offsets[-1] *)
      else
        let map_length := zlast offs + slen (nth_span spans (zlen spans - 1)) in
        let zlo := Z.max 0 sstart in
        let zhi := Z.min map_length send in
        let first := ss_right offs zlo - 1 in
        let last := (first + ss_left (zslice offs first (zlen offs)) zhi) - 1 in
        let result := zslice spans first (last + 1) in
        bind
          (if zlen result =? 0 then Ok result
           else
             let end_trim := pyget offs last + slen (nth_span spans last) - zhi in
             let start_trim := zlo - pyget offs first in
             bind (if end_trim >? 0
                   then let lastsp := nth_span result (zlen result - 1) in
                        bind (span_getitem lastsp None (Some (slen lastsp - end_trim)))
                             (fun x => Ok (set_at result (zlen result - 1) x))
                   else Ok result) (fun result =>
             if start_trim >? 0
             then bind (span_getitem (nth_span result 0) (Some start_trim) None)
                       (fun x => Ok (set_at result 0 x))
             else Ok result))
          (fun result =>
             let result := if sstart <? 0 then FL (- sstart) :: result else result in
             let result := if send >? map_length then result ++ [FL (send - map_length)] else result in
             Ok (if srev then rev (map span_reversed result) else result))
  end.

(** [_spans_from_locations] l.903 *)
Fixpoint sfl_loop (locations : list (Z * Z)) (plen : Z) : res (list fspan) :=
  match locations with
  | [] => Ok []
  | (s, e) :: t =>
      if (s >? e) || (Z.min s e <? 0) then Err E_Value
      else if s >? plen then Err E_Other
      else bind (sfl_loop t plen) (fun tl =>
        if e >? plen then Ok (mk_span s (Z.min e plen) false :: FL (Z.abs (e - plen)) :: tl)
        else Ok (mk_span s e false :: tl))
  end.

Definition spans_from_locations (locations : list (Z * Z)) (plen : Z) : res (list fspan) :=
  match locations with
  | [] => Ok []
  | (s0, _) :: _ => if s0 >? last_end locations then Err E_Value else sfl_loop locations plen
  end.

Definition from_locations (locations : list (Z * Z)) (plen : Z) : res fmap :=
  bind (spans_from_locations locations plen) (fun sp => Ok (mk_fmap sp plen)).

(** [as_map(slice, length, FeatureMap)] for a slice object *)
Definition as_map_slice (a b : option Z) (length : Z) : res fmap :=
  let lo := norm_index a length 0 in
  let hi := norm_index b length length in
  from_locations (if lo >? hi then [] else [(lo, hi)]) length.

Fixpoint remap_all (spans : list fspan) (fm : fmap) : res (list fspan) :=
  match spans with
  | [] => Ok []
  | sp :: t => bind (remap_with sp fm) (fun hd => bind (remap_all t fm) (fun tl => Ok (hd ++ tl)))
  end.

(** [FeatureMap.__getitem__(FeatureMap)] l.1848 *)
Definition fm_getitem_map (fm new_map : fmap) : res fmap :=
  bind (remap_all (fspans new_map) fm) (fun parts => Ok (mk_fmap parts (fplen fm))).

(** [FeatureMap.__getitem__(slice)] *)
Definition fm_getitem_slice (fm : fmap) (a b : option Z) : res fmap :=
  bind (as_map_slice a b (flen fm)) (fun nm => fm_getitem_map fm nm).

(** [__mul__] *)
Definition span_mul (sp : fspan) (k : Z) : fspan :=
  match sp with FS s e r => mk_span (s * k) (e * k) r | FL n => FL (n * k) end.
Definition fm_mul (fm : fmap) (k : Z) : fmap :=
  mk_fmap (map (fun sp => span_mul sp k) (fspans fm)) (fplen fm * k).

(** [covered] l.1887: +1 / -1 events per position, swept in sorted order *)
Fixpoint cov_delta (spans : list fspan) (d : list (Z * Z)) : list (Z * Z) :=
  match spans with
  | [] => d
  | FL _ :: t => cov_delta t d
  | FS s e _ :: t => cov_delta t (dict_add e 0 (-1) (dict_add s 0 1 d))
  end.

(** state of the sweep: (y, last_y, start) — [last_x] only skips a repeated key,
    and the keys of a dict are distinct *)
Fixpoint cov_sweep (items : list (Z * Z)) (y last_y : Z) (start : option Z) : res (list (Z * Z)) :=
  match items with
  | [] => if y =? 0 then Ok [] else Err E_Other
  | (x, dx) :: t =>
      let y := y + dx in
      if negb (y =? 0) && (last_y =? 0) then
        match start with
        | Some _ => Err E_Other
        | None => cov_sweep t y y (Some x)
        end
      else if negb (last_y =? 0) && (y =? 0) then
        bind (cov_sweep t y y None) (fun tl =>
          match start with Some s => Ok ((s, x) :: tl) | None => Err E_Type end)
      else cov_sweep t y y start
  end.

Definition fm_covered (fm : fmap) : res fmap :=
  bind (cov_sweep (sort_pairs (cov_delta (fspans fm) [])) 0 0 None) (fun locs =>
    from_locations locs (fplen fm)).

(** [nucleic_reversed] l.1918 *)
Fixpoint nrev_spans (spans : list fspan) (plen : Z) : res (list fspan) :=
  match spans with
  | [] => Ok []
  | FL n :: t => bind (nrev_spans t plen) (fun tl => Ok (FL n :: tl))
  | FS s e _ :: t =>
      let start := plen - e in
      if start <? 0 then Err E_Other
      else bind (nrev_spans t plen) (fun tl => Ok (mk_span start (start + (e - s)) false :: tl))
  end.
Definition fm_nucleic_reversed (fm : fmap) : res fmap :=
  bind (nrev_spans (fspans fm) (fplen fm)) (fun sp => Ok (mk_fmap (rev sp) (fplen fm))).

(** [get_gap_coordinates]: [spans[i-1].end] of a LostSpan is an AttributeError *)
Fixpoint gapcoords_loop (prev : option fspan) (spans : list fspan) : res (list (Z * Z)) :=
  match spans with
  | [] => Ok []
  | sp :: t =>
      match sp with
      | FS _ _ _ => gapcoords_loop (Some sp) t
      | FL n =>
          match prev with
          | None => bind (gapcoords_loop (Some sp) t) (fun tl => Ok ((0, n) :: tl))
          | Some (FS _ e _) => bind (gapcoords_loop (Some sp) t) (fun tl => Ok ((e, n) :: tl))
          | Some (FL _) => Err E_Type
          end
      end
  end.
Definition fm_get_gap_coordinates (fm : fmap) : res (list (Z * Z)) := gapcoords_loop None (fspans fm).

(** map coordinates of the lost ([want_lost = true]) / real spans *)
Fixpoint span_locs (want_lost : bool) (offset : Z) (spans : list fspan) : list (Z * Z) :=
  match spans with
  | [] => []
  | sp :: t =>
      (if Bool.eqb (is_lost sp) want_lost then [(offset, offset + slen sp)] else [])
      ++ span_locs want_lost (offset + slen sp) t
  end.

Definition fm_gaps (fm : fmap) : res fmap := from_locations (span_locs true 0 (fspans fm)) (flen fm).
Definition fm_nongap (fm : fmap) : res (list fspan) := spans_from_locations (span_locs false 0 (fspans fm)) (flen fm).
Definition fm_without_gaps (fm : fmap) : fmap :=
  mk_fmap (filter (fun sp => negb (is_lost sp)) (fspans fm)) (fplen fm).

(** [inverse] l.1982 *)
Definition quad : Type := (Z * Z * Z * Z)%type.
Definition quad_le (x y : quad) : bool :=
  let '(a1, a2, a3, a4) := x in
  let '(b1, b2, b3, b4) := y in
  (a1 <? b1) || ((a1 =? b1) && ((a2 <? b2) || ((a2 =? b2) && ((a3 <? b3) || ((a3 =? b3) && (a4 <=? b4)))))).
Fixpoint insert_quad (x : quad) (l : list quad) : list quad :=
  match l with [] => [x] | y :: t => if quad_le x y then x :: l else y :: insert_quad x t end.
Definition sort_quads (l : list quad) : list quad := fold_right insert_quad [] l.

Fixpoint inv_temp (cum : Z) (spans : list fspan) : list quad :=
  match spans with
  | [] => []
  | FL n :: t => inv_temp (cum + n) t
  | FS s e r :: t =>
      (if r then (s, e, cum + (e - s), cum) else (s, e, cum, cum + (e - s))) :: inv_temp (cum + (e - s)) t
  end.

Fixpoint inv_loop (temp : list quad) (last_start : Z) : res (list fspan * Z) :=
  match temp with
  | [] => Ok ([], last_start)
  | (s, e, cs, ce) :: t =>
      if s <? last_start then Err E_Value
      else bind (inv_loop t e) (fun '(tl, ls) =>
        Ok ((if s >? last_start then [FL (s - last_start)] else []) ++ mk_span cs ce (cs >? ce) :: tl, ls))
  end.

Definition fm_inverse (fm : fmap) : res fmap :=
  bind (inv_loop (sort_quads (inv_temp 0 (fspans fm))) 0) (fun '(sp, last_start) =>
    Ok (mk_fmap (sp ++ (if fplen fm >? last_start then [FL (fplen fm - last_start)] else [])) (flen fm))).

(** [shadow] = [self.inverse().gaps()] *)
Definition fm_shadow (fm : fmap) : res fmap := bind (fm_inverse fm) fm_gaps.

Definition fm_get_coordinates (fm : fmap) : list (Z * Z) :=
  flat_map (fun sp => match sp with FS s e _ => [(s, e)] | FL _ => [] end) (fspans fm).

Definition fm_get_covering_span (fm : fmap) : res fmap :=
  from_locations [(fstart fm, fend fm)] (fplen fm).
