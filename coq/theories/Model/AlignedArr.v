(** C03 — executable model of the array-backed alignment class
    ([cogent3.core.alignment.ArrayAlignment] l.3855-4556 and the methods it
    inherits from [AlignmentI] / [_SequenceCollectionBase]), transcribed method
    by method.  The dense matrix [array_seqs] is a list of named rows, a row
    a list of characters (the alphabet index encoding is a bijection on the
    characters of the moltype and is not modelled).  numpy idioms: basic
    slicing of the column axis is Python slicing of every row, integer
    indexing wraps a negative index and raises IndexError out of range,
    [take(indices, axis=1)] gathers columns, a boolean mask keeps the columns
    where it is true.  No proofs in this file.

    The vocabulary ([aop], [pred], [variant], [eval_pred], [n_windows], ...)
    is that of Model/Aligned.v; [variant] matters in one place only:
    [take_positions(negate=True)] is the method both classes share (C03-2). *)
From CG3 Require Import Lib.PyZ Lib.Val Lib.PySlice Model.View Model.IndelMap Model.Aligned.

Definition dalign := list (name * list Z).          (* names x rows of array_seqs *)

(** [len(self)] = [seq_len] = number of columns *)
Definition d_len (a : dalign) : Z := match a with [] => 0 | (_, s) :: _ => zlen s end.

Definition d_map (f : list Z -> list Z) (a : dalign) : dalign := map (fun nr => (fst nr, f (snd nr))) a.

(** the class constructor: "Input sequences are not all the same length" *)
Definition d_make (a : dalign) : res dalign :=
  match a with
  | [] => Err E_Value
  | (_, s) :: t => if forallb (fun nr => zlen (snd nr) =? zlen s) t then Ok a else Err E_Value
  end.

(** integer index into an axis of length [n] *)
Definition np_index (n i : Z) : res Z :=
  if (i <? - n) || (i >=? n) then Err E_Index else Ok (if i <? 0 then i + n else i).

Fixpoint mapMr {A B} (f : A -> res B) (l : list A) : res (list B) :=
  match l with
  | [] => Ok []
  | x :: t => bind (f x) (fun y => bind (mapMr f t) (fun ys => Ok (y :: ys)))
  end.

(** [array.take(indices, axis=1)] *)
Definition np_take (n : Z) (idx : list Z) (a : dalign) : res dalign :=
  bind (mapMr (np_index n) idx) (fun js => Ok (d_map (fun s => gather s js) a)).

(** [__getitem__] l.3960 *)
Definition d_getitem_slice (a : dalign) (x y : option Z) (c : Z) : res dalign :=
  if c =? 0 then Err E_Value else d_make (d_map (fun s => py_slice s x y c) a).
Definition d_getitem_int (a : dalign) (i : Z) : res dalign :=
  bind (np_index (d_len a) i) (fun j => d_make (d_map (fun s => zget s j) a)).

(** [Sequence.__getitem__(int)] then [str]: one character of a row, Python indexing *)
Definition seq_char (s : list Z) (i : Z) : res (list Z) :=
  match py_getitem s i with Some c => Ok [c] | None => Err E_Index end.

Definition concatR (l : list (res (list Z))) : res (list Z) :=
  fold_right (fun r acc => bind r (fun s => bind acc (fun t => Ok (s ++ t)))) (Ok []) l.

(** [AlignmentI.take_positions] l.2581 on the [Sequence] objects of [named_seqs] *)
Definition d_take_positions (vr : variant) (k : kind) (a : dalign) (cols : list Z) (negate : bool) : res dalign :=
  bind (mapMr (fun nr =>
          bind (if negate
                then bind (concatR (map (seq_char (snd nr)) (filter (fun i => negb (zmem i cols)) (zrange 0 (zlen (snd nr))))))
                          (fun s => if negb (v_negate_ok vr) && (match k with KOther => false | _ => true end)
                                    then Err E_Type else Ok s)
                else concatR (map (seq_char (snd nr)) cols))
               (fun s => Ok (fst nr, s))) a) d_make.

Definition d_find (n : name) (a : dalign) : option (list Z) :=
  match filter (fun nr => name_eqb (fst nr) n) a with (_, s) :: _ => Some s | [] => None end.

(** [take_seqs] l.607 *)
Definition d_take_seqs (a : dalign) (arg : names_arg) (negate : bool) : res dalign :=
  let names := norm_names arg in      (* if type(seqs) == str: seqs = [seqs] *)
  if negate then
    match filter (fun nr => negb (nmem (fst nr) names)) a with
    | [] => Err E_None
    | r => d_make r
    end
  else if forallb (fun x => match d_find x a with Some _ => true | None => false end) names
  then match names with
       | [] => Err E_None
       | _ => d_make (flat_map (fun x => match d_find x a with Some s => [(x, s)] | None => [] end) names)
       end
  else Err E_Key.

(** one motif block [shaped[:, j]], flattened *)
Definition d_block (m : Z) (a : dalign) (j : Z) : list Z :=
  flat_map (fun nr => gather (snd nr) (zrange (j * m) (j * m + m))) a.

(** [filtered] l.4108 (drop_remainder=True) *)
Definition d_filtered (a : dalign) (p : pred) (m : Z) : res dalign :=
  if m <=? 0 then Err E_Value
  else
    let num_motifs := d_len a / m in
    let indices := flat_map (fun j => if eval_pred p (d_block m a j) then zrange (m * j) (m * j + m) else [])
                            (zrange 0 num_motifs) in
    match indices with
    | [] => Err E_None
    | _ => bind (np_take (d_len a) indices a) d_make
    end.

(** [_SequenceCollectionBase.rc] l.1450 on [Sequence] objects *)
Definition d_rc (k : kind) (a : dalign) : res dalign :=
  match k with
  | KOther => Err E_Type
  | _ => d_make (d_map (fun s => map (comp k) (rev s)) a)
  end.

(** [__add__] l.919: [self.named_seqs[name] + other.named_seqs[name]] for every name of [self] *)
Definition d_add (a b : dalign) : res dalign :=
  if negb (zlen a =? zlen b) then Err E_Value
  else bind (mapMr (fun nr => match d_find (fst nr) b with
                              | None => Err E_Value
                              | Some t => Ok (fst nr, snd nr ++ t)
                              end) a) d_make.

(** [get_degapped_relative_to] l.4169: boolean mask of the reference row *)
Fixpoint mask_keep (s : list Z) (mask : list bool) : list Z :=
  match s, mask with
  | c :: s', b :: m' => (if b then [c] else []) ++ mask_keep s' m'
  | _, _ => []
  end.
Definition d_degap_rel (a : dalign) (x : name) : res dalign :=
  match d_find x a with
  | None => Err E_Value
  | Some ref => let mask := map (fun c => negb (c =? GAPC)) ref in d_make (d_map (fun s => mask_keep s mask) a)
  end.

(** [sample] l.4056 with the given locations *)
Definition d_sample (a : dalign) (locs : list Z) (m : Z) : res dalign :=
  let locations := if 1 <? m then flat_map (fun l => zrange (l * m) (l * m + m)) locs else locs in
  bind (np_take (d_len a) locations a) d_make.

(** [to_moltype] l.1419 ([Sequence.to_moltype] on every row) *)
Definition d_to_kind (k : kind) (a : dalign) (target : kind) : res (kind * dalign) :=
  match k, target with
  | KDna, KDna | KRna, KRna => Ok (k, a)
  | KDna, KRna => bind (d_make (d_map (map t2u) a)) (fun a' => Ok (KRna, a'))
  | KRna, KDna => bind (d_make (d_map (map u2t) a)) (fun a' => Ok (KDna, a'))
  | _, _ => Err E_Type
  end.

Definition keep_kind (k : kind) (r : res dalign) : res (kind * dalign) := bind r (fun a => Ok (k, a)).

Definition d_apply (vr : variant) (k : kind) (a : dalign) (o : aop) : res (kind * dalign) :=
  match o with
  | OSlice x y => keep_kind k (d_getitem_slice a x y 1)
  | OSliceStep x y c => keep_kind k (d_getitem_slice a x y c)
  | OIndex i => keep_kind k (d_getitem_int a i)
  | ORc => keep_kind k (d_rc k a)
  | OAddSelf => keep_kind k (d_add a a)
  | OAddRows other => keep_kind k (bind (d_make other) (fun b => d_add a b))
  | OAddSlices x y x' y' =>
      keep_kind k (bind (d_getitem_slice a (Some x) (Some y) 1) (fun a1 =>
                   bind (d_getitem_slice a (Some x') (Some y') 1) (fun a2 => d_add a1 a2)))
  | OTakePos cols negate => keep_kind k (d_take_positions vr k a cols negate)
  | OTakeSeqs names negate => keep_kind k (d_take_seqs a names negate)
  | OFilter p m => keep_kind k (d_filtered a p m)
  | ODegapRel x => keep_kind k (d_degap_rel a x)
  | OSample locs m => keep_kind k (d_sample a locs m)
  | OToRna => d_to_kind k a KRna
  | OToDna => d_to_kind k a KDna
  | OToType => Ok (k, a)
  | OWindow w st i =>
      if (0 <=? i) && (i <? n_windows (d_len a) w st) && (0 <? w) && (0 <? st)
      then keep_kind k (d_getitem_slice a (Some (i * st)) (Some (i * st + w)) 1)
      else Err E_None
  | ORename mp =>
      (* rename_seqs l.1625 on [Sequence] rows: the same rows under [renamer(name)] *)
      keep_kind k (d_make (map (fun nr => (rename_of mp (fst nr), snd nr)) a))
  end.

Definition d_keep (vr : variant) (st : kind * dalign) (o : aop) : kind * dalign :=
  match d_apply vr (fst st) (snd st) o with Ok st' => st' | Err _ => st end.

Definition d_run (vr : variant) (st : kind * dalign) (ops : list aop) : kind * dalign := fold_left (d_keep vr) ops st.
