(** C10 - executable model of the *re-basing* serialisers of cogent3 and of the
    type-keyed deserialiser registry.

    Transcribed from
      /repo/src/cogent3/util/deserialise.py   [register_deserialiser], [deserialise_object] (l.367-399:
                                              FIRST registered key that is a SUBSTRING of the "type" value),
                                              [deserialise_seqview], [deserialise_seq], [deserialise_aligned],
                                              [deserialise_seq_collections]
      /repo/src/cogent3/core/sequence.py      [SeqView.to_rich_dict] / [from_rich_dict] (l.2374-2396),
                                              [SequenceI.to_rich_dict] (l.127), [_coerce_to_seqview] (l.3015),
                                              [SeqView.replace] (l.2346, reached through [MolType.make_seq] ->
                                              [coerce_str] = [_convert_to_dna]/[_convert_to_rna], moltype.py l.766/1381)
      /repo/src/cogent3/core/new_sequence.py  [SeqView.to_rich_dict] (l.2584), [Sequence.to_rich_dict] (l.217),
                                              [_moltype_seq_from_rich_dict] (l.75), [Sequence.from_rich_dict]
      /repo/src/cogent3/core/alignment.py     [Aligned.to_rich_dict] / [from_rich_dict] (l.2424-2440),
                                              [_SequenceCollectionBase.to_rich_dict] (l.854)
      /repo/src/cogent3/core/location.py      [IndelMap.to_rich_dict] / [from_rich_dict] (l.1532-1558)

    The view kernel ([view], [mk_view], [getitem_slice], [rich_seq], [parent_start] ...) is Model/View.v,
    the indel map record and its constructor check ([post_init]) Model/IndelMap.v; both are imported, not
    copied.  A rich dict is a value of the small JSON datatype [json]; python dicts are insertion-ordered
    association lists whose keys are strings (code point lists).

    No proofs here. *)
From Coq Require Import Strings.String Strings.Ascii.
From CG3 Require Import Lib.PyZ Lib.Val Lib.PySlice Model.View.
From CG3 Require Model.IndelMap.

(** * strings *)

(** a Coq string literal as a python string (code points) *)
Definition zs (s : string) : list Z :=
  map (fun a => Z.of_N (N_of_ascii a)) (list_ascii_of_string s).

Fixpoint zeqb (a b : list Z) : bool :=
  match a, b with
  | [], [] => true
  | x :: a', y :: b' => (x =? y) && zeqb a' b'
  | _, _ => false
  end.

Fixpoint is_prefix (k t : list Z) : bool :=
  match k, t with
  | [], _ => true
  | x :: k', y :: t' => (x =? y) && is_prefix k' t'
  | _ :: _, [] => false
  end.

(** python [k in t] on strings *)
Fixpoint is_infix (k t : list Z) : bool :=
  is_prefix k t || match t with [] => false | _ :: t' => is_infix k t' end.

(** * JSON values *)

Inductive json : Type :=
| JNull
| JBool (b : bool)
| JInt (z : Z)
| JStr (s : list Z)
| JArr (l : list json)
| JObj (o : list (list Z * json)).

Definition dict := list (list Z * json).

(** [d.get(k)] *)
Fixpoint jget (k : list Z) (d : dict) : option json :=
  match d with
  | [] => None
  | (k', v) :: d' => if zeqb k k' then Some v else jget k d'
  end.

Definition jopt_str (o : option (list Z)) : json := match o with Some s => JStr s | None => JNull end.

(** field names *)
Definition k_type := zs "type".
Definition k_version := zs "version".
Definition k_init_args := zs "init_args".
Definition k_seq := zs "seq".
Definition k_seqid := zs "seqid".
Definition k_step := zs "step".
Definition k_offset := zs "offset".
Definition k_name := zs "name".
Definition k_moltype := zs "moltype".
Definition k_info := zs "info".
Definition k_annotation_offset := zs "annotation_offset".
Definition k_gap_pos := zs "gap_pos".
Definition k_cum_gap_lengths := zs "cum_gap_lengths".
Definition k_parent_length := zs "parent_length".
Definition k_map_init := zs "map_init".
Definition k_seq_init := zs "seq_init".
Definition k_seqs := zs "seqs".
Definition k_alphabet := zs "alphabet".

Definition version_str := zs "2024.7.19a6".

(** * which implementation *)
Inductive style := SOld | SNew.

(** provenance strings ([get_object_provenance]) *)
Definition ty_seqview (st : style) : list Z :=
  match st with SOld => zs "cogent3.core.sequence.SeqView" | SNew => zs "cogent3.core.new_sequence.SeqView" end.

Definition ty_seq (st : style) (k : kind) : list Z :=
  match st, k with
  | SOld, KDna => zs "cogent3.core.sequence.DnaSequence"
  | SOld, KRna => zs "cogent3.core.sequence.RnaSequence"
  | SOld, KOther => zs "cogent3.core.sequence.Sequence"
  | SNew, KDna => zs "cogent3.core.new_sequence.DnaSequence"
  | SNew, KRna => zs "cogent3.core.new_sequence.RnaSequence"
  | SNew, KOther => zs "cogent3.core.new_sequence.Sequence"
  end.

(** the registry key of [deserialise_seq]: the module path of the old-style sequence classes *)
Definition key_seq_module : list Z := zs "cogent3.core.sequence".

Definition ty_aligned := zs "cogent3.core.alignment.Aligned".
Definition ty_alignment := zs "cogent3.core.alignment.Alignment".
Definition ty_indelmap := zs "cogent3.core.location.IndelMap".

Definition label_of (k : kind) : list Z :=
  match k with KDna => zs "dna" | KRna => zs "rna" | KOther => zs "text" end.

(** [get_moltype(label)] on the three modelled labels; anything else raises *)
Definition kind_of_label (l : list Z) : res kind :=
  if zeqb l (zs "dna") then Ok KDna
  else if zeqb l (zs "rna") then Ok KRna
  else if zeqb l (zs "text") then Ok KOther
  else Err E_Value.

(** * the modelled objects *)

(** a sequence: the view core of Model/View.v plus name and info *)
Record seqobj := mkSeq { s_core : pseq; s_name : option (list Z); s_info : dict }.

(** one row of an [Alignment] *)
Record aligned := mkAl { a_map : IndelMap.imap; a_seq : seqobj }.

(** * encoders *)

(** [SeqView.to_rich_dict]: only the plus-strand segment the view covers and the step are kept *)
Definition view_to_dict (st : style) (v : view) (p : list Z) (seqid : option (list Z)) : json :=
  JObj [ (k_type, JStr (ty_seqview st));
         (k_version, JStr version_str);
         (k_init_args, JObj [ (k_seq, JStr (rich_seq v p));
                              (k_seqid, jopt_str seqid);
                              (k_step, JInt (step v)) ]) ].

(** [info or None] *)
Definition info_to_json (i : dict) : json := match i with [] => JNull | _ => JObj i end.

(** [Sequence.to_rich_dict(exclude_annotations=True)] (both styles write the same fields) *)
Definition seq_to_dict (st : style) (s : seqobj) : json :=
  let c := s_core s in
  JObj [ (k_name, jopt_str (s_name s));
         (k_seq, view_to_dict st (sv c) (parent c) (s_name s));
         (k_moltype, JStr (label_of (skind c)));
         (k_info, info_to_json (s_info s));
         (k_type, JStr (ty_seq st (skind c)));
         (k_version, JStr version_str);
         (k_annotation_offset, JInt (parent_start (sv c))) ].

Definition jints (l : list Z) : json := JArr (map JInt l).

(** [IndelMap.to_rich_dict] *)
Definition imap_to_dict (m : IndelMap.imap) : json :=
  JObj [ (k_gap_pos, jints (IndelMap.gap_pos m));
         (k_cum_gap_lengths, jints (IndelMap.cum_gap_lengths m));
         (k_parent_length, JInt (IndelMap.parent_length m));
         (k_type, JStr ty_indelmap);
         (k_version, JStr version_str) ].

(** [Aligned.to_rich_dict] *)
Definition aligned_to_dict (a : aligned) : json :=
  JObj [ (k_version, JStr version_str);
         (k_type, JStr ty_aligned);
         (k_map_init, imap_to_dict (a_map a));
         (k_seq_init, seq_to_dict SOld (a_seq a)) ].

(** the key under which a row is stored: [seq.name] *)
Definition row_key (a : aligned) : list Z := match s_name (a_seq a) with Some n => n | None => [] end.

(** [Alignment.to_rich_dict] (no annotation db) *)
Definition alignment_to_dict (k : kind) (info : dict) (rows : list aligned) : json :=
  JObj [ (k_seqs, JObj (map (fun a => (row_key a, aligned_to_dict a)) rows));
         (k_moltype, JStr (label_of k));
         (k_info, info_to_json info);
         (k_type, JStr ty_alignment);
         (k_version, JStr version_str) ].

(** * decoders *)

Definition get_obj (j : option json) : res dict := match j with Some (JObj o) => Ok o | Some _ => Err E_Type | None => Err E_Key end.
Definition get_str (j : option json) : res (list Z) := match j with Some (JStr s) => Ok s | Some _ => Err E_Type | None => Err E_Key end.
Definition get_int (j : option json) : res Z := match j with Some (JInt z) => Ok z | Some _ => Err E_Type | None => Err E_Key end.
Definition get_opt_str (j : option json) : res (option (list Z)) :=
  match j with Some (JStr s) => Ok (Some s) | Some JNull | None => Ok None | Some _ => Err E_Type end.
Definition get_int_default (d : Z) (j : option json) : res Z :=
  match j with Some (JInt z) => Ok z | None => Ok d | Some _ => Err E_Type end.

Fixpoint get_ints_list (l : list json) : res (list Z) :=
  match l with
  | [] => Ok []
  | JInt z :: t => bind (get_ints_list t) (fun r => Ok (z :: r))
  | _ :: _ => Err E_Type
  end.
Definition get_ints (j : option json) : res (list Z) :=
  match j with Some (JArr l) => get_ints_list l | Some _ => Err E_Type | None => Err E_Key end.

Definition info_of_json (j : option json) : res dict :=
  match j with Some (JObj o) => Ok o | Some JNull | None => Ok [] | Some _ => Err E_Type end.

(** old-style [SeqView.from_rich_dict]: [cls] called with the unpacked [init_args], with [offset] only if the dict has one
    ([SeqView.to_rich_dict] never writes it): the view over the kept segment, the segment, the seqid *)
Definition view_of_dict_old (d : dict) : res (view * list Z * option (list Z)) :=
  bind (get_obj (jget k_init_args d)) (fun ia =>
  bind (get_str (jget k_seq ia)) (fun sg =>
  bind (get_opt_str (jget k_seqid ia)) (fun sid =>
  bind (get_int_default 0 (jget k_offset d)) (fun off =>
  let stp := match jget k_step ia with Some (JInt c) => Some c | _ => None end in
  bind (mk_view (zlen sg) None None stp off) (fun v => Ok (v, sg, sid)))))).

(** [MolType.coerce_str] applied to the view by [make_seq]: DNA replaces u/U by t/T, RNA the
    reverse, through [SeqView.replace], which re-constructs the view with explicit bounds each time *)
Definition coerce_char (k : kind) (c : Z) : Z :=
  match k with
  | KDna => if c =? 117 then 116 else if c =? 85 then 84 else c
  | KRna => if c =? 116 then 117 else if c =? 84 then 85 else c
  | KOther => c
  end.

Definition coerce_view (k : kind) (v : view) (p : list Z) : res (view * list Z) :=
  match k with
  | KOther => Ok (v, p)
  | _ => bind (copy_view FSeqView v) (fun v1 => bind (copy_view FSeqView v1) (fun v2 => Ok (v2, map (coerce_char k) p)))
  end.

(** [_coerce_to_seqview(SeqView, annotation_offset)] *)
Definition hand_over_offset (v : view) (ao : Z) : res view :=
  if negb (ao =? 0) && negb (offset v =? 0) then Err E_Value
  else if negb (ao =? 0) then Ok (mkV (start v) (stop v) (step v) (seq_len v) ao)
  else Ok v.

(** old-style [deserialise_seq] for a dict whose "seq" is a view dict (what [Sequence.to_rich_dict]
    writes; a plain string there takes the [parse_out_gaps] path, which is not modelled) *)
Definition seq_of_dict_old (d : dict) : res seqobj :=
  bind (get_str (jget k_moltype d)) (fun lab =>
  bind (kind_of_label lab) (fun k =>
  bind (get_obj (jget k_seq d)) (fun vd =>
  bind (view_of_dict_old vd) (fun '(v, sg, sid) =>
  bind (get_opt_str (jget k_name d)) (fun nm =>
  bind (info_of_json (jget k_info d)) (fun inf =>
  bind (get_int_default 0 (jget k_annotation_offset d)) (fun ao =>
  bind (coerce_view k v sg) (fun '(v1, sg1) =>
  bind (hand_over_offset v1 ao) (fun v2 =>
  Ok (mkSeq (mkS v2 sg1 k true) nm inf)))))))))).

(** new-style [Sequence.from_rich_dict] via [_moltype_seq_from_rich_dict]:
    [SeqView(seq=segment, offset=annotation_offset)[::step]] *)
Definition seq_of_dict_new (d : dict) : res seqobj :=
  bind (get_str (jget k_moltype d)) (fun lab =>
  bind (kind_of_label lab) (fun k =>
  bind (get_obj (jget k_seq d)) (fun vd =>
  bind (get_obj (jget k_init_args vd)) (fun ia =>
  bind (get_str (jget k_seq ia)) (fun sg =>
  bind (get_int (jget k_step ia)) (fun stp =>
  bind (get_opt_str (jget k_name d)) (fun nm =>
  bind (info_of_json (jget k_info d)) (fun inf =>
  bind (get_int_default 0 (jget k_annotation_offset d)) (fun ao =>
  bind (mk_view (zlen sg) None None None ao) (fun v0 =>
  bind (getitem_slice FSeqView v0 None None (Some stp)) (fun v =>
  Ok (mkSeq (mkS v sg k true) nm inf)))))))))))).

Definition seq_of_dict (st : style) (d : dict) : res seqobj :=
  match st with SOld => seq_of_dict_old d | SNew => seq_of_dict_new d end.

Definition lift_imap {A} (r : IndelMap.res A) : res A :=
  match r with IndelMap.Ok a => Ok a | IndelMap.Err e => Err e end.

(** [IndelMap.from_rich_dict]: [cls(gap_pos=.., cum_gap_lengths=.., parent_length=..)] -> [__post_init__] *)
Definition imap_of_dict (d : dict) : res IndelMap.imap :=
  bind (get_ints (jget k_gap_pos d)) (fun gp =>
  bind (get_ints (jget k_cum_gap_lengths d)) (fun cl =>
  bind (get_int_default 0 (jget k_parent_length d)) (fun pl =>
  lift_imap (IndelMap.post_init gp cl pl)))).

(** [Aligned.from_rich_dict] *)
Definition aligned_of_dict (d : dict) : res aligned :=
  bind (get_obj (jget k_map_init d)) (fun md =>
  bind (imap_of_dict md) (fun m =>
  bind (get_obj (jget k_seq_init d)) (fun sd =>
  bind (seq_of_dict_old sd) (fun s => Ok (mkAl m s))))).

Fixpoint rows_of_dicts (rows : list (list Z * json)) : res (list aligned) :=
  match rows with
  | [] => Ok []
  | (_, JObj rd) :: t => bind (aligned_of_dict rd) (fun a => bind (rows_of_dicts t) (fun r => Ok (a :: r)))
  | _ :: _ => Err E_Type
  end.

(** [deserialise_seq_collections] for an [Alignment] whose rows are [Aligned] dicts:
    (moltype, info, rows in the order of the "seqs" dict) *)
Definition alignment_of_dict (d : dict) : res (kind * dict * list aligned) :=
  bind (get_str (jget k_moltype d)) (fun lab =>
  bind (kind_of_label lab) (fun k =>
  bind (get_obj (jget k_seqs d)) (fun rows =>
  bind (rows_of_dicts rows) (fun rs =>
  bind (info_of_json (jget k_info d)) (fun inf => Ok (k, inf, rs)))))).

(** * the registry *)

(** the deserialiser functions, by name *)
Inductive decoder :=
| DTabular | DSeqView | DNotCompleted | DResult | DMolType | DAlphabet | DAligned | DSeq | DSeqCollections
| DTree | DSubstitutionModel | DLikelihoodFunction | DIndelMap | DFeatureMap | DBasicDb | DGffDb | DGbDb
| DAnnotationToDb | DCharAlphabet | DKmerAlphabet | DCodonAlphabet
| DNewSequence | DNewProteinSequence | DNewByteSequence | DNewProteinWithStopSequence | DNewDnaSequence | DNewRnaSequence
| DSeqsData | DNewSequenceCollection
| DOther (name : list Z).

Definition registry_t := list (list Z * decoder).

(** [deserialise_object]'s loop: the FIRST registered key (insertion order) that is a substring of the type string *)
Fixpoint dispatch (reg : registry_t) (type_ : list Z) : option decoder :=
  match reg with
  | [] => None
  | (k, f) :: reg' => if is_infix k type_ then Some f else dispatch reg' type_
  end.

(** the registry as it is after importing cogent3 and the new-style modules, in registration order
    (compared with the live [_deserialise_func_map] by the correspondence check) *)
Definition registry : registry_t :=
  [ (zs "cogent3.util.table.Table", DTabular);
    (zs "cogent3.util.dict_array.DictArray", DTabular);
    (zs "cogent3.evolve.fast_distance.DistanceMatrix", DTabular);
    (zs "cogent3.core.sequence.SeqView", DSeqView);
    (zs "cogent3.app.composable.NotCompleted", DNotCompleted);
    (zs "cogent3.app.result", DResult);
    (zs "cogent3.core.moltype", DMolType);
    (zs "cogent3.core.alphabet", DAlphabet);
    (zs "cogent3.core.alignment.Aligned", DAligned);
    (zs "cogent3.core.sequence", DSeq);
    (zs "cogent3.core.alignment", DSeqCollections);
    (zs "cogent3.core.tree", DTree);
    (zs "cogent3.evolve.substitution_model", DSubstitutionModel);
    (zs "cogent3.evolve.ns_substitution_model", DSubstitutionModel);
    (zs "cogent3.evolve.parameter_controller", DLikelihoodFunction);
    (zs "cogent3.core.location.IndelMap", DIndelMap);
    (zs "cogent3.core.location.FeatureMap", DFeatureMap);
    (zs "cogent3.core.annotation_db.BasicAnnotationDb", DBasicDb);
    (zs "cogent3.core.annotation_db.GffAnnotationDb", DGffDb);
    (zs "cogent3.core.annotation_db.GenbankAnnotationDb", DGbDb);
    (zs "annotation_to_annotation_db", DAnnotationToDb);
    (zs "cogent3.core.new_alphabet.CharAlphabet", DCharAlphabet);
    (zs "cogent3.core.new_alphabet.KmerAlphabet", DKmerAlphabet);
    (zs "cogent3.core.new_alphabet.CodonAlphabet", DCodonAlphabet);
    (zs "cogent3.core.new_sequence.Sequence", DNewSequence);
    (zs "cogent3.core.new_sequence.ProteinSequence", DNewProteinSequence);
    (zs "cogent3.core.new_sequence.ByteSequence", DNewByteSequence);
    (zs "cogent3.core.new_sequence.ProteinWithStopSequence", DNewProteinWithStopSequence);
    (zs "cogent3.core.new_sequence.DnaSequence", DNewDnaSequence);
    (zs "cogent3.core.new_sequence.RnaSequence", DNewRnaSequence);
    (zs "cogent3.core.new_alignment.SeqsData", DSeqsData);
    (zs "cogent3.core.new_alignment.SequenceCollection", DNewSequenceCollection) ].

(** every class of the package that offers [to_rich_dict]/[to_json] and whose type string the registry
    resolves, with the decoder that is written for it (compared with the live dispatch by the check) *)
Definition expected_dispatch : list (list Z * decoder) :=
  [ (zs "cogent3.util.table.Table", DTabular);
    (zs "cogent3.util.dict_array.DictArray", DTabular);
    (zs "cogent3.evolve.fast_distance.DistanceMatrix", DTabular);
    (zs "cogent3.core.sequence.SeqView", DSeqView);
    (zs "cogent3.app.composable.NotCompleted", DNotCompleted);
    (zs "cogent3.app.result.generic_result", DResult);
    (zs "cogent3.app.result.model_result", DResult);
    (zs "cogent3.app.result.model_collection_result", DResult);
    (zs "cogent3.app.result.hypothesis_result", DResult);
    (zs "cogent3.app.result.tabular_result", DResult);
    (zs "cogent3.app.result.bootstrap_result", DResult);
    (zs "cogent3.core.moltype.MolType", DMolType);
    (zs "cogent3.core.alphabet.Alphabet", DAlphabet);
    (zs "cogent3.core.alphabet.CharAlphabet", DAlphabet);
    (zs "cogent3.core.alphabet.JointEnumeration", DAlphabet);
    (zs "cogent3.core.alignment.Aligned", DAligned);
    (zs "cogent3.core.sequence.Sequence", DSeq);
    (zs "cogent3.core.sequence.DnaSequence", DSeq);
    (zs "cogent3.core.sequence.RnaSequence", DSeq);
    (zs "cogent3.core.sequence.ProteinSequence", DSeq);
    (zs "cogent3.core.sequence.ProteinWithStopSequence", DSeq);
    (zs "cogent3.core.sequence.ByteSequence", DSeq);
    (zs "cogent3.core.sequence.ABSequence", DSeq);
    (zs "cogent3.core.sequence.NucleicAcidSequence", DSeq);
    (zs "cogent3.core.sequence.ArraySequence", DSeq);
    (zs "cogent3.core.sequence.ArrayDnaSequence", DSeq);
    (zs "cogent3.core.alignment.Alignment", DSeqCollections);
    (zs "cogent3.core.alignment.ArrayAlignment", DSeqCollections);
    (zs "cogent3.core.alignment.SequenceCollection", DSeqCollections);
    (zs "cogent3.core.tree.PhyloNode", DTree);
    (zs "cogent3.core.tree.TreeNode", DTree);
    (zs "cogent3.evolve.substitution_model.TimeReversibleNucleotide", DSubstitutionModel);
    (zs "cogent3.evolve.substitution_model.TimeReversibleCodon", DSubstitutionModel);
    (zs "cogent3.evolve.substitution_model.TimeReversibleProtein", DSubstitutionModel);
    (zs "cogent3.evolve.substitution_model.Empirical", DSubstitutionModel);
    (zs "cogent3.evolve.ns_substitution_model.General", DSubstitutionModel);
    (zs "cogent3.evolve.ns_substitution_model.NonReversibleNucleotide", DSubstitutionModel);
    (zs "cogent3.evolve.ns_substitution_model.DiscreteSubstitutionModel", DSubstitutionModel);
    (zs "cogent3.evolve.parameter_controller.AlignmentLikelihoodFunction", DLikelihoodFunction);
    (zs "cogent3.evolve.parameter_controller.SequenceLikelihoodFunction", DLikelihoodFunction);
    (zs "cogent3.core.location.IndelMap", DIndelMap);
    (zs "cogent3.core.location.FeatureMap", DFeatureMap);
    (zs "cogent3.core.annotation_db.BasicAnnotationDb", DBasicDb);
    (zs "cogent3.core.annotation_db.GffAnnotationDb", DGffDb);
    (zs "cogent3.core.annotation_db.GenbankAnnotationDb", DGbDb);
    (zs "cogent3.core.new_alphabet.CharAlphabet", DCharAlphabet);
    (zs "cogent3.core.new_alphabet.KmerAlphabet", DKmerAlphabet);
    (zs "cogent3.core.new_alphabet.CodonAlphabet", DCodonAlphabet);
    (zs "cogent3.core.new_sequence.Sequence", DNewSequence);
    (zs "cogent3.core.new_sequence.ProteinSequence", DNewProteinSequence);
    (zs "cogent3.core.new_sequence.ByteSequence", DNewByteSequence);
    (zs "cogent3.core.new_sequence.ProteinWithStopSequence", DNewProteinWithStopSequence);
    (zs "cogent3.core.new_sequence.DnaSequence", DNewDnaSequence);
    (zs "cogent3.core.new_sequence.RnaSequence", DNewRnaSequence);
    (zs "cogent3.core.new_alignment.SeqsData", DSeqsData);
    (zs "cogent3.core.new_alignment.SequenceCollection", DNewSequenceCollection) ].

(** * [deserialise_object] on the modelled types *)

Inductive obj :=
| OView (v : view) (p : list Z) (seqid : option (list Z))
| OSeq (st : style) (s : seqobj)
| OImap (m : IndelMap.imap)
| OAligned (a : aligned)
| OAlignment (k : kind) (info : dict) (rows : list aligned).

Definition to_dict (x : obj) : json :=
  match x with
  | OView v p sid => view_to_dict SOld v p sid
  | OSeq st s => seq_to_dict st s
  | OImap m => imap_to_dict m
  | OAligned a => aligned_to_dict a
  | OAlignment k inf rows => alignment_to_dict k inf rows
  end.

(** run the decoder the registry selects *)
Definition run_decoder (f : decoder) (d : dict) : res obj :=
  match f with
  | DSeqView => bind (view_of_dict_old d) (fun '(v, sg, sid) => Ok (OView v sg sid))
  | DSeq => bind (seq_of_dict_old d) (fun s => Ok (OSeq SOld s))
  | DNewSequence | DNewDnaSequence | DNewRnaSequence => bind (seq_of_dict_new d) (fun s => Ok (OSeq SNew s))
  | DIndelMap => bind (imap_of_dict d) (fun m => Ok (OImap m))
  | DAligned => bind (aligned_of_dict d) (fun a => Ok (OAligned a))
  | DSeqCollections => bind (alignment_of_dict d) (fun '(k, inf, rows) => Ok (OAlignment k inf rows))
  | _ => Err E_Other                      (* decoder outside the model *)
  end.

(** [deserialise_object(dict)]: no "type" -> returned as is (not an object: [Err E_None]); unknown type -> NotImplementedError *)
Definition deserialise_object (j : json) : res obj :=
  match j with
  | JObj d =>
      match jget k_type d with
      | Some (JStr t) =>
          match dispatch registry t with
          | Some f => run_decoder f d
          | None => Err E_Other
          end
      | _ => Err 0
      end
  | _ => Err 0
  end.
