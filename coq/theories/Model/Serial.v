(** C10 - executable model of the *re-basing* serialisers of cogent3 and of the
    type-keyed deserialiser registry.

    Transcribed from
      /repo/src/cogent3/util/deserialise.py   [register_deserialiser], [deserialise_object] (l.367-399:
                                              FIRST registered key that is a SUBSTRING of the "type" value),
                                              [deserialise_seqview], [deserialise_seq], [deserialise_aligned],
                                              [deserialise_seq_collections]
      /repo/src/cogent3/core/sequence.py      [SeqView.to_rich_dict] / [from_rich_dict] (l.2374-2396),
                                              [SequenceI.to_rich_dict] (l.127), [_coerce_to_seqview] (l.3015),
                                              [SeqView.replace] (l.2346, reached through [MolType.make_seq] ->
                                              [coerce_str] = [_convert_to_dna]/[_convert_to_rna], moltype.py l.766/1381)
      /repo/src/cogent3/core/new_sequence.py  [SeqView.to_rich_dict] (l.2584), [Sequence.to_rich_dict] (l.217),
                                              [_moltype_seq_from_rich_dict] (l.75), [Sequence.from_rich_dict]
      /repo/src/cogent3/core/alignment.py     [Aligned.to_rich_dict] / [from_rich_dict] (l.2424-2440),
                                              [_SequenceCollectionBase.to_rich_dict] (l.854)
      /repo/src/cogent3/core/location.py      [IndelMap.to_rich_dict] / [from_rich_dict] (l.1532-1558)

    The view kernel ([view], [mk_view], [getitem_slice], [rich_seq], [parent_start] ...) is Model/View.v,
    the indel map record and its constructor check ([post_init]) Model/IndelMap.v; both are imported, not
    copied.  A rich dict is a value of the small JSON datatype [json]; python dicts are insertion-ordered
    association lists whose keys are strings (code point lists).

    No proofs here. *)
From Coq Require Import Strings.String Strings.Ascii.
From CG3 Require Import Lib.PyZ Lib.Val Lib.PySlice Model.View.
From CG3 Require Model.IndelMap.
From CG3 Require Lib.Rose Model.Tree Model.TreeJson.
From CG3 Require Model.FeatureMap Model.AnnotDb.

(** * strings *)

(** a Coq string literal as a python string (code points) *)
Definition zs (s : string) : list Z :=
  map (fun a => Z.of_N (N_of_ascii a)) (list_ascii_of_string s).

Fixpoint zeqb (a b : list Z) : bool :=
  match a, b with
  | [], [] => true
  | x :: a', y :: b' => (x =? y) && zeqb a' b'
  | _, _ => false
  end.

Fixpoint is_prefix (k t : list Z) : bool :=
  match k, t with
  | [], _ => true
  | x :: k', y :: t' => (x =? y) && is_prefix k' t'
  | _ :: _, [] => false
  end.

(** python [k in t] on strings *)
Fixpoint is_infix (k t : list Z) : bool :=
  is_prefix k t || match t with [] => false | _ :: t' => is_infix k t' end.

Definition is_suffix (k t : list Z) : bool := is_prefix (rev k) (rev t).

(** [str.lower()] on ASCII *)
Definition lower (s : list Z) : list Z := map (fun c => if (65 <=? c) && (c <=? 90) then c + 32 else c) s.

(** * JSON values *)

Inductive json : Type :=
| JNull
| JBool (b : bool)
| JInt (z : Z)
| JStr (s : list Z)
| JArr (l : list json)
| JObj (o : list (list Z * json))
| JFloat (repr : list Z).        (* a float, carried as its shortest repr (json.dumps writes exactly that) *)

Definition dict := list (list Z * json).

(** [d.get(k)] *)
Fixpoint jget (k : list Z) (d : dict) : option json :=
  match d with
  | [] => None
  | (k', v) :: d' => if zeqb k k' then Some v else jget k d'
  end.

Definition jopt_str (o : option (list Z)) : json := match o with Some s => JStr s | None => JNull end.

(** field names *)
Definition k_type := zs "type".
Definition k_version := zs "version".
Definition k_init_args := zs "init_args".
Definition k_seq := zs "seq".
Definition k_seqid := zs "seqid".
Definition k_step := zs "step".
Definition k_offset := zs "offset".
Definition k_name := zs "name".
Definition k_moltype := zs "moltype".
Definition k_info := zs "info".
Definition k_annotation_offset := zs "annotation_offset".
Definition k_gap_pos := zs "gap_pos".
Definition k_cum_gap_lengths := zs "cum_gap_lengths".
Definition k_parent_length := zs "parent_length".
Definition k_map_init := zs "map_init".
Definition k_seq_init := zs "seq_init".
Definition k_seqs := zs "seqs".
Definition k_alphabet := zs "alphabet".
Definition k_newick := zs "newick".
Definition k_edge_attributes := zs "edge_attributes".
Definition k_length := zs "length".
Definition k_init_table := zs "init_table".
Definition k_data := zs "data".
Definition k_order := zs "order".
Definition k_columns := zs "columns".
Definition k_values := zs "values".
Definition k_dtype := zs "dtype".
Definition k_index_name := zs "index_name".
Definition k_title := zs "title".
Definition k_legend := zs "legend".
Definition k_array := zs "array".
Definition k_names := zs "names".
Definition k_nc_construction := zs "not_completed_construction".
Definition k_args := zs "args".
Definition k_kwargs := zs "kwargs".
Definition k_message := zs "message".
Definition k_source := zs "source".
Definition k_dists := zs "dists".
Definition k_invalid := zs "invalid".
Definition k_spans := zs "spans".
Definition k_start := zs "start".
Definition k_end := zs "end".
Definition k_reverse := zs "reverse".
Definition k_tidy_start := zs "tidy_start".
Definition k_tidy_end := zs "tidy_end".
Definition k_value := zs "value".
Definition k_tables := zs "tables".
Definition k_annotation_db := zs "annotation_db".
Definition k_biotype := zs "biotype".
Definition k_strand := zs "strand".
Definition k_attributes := zs "attributes".
Definition k_on_alignment := zs "on_alignment".
Definition k_stop := zs "stop".
Definition k_user := zs "user".
Definition k_label := zs "moltype".
Definition float_zero := zs "0.0".
Definition k_motifset := zs "motifset".
Definition k_gap := zs "gap".

Definition version_str := zs "2024.7.19a6".

(** * which implementation *)
Inductive style := SOld | SNew.

(** provenance strings ([get_object_provenance]) *)
Definition ty_seqview (st : style) : list Z :=
  match st with SOld => zs "cogent3.core.sequence.SeqView" | SNew => zs "cogent3.core.new_sequence.SeqView" end.

Definition ty_seq (st : style) (k : kind) : list Z :=
  match st, k with
  | SOld, KDna => zs "cogent3.core.sequence.DnaSequence"
  | SOld, KRna => zs "cogent3.core.sequence.RnaSequence"
  | SOld, KOther => zs "cogent3.core.sequence.Sequence"
  | SNew, KDna => zs "cogent3.core.new_sequence.DnaSequence"
  | SNew, KRna => zs "cogent3.core.new_sequence.RnaSequence"
  | SNew, KOther => zs "cogent3.core.new_sequence.Sequence"
  end.

(** the registry key of [deserialise_seq]: the module path of the old-style sequence classes *)
Definition key_seq_module : list Z := zs "cogent3.core.sequence".

Definition ty_aligned := zs "cogent3.core.alignment.Aligned".
Definition ty_alignment := zs "cogent3.core.alignment.Alignment".
Definition ty_indelmap := zs "cogent3.core.location.IndelMap".
Definition ty_tree := zs "cogent3.core.tree.PhyloNode".
Definition ty_table := zs "cogent3.util.table.Table".
Definition ty_columns := zs "cogent3.util.table.Columns".
Definition ty_dictarray := zs "cogent3.util.dict_array.DictArrayTemplate".
Definition ty_notcompleted := zs "cogent3.app.composable.NotCompleted".
Definition ty_dmat := zs "cogent3.evolve.fast_distance.DistanceMatrix".
Definition ty_fmap := zs "cogent3.core.location.FeatureMap".
Definition ty_span := zs "cogent3.core.location.Span".
Definition ty_lostspan := zs "cogent3.core.location._LostSpan".
Definition ty_basicdb := zs "cogent3.core.annotation_db.BasicAnnotationDb".
Definition ty_moltype := zs "cogent3.core.moltype.MolType".
Definition ty_alphabet := zs "cogent3.core.alphabet.Alphabet".

Definition label_of (k : kind) : list Z :=
  match k with KDna => zs "dna" | KRna => zs "rna" | KOther => zs "text" end.

(** [get_moltype(label)] on the three modelled labels; anything else raises *)
Definition kind_of_label (l : list Z) : res kind :=
  if zeqb l (zs "dna") then Ok KDna
  else if zeqb l (zs "rna") then Ok KRna
  else if zeqb l (zs "text") then Ok KOther
  else Err E_Value.

(** * the modelled objects *)

(** a sequence: the view core of Model/View.v plus name and info *)
Record seqobj := mkSeq { s_core : pseq; s_name : option (list Z); s_info : dict }.

(** one row of an [Alignment] *)
Record aligned := mkAl { a_map : IndelMap.imap; a_seq : seqobj }.

(** * encoders *)

(** [SeqView.to_rich_dict]: only the plus-strand segment the view covers and the step are kept *)
Definition view_to_dict (st : style) (v : view) (p : list Z) (seqid : option (list Z)) : json :=
  JObj [ (k_type, JStr (ty_seqview st));
         (k_version, JStr version_str);
         (k_init_args, JObj [ (k_seq, JStr (rich_seq v p));
                              (k_seqid, jopt_str seqid);
                              (k_step, JInt (step v)) ]) ].

(** [info or None] *)
Definition info_to_json (i : dict) : json := match i with [] => JNull | _ => JObj i end.

(** [Sequence.to_rich_dict(exclude_annotations=True)] (both styles write the same fields) *)
Definition seq_to_dict (st : style) (s : seqobj) : json :=
  let c := s_core s in
  JObj [ (k_name, jopt_str (s_name s));
         (k_seq, view_to_dict st (sv c) (parent c) (s_name s));
         (k_moltype, JStr (label_of (skind c)));
         (k_info, info_to_json (s_info s));
         (k_type, JStr (ty_seq st (skind c)));
         (k_version, JStr version_str);
         (k_annotation_offset, JInt (parent_start (sv c))) ].

Definition jints (l : list Z) : json := JArr (map JInt l).

(** [IndelMap.to_rich_dict] *)
Definition imap_to_dict (m : IndelMap.imap) : json :=
  JObj [ (k_gap_pos, jints (IndelMap.gap_pos m));
         (k_cum_gap_lengths, jints (IndelMap.cum_gap_lengths m));
         (k_parent_length, JInt (IndelMap.parent_length m));
         (k_type, JStr ty_indelmap);
         (k_version, JStr version_str) ].

(** [Aligned.to_rich_dict] *)
Definition aligned_to_dict (a : aligned) : json :=
  JObj [ (k_version, JStr version_str);
         (k_type, JStr ty_aligned);
         (k_map_init, imap_to_dict (a_map a));
         (k_seq_init, seq_to_dict SOld (a_seq a)) ].

(** the key under which a row is stored: [seq.name] *)
Definition row_key (a : aligned) : list Z := match s_name (a_seq a) with Some n => n | None => [] end.

(** [Alignment.to_rich_dict] (no annotation db) *)
Definition alignment_to_dict (k : kind) (info : dict) (rows : list aligned) : json :=
  JObj [ (k_seqs, JObj (map (fun a => (row_key a, aligned_to_dict a)) rows));
         (k_moltype, JStr (label_of k));
         (k_info, info_to_json info);
         (k_type, JStr ty_alignment);
         (k_version, JStr version_str) ].

(** * decoders *)

Definition get_obj (j : option json) : res dict := match j with Some (JObj o) => Ok o | Some _ => Err E_Type | None => Err E_Key end.
Definition get_str (j : option json) : res (list Z) := match j with Some (JStr s) => Ok s | Some _ => Err E_Type | None => Err E_Key end.
Definition get_int (j : option json) : res Z := match j with Some (JInt z) => Ok z | Some _ => Err E_Type | None => Err E_Key end.
Definition get_opt_str (j : option json) : res (option (list Z)) :=
  match j with Some (JStr s) => Ok (Some s) | Some JNull | None => Ok None | Some _ => Err E_Type end.
Definition get_int_default (d : Z) (j : option json) : res Z :=
  match j with Some (JInt z) => Ok z | None => Ok d | Some _ => Err E_Type end.

Fixpoint get_ints_list (l : list json) : res (list Z) :=
  match l with
  | [] => Ok []
  | JInt z :: t => bind (get_ints_list t) (fun r => Ok (z :: r))
  | _ :: _ => Err E_Type
  end.
Definition get_ints (j : option json) : res (list Z) :=
  match j with Some (JArr l) => get_ints_list l | Some _ => Err E_Type | None => Err E_Key end.

Definition info_of_json (j : option json) : res dict :=
  match j with Some (JObj o) => Ok o | Some JNull | None => Ok [] | Some _ => Err E_Type end.

(** old-style [SeqView.from_rich_dict]: [cls] called with the unpacked [init_args], with [offset] only if the dict has one
    ([SeqView.to_rich_dict] never writes it): the view over the kept segment, the segment, the seqid *)
Definition view_of_dict_old (d : dict) : res (view * list Z * option (list Z)) :=
  bind (get_obj (jget k_init_args d)) (fun ia =>
  bind (get_str (jget k_seq ia)) (fun sg =>
  bind (get_opt_str (jget k_seqid ia)) (fun sid =>
  bind (get_int_default 0 (jget k_offset d)) (fun off =>
  let stp := match jget k_step ia with Some (JInt c) => Some c | _ => None end in
  bind (mk_view (zlen sg) None None stp off) (fun v => Ok (v, sg, sid)))))).

(** [MolType.coerce_str] applied to the view by [make_seq]: DNA replaces u/U by t/T, RNA the
    reverse, through [SeqView.replace], which re-constructs the view with explicit bounds each time *)
Definition coerce_char (k : kind) (c : Z) : Z :=
  match k with
  | KDna => if c =? 117 then 116 else if c =? 85 then 84 else c
  | KRna => if c =? 116 then 117 else if c =? 84 then 85 else c
  | KOther => c
  end.

Definition coerce_view (k : kind) (v : view) (p : list Z) : res (view * list Z) :=
  match k with
  | KOther => Ok (v, p)
  | _ => bind (copy_view FSeqView v) (fun v1 => bind (copy_view FSeqView v1) (fun v2 => Ok (v2, map (coerce_char k) p)))
  end.

(** [_coerce_to_seqview(SeqView, annotation_offset)] *)
Definition hand_over_offset (v : view) (ao : Z) : res view :=
  if negb (ao =? 0) && negb (offset v =? 0) then Err E_Value
  else if negb (ao =? 0) then Ok (mkV (start v) (stop v) (step v) (seq_len v) ao)
  else Ok v.

(** old-style [deserialise_seq] for a dict whose "seq" is a view dict (what [Sequence.to_rich_dict]
    writes; a plain string there takes the [parse_out_gaps] path, which is not modelled) *)
Definition seq_of_dict_old (d : dict) : res seqobj :=
  bind (get_str (jget k_moltype d)) (fun lab =>
  bind (kind_of_label lab) (fun k =>
  bind (get_obj (jget k_seq d)) (fun vd =>
  bind (view_of_dict_old vd) (fun '(v, sg, sid) =>
  bind (get_opt_str (jget k_name d)) (fun nm =>
  bind (info_of_json (jget k_info d)) (fun inf =>
  bind (get_int_default 0 (jget k_annotation_offset d)) (fun ao =>
  bind (coerce_view k v sg) (fun '(v1, sg1) =>
  bind (hand_over_offset v1 ao) (fun v2 =>
  Ok (mkSeq (mkS v2 sg1 k true) nm inf)))))))))).

(** new-style [Sequence.from_rich_dict] via [_moltype_seq_from_rich_dict]:
    [SeqView(seq=segment, offset=annotation_offset)[::step]] *)
Definition seq_of_dict_new (d : dict) : res seqobj :=
  bind (get_str (jget k_moltype d)) (fun lab =>
  bind (kind_of_label lab) (fun k =>
  bind (get_obj (jget k_seq d)) (fun vd =>
  bind (get_obj (jget k_init_args vd)) (fun ia =>
  bind (get_str (jget k_seq ia)) (fun sg =>
  bind (get_int (jget k_step ia)) (fun stp =>
  bind (get_opt_str (jget k_name d)) (fun nm =>
  bind (info_of_json (jget k_info d)) (fun inf =>
  bind (get_int_default 0 (jget k_annotation_offset d)) (fun ao =>
  bind (mk_view (zlen sg) None None None ao) (fun v0 =>
  bind (getitem_slice FSeqView v0 None None (Some stp)) (fun v =>
  Ok (mkSeq (mkS v sg k true) nm inf)))))))))))).

Definition seq_of_dict (st : style) (d : dict) : res seqobj :=
  match st with SOld => seq_of_dict_old d | SNew => seq_of_dict_new d end.

Definition lift_imap {A} (r : IndelMap.res A) : res A :=
  match r with IndelMap.Ok a => Ok a | IndelMap.Err e => Err e end.

(** [IndelMap.from_rich_dict]: [cls(gap_pos=.., cum_gap_lengths=.., parent_length=..)] -> [__post_init__] *)
Definition imap_of_dict (d : dict) : res IndelMap.imap :=
  bind (get_ints (jget k_gap_pos d)) (fun gp =>
  bind (get_ints (jget k_cum_gap_lengths d)) (fun cl =>
  bind (get_int_default 0 (jget k_parent_length d)) (fun pl =>
  lift_imap (IndelMap.post_init gp cl pl)))).

(** [Aligned.from_rich_dict] *)
Definition aligned_of_dict (d : dict) : res aligned :=
  bind (get_obj (jget k_map_init d)) (fun md =>
  bind (imap_of_dict md) (fun m =>
  bind (get_obj (jget k_seq_init d)) (fun sd =>
  bind (seq_of_dict_old sd) (fun s => Ok (mkAl m s))))).

Fixpoint rows_of_dicts (rows : list (list Z * json)) : res (list aligned) :=
  match rows with
  | [] => Ok []
  | (_, JObj rd) :: t => bind (aligned_of_dict rd) (fun a => bind (rows_of_dicts t) (fun r => Ok (a :: r)))
  | _ :: _ => Err E_Type
  end.

(** [deserialise_seq_collections] for an [Alignment] whose rows are [Aligned] dicts:
    (moltype, info, rows in the order of the "seqs" dict) *)
Definition alignment_of_dict (d : dict) : res (kind * dict * list aligned) :=
  bind (get_str (jget k_moltype d)) (fun lab =>
  bind (kind_of_label lab) (fun k =>
  bind (get_obj (jget k_seqs d)) (fun rows =>
  bind (rows_of_dicts rows) (fun rs =>
  bind (info_of_json (jget k_info d)) (fun inf => Ok (k, inf, rs)))))).


(** * trees (the model of C09: Model/Tree.v, Model/TreeJson.v) *)

(** [d[k] = v] on an insertion-ordered dict *)
Fixpoint dict_set (k : list Z) (v : json) (d : dict) : dict :=
  match d with
  | [] => [(k, v)]
  | (k', v') :: d' => if zeqb k k' then (k, v) :: d' else (k', v') :: dict_set k v d'
  end.

Definition len_to_json (l : option Z) : json := match l with Some z => JInt z | None => JNull end.

(** [attr = {}; for edge in get_edge_vector(include_root=True): attr[edge.name] = edge.params.copy()]
    (the only parameter the tree model carries is "length") *)
Definition attrs_to_dict (a : list (Rose.name * option Z)) : dict :=
  fold_left (fun d kv => dict_set (fst kv) (JObj [(k_length, len_to_json (snd kv))]) d) a [].

(** [PhyloNode.to_rich_dict]: newick with node names, names escaped / blanks quoted, no distances *)
Definition tree_to_dict (t : Rose.tree) : json :=
  JObj [ (k_newick, JStr (TreeJson.newick_node_qb true t));
         (k_edge_attributes, JObj (attrs_to_dict (Tree.edge_attributes t)));
         (k_type, JStr ty_tree);
         (k_version, JStr version_str) ].

(** [edge.params.update(edge_attr.get(edge.name, {}))] on every edge of the parsed tree *)
Fixpoint apply_attr_dict (a : dict) (t : Rose.tree) : Rose.tree :=
  match t with
  | Rose.Node n l cs =>
      let l' := match jget n a with
                | Some (JObj ps) =>
                    match jget k_length ps with
                    | Some (JInt z) => Some z
                    | Some _ => None
                    | None => l
                    end
                | _ => l
                end in
      Rose.Node n l' (map (apply_attr_dict a) cs)
  end.

Definition lift_tree {A} (r : Tree.res A) : res A :=
  match r with Tree.Ok a => Ok a | Tree.Err e => Err e end.

(** [deserialise_tree]: [make_tree(treestring=newick)], then the edge attributes by NAME *)
Definition tree_of_dict (d : dict) : res Rose.tree :=
  bind (get_str (jget k_newick d)) (fun nw =>
  bind (get_obj (jget k_edge_attributes d)) (fun ea =>
  bind (lift_tree (Tree.make_tree false nw)) (fun t => Ok (apply_attr_dict ea t)))).

(** * tables, dict arrays, NotCompleted *)

(** a cell / scalar is a JSON scalar: [JInt], [JFloat], [JStr], [JBool], [JNull] *)
Definition is_scalar (j : json) : bool :=
  match j with JArr _ | JObj _ => false | _ => true end.

(** one column: name, numpy dtype name as [Columns.__getstate__] writes it, values ([tolist()]) *)
Record column := mkCol { c_name : list Z; c_dtype : list Z; c_values : list json }.

(** a [Table]: the persistent attributes ([init_table], [index_name] among them) and the columns in order *)
Record table := mkTab { t_index : option (list Z); t_attrs : dict; t_cols : list column }.

Definition col_to_json (c : column) : json :=
  JObj [ (k_values, JArr (c_values c)); (k_dtype, JStr (c_dtype c)) ].

(** [Table.to_rich_dict] = [__getstate__] + type/version; [init_table] holds index_name first, then
    the other persistent attributes *)
Definition table_to_dict (t : table) : json :=
  JObj [ (k_init_table, JObj ((k_index_name, jopt_str (t_index t)) :: t_attrs t));
         (k_data, JObj [ (k_order, JArr (map (fun c => JStr (c_name c)) (t_cols t)));
                         (k_columns, JObj (map (fun c => (c_name c, col_to_json c)) (t_cols t)));
                         (k_type, JStr ty_columns);
                         (k_version, JNull) ]);
         (k_type, JStr ty_table);
         (k_version, JNull) ].

(** [str.strip()] leaves the name alone: no blank (space, tab, newline, CR, VT, FF) at either end *)
Definition is_blank (c : Z) : bool := (c =? 32) || ((9 <=? c) && (c <=? 13)).
Definition stripped (s : list Z) : bool :=
  match s with
  | [] => true
  | c :: _ => negb (is_blank c) && negb (is_blank (last s c))
  end.

Fixpoint mem_str (k : list Z) (l : list (list Z)) : bool :=
  match l with [] => false | x :: r => zeqb k x || mem_str k r end.

(** python [==] on the scalars a column holds is modelled as structural equality of the JSON scalars
    (the uniqueness test of [index_name]: [len(set(values)) == len(values)]) *)
Definition json_scalar_eqb (a b : json) : bool :=
  match a, b with
  | JNull, JNull => true
  | JBool x, JBool y => Bool.eqb x y
  | JInt x, JInt y => x =? y
  | JStr x, JStr y => zeqb x y
  | JFloat x, JFloat y => zeqb x y
  | _, _ => false
  end.

Fixpoint mem_scalar (x : json) (l : list json) : bool :=
  match l with [] => false | y :: r => json_scalar_eqb x y || mem_scalar x r end.

Fixpoint all_distinct (l : list json) : bool :=
  match l with [] => true | x :: r => negb (mem_scalar x r) && all_distinct r end.

(** the dtype a decoded column reports when it is written again.  [__getstate__] writes [dtype.name] with
    "str" replaced by "U": a unicode column of 3 characters has [dtype.name = "str96"] (bits) and is written as
    "U96"; [numpy.array(values, dtype="U96")] is a column of 96 CHARACTERS, whose name is "str3072".  Every other
    dtype name ("int64", "float64", "bool", "object") reads back as itself. *)
Definition is_digit (c : Z) : bool := (48 <=? c) && (c <=? 57).

Fixpoint digits_val (acc : Z) (s : list Z) : option Z :=
  match s with
  | [] => Some acc
  | c :: r => if is_digit c then digits_val (acc * 10 + (c - 48)) r else None
  end.

Fixpoint z_digits (fuel : nat) (z : Z) (acc : list Z) : list Z :=
  match fuel with
  | O => acc
  | S f => let acc' := (48 + z mod 10) :: acc in if z / 10 =? 0 then acc' else z_digits f (z / 10) acc'
  end.

Definition redtype (dt : list Z) : list Z :=
  match dt with
  | 85 :: (_ :: _) as ds =>
      match digits_val 0 ds with
      | Some n => 85 :: z_digits 60 (32 * n) []
      | None => dt
      end
  | _ => dt
  end.

(** [Columns.__setstate__]: for every name in "order": [new[c] = numpy.array(values, dtype)];
    [__setitem__] strips the key, the first column fixes the number of rows, a column of another
    length raises ValueError, an existing key is overwritten in place.  The numpy cast is the
    identity on what [__getstate__] writes ([tolist()] of an array of that dtype); a column that is
    not a list of scalars is outside the model ([E_Type]). *)
Fixpoint cols_of_dict (order : list json) (cols : dict) (nrows : option Z) (seen : list (list Z)) : res (list column) :=
  match order with
  | [] => Ok []
  | JStr c :: rest =>
      bind (get_obj (jget c cols)) (fun cd =>
      match jget k_values cd, jget k_dtype cd with
      | Some (JArr vals), Some (JStr dt) =>
          if negb (forallb is_scalar vals) then Err E_Type
          else if negb (stripped c) || mem_str c seen then Err E_Other       (* renamed / overwritten: outside the model *)
          else if match nrows with Some n => negb (n =? 0) && negb (zlen vals =? n) | None => false end then Err E_Value
          else bind (cols_of_dict rest cols (match nrows with Some n => if n =? 0 then Some (zlen vals) else Some n | None => Some (zlen vals) end) (c :: seen))
                    (fun r => Ok (mkCol c (redtype dt) vals :: r))
      | None, _ | _, None => Err E_Key
      | _, _ => Err E_Type
      end)
  | _ :: _ => Err E_Type
  end.

Fixpoint find_col (n : list Z) (cs : list column) : option column :=
  match cs with [] => None | c :: r => if zeqb n (c_name c) then Some c else find_col n r end.

(** the [index_name] setter: the column must exist and hold unique values *)
Definition check_index (ix : option (list Z)) (cs : list column) : res unit :=
  match ix with
  | None => Ok tt
  | Some n => match find_col n cs with
              | None => Err E_Value
              | Some c => if all_distinct (c_values c) then Ok tt else Err E_Value
              end
  end.

(** [deserialise_tabular] for a Table with "init_table": [Table] on the unpacked attributes, [columns.__setstate__], [index_name = ...] *)
Definition table_of_dict (d : dict) : res table :=
  bind (get_obj (jget k_init_table d)) (fun it =>
  match it with
  | (k, ixj) :: attrs =>
      if negb (zeqb k k_index_name) then Err E_Other               (* the model keeps index_name first *)
      else
      bind (get_opt_str (Some ixj)) (fun ix =>
      bind (get_obj (jget k_data d)) (fun dd =>
      match jget k_order dd with
      | Some (JArr order) =>
          bind (get_obj (jget k_columns dd)) (fun cols =>
          bind (cols_of_dict order cols None []) (fun cs =>
          bind (check_index ix cs) (fun _ => Ok (mkTab ix attrs cs))))
      | Some _ => Err E_Type
      | None => Err E_Key
      end))
  | [] => Err E_Key
  end).

(** a [DictArray]: the names of every dimension and the (nested) array *)
Record darr := mkDarr { d_names : list (list json); d_array : json }.

(** [DictArray.to_rich_dict]: the type is the provenance of the TEMPLATE *)
Definition darr_to_dict (a : darr) : json :=
  JObj [ (k_type, JStr ty_dictarray);
         (k_array, d_array a);
         (k_names, JArr (map JArr (d_names a)));
         (k_version, JStr version_str) ].

(** [numpy.shape(array)[dim]] for a rectangular nested list: the length at depth [dim] along the first branch *)
Fixpoint shape_at (fuel : nat) (j : json) (dim : nat) : option Z :=
  match fuel with
  | O => None
  | S f =>
      match j with
      | JArr l => match dim with
                  | O => Some (zlen l)
                  | S d' => match l with x :: _ => shape_at f x d' | [] => None end
                  end
      | _ => None
      end
  end.

Fixpoint check_shape (names : list (list json)) (arr : json) (dim : nat) : bool :=
  match names with
  | [] => true
  | cats :: rest =>
      match shape_at (S dim) arr dim with
      | Some n => (zlen cats =? n) && check_shape rest arr (S dim)
      | None => false
      end
  end.

Fixpoint names_of_json (l : list json) : res (list (list json)) :=
  match l with
  | [] => Ok []
  | JArr cats :: r => bind (names_of_json r) (fun rr => Ok (cats :: rr))
  | _ :: _ => Err E_Type
  end.

(** [deserialise_tabular] for a DictArray: [DictArrayTemplate] on the unpacked names, then [wrap(array)]; [wrap] asserts that every
    dimension has as many categories as the array is long in that dimension *)
Definition darr_of_dict (d : dict) : res darr :=
  match jget k_names d, jget k_array d with
  | Some (JArr ns), Some arr =>
      bind (names_of_json ns) (fun names =>
      if check_shape names arr 0 then Ok (mkDarr names arr) else Err E_Other)
  | None, _ | _, None => Err E_Key
  | _, _ => Err E_Type
  end.

(** [NotCompleted(type, origin, message, source)]: [_persistent] = the constructor's args and kwargs *)
Record notcompleted := mkNC { nc_args : list json; nc_kwargs : dict }.

Definition nc_to_dict (n : notcompleted) : json :=
  JObj [ (k_type, JStr ty_notcompleted);
         (k_nc_construction, JObj [ (k_args, JArr (nc_args n)); (k_kwargs, JObj (nc_kwargs n)) ]);
         (k_version, JStr version_str) ].

(** [deserialise_not_completed]: [klass] on the unpacked args and kwargs; the constructor takes exactly three
    positional arguments and the keyword "source" *)
Definition nc_of_dict (d : dict) : res notcompleted :=
  bind (get_obj (jget k_nc_construction d)) (fun init =>
  match jget k_args init, jget k_kwargs init with
  | Some (JArr args), Some (JObj kw) =>
      if negb (zlen args =? 3) then Err E_Type
      else if forallb (fun kv => zeqb (fst kv) k_source) kw then Ok (mkNC args kw) else Err E_Type
  | None, _ | _, None => Err E_Key
  | _, _ => Err E_Type
  end).


(** * distance matrices *)

(** python [<] on strings: lexicographic on code points *)
Fixpoint str_ltb (a b : list Z) : bool :=
  match a, b with
  | [], [] => false
  | [], _ :: _ => true
  | _ :: _, [] => false
  | x :: a', y :: b' => (x <? y) || ((x =? y) && str_ltb a' b')
  end.

(** [sorted(set(names))]: insertion into a strictly increasing list, duplicates dropped *)
Fixpoint sins (x : list Z) (l : list (list Z)) : list (list Z) :=
  match l with
  | [] => [x]
  | y :: r => if zeqb x y then l else if str_ltb x y then x :: l else y :: sins x r
  end.
Definition sort_names (l : list (list Z)) : list (list Z) := fold_right sins [] l.

(** a [DistanceMatrix]: names, the square array row by row, the [invalid] attribute *)
Record dmat := mkDm { dm_names : list (list Z); dm_rows : list (list json); dm_invalid : json }.

(** [to_dict()]: the flattened {(row name, column name): value} without the diagonal, as a list of triples *)
Definition dm_triples (d : dmat) : list json :=
  flat_map (fun ar =>
    flat_map (fun bv => if zeqb (fst ar) (fst bv) then [] else [JArr [JStr (fst ar); JStr (fst bv); snd bv]])
             (combine (dm_names d) (snd ar)))
    (combine (dm_names d) (dm_rows d)).

Definition dmat_to_dict (d : dmat) : json :=
  JObj [ (k_dists, JArr (dm_triples d)); (k_invalid, dm_invalid d); (k_type, JStr ty_dmat); (k_version, JStr version_str) ].

Definition pairdict := list ((list Z * list Z) * json).

Fixpoint pset (a b : list Z) (v : json) (d : pairdict) : pairdict :=
  match d with
  | [] => [((a, b), v)]
  | ((a', b'), v') :: r => if zeqb a a' && zeqb b b' then ((a, b), v) :: r else ((a', b'), v') :: pset a b v r
  end.

Fixpoint pget (d : pairdict) (a b : list Z) : option json :=
  match d with
  | [] => None
  | ((a', b'), v) :: r => if zeqb a a' && zeqb b b' then Some v else pget r a b
  end.

(** [dists[tuple(element[:2])] = element[2]] for every element *)
Fixpoint pairs_of (l : list json) (acc : pairdict) : res pairdict :=
  match l with
  | [] => Ok acc
  | JArr [JStr a; JStr b; v] :: r => pairs_of r (pset a b v acc)
  | _ :: _ => Err E_Type
  end.

(** [deserialise_tabular] for a DistanceMatrix: [DistanceMatrix(dists={(a, b): v}, invalid=...)] -> [convert2Ddistance]:
    the names are the SORTED set of all names in the keys; cell (n1, n2) is [dists.get((n1, n2), dists.get((n2, n1), 0))]
    (so the diagonal, which is not written, reads back as 0.0); an empty dict raises IndexError ([list(data)[0]]).
    The [float] cast of the array is the identity on what the encoder writes. *)
(** one cell of the rebuilt matrix: the STORED value of (n1, n2) when the pairs dict has one; the mirror (n2, n1)
    only when it has none; 0.0 when it has neither *)
Definition dm_cell (T : pairdict) (n1 n2 : list Z) : json :=
  match pget T n1 n2 with
  | Some v => v
  | None => match pget T n2 n1 with Some v => v | None => JFloat float_zero end
  end.

Definition dmat_of_dict (d : dict) : res dmat :=
  match jget k_dists d with
  | Some (JArr l) =>
      bind (pairs_of l []) (fun T =>
      match T with
      | [] => Err E_Index
      | _ =>
          let names := sort_names (flat_map (fun kv => [fst (fst kv); snd (fst kv)]) T) in
          Ok (mkDm names (map (fun n1 => map (dm_cell T n1) names) names)
                   (match jget k_invalid d with Some j => j | None => JNull end))
      end)
  | Some _ => Err E_Type
  | None => Err E_Key
  end.

(** a profile array (MotifCountsArray / MotifFreqsArray / PSSM): a DictArray subclass.  It inherits
    [DictArray.to_rich_dict], which writes the provenance of the TEMPLATE as "type" *)
Inductive profile_class := PCounts | PFreqs | PPssm.

(** * feature maps and spans (the span type of C08: Model/FeatureMap.v) *)

Definition span_to_dict (sp : FeatureMap.fspan) : json :=
  match sp with
  | FeatureMap.FS s e r =>
      JObj [ (k_start, JInt s); (k_end, JInt e); (k_tidy_start, JBool false); (k_tidy_end, JBool false);
             (k_value, JNull); (k_reverse, JBool r); (k_type, JStr ty_span); (k_version, JStr version_str) ]
  | FeatureMap.FL n =>
      JObj [ (k_length, JInt n); (k_value, JNull); (k_type, JStr ty_lostspan); (k_version, JStr version_str) ]
  end.

(** [FeatureMap.to_rich_dict] *)
Definition fmap_to_dict (m : FeatureMap.fmap) : json :=
  JObj [ (k_parent_length, JInt (FeatureMap.fplen m));
         (k_spans, JArr (map span_to_dict (FeatureMap.fspans m)));
         (k_type, JStr ty_fmap); (k_version, JStr version_str) ].

(** [klass] on the unpacked element, for one span dict: [Span(start, end, ..., reverse)] (swaps start and end when start > end)
    or [_LostSpan(length)] *)
Definition span_of_dict (d : dict) : res FeatureMap.fspan :=
  bind (get_str (jget k_type d)) (fun ty =>
  if zeqb ty ty_span then
    bind (get_int (jget k_start d)) (fun s =>
    bind (get_int (jget k_end d)) (fun e =>
    match jget k_reverse d with
    | Some (JBool r) => Ok (FeatureMap.mk_span s e r)
    | None => Ok (FeatureMap.mk_span s e false)
    | Some _ => Err E_Type
    end))
  else if zeqb ty ty_lostspan then bind (get_int (jget k_length d)) (fun n => Ok (FeatureMap.FL n))
  else Err E_Other).

Fixpoint spans_of_json (l : list json) : res (list FeatureMap.fspan) :=
  match l with
  | [] => Ok []
  | JObj d :: r => bind (span_of_dict d) (fun sp => bind (spans_of_json r) (fun rr => Ok (sp :: rr)))
  | _ :: _ => Err E_Type
  end.

(** [FeatureMap.from_rich_dict] *)
Definition fmap_of_dict (d : dict) : res FeatureMap.fmap :=
  match jget k_spans d with
  | Some (JArr l) =>
      bind (spans_of_json l) (fun sps =>
      bind (get_int (jget k_parent_length d)) (fun pl => Ok (FeatureMap.mk_fmap sps pl)))
  | Some _ => Err E_Type
  | None => Err E_Key
  end.

(** * annotation databases (the records of C17: Model/AnnotDb.v) *)

(** an optional field: written only when the value is not None *)
Definition ofield (k : list Z) (o : option json) : dict := match o with Some j => [(k, j)] | None => [] end.

Definition spans_to_json (sp : list (Z * Z)) : json := JArr (map (fun p => JArr [JInt (fst p); JInt (snd p)]) sp).

(** one record as [to_rich_dict] stores it: [{k: v for k, v in zip(record.keys(), record) if v is not None}],
    the spans as nested lists; [on_alignment] is an sqlite integer *)
Definition row_to_json (r : AnnotDb.row) : json :=
  JObj (ofield k_seqid (option_map JStr (AnnotDb.r_seqid r))
        ++ ofield k_biotype (option_map JStr (AnnotDb.r_biotype r))
        ++ ofield k_name (option_map JStr (AnnotDb.r_name r))
        ++ ofield k_strand (option_map JStr (AnnotDb.r_strand r))
        ++ ofield k_attributes (option_map JStr (AnnotDb.r_attrs r))
        ++ ofield k_on_alignment (option_map (fun b : bool => JInt (if b then 1 else 0)) (AnnotDb.r_on_aln r))
        ++ [ (k_spans, spans_to_json (AnnotDb.r_spans r)); (k_start, JInt (AnnotDb.r_start r)); (k_stop, JInt (AnnotDb.r_stop r)) ]).

(** table names: 1 = "user"; 0 = the class' own table (gff / gb), written under the key "0" in this model *)
Definition table_key (t : Z) : list Z := if t =? 1 then k_user else [48].

(** [BasicAnnotationDb.to_rich_dict] on the C17 image [to_rich tables db] *)
Definition db_to_dict (tables : list Z) (db : list AnnotDb.row) : json :=
  JObj [ (k_type, JStr ty_basicdb); (k_version, JStr version_str);
         (k_tables, JObj (map (fun tr => (table_key (fst tr), JArr (map row_to_json (snd tr)))) (AnnotDb.to_rich tables db)));
         (k_init_args, JObj []) ].

Fixpoint spans_of_json2 (l : list json) : res (list (Z * Z)) :=
  match l with
  | [] => Ok []
  | JArr [JInt a; JInt b] :: r => bind (spans_of_json2 r) (fun rr => Ok ((a, b) :: rr))
  | _ :: _ => Err E_Type
  end.

Definition row_of_dict (t : Z) (d : dict) : res AnnotDb.row :=
  bind (get_opt_str (jget k_seqid d)) (fun sid =>
  bind (get_opt_str (jget k_biotype d)) (fun bt =>
  bind (get_opt_str (jget k_name d)) (fun nm =>
  bind (get_opt_str (jget k_strand d)) (fun sd =>
  bind (get_opt_str (jget k_attributes d)) (fun at_ =>
  bind (match jget k_on_alignment d with
        | Some (JInt z) => Ok (Some (negb (z =? 0)))
        | Some JNull | None => Ok None
        | Some _ => Err E_Type
        end) (fun oa =>
  match jget k_spans d with
  | Some (JArr l) =>
      bind (spans_of_json2 l) (fun sp =>
      bind (get_int (jget k_start d)) (fun a =>
      bind (get_int (jget k_stop d)) (fun b =>
      Ok (AnnotDb.Build_row t sid bt nm sd at_ oa sp a b))))
  | Some _ => Err E_Type
  | None => Err E_Key
  end)))))).

Fixpoint rows_of_json (t : Z) (l : list json) : res (list AnnotDb.row) :=
  match l with
  | [] => Ok []
  | JObj d :: r => bind (row_of_dict t d) (fun x => bind (rows_of_json t r) (fun rr => Ok (x :: rr)))
  | _ :: _ => Err E_Type
  end.

Definition table_of_key (k : list Z) : Z := if zeqb k k_user then 1 else 0.

Fixpoint tables_of_dict (l : dict) : res (list (Z * list AnnotDb.row)) :=
  match l with
  | [] => Ok []
  | (k, JArr rs) :: r =>
      bind (rows_of_json (table_of_key k) rs) (fun rows => bind (tables_of_dict r) (fun rr => Ok ((table_of_key k, rows) :: rr)))
  | _ :: _ => Err E_Type
  end.

(** [deserialise_basic_db] -> [from_dict] -> [_update_db_from_rich_dict]: every record of every table is inserted
    again, table by table: the C17 [from_rich] *)
Definition db_of_dict (d : dict) : res (list AnnotDb.row) :=
  bind (get_obj (jget k_tables d)) (fun ts => bind (tables_of_dict ts) (fun tl => Ok (AnnotDb.from_rich tl))).

(** an old-style sequence with its annotation db: [to_rich_dict()] adds "annotation_db" when the db holds records *)
Definition seq_db_to_dict (s : seqobj) (tables : list Z) (db : list AnnotDb.row) : json :=
  match seq_to_dict SOld s, db with
  | JObj d, _ :: _ => JObj (d ++ [(k_annotation_db, db_to_dict tables db)])
  | j, _ => j
  end.

(** [deserialise_seq]: [annotation_db = data.pop("annotation_db", None)] ... [result.annotation_db = deserialise_object(annotation_db)] *)
Definition seq_db_of_dict (d : dict) : res (seqobj * list AnnotDb.row) :=
  bind (seq_of_dict_old d) (fun s =>
  match jget k_annotation_db d with
  | Some (JObj dbd) => bind (db_of_dict dbd) (fun rows => Ok (s, rows))
  | Some JNull | None => Ok (s, [])
  | Some _ => Err E_Type
  end).

(** * named constants: moltypes are serialised by label *)

(** [MolType.to_rich_dict]: {"type", "moltype": label, "version"}; [deserialise_moltype]: [get_moltype(label)] *)
Definition moltype_labels : list (list Z) :=
  [zs "dna"; zs "rna"; zs "protein"; zs "protein_with_stop"; zs "text"; zs "bytes"].

Definition moltype_to_dict (label : list Z) : json :=
  JObj [ (k_type, JStr ty_moltype); (k_label, JStr label); (k_version, JStr version_str) ].

Definition moltype_of_dict (d : dict) : res (list Z) :=
  bind (get_str (jget k_label d)) (fun l => if mem_str l moltype_labels then Ok l else Err E_Value).

(** an (old-style) [Alphabet]: the motifs in order, the gap motif, the moltype BY LABEL *)
Record alphabet := mkAlpha { al_motifs : list (list Z); al_gap : option (list Z); al_label : list Z }.

(** [Alphabet.to_rich_dict] (no genetic code attached) *)
Definition alphabet_to_dict (a : alphabet) : json :=
  JObj [ (k_motifset, JArr (map JStr (al_motifs a))); (k_gap, jopt_str (al_gap a)); (k_label, JStr (al_label a));
         (k_type, JStr ty_alphabet); (k_version, JStr version_str) ].

Fixpoint strs_of_json (l : list json) : res (list (list Z)) :=
  match l with
  | [] => Ok []
  | JStr x :: r => bind (strs_of_json r) (fun rr => Ok (x :: rr))
  | _ :: _ => Err E_Type
  end.

(** [deserialise_alphabet]: [get_moltype(label)], then the class on the motifs ("data" if present, else "motifset") and
    the remaining fields (gap, moltype) *)
Definition alphabet_of_dict (d : dict) : res alphabet :=
  bind (get_str (jget k_label d)) (fun lab =>
  if negb (mem_str lab moltype_labels) then Err E_Value else
  match (match jget k_data d with Some j => Some j | None => jget k_motifset d end) with
  | Some (JArr ms) =>
      bind (strs_of_json ms) (fun motifs =>
      bind (get_opt_str (jget k_gap d)) (fun g => Ok (mkAlpha motifs g lab)))
  | Some _ => Err E_Type
  | None => Err E_Key
  end).

(** an [Alignment] with an annotation db: [to_rich_dict()] adds "annotation_db" when the db holds records;
    [deserialise_seq_collections] pops it and sets [result.annotation_db = deserialise_object(annotation_db)] *)
Definition alignment_db_to_dict (k : kind) (info : dict) (rows : list aligned) (tables : list Z) (db : list AnnotDb.row) : json :=
  match alignment_to_dict k info rows, db with
  | JObj d, _ :: _ => JObj (d ++ [(k_annotation_db, db_to_dict tables db)])
  | j, _ => j
  end.

Definition alignment_db_of_dict (d : dict) : res ((kind * dict * list aligned) * list AnnotDb.row) :=
  bind (alignment_of_dict d) (fun a =>
  match jget k_annotation_db d with
  | Some (JObj dbd) => bind (db_of_dict dbd) (fun rows => Ok (a, rows))
  | Some JNull | None => Ok (a, [])
  | Some _ => Err E_Type
  end).

(** * the registry *)

(** the deserialiser functions, by name *)
Inductive decoder :=
| DTabular | DSeqView | DNotCompleted | DResult | DMolType | DAlphabet | DAligned | DSeq | DSeqCollections
| DTree | DSubstitutionModel | DLikelihoodFunction | DIndelMap | DFeatureMap | DBasicDb | DGffDb | DGbDb
| DAnnotationToDb | DCharAlphabet | DKmerAlphabet | DCodonAlphabet
| DNewSequence | DNewProteinSequence | DNewByteSequence | DNewProteinWithStopSequence | DNewDnaSequence | DNewRnaSequence
| DSeqsData | DNewSequenceCollection
| DOther (name : list Z).

Definition registry_t := list (list Z * decoder).

(** [deserialise_object]'s loop: the FIRST registered key (insertion order) that is a substring of the type string *)
Fixpoint dispatch (reg : registry_t) (type_ : list Z) : option decoder :=
  match reg with
  | [] => None
  | (k, f) :: reg' => if is_infix k type_ then Some f else dispatch reg' type_
  end.

(** the registry as it is after importing cogent3 and the new-style modules, in registration order
    (compared with the live [_deserialise_func_map] by the correspondence check) *)
Definition registry : registry_t :=
  [ (zs "cogent3.util.table.Table", DTabular);
    (zs "cogent3.util.dict_array.DictArray", DTabular);
    (zs "cogent3.evolve.fast_distance.DistanceMatrix", DTabular);
    (zs "cogent3.core.sequence.SeqView", DSeqView);
    (zs "cogent3.app.composable.NotCompleted", DNotCompleted);
    (zs "cogent3.app.result", DResult);
    (zs "cogent3.core.moltype", DMolType);
    (zs "cogent3.core.alphabet", DAlphabet);
    (zs "cogent3.core.alignment.Aligned", DAligned);
    (zs "cogent3.core.sequence", DSeq);
    (zs "cogent3.core.alignment", DSeqCollections);
    (zs "cogent3.core.tree", DTree);
    (zs "cogent3.evolve.substitution_model", DSubstitutionModel);
    (zs "cogent3.evolve.ns_substitution_model", DSubstitutionModel);
    (zs "cogent3.evolve.parameter_controller", DLikelihoodFunction);
    (zs "cogent3.core.location.IndelMap", DIndelMap);
    (zs "cogent3.core.location.FeatureMap", DFeatureMap);
    (zs "cogent3.core.annotation_db.BasicAnnotationDb", DBasicDb);
    (zs "cogent3.core.annotation_db.GffAnnotationDb", DGffDb);
    (zs "cogent3.core.annotation_db.GenbankAnnotationDb", DGbDb);
    (zs "annotation_to_annotation_db", DAnnotationToDb);
    (zs "cogent3.core.new_alphabet.CharAlphabet", DCharAlphabet);
    (zs "cogent3.core.new_alphabet.KmerAlphabet", DKmerAlphabet);
    (zs "cogent3.core.new_alphabet.CodonAlphabet", DCodonAlphabet);
    (zs "cogent3.core.new_sequence.Sequence", DNewSequence);
    (zs "cogent3.core.new_sequence.ProteinSequence", DNewProteinSequence);
    (zs "cogent3.core.new_sequence.ByteSequence", DNewByteSequence);
    (zs "cogent3.core.new_sequence.ProteinWithStopSequence", DNewProteinWithStopSequence);
    (zs "cogent3.core.new_sequence.DnaSequence", DNewDnaSequence);
    (zs "cogent3.core.new_sequence.RnaSequence", DNewRnaSequence);
    (zs "cogent3.core.new_alignment.SeqsData", DSeqsData);
    (zs "cogent3.core.new_alignment.SequenceCollection", DNewSequenceCollection) ].

(** every class of the package that offers [to_rich_dict]/[to_json] and whose type string the registry
    resolves, with the decoder that is written for it (compared with the live dispatch by the check) *)
Definition expected_dispatch : list (list Z * decoder) :=
  [ (zs "cogent3.util.table.Table", DTabular);
    (zs "cogent3.util.dict_array.DictArray", DTabular);
    (zs "cogent3.evolve.fast_distance.DistanceMatrix", DTabular);
    (zs "cogent3.core.sequence.SeqView", DSeqView);
    (zs "cogent3.app.composable.NotCompleted", DNotCompleted);
    (zs "cogent3.app.result.generic_result", DResult);
    (zs "cogent3.app.result.model_result", DResult);
    (zs "cogent3.app.result.model_collection_result", DResult);
    (zs "cogent3.app.result.hypothesis_result", DResult);
    (zs "cogent3.app.result.tabular_result", DResult);
    (zs "cogent3.app.result.bootstrap_result", DResult);
    (zs "cogent3.core.moltype.MolType", DMolType);
    (zs "cogent3.core.alphabet.Alphabet", DAlphabet);
    (zs "cogent3.core.alphabet.CharAlphabet", DAlphabet);
    (zs "cogent3.core.alphabet.JointEnumeration", DAlphabet);
    (zs "cogent3.core.alignment.Aligned", DAligned);
    (zs "cogent3.core.sequence.Sequence", DSeq);
    (zs "cogent3.core.sequence.DnaSequence", DSeq);
    (zs "cogent3.core.sequence.RnaSequence", DSeq);
    (zs "cogent3.core.sequence.ProteinSequence", DSeq);
    (zs "cogent3.core.sequence.ProteinWithStopSequence", DSeq);
    (zs "cogent3.core.sequence.ByteSequence", DSeq);
    (zs "cogent3.core.sequence.ABSequence", DSeq);
    (zs "cogent3.core.sequence.NucleicAcidSequence", DSeq);
    (zs "cogent3.core.sequence.ArraySequence", DSeq);
    (zs "cogent3.core.sequence.ArrayDnaSequence", DSeq);
    (zs "cogent3.core.alignment.Alignment", DSeqCollections);
    (zs "cogent3.core.alignment.ArrayAlignment", DSeqCollections);
    (zs "cogent3.core.alignment.SequenceCollection", DSeqCollections);
    (zs "cogent3.core.tree.PhyloNode", DTree);
    (zs "cogent3.core.tree.TreeNode", DTree);
    (zs "cogent3.evolve.substitution_model.TimeReversibleNucleotide", DSubstitutionModel);
    (zs "cogent3.evolve.substitution_model.TimeReversibleCodon", DSubstitutionModel);
    (zs "cogent3.evolve.substitution_model.TimeReversibleProtein", DSubstitutionModel);
    (zs "cogent3.evolve.substitution_model.Empirical", DSubstitutionModel);
    (zs "cogent3.evolve.ns_substitution_model.General", DSubstitutionModel);
    (zs "cogent3.evolve.ns_substitution_model.NonReversibleNucleotide", DSubstitutionModel);
    (zs "cogent3.evolve.ns_substitution_model.DiscreteSubstitutionModel", DSubstitutionModel);
    (zs "cogent3.evolve.parameter_controller.AlignmentLikelihoodFunction", DLikelihoodFunction);
    (zs "cogent3.evolve.parameter_controller.SequenceLikelihoodFunction", DLikelihoodFunction);
    (zs "cogent3.core.location.IndelMap", DIndelMap);
    (zs "cogent3.core.location.FeatureMap", DFeatureMap);
    (zs "cogent3.core.annotation_db.BasicAnnotationDb", DBasicDb);
    (zs "cogent3.core.annotation_db.GffAnnotationDb", DGffDb);
    (zs "cogent3.core.annotation_db.GenbankAnnotationDb", DGbDb);
    (zs "cogent3.core.new_alphabet.CharAlphabet", DCharAlphabet);
    (zs "cogent3.core.new_alphabet.KmerAlphabet", DKmerAlphabet);
    (zs "cogent3.core.new_alphabet.CodonAlphabet", DCodonAlphabet);
    (zs "cogent3.core.new_sequence.Sequence", DNewSequence);
    (zs "cogent3.core.new_sequence.ProteinSequence", DNewProteinSequence);
    (zs "cogent3.core.new_sequence.ByteSequence", DNewByteSequence);
    (zs "cogent3.core.new_sequence.ProteinWithStopSequence", DNewProteinWithStopSequence);
    (zs "cogent3.core.new_sequence.DnaSequence", DNewDnaSequence);
    (zs "cogent3.core.new_sequence.RnaSequence", DNewRnaSequence);
    (zs "cogent3.core.new_alignment.SeqsData", DSeqsData);
    (zs "cogent3.core.new_alignment.SequenceCollection", DNewSequenceCollection) ].

(** * [deserialise_object] on the modelled types *)

Inductive obj :=
| OView (v : view) (p : list Z) (seqid : option (list Z))
| OSeq (st : style) (s : seqobj)
| OImap (m : IndelMap.imap)
| OAligned (a : aligned)
| OAlignment (k : kind) (info : dict) (rows : list aligned)
| OTree (t : Rose.tree)
| OTable (t : table)
| ODarr (a : darr)
| ONotCompleted (n : notcompleted)
| ODmat (m : dmat)
| OProfile (c : profile_class) (a : darr)
| OFmap (m : FeatureMap.fmap)
| ODb (tables : list Z) (rows : list AnnotDb.row)
| OSeqDb (s : seqobj) (tables : list Z) (rows : list AnnotDb.row)
| OMolType (label : list Z)
| OAlphabet (a : alphabet)
| OAlignmentDb (k : kind) (info : dict) (rows : list aligned) (tables : list Z) (db : list AnnotDb.row).

Definition to_dict (x : obj) : json :=
  match x with
  | OView v p sid => view_to_dict SOld v p sid
  | OSeq st s => seq_to_dict st s
  | OImap m => imap_to_dict m
  | OAligned a => aligned_to_dict a
  | OAlignment k inf rows => alignment_to_dict k inf rows
  | OTree t => tree_to_dict t
  | OTable t => table_to_dict t
  | ODarr a => darr_to_dict a
  | ONotCompleted n => nc_to_dict n
  | ODmat m => dmat_to_dict m
  | OProfile _ a => darr_to_dict a               (* inherited DictArray.to_rich_dict: the class is not written *)
  | OFmap m => fmap_to_dict m
  | ODb tables rows => db_to_dict tables rows
  | OSeqDb s tables rows => seq_db_to_dict s tables rows
  | OMolType l => moltype_to_dict l
  | OAlphabet a => alphabet_to_dict a
  | OAlignmentDb k inf rows tables db => alignment_db_to_dict k inf rows tables db
  end.

Definition s_Table := zs "Table".
Definition s_dictarray := zs "dictarray".

(** run the decoder the registry selects *)
Definition run_decoder (f : decoder) (d : dict) : res obj :=
  match f with
  | DSeqView => bind (view_of_dict_old d) (fun '(v, sg, sid) => Ok (OView v sg sid))
  | DSeq =>
      match jget k_annotation_db d with
      | Some (JObj _) => bind (seq_db_of_dict d) (fun sr => Ok (OSeqDb (fst sr) [0; 1] (snd sr)))
      | _ => bind (seq_of_dict_old d) (fun s => Ok (OSeq SOld s))
      end
  | DFeatureMap => bind (fmap_of_dict d) (fun m => Ok (OFmap m))
  | DBasicDb => bind (db_of_dict d) (fun rows => Ok (ODb [0; 1] rows))
  | DMolType => bind (moltype_of_dict d) (fun l => Ok (OMolType l))
  | DNewSequence | DNewDnaSequence | DNewRnaSequence => bind (seq_of_dict_new d) (fun s => Ok (OSeq SNew s))
  | DIndelMap => bind (imap_of_dict d) (fun m => Ok (OImap m))
  | DAligned => bind (aligned_of_dict d) (fun a => Ok (OAligned a))
  | DSeqCollections =>
      match jget k_annotation_db d with
      | Some (JObj _) => bind (alignment_db_of_dict d) (fun ar => let '(k, inf, rows) := fst ar in Ok (OAlignmentDb k inf rows [0; 1] (snd ar)))
      | _ => bind (alignment_of_dict d) (fun '(k, inf, rows) => Ok (OAlignment k inf rows))
      end
  | DAlphabet => bind (alphabet_of_dict d) (fun a => Ok (OAlphabet a))
  | DTree => bind (tree_of_dict d) (fun t => Ok (OTree t))
  | DNotCompleted => bind (nc_of_dict d) (fun n => Ok (ONotCompleted n))
  | DTabular =>
      (* deserialise_tabular branches on the type string *)
      match jget k_type d with
      | Some (JStr ty) =>
          if is_suffix s_Table ty then bind (table_of_dict d) (fun t => Ok (OTable t))
          else if is_infix s_dictarray (lower ty) then bind (darr_of_dict d) (fun a => Ok (ODarr a))
          else bind (dmat_of_dict d) (fun m => Ok (ODmat m))
      | _ => Err E_Key
      end
  | _ => Err E_Other                      (* decoder outside the model *)
  end.

(** [deserialise_object(dict)]: no "type" -> returned as is (not an object: [Err E_None]); unknown type -> NotImplementedError *)
Definition deserialise_object (j : json) : res obj :=
  match j with
  | JObj d =>
      match jget k_type d with
      | Some (JStr t) =>
          match dispatch registry t with
          | Some f => run_decoder f d
          | None => Err E_Other
          end
      | _ => Err 0
      end
  | _ => Err 0
  end.
