(** C16 — runner for the correspondence of the nested-initialisation logic *)
From CG3 Require Import Lib.PyZ Lib.Val Model.Nested Spec.NestedSpec.

Inductive ncase :=
| CMap (exact_rule : bool) (rich simple : coords) (rules : list rule)
                                   (* _get_param_mapping, then update_param_rules on [rules] *)
| CScoped (keep_unmatched : bool) (rich null : list rule).   (* update_scoped_rules *)

Definition vrule (r : rule) : val :=
  VL [VS (r_par r); match r_edges r with None => VN | Some es => VL (map VS es) end; VZ (r_val r)].

Definition vmres {A} (f : A -> val) (r : mres A) : val :=
  match r with MOk a => f a | MErr c => VE c end.

Definition run_ncase (c : ncase) : val :=
  match c with
  | CMap ex rich simple rules =>
      let pm := param_mapping ex rich simple in
      VL [vmres (fun m => VL (map (fun kv => VL [VS (fst kv); VL (map VS (snd kv))]) m)) pm;
          vmres (fun m => VL (map vrule (update_param_rules_same rich m rules))) pm;
          VB (nested_ok ex rich simple)]
  | CScoped keep rich null => vmres (fun rs => VL (map vrule rs)) (update_scoped_rules keep rich null)
  end.
