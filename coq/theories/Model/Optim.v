(** C16 — the optimiser WRAPPER of cogent3.maths.optimisers, transcribed
    branch-for-branch:

      limited_use / wrapped_f / get_best       optimisers.py l.66-88
      bounded_function                         l.91-105
      bounds_exception_catching_function       l.108-126
      minimise / maximise                      l.129-269

    The optimisers themselves (Powell, simulated annealing) are NOT modelled:
    they are an adversary, i.e. an arbitrary list of actions (query any point,
    in or out of bounds; crash with an exception; stop).  A state dependent
    optimiser produces, on any run, some list of queries, so quantifying over
    all lists covers every optimiser.

    Values of the objective function live in [fv]: finite numbers (Z; the
    correspondence drives the real code with integer valued floats), the two
    infinities, NaN (incomparable: every [>] with it is False), and the two
    ways an evaluation can raise.  No proofs in this file. *)
From CG3 Require Import Lib.PyZ Lib.Val.

Inductive fv :=
| Fin (z : Z)
| PInf
| NInf
| NaN
| FArith      (* f raised an ArithmeticError (ZeroDivisionError, OverflowError, FloatingPointError) *)
| FOther.     (* f raised anything else *)

(** Python float [a > b] *)
Definition fgt (a b : fv) : bool :=
  match a, b with
  | Fin x, Fin y => y <? x
  | Fin _, NInf => true
  | PInf, Fin _ => true
  | PInf, NInf => true
  | _, _ => false
  end.

(** numpy.isfinite *)
Definition isfinite (v : fv) : bool := match v with Fin _ => true | _ => false end.

(** [-1 * f(x)] *)
Definition fneg (v : fv) : fv :=
  match v with Fin z => Fin (- z) | PInf => NInf | NInf => PInf | other => other end.

Definition point := list Z.
(** a bounds vector; [None] = that element is infinite (no constraint) *)
Definition bvec := list (option Z).

(** numpy.all(lower <= x) on vectors of the same length *)
Fixpoint ge_lo (lo : bvec) (x : point) : bool :=
  match lo, x with
  | [], [] => true
  | l :: lo', a :: x' => (match l with None => true | Some b => b <=? a end) && ge_lo lo' x'
  | _, _ => false
  end.

Fixpoint le_hi (hi : bvec) (x : point) : bool :=
  match hi, x with
  | [], [] => true
  | h :: hi', a :: x' => (match h with None => true | Some b => a <=? b end) && le_hi hi' x'
  | _, _ => false
  end.

(** the [bounds] argument of maximise: None, or a pair whose members may be None.
    l.213-220:  upper, lower = bounds   (the names are swapped with respect to
    the use: the FIRST member is passed as [lower_bounds] of bounded_function)
        if upper is not None or lower is not None:
            if upper is None: upper = numpy.inf     -- first member None: LOWER bound +inf
            if lower is None: lower = -numpy.inf    -- second member None: UPPER bound -inf
    so a pair with exactly one None member makes every point out of bounds; the
    out-of-bounds branch of bounded_function (l.100-103) then indexes the 0-d
    array of that scalar infinity with a boolean vector, which raises IndexError
    at the initial evaluation (l.222), before f is ever called. *)
Inductive bounds := NoBounds | Bounds (first second : option bvec).

Definition in_bounds (b : bounds) (x : point) : bool :=
  match b with
  | NoBounds => true
  | Bounds None None => true
  | Bounds (Some lo) (Some hi) => ge_lo lo x && le_hi hi x
  | Bounds _ _ => false
  end.

(** state of the closure of limited_use + the history of evaluations of the
    raw function (the calculator's state is its last evaluation), most recent
    first *)
Record st := mkst {
  evals : Z;
  best_f : fv;
  best_x : option point;
  calls : list point
}.

Definition init_st : st := mkst 0 NInf None [].

Inductive res :=
| ROk (v : fv)
| RMax (n : Z)      (* MaximumEvaluationsReached(evals) *)
| RArith            (* ArithmeticError from f *)
| ROob              (* ParameterOutOfBoundsError *)
| ROther.           (* any other exception from f *)

Section Wrapper.
  Variable f : point -> fv.
  (** max_evaluations; None = numpy.inf *)
  Variable maxev : option Z.

  (** limited_use.wrapped_f, l.73-81 *)
  Definition wrapped_f (s : st) (x : point) : st * res :=
    if (match maxev with Some m => m <=? evals s | None => false end)
    then (s, RMax (evals s))
    else
      let s1 := mkst (evals s + 1) (best_f s) (best_x s) (x :: calls s) in
      match f x with
      | FArith => (s1, RArith)
      | FOther => (s1, ROther)
      | v => if fgt v (best_f s)
             then (mkst (evals s + 1) v (Some x) (x :: calls s), ROk v)
             else (s1, ROk v)
      end.

  (** bounded_function._wrapper, l.96-103 (applied outside wrapped_f, l.220) *)
  Definition bounded (b : bounds) (s : st) (x : point) : st * res :=
    if in_bounds b x then wrapped_f s x else (s, ROob).

  (** bounds_exception_catching_function._wrapper, l.115-124 *)
  Definition catching (b : bounds) (s : st) (x : point) : st * res :=
    let '(s', r) := bounded b s x in
    match r with
    | ROk v => (s', ROk (match v with Fin _ => v | _ => NInf end))
    | RArith => (s', ROk NInf)
    | ROob => (s', ROk NInf)
    | RMax n => (s', RMax n)
    | ROther => (s', ROther)
    end.

  (** the adversary *)
  Inductive act := Q (x : point) | Crash.

  Inductive outcome := Done | Limit (n : Z) | Crashed.

  (** one optimiser phase: [seen] are the values handed back to the optimiser *)
  Fixpoint run_phase (b : bounds) (s : st) (script : list act) (seen : list fv)
    : st * outcome * list fv :=
    match script with
    | [] => (s, Done, seen)
    | Crash :: _ => (s, Crashed, seen)
    | Q x :: rest =>
        let '(s', r) := catching b s x in
        match r with
        | ROk v => run_phase b s' rest (v :: seen)
        | RMax n => (s', Limit n, seen)
        | _ => (s', Crashed, seen)
        end
    end.

  (** limited_use.get_best, l.83-86: re-evaluates f at best_x ("for calculator,
      ensure best last") *)
  Definition get_best (s : st) : option (st * fv * point * Z) :=
    match best_x s with
    | None => None                  (* f(None): TypeError *)
    | Some bx => Some (mkst (evals s) (best_f s) (best_x s) (bx :: calls s), best_f s, bx, evals s)
    end.

  Inductive final :=
  | InitInvalid          (* ValueError: initial parameter values not valid / not finite, l.221-231 *)
  | InitLimit (n : Z)    (* max_evaluations = 0: MaximumEvaluationsReached before the try block *)
  | InitOther            (* f raised a non-arithmetic exception at the initial point *)
  | InitBoundsError      (* bounds pair with exactly one None member: IndexError, see [bounds] *)
  | Ran (o : outcome) (bf : fv) (bx : point) (n : Z) (seen : list fv)
                         (* the try/finally block ran; get_best() gave (bf, bx, n);
                            o = Done: maximise returns bx (and n); otherwise the exception continues *)
  | Broken.              (* get_best() with no best point *)

  (** maximise, l.205-269.  [local]: None / Some true / Some false *)
  Definition half_bounds (b : bounds) : bool :=
    match b with
    | Bounds None (Some _) => true
    | Bounds (Some _) None => true
    | _ => false
    end.

  Definition maximise (b : bounds) (local : option bool) (x0 : point) (g l : list act) : final * st :=
    if half_bounds b then (InitBoundsError, init_st) else
    let '(s1, r) := bounded b init_st x0 in
    match r with
    | RArith => (InitInvalid, s1)
    | ROob => (InitInvalid, s1)
    | RMax n => (InitLimit n, s1)
    | ROther => (InitOther, s1)
    | ROk v =>
        if negb (isfinite v) then (InitInvalid, s1)
        else
          let do_global := match local with Some true => false | _ => true end in
          let do_local := match local with Some false => false | _ => true end in
          let '(s2, o2, seen2) := if do_global then run_phase b s1 g [] else (s1, Done, []) in
          let '(s3, o3, seen3) :=
            match o2 with
            | Done => if do_local then run_phase b s2 l seen2 else (s2, Done, seen2)
            | _ => (s2, o2, seen2)
            end in
          match get_best s3 with
          | None => (Broken, s3)
          | Some (s4, bf, bx, n) => (Ran o3 bf bx n (rev seen3), s4)
          end
    end.
End Wrapper.

(** minimise, l.129-135: maximise of the negated function *)
Definition minimise (f : point -> fv) (maxev : option Z) (b : bounds) (local : option bool)
  (x0 : point) (g l : list act) : final * st :=
  maximise (fun x => fneg (f x)) maxev b local x0 g l.

(** recalculation/scope.py ParameterController.optimise l.846-887: what the caller of
    lf.optimise sees for each limit_action, given the outcome of maximise.
    limit_action: 0 = "ignore", 1 = "warn", other = raise ArithmeticError.
    In every case the [finally] clause copies the calculator's state (= last
    evaluated point = head of [calls]) back into the likelihood function. *)
Inductive lf_result := LfReturns | LfWarns | LfRaisesArith | LfRaisesOther | LfRaisesValue.

Definition lf_optimise_result (limit_action : Z) (fin : final) : lf_result :=
  match fin with
  | Ran Done _ _ _ _ => LfReturns
  | Ran (Limit _) _ _ _ _ | InitLimit _ =>
      if limit_action =? 0 then LfReturns else if limit_action =? 1 then LfWarns else LfRaisesArith
  | Ran Crashed _ _ _ _ | InitOther | InitBoundsError | Broken => LfRaisesOther
  | InitInvalid => LfRaisesValue
  end.

Definition lf_state_after (s : st) : option point := hd_error (calls s).
