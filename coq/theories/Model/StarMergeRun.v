(** C18 — runner of the star-merge model: (fixed, ref, [(ref row_i, other row_i)]) ->
    rows of the multiple alignment [ref; other_1; ...] or VE 2 (ValueError). *)
From CG3 Require Import Lib.PyZ Lib.Val Model.PairAlign Model.StarMerge.

Definition run_star (c : bool * list Z * list (list Z * list Z)) : val :=
  let '(fixed, ref, pw) := c in
  match star_merge fixed ref pw with
  | Some rows => VL (map vlistZ rows)
  | None => VE E_Value
  end.
