(** C03 — executable model of the annotatable alignment class
    ([cogent3.core.alignment.Aligned] l.2259-2487, [Alignment] l.4597-,
    [AlignmentI] l.2490-, [_SequenceCollectionBase] l.359-), transcribed
    branch for branch on top of the C08 model of [IndelMap] (Model/IndelMap.v,
    Model/IndelMapFixed.v) and the C01 model of [Sequence] over a [SeqView]
    (Model/View.v).  No proofs in this file.

    A row is what [Aligned] holds: [(map, data)] = an indel map and an
    ungapped sequence (a view over a parent string).  [row_gapped] is
    [Aligned.get_gapped_seq] = [Sequence.gapped_by_map]: the spans of the map
    applied to the displayed sequence.

    [variant] selects, for the five places where the pinned code violates the
    property, the pinned or the repaired behaviour (DESIGN 9.2); the
    correspondence check probes the implementation and runs the variant it
    finds.

    Exceptions are [Err code] (codes of Lib/Val.v); [Err E_None] (0) means the
    method returned [None] / [{}] instead of an alignment. *)
From CG3 Require Import Lib.PyZ Lib.Val Lib.PySlice Model.View Model.IndelMap Model.IndelMapFixed.

(** ** vocabulary shared with the specification *)

Definition GAPC : Z := 45.                                   (* '-' *)
Definition is_res (c : Z) : bool := negb (c =? GAPC).
Definition mask (s : list Z) : list bool := map is_res s.    (* true = residue *)
Definition strip (s : list Z) : list Z := filter is_res s.   (* the ungapped string *)
Definition zmem (x : Z) (l : list Z) : bool := existsb (Z.eqb x) l.

(** row names are strings; lookup is by string equality (names may be prefixes
    or substrings of one another, that never matters) *)
Definition name := list Z.
Fixpoint name_eqb (a b : name) : bool :=
  match a, b with
  | [], [] => true
  | x :: a', y :: b' => (x =? y) && name_eqb a' b'
  | _, _ => false
  end.
Definition nmem (x : name) (l : list name) : bool := existsb (name_eqb x) l.

(** the argument forms of [take_seqs]: a list of names, or one name as a plain
    [str] ([if type(seqs) == str: seqs = [seqs]] l.615) *)
Inductive names_arg := NList (l : list name) | NStr (s : name).
Definition norm_names (a : names_arg) : list name := match a with NList l => l | NStr s => [s] end.

(** column predicates of [filtered]: [no_degenerates] keeps a motif column
    whose characters all lie in [chars] ([AllowedCharacters]); [omit_gap_pos]
    keeps it when the fraction of characters lying in [gaps] is [<= num/den]
    ([GapsOk.gap_frac_ok]) *)
Inductive pred :=
| PAllowed (chars : list Z)
| PGapFrac (gaps : list Z) (num den : Z).

Inductive aop :=
| OSlice (a b : option Z)                 (* aln[a:b] *)
| OSliceStep (a b : option Z) (c : Z)     (* aln[a:b:c] *)
| OIndex (i : Z)                          (* aln[i] *)
| ORc
| OAddSelf                                (* aln + aln *)
| OAddRows (other : list (name * list Z))  (* aln + other: the right operand as its own ordered named rows *)
| OAddSlices (a b c d : Z)                (* aln[a:b] + aln[c:d] *)
| OTakePos (cols : list Z) (negate : bool)
| OTakeSeqs (names : names_arg) (negate : bool)
| OFilter (p : pred) (motif : Z)          (* filtered / no_degenerates / omit_gap_pos *)
| ODegapRel (x : name)                    (* get_degapped_relative_to *)
| OSample (locs : list Z) (motif : Z)     (* sample with the given locations *)
| OToRna
| OToDna
| OToType                                 (* class conversion there and back: rebuilt from to_dict() *)
| OWindow (window step k : Z)             (* the k-th alignment of sliding_windows(window, step) *)
| ORename (mp : list (name * name)).      (* rename_seqs(renamer): renamer = lookup in [mp], identity elsewhere *)

(** ** pinned / repaired behaviours *)
Record variant := mkVar {
  v_clamp : bool;        (* C08-1: IndelMap.__getitem__ clamps a stop beyond the end *)
  v_madd2 : bool;        (* C08-2: IndelMap.__add__ merges abutting gaps *)
  v_noshortcut : bool;   (* C03-1: Aligned.__add__ without the [self.data is other.data] shortcut *)
  v_negate_ok : bool;    (* C03-2: take_positions(negate=True) joins the characters before make_seq *)
  v_negidx : bool        (* C03-3: Aligned.__getitem__(int) converts a negative index *)
}.
Definition pinned : variant := mkVar false false false false false.
Definition repaired : variant := mkVar true true true true true.

(** ** rows *)

Record arow := mkRow { amap : imap; adata : pseq }.

Definition of_view {A} (r : View.res A) : res A :=
  match r with View.Ok a => Ok a | View.Err e => Err e end.

(** [data[a:b]] on the old-style [Sequence] *)
Definition seq_slice (d : pseq) (a b : option Z) : res pseq :=
  of_view (View.apply_op Fixed d (Slice a b None)).

(** [str(data[s:e])] *)
Definition seq_piece (d : pseq) (s e : Z) : list Z :=
  match seq_slice d (Some s) (Some e) with Ok d' => realise d' | Err _ => [] end.

(** one segment of [gapped_by_map_segment_iter] (termini are never "unknown" here) *)
Definition span_str (d : pseq) (s : ispan) : list Z :=
  match s with
  | ISpan a b => seq_piece d a b
  | ILost n => repeat GAPC (Z.to_nat n)
  end.

(** [Aligned.get_gapped_seq] / [__str__] *)
Definition row_gapped (r : arow) : list Z := concat (map (span_str (adata r)) (spans (amap r))).

(** [Aligned.__len__] *)
Definition row_len (r : arow) : Z := len (amap r).

(** [Aligned] of [moltype.make_seq(s).parse_out_gaps()]: a row built from a gapped string *)
Definition row_of_string (k : kind) (s : list Z) : res arow :=
  bind (of_view (fresh k (strip s))) (fun d => Ok (mkRow (from_mask (mask s)) d)).

Definition imap_slice (vr : variant) (m : imap) (a b : option Z) : res imap :=
  if v_clamp vr then getitem_slice_v2 m a b else getitem_slice m a b.

(** [span.start or 0], [span.stop or len(self)] *)
Definition or0 (a : option Z) : Z := match a with Some x => x | None => 0 end.
Definition or_len (b : option Z) (n : Z) : Z :=
  match b with Some x => if x =? 0 then n else x | None => n end.

(** [Aligned.__getitem__(slice)] l.2394-2407 *)
Definition row_getitem_slice (vr : variant) (r : arow) (a b : option Z) : res arow :=
  bind (imap_slice vr (amap r) a b) (fun nm =>
  bind (get_seq_index (amap r) (or0 a)) (fun s0 =>
  bind (get_seq_index (amap r) (or_len b (len (amap r)))) (fun s1 =>
  let useful := negb (parent_length nm =? 0) in
  bind (if useful then seq_slice (adata r) (Some s0) (Some s1) else seq_slice (adata r) None (Some 0)) (fun d =>
  (* [new_map.__class__(locations=(), ...)]: IndelMap has no such argument; never reached *)
  if useful && (s0 >? s1) then Err E_Type else Ok (mkRow nm d))))).

(** [Aligned.__getitem__(int)] l.2369: [self[span : span + 1]] *)
Definition row_getitem_int (vr : variant) (r : arow) (i : Z) : res arow :=
  if v_negidx vr then
    let j := if i <? 0 then i + row_len r else i in
    if j <? 0 then Err E_Index else row_getitem_slice vr r (Some j) (Some (j + 1))
  else row_getitem_slice vr r (Some i) (Some (i + 1)).

(** [Aligned.rc] l.2409 *)
Definition row_rc (r : arow) : res arow :=
  bind (nucleic_reversed (amap r)) (fun nm =>
  bind (of_view (View.apply_op Fixed (adata r) Rc)) (fun d => Ok (mkRow nm d))).

(** [Aligned.__add__] l.2357; [same] = [self.data is other.data] *)
Definition row_add (vr : variant) (same : bool) (r1 r2 : arow) : res arow :=
  if same && negb (v_noshortcut vr) then
    bind ((if v_madd2 vr then add_v2 else add) (amap r1) (amap r2)) (fun nm => Ok (mkRow nm (adata r1)))
  else row_of_string (skind (adata r1)) (row_gapped r1 ++ row_gapped r2).

(** [Aligned.__getitem__(FeatureMap)] l.2373 for the maps [filtered] builds:
    forward spans from sorted, separated, non-empty locations inside the alignment *)
Definition row_getitem_locs (vr : variant) (r : arow) (locs : list (Z * Z)) : res arow :=
  match locs with
  | [] => Err E_Other
  | [(s, e)] =>
      bind (imap_slice vr (amap r) (Some s) (Some e)) (fun nm =>
      bind (get_seq_index (amap r) s) (fun s0 =>
      bind (get_seq_index (amap r) e) (fun s1 =>
      bind (seq_slice (adata r) (Some s0) (Some s1)) (fun d => Ok (mkRow nm d)))))
  | _ =>
      bind (joined_segments (amap r) locs) (fun nm =>
      bind (make_seq_coords (amap r) locs) (fun sc =>
      bind (of_view (fresh (skind (adata r)) (flat_map (fun se => seq_piece (adata r) (fst se) (snd se)) sc))) (fun d =>
      Ok (mkRow nm d))))
  end.

(** [Aligned.to_moltype] l.2446 *)
Definition row_to_kind (r : arow) (target : kind) : res arow :=
  bind (of_view (to_moltype Fixed (adata r) target)) (fun d => Ok (mkRow (amap r) d)).

(** ** alignments: insertion-ordered (name, row) *)

Definition oalign := list (name * arow).

Fixpoint mapM {A B} (f : A -> res B) (l : list A) : res (list B) :=
  match l with
  | [] => Ok []
  | x :: t => bind (f x) (fun y => bind (mapM f t) (fun ys => Ok (y :: ys)))
  end.

Definition map_rowsM (f : arow -> res arow) (a : oalign) : res oalign :=
  mapM (fun nr => bind (f (snd nr)) (fun r' => Ok (fst nr, r'))) a.

(** [_one_length] l.3845 on [len(Aligned)] *)
Definition one_length (a : oalign) : bool :=
  match a with
  | [] => false
  | (_, r) :: t => forallb (fun nr => row_len (snd nr) =? row_len r) t
  end.

(** the class constructor given [Aligned] objects *)
Definition mk_align (a : oalign) : res oalign := if one_length a then Ok a else Err E_Value.

(** [len(aln)] = [seq_len] = the largest [len(Aligned)] *)
Definition al_len (a : oalign) : Z := fold_right (fun nr acc => Z.max (row_len (snd nr)) acc) 0 a.

(** [renamer(name)] *)
Definition rename_of (mp : list (name * name)) (n : name) : name :=
  match filter (fun p => name_eqb (fst p) n) mp with (_, n') :: _ => n' | [] => n end.

Definition al_kind (a : oalign) : kind := match a with (_, r) :: _ => skind (adata r) | [] => KOther end.

Definition find_orow (n : name) (a : oalign) : option arow :=
  match filter (fun nr => name_eqb (fst nr) n) a with (_, r) :: _ => Some r | [] => None end.

(** the class constructor given strings (one per existing name) *)
Definition rebuild (k : kind) (names : list name) (strs : list (list Z)) : res oalign :=
  bind (mapM (row_of_string k) strs) (fun rows => mk_align (combine names rows)).

Definition concatM (l : list (res (list Z))) : res (list Z) :=
  fold_right (fun r acc => bind r (fun s => bind acc (fun t => Ok (s ++ t)))) (Ok []) l.

(** [__add__] l.919: for every name of [self], [self.named_seqs[name] + other.named_seqs[name]];
    "Right alignment missing" is a ValueError *)
Definition add_named (vr : variant) (same : bool) (a b : oalign) : res oalign :=
  mapM (fun nr => match find_orow (fst nr) b with
                  | None => Err E_Value
                  | Some r2 => bind (row_add vr same (snd nr) r2) (fun r => Ok (fst nr, r))
                  end) a.

Definition al_add (vr : variant) (same : bool) (a b : oalign) : res oalign :=
  if negb (zlen a =? zlen b) then Err E_Value else bind (add_named vr same a b) mk_align.

Definition al_slice (vr : variant) (a : oalign) (x y : option Z) : res oalign :=
  bind (map_rowsM (fun r => row_getitem_slice vr r x y) a) mk_align.

(** [take_positions] l.2581 *)
Definition al_take_positions (vr : variant) (a : oalign) (cols : list Z) (negate : bool) : res oalign :=
  let k := al_kind a in
  let pick (r : arow) (is : list Z) : res (list Z) :=
    concatM (map (fun i => bind (row_getitem_int vr r i) (fun r' => Ok (row_gapped r'))) is) in
  bind (mapM (fun nr =>
          if negate then
            bind (pick (snd nr) (filter (fun i => negb (zmem i cols)) (zrange 0 (row_len (snd nr))))) (fun s =>
              (* make_seq(seq=[...]): coerce_str of a DNA/RNA moltype calls list.replace *)
              if negb (v_negate_ok vr) && (match k with KOther => false | _ => true end)
              then Err E_Type else Ok s)
          else pick (snd nr) cols) a) (fun strs =>
  rebuild k (map fst a) strs).

(** [get_in_motif_size] + [zip] over the rows: motif column [j] *)
Definition msub_z (s : list Z) (x y : Z) : list Z := zslice s x y.
Definition motif_count (m : Z) (strs : list (list Z)) : Z :=
  match strs with
  | [] => 0
  | s :: t => fold_right (fun u acc => Z.min (zlen u / m) acc) (zlen s / m) t
  end.
Definition motif_column (m : Z) (strs : list (list Z)) (j : Z) : list Z :=
  flat_map (fun s => msub_z s (j * m) ((j + 1) * m)) strs.

Definition count_in (set : list Z) (l : list Z) : Z := zlen (filter (fun c => zmem c set) l).

Definition eval_pred (p : pred) (col : list Z) : bool :=
  match p with
  | PAllowed chars => forallb (fun c => zmem c chars) col
  | PGapFrac gaps num den => count_in gaps col * den <=? num * zlen col
  end.

(** the [gv] loop of [Alignment.filtered] l.4774-4781 *)
Fixpoint gv_loop (m pos : Z) (kept : bool) (flags : list bool) : list Z :=
  match flags with
  | [] => if kept then [pos * m] else []
  | f :: t => (if Bool.eqb kept f then [] else [pos * m]) ++ gv_loop m (pos + 1) f t
  end.

(** [Alignment.filtered] l.4760 (drop_remainder=True) *)
Definition al_filtered (vr : variant) (a : oalign) (p : pred) (m : Z) : res oalign :=
  if m <=? 0 then Err E_Value
  else
    let strs := map (fun nr => row_gapped (snd nr)) a in
    let flags := map (fun j => eval_pred p (motif_column m strs j)) (zrange 0 (motif_count m strs)) in
    match gv_loop m 0 false flags with
    | [] => Err E_None
    | gv => bind (map_rowsM (fun r => row_getitem_locs vr r (pair_up gv)) a) mk_align
    end.

(** [sample] l.2940 with the given locations *)
Definition al_sample (vr : variant) (a : oalign) (locs : list Z) (m : Z) : res oalign :=
  bind (mapM (fun nr =>
          concatM (map (fun l => bind (row_getitem_slice vr (snd nr) (Some (l * m)) (Some ((l + 1) * m)))
                                      (fun r' => Ok (row_gapped r'))) locs)) a) (fun strs =>
  rebuild (al_kind a) (map fst a) strs).

Definition n_windows (n window step : Z) : Z :=
  let e := n - window + 1 in if 0 <? e then cdiv e step else 0.

Definition al_apply (vr : variant) (a : oalign) (o : aop) : res oalign :=
  match o with
  | OSlice x y => al_slice vr a x y
  | OSliceStep x y c =>
      (* IndelMap.__getitem__: "does not yet support strides" *)
      Err E_Other
  | OIndex i => bind (map_rowsM (fun r => row_getitem_int vr r i) a) mk_align
  | ORc => bind (map_rowsM row_rc a) mk_align
  | OAddSelf => al_add vr true a a
  | OAddRows other =>
      bind (rebuild (al_kind a) (map fst other) (map snd other)) (fun b => al_add vr false a b)
  | OAddSlices x y x' y' =>
      bind (al_slice vr a (Some x) (Some y)) (fun a1 =>
      bind (al_slice vr a (Some x') (Some y')) (fun a2 => al_add vr false a1 a2))
  | OTakePos cols negate => al_take_positions vr a cols negate
  | OTakeSeqs arg negate =>
      let names := norm_names arg in
      if negate then
        match filter (fun nr => negb (nmem (fst nr) names)) a with
        | [] => Err E_None
        | r => mk_align r
        end
      else if forallb (fun x => match find_orow x a with Some _ => true | None => false end) names
      then match names with
           | [] => Err E_None
           | _ => mk_align (flat_map (fun x => match find_orow x a with Some r => [(x, r)] | None => [] end) names)
           end
      else Err E_Key
  | OFilter p m => al_filtered vr a p m
  | ODegapRel x =>
      match find_orow x a with
      | None => Err E_Value
      | Some ref =>
          let g := row_gapped ref in
          al_take_positions vr a (filter (fun i => negb (znth 0 g i =? GAPC)) (zrange 0 (zlen g))) false
      end
  | OSample locs m => al_sample vr a locs m
  | OToRna => match al_kind a with
              | KRna => Ok a
              | _ => bind (map_rowsM (fun r => row_to_kind r KRna) a) mk_align
              end
  | OToDna => match al_kind a with
              | KDna => Ok a
              | _ => bind (map_rowsM (fun r => row_to_kind r KDna) a) mk_align
              end
  | OToType => rebuild (al_kind a) (map fst a) (map (fun nr => row_gapped (snd nr)) a)
  | OWindow w st i =>
      if (0 <=? i) && (i <? n_windows (al_len a) w st) && (0 <? w) && (0 <? st)
      then al_slice vr a (Some (i * st)) (Some (i * st + w))
      else Err E_None
  | ORename mp =>
      (* rename_seqs l.1625: [make_seq(seq=seq.data, name=new_name)] builds a new sequence from the displayed one *)
      bind (mapM (fun nr =>
              bind (of_view (fresh (skind (adata (snd nr))) (realise (adata (snd nr))))) (fun d =>
              Ok (rename_of mp (fst nr), mkRow (amap (snd nr)) d))) a) mk_align
  end.

(** a failing operation leaves the alignment as it was (the harness observes
    the exception and carries on with the previous object) *)
Definition al_keep (vr : variant) (a : oalign) (o : aop) : oalign :=
  match al_apply vr a o with Ok a' => a' | Err _ => a end.

Definition al_run (vr : variant) (a : oalign) (ops : list aop) : oalign := fold_left (al_keep vr) ops a.

(** [make_aligned_seqs(dict, moltype, array_align=False)] *)
Definition al_init (k : kind) (rows : list (name * list Z)) : res oalign :=
  rebuild k (map fst rows) (map snd rows).

(** [to_dict()] *)
Definition al_strings (a : oalign) : list (name * list Z) := map (fun nr => (fst nr, row_gapped (snd nr))) a.

(** ** read-only methods that are functions of the rows (default arguments) *)

(** [moltype.gaps] of the DNA / RNA / protein moltypes: '-' and '?' *)
Definition is_gapch (c : Z) : bool := (c =? 45) || (c =? 63).

Definition al_names (a : oalign) : list name := map fst a.
Definition al_num_seqs (a : oalign) : Z := zlen a.
(** [get_gapped_seq(name)] *)
Definition al_get_gapped_seq (a : oalign) (n : name) : option (list Z) :=
  match find_orow n a with Some r => Some (row_gapped r) | None => None end.
(** [iter_positions] l.4806: [seqs = list(map(str, aligned_objs))], then [seq[pos]] for [pos in range(seq_len)] *)
Definition al_positions (a : oalign) : list (list Z) :=
  let seqs := map (fun nr => row_gapped (snd nr)) a in
  map (fun pos => flat_map (fun s => zget s pos) seqs) (zrange 0 (al_len a)).
(** [get_gap_array] l.2821: on the rows of [to_type(array_align=True)], i.e. of [to_dict()] *)
Definition al_gap_array (a : oalign) : list (list bool) :=
  map (fun nr => map is_gapch (row_gapped (snd nr))) a.
(** [count_gaps_per_pos] l.2835: column sums of the gap array over [range(len(self))] *)
Definition al_count_gaps_per_pos (a : oalign) : list Z :=
  map (fun pos => zlen (filter (fun row => znth false row pos) (al_gap_array a))) (zrange 0 (al_len a)).
(** [is_ragged] l.832 on [len(Aligned)] *)
Definition al_is_ragged (a : oalign) : bool :=
  match a with [] => false | (_, r) :: _ => negb (forallb (fun nr => row_len (snd nr) =? row_len r) a) end.
(** [degap()] l.1135: [data.degap()] of every row *)
Definition al_degap (a : oalign) : list (name * list Z) :=
  map (fun nr => (fst nr, filter (fun c => negb (is_gapch c)) (realise (adata (snd nr))))) a.

(** [count_gaps_per_seq] l.2851 (default flags): the gap array restricted to the columns holding a gap, summed per row *)
Definition al_count_gaps_per_seq (a : oalign) : list Z :=
  let ga := al_gap_array a in
  let gap_cols := filter (fun j => 0 <? zlen (filter (fun row => znth false row j) ga)) (zrange 0 (al_len a)) in
  map (fun row => zlen (filter (fun j => znth false row j) gap_cols)) ga.
(** number of distinct elements, [len(set(column))] *)
Fixpoint n_distinct (l : list Z) : Z :=
  match l with [] => 0 | x :: t => (if zmem x t then 0 else 1) + n_distinct t end.
(** [variable_positions] l.3377 (include_gap_motif=True) over [iter_positions] *)
Definition al_variable_positions (a : oalign) : list Z :=
  map fst (filter (fun pc => 1 <? n_distinct (snd pc)) (combine (zrange 0 (al_len a)) (al_positions a))).
(** [get_lengths] l.1219 (defaults): per row, the number of canonical characters of the gapped sequence *)
Definition al_get_lengths (canon : list Z) (a : oalign) : list (name * Z) :=
  map (fun nr => (fst nr, count_in canon (row_gapped (snd nr)))) a.
(** [Alignment.get_seq(name)] l.4792: the ungapped sequence [named_seqs[name].data] *)
Definition al_get_seq (a : oalign) (n : name) : option (list Z) :=
  match find_orow n a with Some r => Some (realise (adata r)) | None => None end.
