(** Executable model of the rate-matrix / transition-matrix algebra of cogent3
    substitution models, polymorphic in a field record ([Lib/FieldAlg.v]).
    No proofs in this file.

    Transcribed from (line numbers of the pinned tree):
    * evolve/substitution_model.py
        [_ContinuousSubstitutionModel._is_instantaneous] (gap-free alphabets),
        [_Codon._is_instantaneous] (same rule on sense codons),
        [Parametric.calc_exchangeability_matrix]  (R = mask; R[indices_p] *= par_p),
        [_ContinuousSubstitutionModel.calcQ]      (l.590: general, non-stationary),
        [StationaryQ.calcQ]                       (l.690: R * mprobs_matrix first);
    * evolve/motif_prob_model.py
        [SimpleMotifProbModel] ("tuple": mprobs_matrix = word_probs, broadcast over columns),
        [MonomerProbModel.calc_word_probs / calc_word_weight_matrix],
        [ConditionalMotifProbModel.calc_word_weight_matrix] (w2c, context_indices);
    * maths/matrix_exponentiation.py
        [TaylorExponentiator.__call__]  (trm = trm·(A/k); eA += trm),
        [PadeExponentiator.__call__]    (coefficient recurrence, N and D; the
                                         linear solve is not modelled: its result
                                         is a parameter of the theorems),
        [EigenExponentiator.__call__]   (inner(evT * exp_roots, evI), before the
                                         clipping at 0);
    * recalculation/definition.py
        [WeightedPartitionDefn.calc], [MonotonicDefn.calc], [GammaDefn.calc]
        (the quantile function gdtri is a parameter: the medians are inputs). *)
From Coq Require Import Arith List Bool.
From CG3 Require Import Lib.FieldAlg Lib.Mat.
Import ListNotations.

Set Implicit Arguments.

Section Model.
  Variable R : Type.
  Variable o : fld_ops R.
  Local Notation "0" := (fzero o).
  Local Notation "1" := (fone o).
  Local Infix "+" := (fadd o).
  Local Infix "*" := (fmul o).
  Local Infix "-" := (fsub o).
  Local Infix "/" := (fdiv o).

  (* ------------------------------------------------------------ masks *)
  Definition bmask := list (list bool).
  Definition bget (m : bmask) (i j : nat) : bool := nth j (nth i m []) false.

  (** positions at which two words differ *)
  Fixpoint diff_pos (k : nat) (x y : list nat) : list nat :=
    match x, y with
    | a :: x', b :: y' => if Nat.eqb a b then diff_pos (S k) x' y' else k :: diff_pos (S k) x' y'
    | _, _ => []
    end.

  (** [_is_instantaneous] without gap states: the words differ at exactly one position *)
  Definition is_instantaneous (x y : list nat) : bool :=
    match diff_pos 0 x y with [_] => true | _ => false end.

  Definition word (words : list (list nat)) (i : nat) : list nat := nth i words [].

  Definition inst_mask (words : list (list nat)) : bmask :=
    map (fun x => map (fun y => is_instantaneous x y) words) words.

  (* ------------------------------------------------------------ exchangeabilities *)
  (** R[indices] *= par *)
  Definition apply_pred (n : nat) (Rm : lmat R) (mask : bmask) (par : R) : lmat R :=
    mk n (fun i j => if bget mask i j then get o Rm i j * par else get o Rm i j).

  Definition mask_f (n : nat) (inst : bmask) : lmat R :=
    mk n (fun i j => if bget inst i j then 1 else 0).

  Definition exchangeability (n : nat) (inst : bmask) (preds : list (bmask * R)) : lmat R :=
    fold_left (fun Rm mp => apply_pred n Rm (fst mp) (snd mp)) preds (mask_f n inst).

  (* ------------------------------------------------------------ calcQ *)
  Definition row_total (n : nat) (M : fmat R) (i : nat) : R := sumn o n (fun j => M i j).

  (** Q = R;  Q -= diag(row_totals);  Q *= 1/(word_probs * row_totals).sum() *)
  Definition calcQ_f (n : nat) (wp : nat -> R) (Rm : fmat R) : fmat R :=
    let rt := row_total n Rm in
    let scale := 1 / sumn o n (fun i => wp i * rt i) in
    fun i j => (if Nat.eqb i j then Rm i j - rt i else Rm i j) * scale.

  Definition calcQ_general (n : nat) (wp : list R) (Rm : lmat R) : lmat R :=
    mk n (calcQ_f n (vget o wp) (get o Rm)).

  (** StationaryQ: Q = R * mprobs_matrix (element-wise) first *)
  Definition hadamard (A B : fmat R) : fmat R := fun i j => A i j * B i j.

  Definition calcQ_stationary (n : nat) (wp : list R) (mpm : lmat R) (Rm : lmat R) : lmat R :=
    mk n (calcQ_f n (vget o wp) (hadamard (get o Rm) (get o mpm))).

  (* ------------------------------------------------------------ motif probability models *)
  (** SimpleMotifProbModel: mprobs_matrix is the word-probability vector,
      broadcast by numpy over the last axis: column j is multiplied by wp[j] *)
  Definition mpm_simple (n : nat) (wp : list R) : lmat R := mk n (fun _ j => vget o wp j).

  Fixpoint prodl (l : list R) : R := match l with [] => 1 | x :: t => x * prodl t end.
  Fixpoint suml (l : list R) : R := match l with [] => 0 | x :: t => x + suml t end.

  (** MonomerProbModel.calc_word_probs: product over positions, then normalised *)
  Definition monomer_word_probs (words : list (list nat)) (mon : list R) : list R :=
    let raw := map (fun w => prodl (map (vget o mon) w)) words in
    let tot := suml raw in
    map (fun x => x / tot) raw.

  (** mutant_motif[i,j]: the monomer of the new word at the differing position
      (0 where the mask is false: numpy.zeros) *)
  Definition mutant_motif (words : list (list nat)) (inst : bmask) (i j : nat) : nat :=
    if bget inst i j then
      match diff_pos 0 (word words i) (word words j) with
      | d :: _ => nth d (word words j) 0%nat
      | [] => 0%nat
      end
    else 0%nat.

  (** MonomerProbModel.calc_word_weight_matrix: monomer_probs.take(mutant_motif) * mask *)
  Definition mpm_monomer (n : nat) (words : list (list nat)) (inst : bmask) (mon : list R) : lmat R :=
    mk n (fun i j => vget o mon (mutant_motif words inst i j) * (if bget inst i j then 1 else 0)).

  (** PosnSpecificMonomerProbModel ("monomers"): one monomer distribution per position.
      calc_word_probs: product over positions of monomer_probs[i][word[i]], then result /= result.sum()
      (the sum runs over the model's own states, which may be a strict subset of all words:
      sense codons, or a motifs= subset) *)
  Fixpoint prod_pos (mons : list (list R)) (w : list nat) : R :=
    match mons, w with
    | m :: mons', a :: w' => vget o m a * prod_pos mons' w'
    | _, _ => 1
    end.
  Definition normalise (raw : list R) : list R := let tot := suml raw in map (fun x => x / tot) raw.
  Definition posn_word_probs (words : list (list nat)) (mons : list (list R)) : list R :=
    normalise (map (prod_pos mons) words).

  (** mutated_posn[i,j]: the differing position (0 where the mask is false) *)
  Definition mutated_posn (words : list (list nat)) (inst : bmask) (i j : nat) : nat :=
    if bget inst i j then
      match diff_pos 0 (word words i) (word words j) with d :: _ => d | [] => 0%nat end
    else 0%nat.

  (** calc_word_weight_matrix: monomer_probs.take(mutated_posn * size + mutant_motif) * mask *)
  Definition mpm_posn (n : nat) (words : list (list nat)) (inst : bmask) (mons : list (list R)) : lmat R :=
    mk n (fun i j => vget o (nth (mutated_posn words inst i j) mons []) (mutant_motif words inst i j)
                     * (if bget inst i j then 1 else 0)).

  (** index of the context of [w] at position [d] in the (len-1)-word alphabet
      over [k] monomers (first letter most significant) *)
  Fixpoint remove_at (d : nat) (w : list nat) : list nat :=
    match w with
    | [] => []
    | a :: t => match d with O => t | S d' => a :: remove_at d' t end
    end.
  Definition ctx_code (k : nat) (w : list nat) (d : nat) : nat :=
    fold_left (fun acc a => (acc * k + a)%nat) (remove_at d w) 0%nat.

  (** column index into context_probs: context * length + position *)
  Definition ctx_index (k len : nat) (w : list nat) (d : nat) : nat := (ctx_code k w d * len + d)%nat.

  (** context_probs[c] = Σ_w motif_probs[w] · w2c[w, c] *)
  Definition context_prob (k len : nat) (words : list (list nat)) (wp : list R) (c : nat) : R :=
    suml (map (fun iw => if existsb (fun d => Nat.eqb (ctx_index k len (snd iw) d) c) (seq 0 len)
                         then vget o wp (fst iw) else 0)
              (combine (seq 0 (length words)) words)).

  (** context_indices[i,j] (0 where the mask is false) *)
  Definition context_index (k len : nat) (words : list (list nat)) (inst : bmask) (i j : nat) : nat :=
    if bget inst i j then
      match diff_pos 0 (word words i) (word words j) with
      | d :: _ => ctx_index k len (word words j) d
      | [] => 0%nat
      end
    else 0%nat.

  (** ConditionalMotifProbModel.calc_word_weight_matrix:
      motif_probs / context_probs.take(context_indices), a zero context
      probability being replaced by +inf (so that the quotient is 0): the
      field inverse is taken with the convention [x / 0 = 0] made explicit here *)
  Variable is_zero : R -> bool.
  Definition mpm_conditional (n k len : nat) (words : list (list nat)) (inst : bmask) (wp : list R) : lmat R :=
    mk n (fun i j =>
            let cp := context_prob k len words wp (context_index k len words inst i j) in
            if is_zero cp then 0 else vget o wp j / cp).

  (* ------------------------------------------------------------ General / GeneralStationary (ns_substitution_model.py) *)
  (** numpy.array((0.0,) + params + (1.0,)).take(param_pick): cell (i,j) holds
      0 (pick 0), the k-th parameter (pick k) or 1 (pick = number of parameters + 1) *)
  Definition take_pick (n : nat) (params : list R) (pick : list (list nat)) : lmat R :=
    let vals := 0 :: params ++ [1] in
    mk n (fun i j => nth (nth j (nth i pick []) 0%nat) vals 0).

  (** R[i, j] = v *)
  Definition lset (n : nat) (Rl : lmat R) (i j : nat) (v : R) : lmat R :=
    mk n (fun a b => if Nat.eqb a i && Nat.eqb b j then v else get o Rl a b).

  Variable neg : R -> bool.     (* x < 0.0 *)
  Variable near0 : R -> bool.   (* numpy.allclose(x, 0.0) *)

  (** row_total - col_total for column j:  mprobs . R[j]  -  mprobs . R[:, j] *)
  Definition gs_required (n : nat) (mp : nat -> R) (Rm : fmat R) (j : nat) : R :=
    sumn o n (fun k => mp k * Rm j k) - sumn o n (fun k => mp k * Rm k j).

  (** one turn of the loop over last_in_column of GeneralStationary.calc_exchangeability_matrix;
      [None] = ParameterOutOfBoundsError *)
  Definition gs_step (n : nat) (mp : list R) (st : option (lmat R)) (ij : nat * nat) : option (lmat R) :=
    match st with
    | None => None
    | Some Rl =>
        let required := gs_required n (vget o mp) (get o Rl) (snd ij) in
        let required := if near0 required then (if neg required then fopp o required else required) else required in
        if neg required then None
        else Some (lset n Rl (fst ij) (snd ij) (required / vget o mp (fst ij)))
    end.

  Definition gs_loop (n : nat) (mp : list R) (lic : list (nat * nat)) (Rl : lmat R) : option (lmat R) :=
    fold_left (gs_step n mp) lic (Some Rl).

  Definition gs_exchangeability (n : nat) (mp params : list R) (pick : list (list nat)) (lic : list (nat * nat))
    : option (lmat R) :=
    gs_loop n mp lic (take_pick n params pick).

  (** the SEEDED variant "feasibility guard dedented out of the loop": every dependent entry is
      written, only the last requirement is tested (kept to state its refutation) *)
  Definition gs_step_unguarded (n : nat) (mp : list R) (st : lmat R * R) (ij : nat * nat) : lmat R * R :=
    let Rl := fst st in
    let required := gs_required n (vget o mp) (get o Rl) (snd ij) in
    let required := if near0 required then (if neg required then fopp o required else required) else required in
    (lset n Rl (fst ij) (snd ij) (required / vget o mp (fst ij)), required).
  Definition gs_exchangeability_guard_after_loop (n : nat) (mp params : list R) (pick : list (list nat))
    (lic : list (nat * nat)) : option (lmat R) :=
    let '(Rl, required) := fold_left (gs_step_unguarded n mp) lic (take_pick n params pick, 0) in
    if neg required then None else Some Rl.

  (* ------------------------------------------------------------ exponentiators *)
  (** natural number as a field element *)
  Definition nat_f (k : nat) : R := f_of_nat o k.

  (** TaylorExponentiator: state (eA, trm) after the terms k = k0 .. k0+steps-1 *)
  Fixpoint taylor_loop (n : nat) (A : lmat R) (steps k : nat) (st : lmat R * lmat R) : lmat R * lmat R :=
    match steps with
    | O => st
    | S s =>
        let trm := lmul o n (snd st) (lscale o n (1 / nat_f k) A) in   (* trm·(A/k) *)
        taylor_loop n A s (S k) (ladd o n (fst st) trm, trm)
    end.

  (** result after [terms] terms beyond the identity (the code runs q-1 = 20 and
      then as many more as its float stopping rule asks for: any count is covered) *)
  Definition taylor (n : nat) (A : lmat R) (terms : nat) : lmat R :=
    fst (taylor_loop n A terms 1 (lI o n, lI o n)).

  (** repeated squaring: F = F·F, j times *)
  Fixpoint squarings (n : nat) (F : lmat R) (j : nat) : lmat R :=
    match j with O => F | S j' => squarings n (lmul o n F F) j' end.

  (** scaling and squaring with a Taylor core: (taylor (A/2^s))^(2^s) *)
  Fixpoint pow2 (s : nat) : R := match s with O => 1 | S s' => (1 + 1) * pow2 s' end.
  Definition expm_ss (n : nat) (A : lmat R) (s terms : nat) : lmat R :=
    squarings n (taylor n (lscale o n (1 / pow2 s) A) terms) s.

  (** PadeExponentiator: numerator N and denominator D for order q (A already scaled).
      state: (c, X, N, D) *)
  Definition pade_step (n q : nat) (A : lmat R) (k : nat) (st : R * lmat R * lmat R * lmat R)
    : R * lmat R * lmat R * lmat R :=
    let '(c, X, N, D) := st in
    let c' := c * nat_f (q - k + 1) / (nat_f k * nat_f (2 * q - k + 1)) in
    let X' := lmul o n A X in
    let cX := lscale o n c' X' in
    (c', X', ladd o n N cX, if Nat.even k then ladd o n D cX else lsub o n D cX).

  Fixpoint pade_loop (n q : nat) (A : lmat R) (steps k : nat) (st : R * lmat R * lmat R * lmat R) :=
    match steps with
    | O => st
    | S s => pade_loop n q A s (S k) (pade_step n q A k st)
    end.

  Definition pade_ND (n q : nat) (A : lmat R) : lmat R * lmat R :=
    let c := 1 / (1 + 1) in
    let N0 := ladd o n (lI o n) (lscale o n c A) in
    let D0 := lsub o n (lI o n) (lscale o n c A) in
    let '(_, _, N, D) := pade_loop n q A (q - 1) 2 (c, A, N0, D0) in
    (N, D).

  (** EigenExponentiator: numpy.inner(evT * exp_roots, evI)[i,j] = Σ_k evT[i,k]·e[k]·evI[j,k] *)
  Definition eigen_P (n : nat) (evT evI : fmat R) (e : nat -> R) : fmat R :=
    fun i j => sumn o n (fun k => evT i k * e k * evI j k).

  (* ------------------------------------------------------------ discrete-time models (BH / DT) *)
  (** maths/util.py ratios_to_proportions(total, params): N proportions from N-1 ratios by recursive
      halving; every row of a discrete-time psub matrix (PsubMatrixDefn) is such a partition with total 1.
      Recursion on list halves: explicit fuel (length params + 1 suffices; out of fuel returns [total]) *)
  Fixpoint ratios_to_proportions (fuel : nat) (total : R) (params : list R) : list R :=
    match fuel with
    | O => [total]
    | S f =>
        match params with
        | [] => [total]
        | r0 :: rest =>
            let half := Nat.div (length params + 1) 2 in
            let part := 1 / (r0 + 1) in
            ratios_to_proportions f (total * part) (firstn (half - 1) rest)
            ++ ratios_to_proportions f (total * (1 - part)) (skipn (half - 1) rest)
        end
    end.

  Definition psub_row (ratios : list R) : list R := ratios_to_proportions (S (length ratios)) 1 ratios.

  (* ------------------------------------------------------------ rate classes *)
  (** WeightedPartitionDefn.calc: values / Σ weights·values *)
  Definition weighted_partition (weights values : list R) : list R :=
    let scale := suml (map (fun wv => fst wv * snd wv) (combine weights values)) in
    map (fun v => v / scale) values.

  (** numpy.add.accumulate *)
  Fixpoint accumulate (acc : R) (l : list R) : list R :=
    match l with [] => [] | x :: t => (acc + x) :: accumulate (acc + x) t end.

  (** MonotonicDefn.calc *)
  Definition monotonic (weights increments : list R) : list R :=
    weighted_partition weights (accumulate 0 increments).

  (** GammaDefn.calc, the medians (gdtri) being an input: weights are normalised first *)
  Definition gamma_rates (weights medians : list R) : list R :=
    let tot := suml weights in
    let w' := map (fun w => w / tot) weights in
    let scale := suml (map (fun mw => fst mw * snd mw) (combine medians w')) in
    map (fun m => m / scale) medians.
End Model.
