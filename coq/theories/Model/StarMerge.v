(** C18 — executable model of the pairwise-to-multiple gap bookkeeping of
    cogent3/app/align.py: [_GapOffset] (both orientations, bisect rule),
    [_gap_union]/[_merged_gaps], [_gap_difference],
    [_subset_gaps_to_align_coords], [_combined_refseq_gaps],
    [_gaps_for_injection], [pairwise_to_multiple].

    Gaps of a row are a dict {sequence position: gap length}
    ([IndelMap.get_gap_coordinates]); dicts are association lists kept sorted by
    key (every consumer in the source either sorts the items or looks keys up,
    so insertion order is never observable).  Residues are non-negative
    integers, the gap is [GAP] = -1.  No proofs in this file. *)
From CG3 Require Import Lib.PyZ Lib.Val Model.PairAlign.

Definition gdict := list (Z * Z).

Fixpoint dget (d : gdict) (k : Z) : option Z :=
  match d with
  | [] => None
  | (k', v) :: d' => if k' =? k then Some v else dget d' k
  end.

Fixpoint dset (d : gdict) (k v : Z) : gdict :=
  match d with
  | [] => [(k, v)]
  | (k', v') :: d' =>
      if k <? k' then (k, v) :: d
      else if k =? k' then (k, v) :: d'
      else (k', v') :: dset d' k v
  end.

Definition dget0 (d : gdict) (k : Z) : Z := match dget d k with Some v => v | None => 0 end.

(** [dict(aligned.map.get_gap_coordinates())] of a gapped row: the number of gap
    characters in front of each residue (last entry: trailing gaps), as the
    sparse dict {residue index: run length} of the non-empty runs.
    (The rows reach the code as IndelMaps; this is how a gapped string is read
    as one, not a transcription of source lines.) *)
Fixpoint counts (row : list Z) : list Z :=
  match row with
  | [] => [0]
  | x :: row' =>
      match counts row' with
      | c :: cs => if x =? GAP then (c + 1) :: cs else 0 :: c :: cs
      | [] => [0]
      end
  end.

Fixpoint sparse (p : Z) (l : list Z) : gdict :=
  match l with
  | [] => []
  | c :: l' => if 0 <? c then (p, c) :: sparse (p + 1) l' else sparse (p + 1) l'
  end.

Definition gaps_of_row (row : list Z) : gdict := sparse 0 (counts row).

Definition degap_row (row : list Z) : list Z := filter (fun c => negb (c =? GAP)) row.

(** the gapped row of [Aligned(gap_coords_to_map(gaps, len(seq)), seq)] *)
Fixpoint expand_aux (seq : list Z) (p : Z) (gaps : gdict) : list Z :=
  repeat GAP (Z.to_nat (dget0 gaps p)) ++
  match seq with
  | [] => []
  | c :: seq' => c :: expand_aux seq' (p + 1) gaps
  end.
Definition expand (seq : list Z) (gaps : gdict) : list Z := expand_aux seq 0 gaps.

(** ---------------------------------------------------------------- _GapOffset *)

Record gap_offset := {
  go_store : gdict; go_min : option Z; go_max : Z; go_total : Z; go_invert : bool }.

Definition mk_gap_offset (gl : gdict) (invert : bool) : gap_offset :=
  let '(res, cum, gap_pos) :=
    fold_left (fun (acc : gdict * Z * Z) (it : Z * Z) =>
                 let '(res, cum, _) := acc in
                 let '(gp, L) := it in
                 if invert
                 then (dset (dset res (gp + cum) cum) (gp + cum + L) (cum + L), cum + L, gp)
                 else (dset res gp cum, cum + L, gp))
              gl ([], 0, -1) in
  {| go_store := res;
     go_min := match gl with [] => None | (k, _) :: _ => Some k end;
     go_max := if invert then gap_pos + cum else gap_pos;
     go_total := cum;
     go_invert := invert |}.

(** [bisect_left(ordered, index)] *)
Fixpoint bisect_left (o : list Z) (x : Z) : Z :=
  match o with
  | [] => 0
  | k :: o' => if k <? x then 1 + bisect_left o' x else 0
  end.

(** Python list indexing with negative wrap-around (out of range: 0, never reached) *)
Definition nth_py (o : list Z) (i : Z) : Z :=
  let i' := if i <? 0 then i + zlen o else i in
  if (i' <? 0) || (zlen o <=? i') then 0 else nth (Z.to_nat i') o 0.

(** [fixed = false] is the pinned code.  [fixed = true] is the code with
    notes/proposed_fixes/C18-1.diff applied (an alignment position strictly
    inside a gap maps to that gap's sequence position); the check accepts
    either, and says which one the source under test follows. *)
Definition go_get (fixed : bool) (g : gap_offset) (index : Z) : Z :=
  match go_store g with
  | [] => 0
  | _ =>
    match dget (go_store g) index with
    | Some v => v
    | None =>
      match go_min g with
      | None => 0
      | Some mn =>
        if index <? mn then 0
        else if go_max g <? index then go_total g
        else
          let o := map fst (go_store g) in
          let i := bisect_left o index in
          let pos := nth_py o i in
          if go_invert g && negb ((pos =? index) || (pos =? 0)) then
            let pos := nth_py o (i - 1) in
            if fixed && ((i - 1) mod 2 =? 0)
            then dget0 (go_store g) pos + index - pos
            else dget0 (go_store g) pos
          else dget0 (go_store g) pos
      end
    end
  end.

(** ---------------------------------------------------------------- the dict functions *)

(** [_merged_gaps]: max per place *)
Definition merged_gaps (a b : gdict) : gdict :=
  match a, b with
  | [], _ => b
  | _, [] => a
  | _, _ =>
      fold_left (fun acc kv => dset acc (fst kv) (Z.max (dget0 a (fst kv)) (dget0 b (fst kv)))) (a ++ b) []
  end.

(** [_gap_difference]: (missing, overlapping) *)
Definition gap_difference (seq_gaps union_gaps : gdict) : gdict * gdict :=
  fold_left (fun (acc : gdict * gdict) (kv : Z * Z) =>
               let '(missing, over) := acc in
               let '(p, L) := kv in
               match dget seq_gaps p with
               | None => (dset missing p L, over)
               | Some l0 => if l0 =? L then (missing, over) else (missing, dset over p (L - l0))
               end) union_gaps ([], []).

(** [_combined_refseq_gaps] (with [_subset_gaps_to_align_coords] inlined) *)
Definition combined_refseq_gaps (seq_gaps union_gaps : gdict) : gdict :=
  let s2a := mk_gap_offset seq_gaps false in
  let '(diff, subset) := gap_difference seq_gaps union_gaps in
  let r := fold_left (fun acc kv => let p := fst kv in
                                    dset acc (go_get false s2a p + p + dget0 seq_gaps p) (snd kv)) subset [] in
  fold_left (fun acc kv => let p := fst kv in dset acc (p + go_get false s2a p) (snd kv)) diff r.

(** [_gaps_for_injection]; [None] = ValueError *)
Definition gaps_for_injection (fixed : bool) (other_gaps refseq_gaps : gdict) (seqlen : Z) : option gdict :=
  let a2s := mk_gap_offset other_gaps true in
  fold_left (fun (acc : option gdict) (kv : Z * Z) =>
               match acc with
               | None => None
               | Some allg =>
                   let '(gp, gl) := kv in
                   let gp := Z.min seqlen (gp - go_get fixed a2s gp) in
                   if gp <? 0 then None
                   else Some (dset allg gp (match dget allg gp with Some l0 => gl + l0 | None => gl end))
               end) refseq_gaps (Some other_gaps).

(** the union of the reference's gaps over all pairwise alignments ([_gap_union]) *)
Definition ref_union (pw : list (list Z * list Z)) : gdict :=
  fold_left (fun acc ro => merged_gaps acc (gaps_of_row (fst ro))) pw [].

(** one turn of the loop of [pairwise_to_multiple]; [None] = ValueError *)
Definition merge_row (fixed : bool) (union : gdict) (ro : list Z * list Z) : option (list Z) :=
  let '(r, o) := ro in
  let diff := combined_refseq_gaps (gaps_of_row r) union in
  let os := degap_row o in
  match gaps_for_injection fixed (gaps_of_row o) diff (zlen os) with
  | None => None
  | Some [] => Some o
  | Some inj => Some (expand os inj)
  end.

Definition is_some {A} (o : option A) : bool := match o with Some _ => true | None => false end.
Definition unwrap (o : option (list Z)) : list Z := match o with Some x => x | None => [] end.

(** [pairwise_to_multiple]: rows [ref; other_1; ...]; [None] = ValueError *)
Definition star_merge (fixed : bool) (ref : list Z) (pw : list (list Z * list Z)) : option (list (list Z)) :=
  let union := ref_union pw in
  let rows := map (merge_row fixed union) pw in
  if forallb is_some rows then Some (expand ref union :: map unwrap rows) else None.
