(** C08 — the four places where the pinned [IndelMap] code violates the
    property (Properties/C08.v, theorems [*_refuted]) and the minimal
    corrections proposed in notes/proposed_fixes/C08-*.diff, transcribed the
    same way as Model/IndelMap.v.  The correspondence check probes the
    implementation on the four witness inputs and runs the model variant that
    matches the code it finds (Model/IndelMapRun.v, [variant]); which theorems
    speak about the live code follows from that.  No proofs in this file. *)
From CG3 Require Import Lib.PyZ Lib.Val Model.IndelMap.

(** ** C08-1  [__getitem__(slice)]: after the negative-index conversion and
    the IndexError test, [stop = min(stop, len(self))]; the rest of the method
    is unchanged, i.e. it continues as the pinned code does from non-negative
    bounds *)
Definition getitem_slice_v2 (m : imap) (item_start item_stop : option Z) : res imap :=
  let start := match item_start with Some s => s | None => 0 end in
  let stop := match item_stop with Some s => s | None => len m end in
  let start := if start >=? 0 then start else len m + start in
  let stop := if stop >=? 0 then stop else len m + stop in
  if Z.min start stop <? 0 then Err E_Index
  else getitem_slice m (Some start) (Some (Z.min stop (len m))).

Definition getitem_int_v2 (m : imap) (item : Z) : res imap :=
  getitem_slice_v2 m (Some item) (Some (item + 1)).

(** ** C08-2  [__add__]: when [self] ends with a gap and [other] starts with
    one the two entries describe one gap run: the duplicated position and the
    cumulated length in front of it are dropped
    ([numpy.delete(gap_pos, n)], [del cum_gap_lengths[n - 1]]) *)
Fixpoint del_at {A} (l : list A) (i : Z) : list A :=
  match l with
  | [] => []
  | x :: t => if i =? 0 then t else x :: del_at t (i - 1)
  end.

Definition add_v2 (m other : imap) : res imap :=
  let gp := gap_pos m ++ map (fun p => parent_length m + p) (gap_pos other) in
  let cum_length := if num_gaps m =? 0 then 0 else zlast (cum_gap_lengths m) in
  let cum := cum_gap_lengths m ++ map (fun c => cum_length + c) (cum_gap_lengths other) in
  let n := num_gaps m in
  let '(gp, cum) :=
    if negb (n =? 0) && negb (num_gaps other =? 0) && (pyget gp (n - 1) =? pyget gp n)
    then (del_at gp n, del_at cum (n - 1))
    else (gp, cum) in
  post_init gp cum (parent_length m + parent_length other).

(** ** C08-3  [get_coordinates]: the last segment exists when the last gap
    position lies before the end of the sequence
    ([if self.gap_pos[-1] < self.parent_length]) *)
Definition get_coordinates_v2 (m : imap) : list (Z * Z) :=
  let gp := gap_pos m in
  let n := num_gaps m in
  if (n =? 0) || ((n =? 1) && (znth 0 gp 0 =? 0)) then [(0, parent_length m)]
  else if n =? 1 then [(0, znth 0 gp 0); (znth 0 gp 0, parent_length m)]
  else
    let starts := zslice gp 0 (n - 1) in
    let ends := zslice gp 1 n in
    let '(starts, ends) :=
      if negb (znth 0 gp 0 =? 0) then (0 :: starts, zslice starts 0 1 ++ ends) else (starts, ends) in
    let '(starts, ends) :=
      if zlast gp <? parent_length m
      then (starts ++ [zlast ends], ends ++ [parent_length m]) else (starts, ends) in
    combine starts ends.

(** ** C08-5  [nongap]: a map without gaps has the single segment
    [Span(0, parent_length)] *)
Definition nongap_v2 (m : imap) : list (Z * Z) :=
  if num_gaps m =? 0 then [(0, parent_length m)] else nongap m.

(** (C08-4 is the dtype of the arrays built by [parse_out_gaps]; the model's
    unbounded integer lists have no such distinction.) *)
