(** C15 — executable model of [evolve/fast_distance.py] (+ the numba kernel
    [evolve/pairwise_distance_numba.py]).

    * index arrays: canonical characters map to 0..dim-1, everything else to a
      negative number ([get_moltype_index_array], [seq_to_indices]);
    * [fill_diversity_matrix]: the loop of the numba kernel;
    * [_hamming], [_jc69_from_matrix], [_tn93_from_matrix], [_paralinear],
      [_logdet] (nucleotide, dim 4): counts are exact integers, everything up
      to the transcendental step is an exact rational, and the distance itself
      is returned as an expression tree [rexpr] over rational leaves with
      uninterpreted [ln] / [sqrt] nodes (the harness evaluates the tree with
      math.log / math.sqrt; the theorems are equalities of trees, hence hold
      for every interpretation of ln and sqrt);
    * [_PairwiseDistance.run] with its duplicate-sequence shortcut and
      [_expand].
    The variance component of the statistics is not modelled.
    No proofs in this file. *)
From CG3 Require Import Lib.PyZ.
From Coq Require Import QArith.
Open Scope Z_scope.

(** ------------------------------------------------------------------ index arrays *)

(** position of character [c] in the canonical state list, else [invalid] *)
Fixpoint index_of (states : list Z) (c : Z) (k : Z) (invalid : Z) : Z :=
  match states with
  | [] => invalid
  | s :: r => if s =? c then k else index_of r c (k + 1) invalid
  end.

Definition seq_to_indices (states : list Z) (invalid : Z) (s : list Z) : list Z :=
  map (fun c => index_of states c 0 invalid) s.

(** ------------------------------------------------------------------ diversity matrix *)

Definition zmat := Z -> Z -> Z.
Definition zero_mat : zmat := fun _ _ => 0.
(** matrix[a, b] += 1 *)
Definition incr (m : zmat) (a b : Z) : zmat :=
  fun x y => if (x =? a) && (y =? b) then m x y + 1 else m x y.

(** for i in range(len(seq1)): if seq1[i] < 0 or seq2[i] < 0: continue; matrix[seq1[i], seq2[i]] += 1 *)
Fixpoint fill_diversity (m : zmat) (s1 s2 : list Z) : zmat :=
  match s1, s2 with
  | a :: r1, b :: r2 =>
      if (a <? 0) || (b <? 0) then fill_diversity m r1 r2
      else fill_diversity (incr m a b) r1 r2
  | _, _ => m
  end.

Definition diversity (s1 s2 : list Z) : zmat := fill_diversity zero_mat s1 s2.

Definition zsum (l : list Z) : Z := fold_right Z.add 0 l.
Definition states (dim : Z) : list Z := zrange 0 dim.

Definition row_sum (dim : Z) (m : zmat) (a : Z) : Z := zsum (map (fun b => m a b) (states dim)).
Definition col_sum (dim : Z) (m : zmat) (b : Z) : Z := zsum (map (fun a => m a b) (states dim)).
(** matrix.sum() *)
Definition msum (dim : Z) (m : zmat) : Z := zsum (map (row_sum dim m) (states dim)).
(** diag(matrix).sum() *)
Definition mdiag (dim : Z) (m : zmat) : Z := zsum (map (fun a => m a a) (states dim)).
(** matrix.take(coords).sum() for a list of (i, j) coordinates *)
Definition take_sum (m : zmat) (coords : list (Z * Z)) : Z :=
  zsum (map (fun ij => m (fst ij) (snd ij)) coords).
Definition mtranspose (m : zmat) : zmat := fun a b => m b a.

(** (matrix[off_diag] > 0).any() *)
Definition any_offdiag (dim : Z) (m : zmat) : bool :=
  existsb (fun a => existsb (fun b => negb (a =? b) && (0 <? m a b)) (states dim)) (states dim).

(** ------------------------------------------------------------------ results *)

Inductive rexpr : Type :=
| RQ (q : Q)
| RLn (e : rexpr)
| RSqrt (e : rexpr)
| RNeg (e : rexpr)
| RAdd (a b : rexpr)
| RMul (a b : rexpr)
| RDiv (a b : rexpr).

Definition rq (q : Q) : rexpr := RQ (Qred q).

Inductive dist_result : Type :=
| DInvalid                       (* the function returned (None, None, None, None) *)
| DNan                           (* a float nan produced by 0/0 *)
| DVal (total : Z) (p : Q) (dist : rexpr).

Definition qz (z : Z) : Q := inject_Z z.

(** _hamming *)
Definition hamming (dim : Z) (m : zmat) : dist_result :=
  let total := msum dim m in
  let dist := total - mdiag dim m in
  if total =? 0 then DInvalid
  else DVal total (Qred (qz dist / qz total)) (rq (qz dist)).

(** ProportionIdenticalPair reports fraction_variable of _hamming *)
Definition pdist (dim : Z) (m : zmat) : dist_result :=
  match hamming dim m with
  | DVal total p _ => DVal total p (RQ p)
  | r => r
  end.

(** _jc69_from_matrix *)
Definition jc69 (dim : Z) (m : zmat) : dist_result :=
  let total := msum dim m in
  let diffs := total - mdiag dim m in
  if total =? 0 then DInvalid
  else
    let p := (qz diffs / qz total)%Q in
    if Qle_bool (3 # 4) p then DInvalid
    else
      let factor := (1 - (4 # 3) * p)%Q in
      DVal total (Qred p) (RDiv (RMul (rq (-3 # 1)) (RLn (rq factor))) (rq 4)).

(** get_matrix_diff_coords *)
Definition diff_coords (indices : list Z) : list (Z * Z) :=
  flat_map (fun i => flat_map (fun j => if i =? j then [] else [(i, j)]) indices) indices.

Definition coord_eqb (a b : Z * Z) : bool := (fst a =? fst b) && (snd a =? snd b).
(** list.remove(x): first occurrence *)
Fixpoint remove_first (x : Z * Z) (l : list (Z * Z)) : list (Z * Z) :=
  match l with
  | [] => []
  | y :: r => if coord_eqb x y then r else y :: remove_first x r
  end.

(** TN93Pair.__init__: tv_coords = all off-diagonal coords minus purine and pyrimidine transitions *)
Definition tv_coords (dim : Z) (pur pyr : list Z) : list (Z * Z) :=
  fold_left (fun acc c => remove_first c acc) (diff_coords pur ++ diff_coords pyr) (diff_coords (states dim)).

Definition qprod (l : list Q) : Q := fold_right Qmult 1%Q l.
Definition qsumq (l : list Q) : Q := fold_right Qplus 0%Q l.

Definition is_zero (q : Q) : bool := Qeq_bool q 0.
Definition ole0 (t : option Q) : bool := match t with Some q => Qle_bool q 0 | None => false end.

(** _tn93_from_matrix on the integer statistics it reads off the matrix:
    total, the per-state (column sum + row sum), and the counts of purine
    transitions, pyrimidine transitions, transversions and all differences.
    A term that numpy evaluates to nan (0/0) is None. *)
Definition tn93_core (pur pyr : list Z) (total : Z) (fz : list Z) (n_pur n_pyr n_tv n_all : Z) : dist_result :=
  if total =? 0 then DInvalid
  else
    let qt := qz total in
    let freq := fun a => (qz (znth 0%Z fz a) / (2 * qt))%Q in
    let p := (qz n_all / qt)%Q in
    let freq_purs := qsumq (map freq pur) in
    let prod_purs := qprod (map freq pur) in
    let freq_pyrs := qsumq (map freq pyr) in
    let prod_pyrs := qprod (map freq pyr) in
    let pur_ts := (qz n_pur / qt)%Q in
    let pyr_ts := (qz n_pyr / qt)%Q in
    let tv := (qz n_tv / qt)%Q in
    let coeff1 := (2 * prod_purs / freq_purs)%Q in
    let coeff2 := (2 * prod_pyrs / freq_pyrs)%Q in
    let coeff3 := (2 * (freq_purs * freq_pyrs - prod_purs * freq_pyrs / freq_purs
                        - prod_pyrs * freq_purs / freq_pyrs))%Q in
    let term1 := if is_zero prod_purs then None
                 else Some (1 - pur_ts / coeff1 - tv / (2 * freq_purs))%Q in
    let term2 := if is_zero prod_pyrs then None
                 else Some (1 - pyr_ts / coeff2 - tv / (2 * freq_pyrs))%Q in
    let term3 := if is_zero (freq_purs * freq_pyrs) then None
                 else Some (1 - tv / (2 * freq_purs * freq_pyrs))%Q in
    if ole0 term1 || ole0 term2 || ole0 term3 then DInvalid
    else
      match term1, term2, term3 with
      | Some t1, Some t2, Some t3 =>
          DVal total (Qred p)
            (RAdd (RAdd (RMul (RNeg (rq coeff1)) (RLn (rq t1)))
                        (RNeg (RMul (rq coeff2) (RLn (rq t2)))))
                  (RNeg (RMul (rq coeff3) (RLn (rq t3)))))
      | _, _, _ => DNan
      end.

Definition tn93 (dim : Z) (pur pyr : list Z) (m : zmat) : dist_result :=
  let pur_coords := diff_coords pur in
  let pyr_coords := diff_coords pyr in
  let tvc := tv_coords dim pur pyr in
  tn93_core pur pyr (msum dim m)
    (map (fun a => col_sum dim m a + row_sum dim m a) (states dim))   (* matrix.sum(axis=0) + matrix.sum(axis=1) *)
    (take_sum m pur_coords) (take_sum m pyr_coords) (take_sum m tvc)
    (take_sum m (pur_coords ++ pyr_coords ++ tvc)).

(** ------------------------------------------------------------------ paralinear / logdet *)

(** determinant by expansion along the first row (numpy.linalg.det is not modelled;
    the exact value is what it approximates) *)
Fixpoint drop_nth {A} (k : nat) (l : list A) : list A :=
  match l, k with
  | [], _ => []
  | _ :: r, O => r
  | x :: r, S k' => x :: drop_nth k' r
  end.

Fixpoint det (n : nat) (m : list (list Q)) : Q :=
  match n with
  | O => 1%Q
  | S n' =>
      match m with
      | [] => 1%Q
      | row :: rest =>
          (fix go (k : nat) (sgn : Q) (cells : list Q) : Q :=
             match cells with
             | [] => 0%Q
             | x :: cs => (sgn * x * det n' (map (drop_nth k) rest) + go (S k) (- sgn) cs)%Q
             end) O 1%Q row
      end
  end.

(** _logdetcommon: frequency = matrix with every zero diagonal count replaced by 0.5, divided by its sum *)
Definition fraw (m : zmat) (a b : Z) : Q :=
  if (a =? b) && (m a b =? 0) then (1 # 2)%Q else qz (m a b).
Definition fsum (dim : Z) (m : zmat) : Q :=
  qsumq (map (fun a => qsumq (map (fraw m a) (states dim))) (states dim)).
Definition frequency (dim : Z) (m : zmat) : Z -> Z -> Q :=
  fun a b => (fraw m a b / fsum dim m)%Q.

Definition qlists (dim : Z) (f : Z -> Z -> Q) : list (list Q) :=
  map (fun a => map (f a) (states dim)) (states dim).

Definition fdet (dim : Z) (m : zmat) : Q := det (Z.to_nat dim) (qlists dim (frequency dim m)).
(** freqs[0] = frequency.sum(axis=0) (column sums), freqs[1] = row sums *)
Definition fcol (dim : Z) (m : zmat) (b : Z) : Q := qsumq (map (fun a => frequency dim m a b) (states dim)).
Definition frow (dim : Z) (m : zmat) (a : Z) : Q := qsumq (map (fun b => frequency dim m a b) (states dim)).
(** (freqs[0] * freqs[1]).prod() *)
Definition fprod (dim : Z) (m : zmat) : Q := qprod (map (fun k => (fcol dim m k * frow dim m k)%Q) (states dim)).

Definition logdet_common_ok (dim : Z) (m : zmat) : bool :=
  let total := msum dim m in
  let diffs := total - mdiag dim m in
  negb (total =? 0) && negb (diffs =? 0) && negb (Qle_bool (fdet dim m) 0).

Definition ld_p (dim : Z) (m : zmat) : Q := Qred (qz (msum dim m - mdiag dim m) / qz (msum dim m)).

(** _paralinear *)
Definition paralinear (dim : Z) (m : zmat) : dist_result :=
  if logdet_common_ok dim m then
    DVal (msum dim m) (ld_p dim m)
      (RDiv (RNeg (RLn (RDiv (rq (fdet dim m)) (RSqrt (rq (fprod dim m)))))) (rq (qz dim)))
  else DInvalid.

(** _logdet *)
Definition logdet (use_tk : bool) (dim : Z) (m : zmat) : dist_result :=
  if logdet_common_ok dim m then
    if use_tk then
      let s := qsumq (map (fun k => let x := (fcol dim m k + frow dim m k)%Q in (x * x)%Q) (states dim)) in
      let coeff := ((s / 4 - 1) / (qz dim - 1))%Q in
      DVal (msum dim m) (ld_p dim m)
        (RMul (rq coeff) (RLn (RDiv (rq (fdet dim m)) (RSqrt (rq (fprod dim m))))))
    else
      DVal (msum dim m) (ld_p dim m)
        (RAdd (RDiv (RNeg (RLn (rq (fdet dim m)))) (rq (qz dim))) (RNeg (RLn (rq (qz dim)))))
  else DInvalid.

(** ------------------------------------------------------------------ _PairwiseDistance.run *)

(** a pairwise statistic after run + _expand *)
Inductive cell : Type :=
| CMissing                 (* key absent / value None *)
| CZero                    (* the literal 0 written by _expand *)
| CRes (r : dist_result).

Definition pairkey := (Z * Z)%type.
Definition key_eqb (a b : pairkey) : bool := (fst a =? fst b) && (snd a =? snd b).

Fixpoint aget {V} (l : list (pairkey * V)) (k : pairkey) : option V :=
  match l with
  | [] => None
  | (k', v) :: r => if key_eqb k k' then Some v else aget r k
  end.
(** dict assignment (position of an existing key is kept; irrelevant for lookups) *)
Fixpoint aset {V} (l : list (pairkey * V)) (k : pairkey) (v : V) : list (pairkey * V) :=
  match l with
  | [] => [(k, v)]
  | (k', v') :: r => if key_eqb k k' then (k, v) :: r else (k', v') :: aset r k v
  end.

Definition zmem (x : Z) (l : list Z) : bool := existsb (Z.eqb x) l.

Record run_state := RS {
  rs_dupes : list Z;                       (* dupes (a set) *)
  rs_duped : list (Z * list Z);            (* duped: first-seen index -> its duplicates, insertion order *)
  rs_dists : list (pairkey * dist_result) }.

Fixpoint duped_add (l : list (Z * list Z)) (i j : Z) : list (Z * list Z) :=
  match l with
  | [] => [(i, [j])]
  | (k, v) :: r => if k =? i then (k, v ++ [j]) :: r else (k, v) :: duped_add r i j
  end.

Fixpoint list_eqb (a b : list Z) : bool :=
  match a, b with
  | [], [] => true
  | x :: a', y :: b' => (x =? y) && list_eqb a' b'
  | _, _ => false
  end.

(** body of the inner loop for the pair (i, j), i < j.
    [strict = false]: the pinned source — "no off-diagonal count" makes j a duplicate of i.
    [strict = true]: the source after the fix (notes/proposed_fixes/C15-1.diff, committed to /repo as fa2362385) — j is a
    duplicate only if (s1 == s2).all(); a no-difference pair with total > 0 is stored as
    Stats(total, 0.0, 0.0, 0.0); otherwise the calculator's function decides.
    The driver selects the variant from the current source text. *)
Definition run_pair (strict : bool) (func : zmat -> dist_result) (dim : Z) (seqs : list (list Z)) (st : run_state) (i j : Z)
  : run_state :=
  if zmem j (rs_dupes st) then st
  else
    let s1 := znth [] seqs i in
    let s2 := znth [] seqs j in
    let m := diversity s1 s2 in
    let store := fun r => RS (rs_dupes st) (rs_duped st) (aset (aset (rs_dists st) (i, j) r) (j, i) r) in
    if negb (any_offdiag dim m) then
      if negb strict || list_eqb s1 s2 then
        RS (j :: rs_dupes st) (duped_add (rs_duped st) i j) (rs_dists st)
      else if 0 <? msum dim m then store (DVal (msum dim m) 0%Q (RQ 0%Q))
      else store (func m)
    else store (func m).

Definition run_row (strict : bool) (func : zmat -> dist_result) (dim : Z) (seqs : list (list Z)) (n : Z) (st : run_state) (i : Z)
  : run_state :=
  if zmem i (rs_dupes st) then st
  else fold_left (fun s j => run_pair strict func dim seqs s i j) (zrange (i + 1) n) st.

(** run(): the double loop, then the removal of every key that touches a duplicate *)
Definition run (strict : bool) (func : zmat -> dist_result) (dim : Z) (seqs : list (list Z)) : run_state :=
  let n := zlen seqs in
  let st := fold_left (run_row strict func dim seqs n) (zrange 0 (n - 1)) (RS [] [] []) in
  let clean := filter (fun kv => negb (zmem (fst (fst kv)) (rs_dupes st) || zmem (snd (fst kv)) (rs_dupes st)))
                      (rs_dists st) in
  RS (rs_dupes st) (rs_duped st) clean.

(** _expand: redundants[r] = k for k in duplicated for r in duplicated[k] *)
Definition redundants (duped : list (Z * list Z)) : list (Z * Z) :=
  flat_map (fun kv => map (fun r => (r, fst kv)) (snd kv)) duped.

Definition expand_one (n : Z) (pw : list (pairkey * cell)) (aa : Z * Z) : list (pairkey * cell) :=
  let '(add, alias) := aa in
  fold_left (fun pw name =>
               if name =? add then pw
               else
                 let v := if name =? alias then CZero
                          else match aget pw (alias, name) with Some c => c | None => CMissing end in
                 aset (aset pw (add, name) v) (name, add) v)
            (zrange 0 n) pw.

Definition expand (n : Z) (st : run_state) : list (pairkey * cell) :=
  let pw := map (fun kv => (fst kv, CRes (snd kv))) (rs_dists st) in
  fold_left (expand_one n) (redundants (rs_duped st)) pw.

(** get_pairwise_distances(): the cell for every ordered pair i <> j *)
Definition pairwise (strict : bool) (func : zmat -> dist_result) (dim : Z) (seqs : list (list Z)) : list (pairkey * cell) :=
  let n := zlen seqs in
  let pw := expand n (run strict func dim seqs) in
  flat_map (fun i => flat_map (fun j => if i =? j then []
                                        else [((i, j), match aget pw (i, j) with Some c => c | None => CMissing end)])
                              (zrange 0 n)) (zrange 0 n).
