(** C15 — executable model of the distance-based tree builders.

    [phylo/nj.py]   PartialTree.join (branch lengths, reduced matrix, index
                    shuffling of matrix / node list), get_dist_saved_join_score_matrix,
                    asScoreTreeTuple, the keep=1 driver of [nj], the 2-name case of [gnj];
    [cluster/UPGMA.py] find_smallest_index, condense_matrix, condense_node_order,
                    UPGMA_cluster, inputs_from_dict_array.

    Numbers are exact rationals [Q] (the implementation uses float64; the
    correspondence converts its floats with float.as_integer_ratio and compares
    with a tolerance).  A numpy 2-D array is a function [nat -> nat -> Q]
    together with its size; the slice assignments of the source become
    [upd_row] / [upd_col] / [upd_cell], in the order of the source.
    No proofs in this file. *)
From Coq Require Import QArith List Bool Arith ZArith.
Import ListNotations.
Open Scope Q_scope.

Definition qmat := nat -> nat -> Q.
Definition qvec := nat -> Q.

Definition mat_of_lists (l : list (list Q)) : qmat :=
  fun i j => nth j (nth i l []) 0.
Definition lists_of_mat (L : nat) (d : qmat) : list (list Q) :=
  map (fun i => map (fun j => d i j) (seq 0 L)) (seq 0 L).

Definition qsum (l : list Q) : Q := fold_right Qplus 0 l.

(** numpy.sum(d, axis=0)[i] = sum_k d[k, i] *)
Definition colsum (L : nat) (d : qmat) (i : nat) : Q :=
  qsum (map (fun k => d k i) (seq 0 L)).
(** numpy.sum(d) *)
Definition matsum (L : nat) (d : qmat) : Q :=
  qsum (map (fun i => colsum L d i) (seq 0 L)).

(** d[:, i] = v ;  d[i, :] = v ;  d[i, j] = x *)
Definition upd_col (d : qmat) (i : nat) (v : qvec) : qmat :=
  fun k l => if Nat.eqb l i then v k else d k l.
Definition upd_row (d : qmat) (i : nat) (v : qvec) : qmat :=
  fun k l => if Nat.eqb k i then v l else d k l.
Definition upd_cell (d : qmat) (i j : nat) (x : Q) : qmat :=
  fun k l => if Nat.eqb k i && Nat.eqb l j then x else d k l.

(** python max(0.0, x) *)
Definition max0 (x : Q) : Q := if Qle_bool x 0 then 0 else x.

Definition ofnat (n : nat) : Q := inject_Z (Z.of_nat n).

(** ------------------------------------------------------------------ trees *)

(** LightweightTreeTip / LightweightTreeNode: a node is a set of
    (length, child) pairs; tips carry the index of their name *)
Inductive ltree : Type :=
| LTip (name : Z)
| LNode (children : list (Q * ltree)).

Definition list_set {A} (l : list A) (i : nat) (x : A) : list A :=
  firstn i l ++ x :: skipn (S i) l.

(** ------------------------------------------------------------------ NJ *)

(** the two new branch lengths, before clamping *)
Definition join_left (L : nat) (d : qmat) (i j : nat) : Q :=
  let r := colsum L d in
  let ij_dist_diff := (r i - r j) / (ofnat L - 2) in
  (1 # 2) * (d i j + ij_dist_diff).
Definition join_right (L : nat) (d : qmat) (i j : nat) : Q :=
  let r := colsum L d in
  let ij_dist_diff := (r i - r j) / (ofnat L - 2) in
  (1 # 2) * (d i j - ij_dist_diff).

(** the reduced matrix (before truncation to L-1; entries with an index
    L-1 are no longer part of the array afterwards) *)
Definition join_matrix (L : nat) (d : qmat) (i j : nat) : qmat :=
  let new_dists : qvec := fun k => (1 # 2) * (d i k + d j k - d i j) in
  let d1 := upd_col d i new_dists in          (* d[:, i] = new_dists *)
  let d2 := upd_row d1 i new_dists in         (* d[i, :] = new_dists *)
  let d3 := upd_cell d2 i i 0 in              (* d[i, i] = 0.0 *)
  let d4 := upd_row d3 j (fun l => d3 (L - 1)%nat l) in   (* d[j, :] = d[L-1, :] *)
  let d5 := upd_col d4 j (fun k => d4 k (L - 1)%nat) in   (* d[:, j] = d[:, L-1] *)
  d5.

Definition join_nodes {A} (L : nat) (nodes : list A) (i j : nat) (new_node : A) (dflt : A) : list A :=
  let n1 := list_set nodes i new_node in                  (* nodes[i] = new_node *)
  let n2 := list_set n1 j (nth (L - 1) n1 dflt) in        (* nodes[j] = nodes[L-1] *)
  removelast n2.                                          (* nodes.pop() *)

Record partial_tree := PT {
  pt_L : nat;
  pt_d : qmat;
  pt_nodes : list ltree;
  pt_score : Q }.

Definition dummy_tree : ltree := LTip (-1).

(** PartialTree.join; None models the failing assert d[j, j] == 0.0 *)
Definition join (t : partial_tree) (i j : nat) : option partial_tree :=
  let L := pt_L t in
  let d := pt_d t in
  let left_length := max0 (join_left L d i j) in
  let right_length := max0 (join_right L d i j) in
  let score := pt_score t + d i j in
  let new_node := LNode [(left_length, nth i (pt_nodes t) dummy_tree);
                         (right_length, nth j (pt_nodes t) dummy_tree)] in
  let d5 := join_matrix L d i j in
  if Qeq_bool (d5 j j) 0 then
    Some (PT (L - 1) d5 (join_nodes L (pt_nodes t) i j new_node dummy_tree) score)
  else None.

(** get_dist_saved_join_score_matrix *)
Definition score_matrix (t : partial_tree) : qmat :=
  let L := pt_L t in
  let d := pt_d t in
  let r := colsum L d in
  let sumr := qsum (map r (seq 0 L)) in
  fun i j =>
    let Qij := d i j - (r i + r j) / (ofnat L - 2) in
    Qij / 2 + sumr / (ofnat L - 2) / 2 + pt_score t.

(** all (i, j), i <> j, row-major (the order of scores.flat) *)
Definition offdiag_pairs (L : nat) : list (nat * nat) :=
  flat_map (fun i => flat_map (fun j => if Nat.eqb i j then [] else [(i, j)]) (seq 0 L)) (seq 0 L).

(** first minimiser in the given order *)
Fixpoint argmin_pairs (f : nat -> nat -> Q) (l : list (nat * nat)) (best : nat * nat) : nat * nat :=
  match l with
  | [] => best
  | p :: r =>
      if Qlt_le_dec (f (fst p) (snd p)) (f (fst best) (snd best))
      then argmin_pairs f r p else argmin_pairs f r best
  end.

(** the candidate keep=1 takes: a minimal-score off-diagonal pair.  (numpy's
    argsort order among exactly tied scores is not modelled; the model takes
    the first in row-major order and the correspondence checks that the pair
    the implementation took has the same exact score.) *)
Definition best_pair (t : partial_tree) : nat * nat :=
  argmin_pairs (score_matrix t) (offdiag_pairs (pt_L t)) (0, 1)%nat.

(** asScoreTreeTuple: the three final lengths *)
Definition final_lengths (d : qmat) : list Q :=
  map (fun k => colsum 3 d k - matsum 3 d / 4) (seq 0 3).

(** LightweightTreeNode.convert / LightweightTreeTip.convert clamp every
    length once more: node.length = max(0.0, length) *)
Fixpoint convert (t : ltree) : ltree :=
  match t with
  | LTip n => LTip n
  | LNode cs => LNode (map (fun lc => (max0 (fst lc), convert (snd lc))) cs)
  end.

Definition final_tree (t : partial_tree) : ltree :=
  convert (LNode (combine (final_lengths (pt_d t)) (pt_nodes t))).

(** the loop of gnj for keep=1, dkeep=0: for L in range(len(names), 3, -1) *)
Fixpoint nj_loop (fuel : nat) (t : partial_tree) : option partial_tree :=
  match fuel with
  | O => None
  | S f =>
      if Nat.leb (pt_L t) 3 then Some t
      else
        let '(i, j) := best_pair t in
        match join t i j with
        | Some t' => nj_loop f t'
        | None => None
        end
  end.

Definition star_tree (n : nat) (d : qmat) : partial_tree :=
  PT n d (map (fun k => LTip (Z.of_nat k)) (seq 0 n)) 0.

Definition qmax_list (l : list Q) : Q :=
  fold_right (fun x m => if Qle_bool m x then x else m) 0 l.

(** nj(dists) for n >= 2 names; None = a failing assert / out of fuel *)
Definition nj (n : nat) (d : qmat) : option ltree :=
  if Nat.eqb n 2 then
    let dist := qmax_list (concat (lists_of_mat 2 d)) / 2 in
    Some (convert (LNode [(dist, LTip 0); (dist, LTip 1)]))
  else
    match nj_loop (S n) (star_tree n d) with
    | Some t => Some (final_tree t)
    | None => None
    end.

(** ------------------------------------------------------------------ observations on trees *)

(** depth of every tip below the node *)
Fixpoint tip_depths (t : ltree) : list (Z * Q) :=
  match t with
  | LTip n => [(n, 0)]
  | LNode cs =>
      flat_map (fun lc => map (fun nd => (fst nd, snd nd + fst lc)) (tip_depths (snd lc))) cs
  end.

Definition cross (a b : list (Z * Q)) : list (Z * Z * Q) :=
  flat_map (fun x => map (fun y => (fst x, fst y, snd x + snd y)) b) a.

(** cross pairs between the tips of different children *)
Fixpoint cross_all (ds : list (list (Z * Q))) : list (Z * Z * Q) :=
  match ds with
  | [] => []
  | a :: r => flat_map (cross a) r ++ cross_all r
  end.

(** every unordered pair of tips with its path length *)
Fixpoint tip_dists (t : ltree) : list (Z * Z * Q) :=
  match t with
  | LTip _ => []
  | LNode cs =>
      flat_map (fun lc => tip_dists (snd lc)) cs
      ++ cross_all (map (fun lc => map (fun nd => (fst nd, snd nd + fst lc)) (tip_depths (snd lc))) cs)
  end.

(** the set of tips below every internal edge (for topology comparison) *)
Fixpoint clades (t : ltree) : list (list Z) :=
  match t with
  | LTip _ => []
  | LNode cs =>
      flat_map (fun lc => match snd lc with
                          | LTip _ => []
                          | LNode _ => map fst (tip_depths (snd lc)) :: clades (snd lc)
                          end) cs
  end.

(** ------------------------------------------------------------------ UPGMA *)

(** PhyloNode as used by UPGMA: name (tips only), .length, .TipLength, children *)
Inductive unode : Type :=
| UN (name : option Z) (length : option Q) (tiplength : option Q) (children : list unode).

Definition u_children (n : unode) := match n with UN _ _ _ c => c end.
Definition u_tiplength (n : unode) := match n with UN _ _ t _ => t end.

(** find_smallest_index: argmin of the ravelled matrix = first minimum in
    row-major order over ALL cells, diagonal included *)
Definition all_pairs (n : nat) : list (nat * nat) :=
  flat_map (fun i => map (fun j => (i, j)) (seq 0 n)) (seq 0 n).
Definition find_smallest_index (n : nat) (m : qmat) : nat * nat :=
  argmin_pairs m (all_pairs n) (0, 0)%nat.

(** condense_matrix *)
Definition condense_matrix (m : qmat) (ix : nat * nat) (large : Q) : qmat :=
  let '(first, second) := ix in
  let new_vector : qvec := fun k => (m first k + m second k) / 2 in   (* average(rows, 0) *)
  let m1 := upd_row m first new_vector in
  let m2 := upd_col m1 first new_vector in
  let m3 := upd_row m2 second (fun _ => large) in
  let m4 := upd_col m3 second (fun _ => large) in
  m4.

(** the per-node update inside condense_node_order *)
Definition set_lengths (n : unode) (d : Q) : unode :=
  match n with
  | UN nm _ _ cs =>
      match cs with
      | c0 :: _ =>
          (* n.length = d - n.children[0].TipLength *)
          UN nm (match u_tiplength c0 with Some t => Some (d - t) | None => None end) (Some d) cs
      | [] => UN nm (Some d) (Some d) cs
      end
  end.

Definition dummy_unode : unode := UN None None None [].

Definition condense_node_order (m : qmat) (ix : nat * nat) (order : list (option unode)) : list (option unode) :=
  let '(i1, i2) := ix in
  let node1 := match nth i1 order None with Some x => x | None => dummy_unode end in
  let node2 := match nth i2 order None with Some x => x | None => dummy_unode end in
  let d := m i1 i2 / 2 in
  let new_node := UN None None None [set_lengths node1 d; set_lengths node2 d] in
  list_set (list_set order i1 (Some new_node)) i2 None.

Definition set_diag (n : nat) (m : qmat) (x : Q) : qmat :=
  fun k l => if Nat.eqb k l && Nat.ltb k n then x else m k l.

(** one iteration of the loop of UPGMA_cluster; returns the index pair used *)
Definition upgma_step (n : nat) (large : Q) (st : qmat * list (option unode))
  : (qmat * list (option unode)) * (nat * nat) :=
  let '(m, order) := st in
  let ix := find_smallest_index n m in
  let '(m, ix) := if Nat.eqb (fst ix) (snd ix)
                  then let m' := set_diag n m large in (m', find_smallest_index n m')
                  else (m, ix) in
  let order' := condense_node_order m ix order in
  let m' := condense_matrix m ix large in
  ((m', order'), ix).

Fixpoint upgma_loop (k : nat) (n : nat) (large : Q) (st : qmat * list (option unode)) (last : nat)
  : (qmat * list (option unode)) * nat :=
  match k with
  | O => (st, last)
  | S k' =>
      let '(st', ix) := upgma_step n large st in
      upgma_loop k' n large st' (fst ix)
  end.

(** upgma(): inputs_from_dict_array adds BIG_NUM to the diagonal; n-1 merges *)
Definition upgma (n : nat) (large : Q) (d : qmat) : option unode :=
  let m0 : qmat := fun k l => if Nat.eqb k l then d k l + large else d k l in
  let order0 := map (fun k => Some (UN (Some (Z.of_nat k)) None None [])) (seq 0 n) in
  let '((_, order), last) := upgma_loop (n - 1) n large (m0, order0) 0%nat in
  nth last order None.

(** tip depths / pairwise distances of a UPGMA tree (a missing length counts 0,
    as for the root) *)
Definition olen (o : option Q) : Q := match o with Some x => x | None => 0 end.

Fixpoint u_tip_depths (t : unode) : list (Z * Q) :=
  match t with
  | UN nm _ _ cs =>
      match cs with
      | [] => [(match nm with Some z => z | None => (-1)%Z end, 0)]
      | _ => flat_map (fun c => map (fun nd => (fst nd, snd nd + olen (match c with UN _ l _ _ => l end)))
                                    (u_tip_depths c)) cs
      end
  end.

Fixpoint u_tip_dists (t : unode) : list (Z * Z * Q) :=
  match t with
  | UN _ _ _ cs =>
      flat_map u_tip_dists cs
      ++ cross_all (map (fun c => map (fun nd => (fst nd, snd nd + olen (match c with UN _ l _ _ => l end)))
                                      (u_tip_depths c)) cs)
  end.
