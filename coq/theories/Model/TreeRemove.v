(** C09 — executable model of [TreeNode.remove_deleted(is_deleted)]
    (cogent3/core/tree.py), the in-place way of pruning a tree to a subset of
    its tips (followed by [prune()], Model/Tree.v).

    The implementation visits a snapshot of the nodes in postorder; a node for
    which [is_deleted] holds is detached from its parent (its whole subtree
    goes with it), and then every ancestor that has become childless is
    detached as well, climbing until an ancestor still has children or the
    root is reached (the root itself always stays).  [is_deleted] is modelled
    as "the node's name is in [D]".  No proofs in this file. *)
From CG3 Require Import Lib.PyZ Lib.Val Lib.Rose Model.Tree.

(** what is left of the subtree [t] (below the root): [None] = detached *)
Fixpoint rd (D : list name) (t : tree) : option tree :=
  match t with
  | Node n l cs =>
      let cs' := flat_map (fun c => match rd D c with Some x => [x] | None => [] end) cs in
      if memb n D then None                 (* deleted: detached with everything below it *)
      else match cs, cs' with
           | _ :: _, [] => None             (* an internal node whose children have all gone is climbed away *)
           | _, _ => Some (Node n l cs')
           end
  end.

Definition rd_kids (D : list name) (cs : list tree) : list tree :=
  flat_map (fun c => match rd D c with Some x => [x] | None => [] end) cs.

(** the root is never detached (it may end up childless) *)
Definition remove_deleted (D : list name) (t : tree) : tree :=
  Node (tname t) (tlen t) (rd_kids D (kids t)).

(** no node below the root that has children carries a name of [D]
    (the usual call deletes tips only) *)
Fixpoint internal_free (D : list name) (t : tree) : bool :=
  match t with
  | Node _ _ cs =>
      forallb (fun c => (is_tip c || negb (memb (tname c) D)) && internal_free D c) cs
  end.
