(** C12 — executable runner used by the correspondence check: one [case] is one call (or a
    small fixed bundle of calls) of an entry point of the implementation; the answer is a
    [val] the harness compares with what the real code returned. *)
From CG3 Require Import Lib.PyZ Lib.Val Model.GeneticCode.
From CG3gen Require Import GCTables.

Definition code_aa (v : impl) (id : Z) : str :=
  let codes := match v with Old => old_codes | New => new_codes end in
  match find (fun e : Z * list Z * list Z => fst (fst e) =? id) codes with
  | Some e => snd (fst e)
  | None => []
  end.

Definition vres {A} (f : A -> val) (r : res A) : val :=
  match r with Ok a => f a | Err e => VE e end.
Definition vstrs (l : list str) : val := VL (map VS l).
Definition vframes (l : list (bool * Z * str)) : val :=
  VL (map (fun e => VL [VB (fst (fst e)); VZ (snd (fst e)); VS (snd e)]) l).

Definition bools3 : list (bool * bool * bool) :=
  flat_map (fun a => flat_map (fun b => map (fun c => (a, b, c)) [false; true]) [false; true]) [false; true].

Inductive case :=
| CGetItem (v : impl) (id : Z) (codon : str)                    (* gc[codon] *)
| CCodonTable (v : impl) (id : Z) (minus : bool)                (* the 64 canonical codons, one strand *)
| CTranslate (v : impl) (id : Z) (s : str) (start : Z) (minus : bool)
| CSixframes (v : impl) (id : Z) (m : moltype) (s : str)
| CAllFrames (v : impl) (id : Z) (s : str)                      (* translate for (plus, minus) x start 0,1,2 *)
| CPinnedFrames (id : Z) (s : str)                              (* same, pre-repair model [translate_pinned] *)
| CRc2 (v : impl) (m : moltype) (s : str)                       (* rc(rc(s)) *)
| CViewOps (v : impl) (m : moltype) (s : str) (ops : list vop)  (* str() after each of rc / complement / slice on a sequence object *)
| CAppFrames (id : Z) (s : str) (allow_rc : bool)               (* app.translate.translate_frames *)
| CBestFrame (id : Z) (s : str) (allow_rc : bool)               (* app.translate.best_frame *)
| CSelect (id : Z) (seqs : list str) (allow_rc : bool)          (* select_translatable: kept sequences, trim False / True *)
| CGetTrans (fixed fd : bool) (kind : Z) (id : Z) (seqs : list str)  (* all 8 (incomplete_ok, include_stop, trim_stop);
                                                                     fixed = with / without the repairs C12-2, C12-3;
                                                                     fd = with / without the repair C12-4 *)
| CTranslateV (fm fd : bool) (id : Z) (s : str) (start : Z) (minus : bool)  (* [translate_w]: byte width explicit *)
| CFramesV (fm fd : bool) (id : Z) (s : str)                    (* [translate_w] for (plus, minus) x start 0,1,2 *)
| CPinnedTranslate (id : Z) (s : str) (start : Z) (minus : bool)  (* pre-repair model [translate_pinned] *)
| CComplement (v : impl) (m : moltype) (s : str)
| CRc (v : impl) (m : moltype) (s : str)
| CResolve (v : impl) (m : moltype) (motif : str)
| CWhat (m : moltype) (motifs : list Z)
| CDegen (v : impl) (m : moltype) (symbols : list Z).

(** kinds of [CGetTrans]: 0 old Sequence, 1 new Sequence, 2 old SequenceCollection, 3 new
    SequenceCollection, 4 old Alignment, 7 old ArrayAlignment, 5 new Sequence.rc(), 6 old Sequence.rc() *)

(** translation through a genetic-code object: new = translate(s, start, rc);
    old = translate(s, start) resp. translate(DNA.rc(s), start) *)
Definition run_translate (v : impl) (id : Z) (s : str) (start : Z) (minus : bool) : val :=
  let aa := code_aa v id in
  match v with
  | New => VS (translate aa s start minus)
  | Old => vres VS (translate_old aa (if minus then rc_pure dna_comp_old s else s) start)
  end.

Definition get_trans (fx fd : bool) (kind : Z) (aa : str) (seqs : list str) (ok inc trim : bool) : res (list str) :=
  if (kind =? 0) || (kind =? 6) then
    match seqs with
    | [s] => let s := if kind =? 6 then rc_pure dna_comp_old s else s in
             bind (seq_get_translation_old fx aa s ok inc trim) (fun p => Ok [p])
    | _ => Err E_Unmodelled end
  else if (kind =? 1) || (kind =? 5) then
    match seqs with
    | [s] => let s := if kind =? 5 then rc_pure dna_comp_new s else s in
             bind (seq_get_translation_new fx fd aa s ok inc trim) (fun p => Ok [p])
    | _ => Err E_Unmodelled end
  else if kind =? 2 then coll_get_translation_old fx fx aa seqs ok inc trim
  else if kind =? 3 then coll_get_translation_new fx fd aa seqs ok inc trim
  else if (kind =? 4) || (kind =? 7) then aln_get_translation_old fx fx aa seqs ok inc trim
  else Err E_Unmodelled.

Definition run_case (c : case) : val :=
  match c with
  | CGetItem v id codon => vres VZ (getitem v (code_aa v id) codon)
  | CCodonTable v id minus =>
      VL (map (fun w => run_translate v id w 0 minus) (product3 canon_new))
  | CTranslate v id s start minus => run_translate v id s start minus
  | CSixframes New id _ s => vframes (sixframes (code_aa New id) s)
  | CSixframes Old id m s => vres vstrs (sixframes_old (code_aa Old id) m s)
  | CAllFrames v id s =>
      VL (flat_map (fun mn => map (fun st => run_translate v id s st mn) [0; 1; 2]) [false; true])
  | CPinnedFrames id s =>
      VL (flat_map (fun mn => map (fun st => VS (translate_pinned (code_aa New id) s st mn)) [0; 1; 2]) [false; true])
  | CRc2 v m s => vres VS (bind (rc v m s) (rc v m))
  | CViewOps v m s ops => vstrs (sview_trace (comp_table v m) (mk_sview s false) ops)
  | CAppFrames id s allow_rc => vres vstrs (translate_frames (code_aa Old id) DNA s allow_rc)
  | CBestFrame id s allow_rc => vres VZ (best_frame (code_aa Old id) s allow_rc)
  | CSelect id seqs allow_rc =>
      VL (map (fun trim : bool =>
                 VL (map (fun o => match o with Some w => VS w | None => VN end)
                         (map (fun s => select_translatable_one true (code_aa Old id) s allow_rc trim) seqs)))
              [false; true])
  | CPinnedTranslate id s start minus => VS (translate_pinned (code_aa New id) s start minus)
  | CTranslateV fm fd id s start minus => VS (translate_w fm fd (code_aa New id) s start minus)
  | CFramesV fm fd id s =>
      VL (flat_map (fun mn => map (fun st => VS (translate_w fm fd (code_aa New id) s st mn)) [0; 1; 2]) [false; true])
  | CGetTrans fx fd kind id seqs =>
      let aa := code_aa (if (kind =? 1) || (kind =? 3) || (kind =? 5) then New else Old) id in
      VL (map (fun o : bool * bool * bool =>
                 let '(ok, inc, trim) := o in vres vstrs (get_trans fx fd kind aa seqs ok inc trim)) bools3)
  | CComplement v m s => vres VS (complement v m s)
  | CRc v m s => vres VS (rc v m s)
  | CResolve v m motif => vres vstrs (resolve_ambiguity v m motif)
  | CWhat m motifs => VZ (what_ambiguity_old m motifs)
  | CDegen Old m symbols => vres VZ (degenerate_from_seq_old m symbols)
  | CDegen New m symbols => vres VZ (degenerate_from_seq_new m symbols)
  end.
