(** C13 — executable model of [cogent3.app.sqlite_data_store.DataStoreSqlite].

    Database state: the [results] table as a list of rows in rowid order
    (record_id is the primary key), the [logs] table as a list of
    (log_name, data) in log_id order.  Instance state: mode, the two member
    caches with their "empty list => SELECT again" rule, the log row of this
    session ([_log_id]).

    Not modelled: the lock (the harness unlocks before every close, so opening
    never meets a foreign lock), [limit], [record_type], in-memory stores.
    The md5 column holds the payload itself where the code stores its digest. *)
From CG3 Require Import Lib.PyZ Lib.Val Lib.Chars Model.DataStore.

Record row := mkRow {
  r_id : str;
  r_data : str;
  r_md5 : str;
  r_completed : bool;
  r_log : Z }.

Record sqlstore := mkQ {
  q_mode : mode;
  q_rows : list row;
  q_logs : list (option str * option str);   (* (log_name, data), log_id = 1 + position *)
  q_completed : list str;                    (* self._completed *)
  q_ncache : list str;                       (* self._not_completed *)
  q_logid : option Z }.                      (* self._log_id *)

Definition qwith_rows (s : sqlstore) (x : list row) : sqlstore :=
  mkQ (q_mode s) x (q_logs s) (q_completed s) (q_ncache s) (q_logid s).
Definition qwith_logs (s : sqlstore) (x : list (option str * option str)) : sqlstore :=
  mkQ (q_mode s) (q_rows s) x (q_completed s) (q_ncache s) (q_logid s).
Definition qwith_completed (s : sqlstore) (x : list str) : sqlstore :=
  mkQ (q_mode s) (q_rows s) (q_logs s) x (q_ncache s) (q_logid s).
Definition qwith_ncache (s : sqlstore) (x : list str) : sqlstore :=
  mkQ (q_mode s) (q_rows s) (q_logs s) (q_completed s) x (q_logid s).
Definition qwith_logid (s : sqlstore) (x : option Z) : sqlstore :=
  mkQ (q_mode s) (q_rows s) (q_logs s) (q_completed s) (q_ncache s) x.

Definition s_results : str := [114;101;115;117;108;116;115].   (* "results" *)
Definition s_logs : str := [108;111;103;115].                  (* "logs" *)

Definition sq_new (m : mode) : sqlstore := mkQ m [] [] [] [] None.

(** close + new instance on the same file: tables are kept in every mode
    (CREATE TABLE IF NOT EXISTS) *)
Definition sq_reopen (s : sqlstore) (m : mode) : sqlstore :=
  mkQ m (q_rows s) (q_logs s) [] [] None.

(** SELECT record_id FROM results WHERE is_completed=? *)
Definition select_members (s : sqlstore) (completed : bool) : list str :=
  map r_id (filter (fun r => Bool.eqb (r_completed r) completed) (q_rows s)).

Definition sq_completed_prop (s : sqlstore) : sqlstore * list str :=
  match q_completed s with
  | [] => let l := select_members s true in (qwith_completed s l, l)
  | l => (s, l)
  end.

Definition sq_nc_prop (s : sqlstore) : sqlstore * list str :=
  match q_ncache s with
  | [] => let l := select_members s false in (qwith_ncache s l, l)
  | l => (s, l)
  end.

Definition sq_members (s : sqlstore) : sqlstore * list str :=
  let (s1, c) := sq_completed_prop s in
  let (s2, n) := sq_nc_prop s1 in
  (s2, c ++ n).

(** DataStoreABC.__contains__ *)
Definition sq_contains (s : sqlstore) (item : str) : sqlstore * bool :=
  let (s1, ms) := sq_members s in (s1, mem_str item ms).

Definition sq_check_writable (s : sqlstore) (uid : str) : sqlstore * option Z :=
  match q_mode s with
  | MR => (s, Some E_IO)
  | m =>
      let (s1, b) := sq_contains s uid in
      if b && mode_eqb m MA then (s1, Some E_IO) else (s1, None)
  end.

(** [_init_log]: a new row in logs, its id remembered *)
Definition sq_init_log (s : sqlstore) : sqlstore :=
  match q_logid s with
  | Some _ => s
  | None =>
      let s1 := qwith_logs s (q_logs s ++ [(None, None)]) in
      qwith_logid s1 (Some (zlen (q_logs s1)))
  end.

Definition row_exists (s : sqlstore) (uid : str) : bool :=
  existsb (fun r => str_eqb (r_id r) uid) (q_rows s).

(** [_write(table_name=results, ...)]: UPDATE when the id is a member and the
    mode is not APPEND, INSERT otherwise (IntegrityError on a duplicate key) *)
Definition sq_write_row (v : variant) (s : sqlstore) (uid data : str) (completed : bool) : sqlstore * res :=
  let s0 := sq_init_log s in
  let lid := match q_logid s0 with Some z => z | None => 0 end in
  let (s1, present) := sq_contains s0 uid in
  if present && negb (mode_eqb (q_mode s1) MA) then
    (* UPDATE results SET data=?, log_id=?, md5=? WHERE record_id=?   (pinned: is_completed untouched;
       C13-6: is_completed=? as well) *)
    (qwith_rows s1 (map (fun r => if str_eqb (r_id r) uid
                                   then mkRow (r_id r) data data
                                              (if v_sqlupd v then completed else r_completed r) lid
                                   else r) (q_rows s1)),
     ROk (Some uid))
  else if row_exists s1 uid then (s1, RExc E_Other)                 (* sqlite3.IntegrityError *)
  else (qwith_rows s1 (q_rows s1 ++ [mkRow uid data data completed lid]), ROk (Some uid)).

(** [drop_not_completed] *)
Definition sq_drop (s : sqlstore) (uid : str) : sqlstore * option Z :=
  match q_mode s with
  | MR => (s, Some E_Other)               (* sqlite3.OperationalError: attempt to write a readonly database *)
  | _ =>
      let keep r := match uid with
                    | [] => r_completed r
                    | _ => r_completed r || negb (str_eqb (r_id r) uid)
                    end in
      (qwith_ncache (qwith_rows s (filter keep (q_rows s))) [], None)
  end.

(** identifiers starting with the table name are reduced to their last component *)
Definition strip_table (table uid : str) : str :=
  if startswith uid table then path_name uid else uid.

Definition sq_write (v : variant) (s : sqlstore) (uid0 data : str) : sqlstore * res :=
  let uid := strip_table s_results uid0 in
  let (s1, e) := sq_check_writable s uid in
  match e with
  | Some c => (s1, RExc c)
  | None =>
      let (s2, e2) := sq_drop s1 uid in
      match e2 with
      | Some c => (s2, RExc c)
      | None =>
          let (s3, r) := sq_write_row v s2 uid data true in
          match r with
          | ROk (Some id) =>
              if mem_str id (q_completed s3) then (s3, r)
              else (qwith_completed s3 (q_completed s3 ++ [id]), r)
          | _ => (s3, r)
          end
      end
  end.

Definition sq_write_nc (v : variant) (s : sqlstore) (uid0 data : str) : sqlstore * res :=
  let uid := strip_table s_results uid0 in
  let (s1, e) := sq_check_writable s uid in
  match e with
  | Some c => (s1, RExc c)
  | None =>
      let (s2, r) := sq_write_row v s1 uid data false in
      match r with
      | ROk (Some id) =>
          if v_sqlupd v then
            let s3 := if mem_str id (q_completed s2)
                      then qwith_completed s2 (remove_first id (q_completed s2)) else s2 in
            (if mem_str id (q_ncache s3) then s3 else qwith_ncache s3 (q_ncache s3 ++ [id]), r)
          else (qwith_ncache s2 (q_ncache s2 ++ [id]), r)
      | _ => (s2, r)
      end
  end.

Fixpoint set_nth {A} (n : nat) (x : A) (l : list A) : list A :=
  match l, n with
  | [], _ => []
  | _ :: t, O => x :: t
  | y :: t, S k => y :: set_nth k x t
  end.

Definition sq_write_log (s : sqlstore) (uid0 data : str) : sqlstore * res :=
  let uid := strip_table s_logs uid0 in
  let (s1, e) := sq_check_writable s uid in
  match e with
  | Some c => (s1, RExc c)
  | None =>
      let s2 := sq_init_log s1 in
      let lid := match q_logid s2 with Some z => z | None => 0 end in
      (* UPDATE logs SET data=?, log_name=? WHERE log_id=? *)
      (qwith_logs s2 (set_nth (Z.to_nat (lid - 1)) (Some uid, Some data) (q_logs s2)), ROk None)
  end.

Definition sq_step (v : variant) (s : sqlstore) (o : op) : sqlstore * res :=
  match o with
  | OWrite id data => sq_write v s id data
  | OWriteNC id data => sq_write_nc v s id data
  | OWriteLog id data => sq_write_log s id data
  | ODrop id => let (s1, e) := sq_drop s id in (s1, match e with Some c => RExc c | None => ROk None end)
  | ODropAll => let (s1, e) := sq_drop s [] in (s1, match e with Some c => RExc c | None => ROk None end)
  | OReopen m => (sq_reopen s m, ROk None)
  end.

Definition find_row (s : sqlstore) (uid : str) : option row :=
  find (fun r => str_eqb (r_id r) uid) (q_rows s).

(** [md5(unique_id)] *)
Definition sq_md5 (s : sqlstore) (uid : str) : option str :=
  match find_row s uid with Some r => Some (r_md5 r) | None => None end.

(** [logs] property: named log rows *)
Definition sq_logs (s : sqlstore) : list str :=
  flat_map (fun l => match fst l with
                     | Some n => if nonempty n then [s_logs ++ ch_slash :: n] else []
                     | None => []
                     end) (q_logs s).

(** [read(identifier)]: inl data | inr exception code *)
Definition sq_read (s : sqlstore) (uid : str) : str + Z :=
  let table := path_parent uid in
  let name := path_name uid in
  if str_eqb table [ch_dot] then
    match find_row s name with
    | Some r => inl (r_data r)
    | None => inr E_Type                     (* None["data"] *)
    end
  else if str_eqb table s_logs then
    match find (fun l => opt_str_eqb (fst l) (Some name)) (q_logs s) with
    | Some (_, Some d) => inl d
    | Some (_, None) => inl []
    | None => inr E_Type
    end
  else inr E_Value.

Fixpoint sq_validate_count (s : sqlstore) (ms : list str) (correct missing : Z) : option (Z * Z) :=
  match ms with
  | [] => Some (correct, missing)
  | m :: rest =>
      match sq_read s m with
      | inr _ => None
      | inl data =>
          match sq_md5 s m with
          | None => sq_validate_count s rest (correct - 1) (missing + 1)
          | Some t => sq_validate_count s rest (if str_eqb t data then correct else correct - 1) missing
          end
      end
  end.

Definition sq_validate (s : sqlstore) : sqlstore * option (Z * Z * Z * bool) :=
  let (s1, ms) := sq_members s in
  let n := zlen ms in
  match sq_validate_count s1 ms n 0 with
  | None => (s1, None)
  | Some (correct, missing) => (s1, Some (correct, n - correct - missing, missing, nonempty (sq_logs s1)))
  end.
