(** C03 — runner used by the correspondence check: [run_case : case -> val].

    A case is an initial alignment (moltype, class, named gapped strings) and
    a chain of operations.  The annotatable class runs the model of
    Model/Aligned.v, the array-backed class the model of Model/AlignedArr.v.  [OToType] switches class the way
    [to_type(array_align=...)] does (rebuilding from [to_dict()]).
    After every operation the whole state is observed. *)
From CG3 Require Import Lib.PyZ Lib.Val Lib.PySlice Model.View Model.IndelMap Model.IndelMapFixed Model.Aligned Model.AlignedArr Spec.AlignedSpec.

Inductive astate := SOld (a : oalign) | SArr (k : kind) (a : salign).

Definition kind_of_code (c : Z) : kind := if c =? 0 then KDna else if c =? 1 then KRna else KOther.

Definition obs_row (nr : name * arow) : val :=
  let r := snd nr in
  VL [VS (fst nr); VS (row_gapped r); VZ (row_len r);
      vlistZ (gap_pos (amap r)); vlistZ (cum_gap_lengths (amap r)); VZ (parent_length (amap r));
      VS (realise (adata r))].

Definition obs (st : astate) : val :=
  match st with
  | SOld a => VL [VZ 0; VZ (al_len a); VL (map obs_row a)]
  | SArr _ a => VL [VZ 1; VZ (slen a); VL (map (fun nr => VL [VS (fst nr); VS (snd nr)]) a)]
  end.

Definition nucleic (k : kind) : bool := match k with KOther => false | _ => true end.

Definition step (vr : variant) (st : astate) (o : aop) : res astate :=
  match st, o with
  | SOld a, OToType => Ok (SArr (al_kind a) (al_strings a))
  | SArr k a, OToType => bind (al_init k a) (fun a' => Ok (SOld a'))
  | SOld a, _ => bind (al_apply vr a o) (fun a' => Ok (SOld a'))
  | SArr k a, _ => bind (d_apply vr k a o) (fun ka => Ok (SArr (fst ka) (snd ka)))
  end.

(** [indep]: every operation is applied to the initial alignment (exhaustive
    single-operation blocks) instead of to the result of the previous one *)
Fixpoint run_steps (vr : variant) (indep : bool) (st : astate) (ops : list aop) : list val * astate :=
  match ops with
  | [] => ([], st)
  | o :: t =>
      match step vr st o with
      | Ok st' => let '(vs, fin) := run_steps vr indep (if indep then st else st') t in (obs st' :: vs, fin)
      | Err e => let '(vs, fin) := run_steps vr indep st t in (VE e :: vs, fin)
      end
  end.

(** [degap()]: the ungapped sequences ('-' and '?' removed) *)
Definition no_gap_char (c : Z) : bool := negb ((c =? 45) || (c =? 63)).
Definition obs_degap (st : astate) : val :=
  match st with
  | SOld a => VL (map (fun nr => VL [VS (fst nr); VS (filter no_gap_char (realise (adata (snd nr))))]) a)
  | SArr _ a => VL (map (fun nr => VL [VS (fst nr); VS (filter no_gap_char (snd nr))]) a)
  end.

(** read-only methods of the final alignment: names, len, positions, gap array, gaps per position, is_ragged *)
Definition vbools (l : list bool) : val := VL (map VB l).
(** canonical (non-degenerate) characters of the moltype: data, checked against the live moltype objects *)
Definition canon_of (k : kind) (protein : bool) : list Z :=
  match k with
  | KDna => [84; 67; 65; 71]
  | KRna => [85; 67; 65; 71]
  | KOther => if protein then [65;67;68;69;70;71;72;73;75;76;77;78;80;81;82;83;84;85;86;87;89] else []
  end.
Definition vnames (l : list name) : val := VL (map VS l).
Definition obs_ro (st : astate) : val :=
  match st with
  | SOld a =>
      let k := al_kind a in
      VL [vnames (al_names a); VZ (al_len a); VL (map VS (al_positions a)); VL (map vbools (al_gap_array a));
          vlistZ (al_count_gaps_per_pos a); VB (al_is_ragged a);
          vlistZ (al_count_gaps_per_seq a); vlistZ (al_variable_positions a);
          VL (map (fun p => VL [VS (fst p); VZ (snd p)]) (al_get_lengths (canon_of k true) a));
          VL (map (fun n => match al_get_seq a n with Some d => VS d | None => VN end) (al_names a))]
  | SArr k a =>
      VL [vnames (s_names a); VZ (slen a); VL (map VS (s_positions a)); VL (map vbools (s_gap_array a));
          vlistZ (s_count_gaps_per_pos a); VB false;
          vlistZ (s_count_gaps_per_seq a); vlistZ (s_variable_positions a);
          VL (map (fun p => VL [VS (fst p); VZ (snd p)]) (s_get_lengths (canon_of k true) a));
          VL (map (fun nr => VS (snd nr)) a)]
  end.

(** (variant flags, moltype code, array class?, independent ops?, rows, ops) *)
Definition case := (list bool * Z * bool * bool * list (name * list Z) * list aop)%type.

Definition variant_of (fl : list bool) : variant :=
  mkVar (nth 0 fl false) (nth 1 fl false) (nth 2 fl false) (nth 3 fl false) (nth 4 fl false).

Definition run_case (c : case) : val :=
  let '(fl, kc, arr, indep, rows, ops) := c in
  let vr := variant_of fl in
  let k := kind_of_code kc in
  let init := if arr then Ok (SArr k rows) else bind (al_init k rows) (fun a => Ok (SOld a)) in
  match init with
  | Err e => VE e
  | Ok st =>
      let '(vs, fin) := run_steps vr indep st ops in
      VL [obs st; VL vs; obs_degap fin; obs_ro fin]
  end.
