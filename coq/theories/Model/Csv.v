(** Model of the delimited-text codec used by [Table.write] / [load_table]
    (property C20).

    Writing: src/cogent3/util/table.py [Table.write] l.2177-2184
      [csv.writer(outfile, delimiter=sep, lineterminator="\n")] -- excel dialect,
      QUOTE_MINIMAL, doublequote, no escapechar; CPython 3.12 [_csv.c]
      [join_append_data]: a field is quoted iff it contains the delimiter, the
      quote char, or a char of the line terminator ("\n"); inside a quoted
      field every quote char is doubled; a record consisting of one empty
      field is written as [""].  NB: with this line terminator '\r' is NOT a
      reason to quote (CPython 3.12).
    Reading: src/cogent3/parse/table.py [load_delimited] l.156-165
      [open_(filename)] = text mode with universal newlines ('\r\n' and '\r'
      become '\n' before the reader sees them), then
      [csv.reader(f, dialect="excel", delimiter=sep)]: CPython [_csv.c]
      [parse_process_char] / [Reader_iternext], fed one line (as produced by
      file iteration, i.e. split after every '\n') at a time, each followed
      by the EOL pseudo character.

    No proofs in this file. *)
From CG3 Require Import Lib.PyZ Lib.Chars.
Import ListNotations.

Definition ch_quote : Z := 34.
Definition ch_nl : Z := 10.
Definition ch_cr : Z := 13.
Definition ch_tab : Z := 9.
Definition ch_comma : Z := 44.

(* ------------------------------------------------------------------ writer *)

Definition is_special (d c : Z) : bool := (c =? d) || (c =? ch_quote) || (c =? ch_nl).

Definition needs_quote (d : Z) (s : str) : bool := existsb (is_special d) s.

Definition quote_body (s : str) : str :=
  flat_map (fun c => if c =? ch_quote then [ch_quote; ch_quote] else [c]) s.

Definition fmt_field (d : Z) (s : str) : str :=
  if needs_quote d s then ch_quote :: quote_body s ++ [ch_quote] else s.

Fixpoint join_fields (d : Z) (fs : list str) : str :=
  match fs with
  | [] => []
  | f :: t => match t with [] => f | _ => f ++ d :: join_fields d t end
  end.

(* writerow *)
Definition fmt_row (d : Z) (row : list str) : str :=
  match row with
  | [ [] ] => [ch_quote; ch_quote; ch_nl]
  | _ => join_fields d (map (fmt_field d) row) ++ [ch_nl]
  end.

(* writerows *)
Definition fmt_rows (d : Z) (rows : list (list str)) : str := flat_map (fmt_row d) rows.

(* ------------------------------------------------------------------ text-mode file read *)

(* universal newlines translation of open(..., newline=None) *)
Fixpoint universal_nl (s : str) : str :=
  match s with
  | [] => []
  | c :: t =>
      if c =? ch_cr then
        ch_nl :: match t with
                 | c2 :: t2 => if c2 =? ch_nl then universal_nl t2 else universal_nl t
                 | [] => []
                 end
      else c :: universal_nl t
  end.

(* iteration over the lines of a text file: split after every '\n', keep it *)
Fixpoint split_lines_keep (s cur : str) : list str :=
  match s with
  | [] => match cur with [] => [] | _ => [cur] end
  | c :: t => if c =? ch_nl then (cur ++ [c]) :: split_lines_keep t []
              else split_lines_keep t (cur ++ [c])
  end.

(* ------------------------------------------------------------------ reader *)

Inductive rstate := StartRecord | StartField | InField | InQuoted | QuoteInQuoted | EatCrnl.

Inductive rchar := Ch (c : Z) | EOL.

Record reader := mkReader { st : rstate; fld : str; flds : list str }.

Definition reader0 : reader := mkReader StartRecord [] [].

Definition set_st (r : reader) (s : rstate) : reader := mkReader s (fld r) (flds r).
Definition add_char (r : reader) (c : Z) : reader := mkReader (st r) (fld r ++ [c]) (flds r).
(* parse_save_field *)
Definition save_field (r : reader) : reader := mkReader (st r) [] (flds r ++ [fld r]).

Definition is_nlcr (c : Z) : bool := (c =? ch_nl) || (c =? ch_cr).

(* case START_FIELD of parse_process_char *)
Definition start_field_step (d : Z) (r : reader) (c : rchar) : option reader :=
  match c with
  | EOL => Some (set_st (save_field r) StartRecord)
  | Ch x =>
      if is_nlcr x then Some (set_st (save_field r) EatCrnl)
      else if x =? ch_quote then Some (set_st r InQuoted)
      else if x =? d then Some (set_st (save_field r) StartField)
      else Some (set_st (add_char r x) InField)
  end.

(* parse_process_char; None = csv.Error *)
Definition process_char (d : Z) (r : reader) (c : rchar) : option reader :=
  match st r with
  | StartRecord =>
      match c with
      | EOL => Some r
      | Ch x => if is_nlcr x then Some (set_st r EatCrnl)
                else start_field_step d (set_st r StartField) c
      end
  | StartField => start_field_step d r c
  | InField =>
      match c with
      | EOL => Some (set_st (save_field r) StartRecord)
      | Ch x => if is_nlcr x then Some (set_st (save_field r) EatCrnl)
                else if x =? d then Some (set_st (save_field r) StartField)
                else Some (add_char r x)
      end
  | InQuoted =>
      match c with
      | EOL => Some r
      | Ch x => if x =? ch_quote then Some (set_st r QuoteInQuoted) else Some (add_char r x)
      end
  | QuoteInQuoted =>
      match c with
      | EOL => Some (set_st (save_field r) StartRecord)
      | Ch x => if x =? ch_quote then Some (set_st (add_char r x) InQuoted)
                else if x =? d then Some (set_st (save_field r) StartField)
                else if is_nlcr x then Some (set_st (save_field r) EatCrnl)
                else Some (set_st (add_char r x) InField)
      end
  | EatCrnl =>
      match c with
      | EOL => Some (set_st r StartRecord)
      | Ch x => if is_nlcr x then Some r else None
      end
  end.

(* one line of the file, then EOL *)
Definition feed_line (d : Z) (r : reader) (line : str) : option reader :=
  match fold_left (fun acc c => match acc with Some r => process_char d r (Ch c) | None => None end)
                  line (Some r) with
  | Some r' => process_char d r' EOL
  | None => None
  end.

Definition is_start_record (s : rstate) : bool := match s with StartRecord => true | _ => false end.
Definition is_in_quoted (s : rstate) : bool := match s with InQuoted => true | _ => false end.
Definition is_nil {A} (l : list A) : bool := match l with [] => true | _ => false end.

(* [for row in reader]: Reader_iternext called until the input is exhausted.
   [r] is the parser state carried across the lines of one record. *)
Fixpoint read_all (d : Z) (lines : list str) (r : reader) (acc : list (list str))
  : option (list (list str)) :=
  match lines with
  | [] =>
      if negb (is_nil (fld r)) || is_in_quoted (st r)
      then Some (acc ++ [flds (save_field r)])
      else Some acc
  | ln :: rest =>
      match feed_line d r ln with
      | None => None
      | Some r' =>
          if is_start_record (st r') then read_all d rest reader0 (acc ++ [flds r'])
          else read_all d rest r' acc
      end
  end.

(* csv.reader over a file opened in text mode *)
Definition csv_read (d : Z) (text : str) : option (list (list str)) :=
  read_all d (split_lines_keep (universal_nl text) []) reader0 [].

(* ------------------------------------------------------------------ predicates of the round trip *)

Definition delim_okb (d : Z) : bool :=
  negb (d =? ch_quote) && negb (d =? ch_nl) && negb (d =? ch_cr).

Definition field_okb (f : str) : bool := negb (existsb (fun c => c =? ch_cr) f).

(* every record has at least one field and no field contains '\r' *)
Definition row_okb (row : list str) : bool := negb (is_nil row) && forallb field_okb row.

Definition rows_okb (rows : list (list str)) : bool := forallb row_okb rows.
