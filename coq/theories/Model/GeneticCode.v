(** C12 — model of translation and complementing in cogent3, transcribed from

      core/new_alphabet.py      CharAlphabet.to_indices, coord_conversion_coeffs, coord_to_index,
                                seq_to_kmer_indices, KmerAlphabet.to_index, convert_alphabet
      core/new_genetic_code.py  _make_converter, GeneticCode.__post_init__/__getitem__/translate/sixframes/is_stop
      core/genetic_code.py      GeneticCode.__init__/__getitem__/translate/sixframes/is_stop
      core/new_moltype.py       MolType.complement/rc/resolve_ambiguity/degenerate_from_seq
      core/moltype.py           MolType.complement/rc/resolve_ambiguity/_what_ambiguity/degenerate_from_seq
      core/sequence.py, core/new_sequence.py   has_terminal_stop, trim_stop_codon, get_translation
      core/alignment.py, core/new_alignment.py collection / alignment has_terminal_stop, trim_stop_codons, get_translation

    The literal tables (genetic codes, IUPAC ambiguities, complements, monomer
    order) come from gen/GCTables.v, regenerated from the current source on
    every run.  Strings are lists of code points.  No proofs in this file. *)
From CG3 Require Import Lib.PyZ Lib.Val.
From CG3gen Require Import GCTables.

Definition str := list Z.

(** results of functions that may raise *)
Inductive res (A : Type) : Type := Ok (a : A) | Err (e : Z).
Arguments Ok {A} a.
Arguments Err {A} e.
Definition bind {A B} (r : res A) (f : A -> res B) : res B :=
  match r with Ok a => f a | Err e => Err e end.
Fixpoint mapM {A B} (f : A -> res B) (l : list A) : res (list B) :=
  match l with
  | [] => Ok []
  | a :: r => bind (f a) (fun b => bind (mapM f r) (fun bs => Ok (b :: bs)))
  end.

(** exception classes: Lib/Val.v codes, plus AlphabetError (a plain Exception in the old
    implementation, a TypeError in the new one; the harness canonicalises both to 7) and
    0 = "outside the modelled fragment" (never produced on the inputs of the check) *)
Definition E_Alpha : Z := 7.
Definition E_Unmodelled : Z := 0.

(** symbols *)
Definition ch_star : Z := 42.   (* "*" *)
Definition ch_gap : Z := 45.    (* "-" *)
Definition ch_miss : Z := 63.   (* "?" *)
Definition ch_X : Z := 88.
Definition ch_T : Z := 84.
Definition ch_U : Z := 85.

(* ------------------------------------------------------------------ generic helpers *)

Fixpoint str_eqb (a b : str) : bool :=
  match a, b with
  | [], [] => true
  | x :: a', y :: b' => (x =? y) && str_eqb a' b'
  | _, _ => false
  end.

Definition is_nil {A} (l : list A) : bool := match l with [] => true | _ => false end.

Definition memZ (c : Z) (l : list Z) : bool := existsb (Z.eqb c) l.

Fixpoint index_of (c : Z) (l : list Z) (i : Z) : option Z :=
  match l with
  | [] => None
  | x :: r => if x =? c then Some i else index_of c r (i + 1)
  end.

Fixpoint assocZ {A} (k : Z) (l : list (Z * A)) : option A :=
  match l with
  | [] => None
  | (k', v) :: r => if k' =? k then Some v else assocZ k r
  end.

Fixpoint assoc_str {A} (k : str) (l : list (str * A)) : option A :=
  match l with
  | [] => None
  | (k', v) :: r => if str_eqb k' k then Some v else assoc_str k r
  end.

(** the k-th triples of a string; an incomplete tail is dropped
    ([for i in range(0, len(seq) - k + 1, k): seq[i : i + k]] with k = 3) *)
Fixpoint chunks3 {A} (s : list A) : list (list A) :=
  match s with
  | a :: b :: c :: r => [a; b; c] :: chunks3 r
  | _ => []
  end.

(** [s[start:]] for any Python int [start] *)
Definition slice_from {A} (s : list A) (start : Z) : list A :=
  let n := zlen s in
  let st := if start <? 0 then Z.max 0 (start + n) else Z.min start n in
  skipn (Z.to_nat st) s.

(** [s[:stop]] for any Python int [stop] *)
Definition slice_to {A} (s : list A) (stop : Z) : list A :=
  let n := zlen s in
  let sp := if stop <? 0 then Z.max 0 (stop + n) else Z.min stop n in
  firstn (Z.to_nat sp) s.

Definition list_max (l : list Z) : Z := fold_left Z.max l 0.

(** insertion sort on code points / sets as sorted duplicate-free lists *)
Fixpoint insert_sorted (x : Z) (l : list Z) : list Z :=
  match l with
  | [] => [x]
  | y :: r => if x <? y then x :: l else if x =? y then l else y :: insert_sorted x r
  end.
Definition to_set (l : list Z) : list Z := fold_right insert_sorted [] l.
Definition subset (a b : list Z) : bool := forallb (fun x => memZ x b) a.
Definition set_eqb (a b : list Z) : bool := subset a b && subset b a.

Fixpoint str_ltb (a b : str) : bool :=
  match a, b with
  | [], [] => false
  | [], _ => true
  | _, [] => false
  | p :: a', q :: b' => if p <? q then true else if q <? p then false else str_ltb a' b'
  end.
Fixpoint insert_str (x : str) (l : list str) : list str :=
  match l with
  | [] => [x]
  | y :: r => if str_ltb x y then x :: l else if str_eqb x y then l else y :: insert_str x r
  end.
Definition sort_strs (l : list str) : list str := fold_right insert_str [] l.

(** itertools.product of the symbol sets, as words *)
Fixpoint str_product (sets : list (list Z)) : list str :=
  match sets with
  | [] => [[]]
  | s :: r => flat_map (fun c => map (cons c) (str_product r)) s
  end.

(* ------------------------------------------------------------------ new_alphabet: k-mer indices *)

(** [CharAlphabet.to_indices(bytes)]: bytes.translate with a table sending the i-th
    character of the alphabet to i and every other byte to itself *)
Definition mono_index (alpha : list Z) (c : Z) : Z :=
  match index_of c alpha 0 with Some i => i | None => c end.

(** [coord_conversion_coeffs]: [num_states ** (i - 1) for i in range(k, 0, -1)] *)
Fixpoint coeffs (n : Z) (k : nat) : list Z :=
  match k with
  | O => []
  | S k' => n ^ Z.of_nat k' :: coeffs n k'
  end.

(** [coord_to_index]: (coord * coeffs).sum() *)
Fixpoint coord_to_index (coord cf : list Z) : Z :=
  match coord, cf with
  | d :: r, c :: cs => d * c + coord_to_index r cs
  | _, _ => 0
  end.

(** one iteration of the loop of [seq_to_kmer_indices] *)
Definition kmer_index (num_states gap_char_index gap_index : Z) (k : nat) (seg : list Z) : Z :=
  let missing_index := if gap_char_index >? 0 then gap_index + 1 else num_states ^ Z.of_nat k in
  if forallb (fun x => x <? num_states) seg then coord_to_index seg (coeffs num_states k)
  else if (gap_char_index >? 0) && (list_max seg =? gap_char_index) then gap_index
  else missing_index.

(** the codon alphabet of new GeneticCode: monomers T C A G - ?; 4 canonical states; gap "-" at
    monomer index 4; words = 64 codons + "---" (index 64) + "???" (index 65) *)
Definition num_states : Z := zlen new_monomers - 2.
Definition gap_char_index : Z := 4.     (* monomers.gap_index *)
Definition kmer_gap_index : Z := 64.    (* KmerAlphabet.gap_index *)
Definition kmer_index3 (seg : list Z) : Z := kmer_index num_states gap_char_index kmer_gap_index 3 seg.

(** [KmerAlphabet.to_indices(str)] for non-overlapping 3-mers *)
Definition to_kmer_indices (s : str) : list Z :=
  map kmer_index3 (chunks3 (map (mono_index new_monomers) s)).

(** [KmerAlphabet.to_index(word)] (the ndarray overload) *)
Definition word_to_index (w : str) : Z :=
  let seq := map (mono_index new_monomers) w in
  if forallb (fun x => x <? num_states) seq then coord_to_index seq (coeffs num_states 3)
  else
    let gci := gap_char_index in
    let gi := kmer_gap_index in
    let missing_index := gi + 1 in
    if list_max seq =? gci then gi else missing_index.

(** [convert_alphabet(src, dest)]: bytes.maketrans + bytes.translate; a later duplicate in [src]
    overrides an earlier one, bytes outside [src] map to themselves *)
Fixpoint trans_lookup (src dest : list Z) (b acc : Z) : Z :=
  match src, dest with
  | s :: src', d :: dest' => trans_lookup src' dest' b (if s =? b then d else acc)
  | _, _ => acc
  end.
Definition convert (src dest : list Z) (seq : list Z) : list Z :=
  map (fun b => trans_lookup src dest b b) seq.

(* ------------------------------------------------------------------ complement / rc *)

(** [str.translate(maketrans(keys, values))] / [bytes.translate(table)]: first match in the
    association list (keys are distinct), identity outside *)
Definition comp_char (tbl : list (Z * Z)) (c : Z) : Z :=
  match assocZ c tbl with Some d => d | None => c end.
Definition complement_pure (tbl : list (Z * Z)) (s : str) : str := map (comp_char tbl) s.
Definition rc_pure (tbl : list (Z * Z)) (s : str) : str := rev (complement_pure tbl s).

Inductive moltype := DNA | RNA.
Inductive impl := Old | New.

Definition comp_table (v : impl) (m : moltype) : list (Z * Z) :=
  match v, m with
  | Old, DNA => dna_comp_old | Old, RNA => rna_comp_old
  | New, DNA => dna_comp_new | New, RNA => rna_comp_new
  end.
Definition dga (m : moltype) : list Z := match m with DNA => dna_dga_new | RNA => rna_dga_new end.

(** old [MolType.complement(str)] never validates; new [MolType.complement(str, validate=True)]
    raises AlphabetError unless every symbol is in the most degenerate gapped alphabet *)
Definition complement (v : impl) (m : moltype) (s : str) : res str :=
  match v with
  | Old => Ok (complement_pure (comp_table Old m) s)
  | New => if forallb (fun c => memZ c (dga m)) s then Ok (complement_pure (comp_table New m) s)
           else Err E_Alpha
  end.
Definition rc (v : impl) (m : moltype) (s : str) : res str :=
  bind (complement v m s) (fun c => Ok (rev c)).

(** ---- sequence objects as views ----
    A Sequence holds a SeqView; [seq.rc()] does not touch the data: it builds a sequence on
    [self._seq[::-1]], a REVERSED view, and [str()] / [bytes()] / [array()] of a sequence whose view
    is reversed complement what the view yields.  The model keeps what the view yields
    ([sv_under], already in view order) and the pending-complement flag ([sv_rev] = [_seq.is_reversed]). *)
Record sview := mk_sview { sv_under : str; sv_rev : bool }.
Inductive vop := ORc | OComp | OSlice (a b : Z).

(** [s[a:b]] for any Python ints *)
Definition pyslice {A} (s : list A) (a b : Z) : list A :=
  let n := zlen s in
  let norm := fun i => if i <? 0 then Z.max 0 (i + n) else Z.min i n in
  firstn (Z.to_nat (norm b - norm a)) (skipn (Z.to_nat (norm a)) s).

(** [str(seq)] *)
Definition sview_str (tbl : list (Z * Z)) (v : sview) : str :=
  if sv_rev v then complement_pure tbl (sv_under v) else sv_under v.

(** [seq.rc()]: the reversed view; [seq.complement()]: a fresh sequence made of
    moltype.complement(bytes(self)) (old: moltype.complement(self), i.e. of str(self));
    [seq[a:b]]: the view sliced in view coordinates *)
Definition sview_op (tbl : list (Z * Z)) (v : sview) (o : vop) : sview :=
  match o with
  | ORc => mk_sview (rev (sv_under v)) (negb (sv_rev v))
  | OComp => mk_sview (complement_pure tbl (sview_str tbl v)) false
  | OSlice a b => mk_sview (pyslice (sv_under v) a b) (sv_rev v)
  end.

(** the strings seen after each of a list of operations *)
Fixpoint sview_trace (tbl : list (Z * Z)) (v : sview) (ops : list vop) : list str :=
  match ops with
  | [] => []
  | o :: r => let v' := sview_op tbl v o in sview_str tbl v' :: sview_trace tbl v' r
  end.

(* ------------------------------------------------------------------ new GeneticCode *)

Definition product3 (b : list Z) : list str :=
  flat_map (fun x => flat_map (fun y => map (fun z => [x; y; z]) b) b) b.

Definition canon_new : list Z := firstn 4 new_monomers.
Definition gap_word : str := [ch_gap; ch_gap; ch_gap].
Definition miss_word : str := [ch_miss; ch_miss; ch_miss].
(** [gapped_alphabet.with_gap_motif().get_kmer_alphabet(k=3, include_gap=True)] *)
Definition codon_words : list str := product3 canon_new ++ [gap_word; miss_word].
(** [f"{ncbi_code_sequence}-X"] *)
Definition code_seq (aa : str) : str := aa ++ [ch_gap; ch_X].
(** [tuple(self.moltype.rc(codon) for codon in self.codons)] *)
Definition anticodons : list str := map (rc_pure dna_comp_new) codon_words.

(** source bytes of [_make_converter(kmer_alpha, codons, code_seq)] *)
Definition converter_src (codons : list str) : list Z := map word_to_index codons.
Definition plus_src : list Z := converter_src codon_words.
Definition minus_src : list Z := converter_src anticodons.

Definition upper (c : Z) : Z := if (97 <=? c) && (c <=? 122) then c - 32 else c.
(** [item.upper().replace("U", "T")] *)
Definition codon_key (item : str) : str :=
  map (fun c => let u := upper c in if u =? ch_U then ch_T else u) item.

(** [GeneticCode.__getitem__] for codons (both implementations); the amino-acid -> codons
    direction (1-character items) is outside the model *)
Definition getitem (v : impl) (aa : str) (item : str) : res Z :=
  if zlen item =? 3 then
    let key := codon_key item in
    match v with
    | New => Ok (match assoc_str key (combine codon_words (code_seq aa)) with Some a => a | None => ch_X end)
    | Old => Ok (match assoc_str key (combine (product3 old_bases) aa) with Some a => a | None => ch_X end)
    end
  else if zlen item =? 1 then Err E_Unmodelled
  else Err E_Key.

Definition is_stop (v : impl) (aa : str) (codon : str) : res bool :=
  bind (getitem v aa codon) (fun a => Ok (a =? ch_star)).

(** new [GeneticCode.translate(dna, start, rc)] as it stood before the minus-strand repair
    (finding C12-1): the window is always cut on the plus strand -- drop [start] symbols on the
    left, truncate to a multiple of 3 on the right -- and only then read with the anticodon table
    and reversed.  Kept as a regression witness. *)
Definition translate_pinned (aa : str) (s : str) (start : Z) (rc : bool) : str :=
  let dna := if start =? 0 then s else slice_from s start in
  let diff := zlen dna mod 3 in
  let dna := if diff =? 0 then dna else slice_to dna (- diff) in
  let seq := to_kmer_indices dna in
  let cs := code_seq aa in
  if rc then rev (convert minus_src cs seq)
  else convert plus_src cs seq.

Definition sixframes_pinned (aa : str) (s : str) : list (bool * Z * str) :=
  flat_map (fun rc => map (fun start => (rc, start, translate_pinned aa s start rc)) [0; 1; 2]) [false; true].

(** new [GeneticCode.translate(dna, start, rc)] with the repair proposed in
    notes/proposed_fixes/C12-1.diff: frames of the minus strand are counted from the 5' end of
    the reverse complement, i.e.
      if start: dna = dna[: max(len(dna) - start, 0)] if rc else dna[start:]
      if diff := len(dna) % 3: dna = dna[diff:] if rc else dna[:-diff]           *)
Definition translate (aa : str) (s : str) (start : Z) (rc : bool) : str :=
  let dna := if start =? 0 then s
             else if rc then slice_to s (Z.max (zlen s - start) 0) else slice_from s start in
  let diff := zlen dna mod 3 in
  let dna := if diff =? 0 then dna
             else if rc then slice_from dna diff else slice_to dna (- diff) in
  let seq := to_kmer_indices dna in
  let cs := code_seq aa in
  if rc then rev (convert minus_src cs seq)
  else convert plus_src cs seq.

(** ---- the byte width of the k-mer indices (finding C12-4) ----
    [KmerAlphabet.to_indices(ndarray)] allocates its result with
    [numpy.zeros(size, dtype=get_array_type(size))], [size] = the NUMBER of k-mers, not the size of
    the alphabet; [translate] then feeds [seq.tobytes()] to [bytes.translate].  From 256 codons on
    the items are uint16 (from 65536 on uint32), so every index contributes 2 (4) bytes, low byte
    first (numpy native order on the little-endian platforms the check runs on). *)
Definition get_array_type_width (n : Z) : Z :=
  if n <? 2 ^ 8 then 1 else if n <? 2 ^ 16 then 2 else if n <? 2 ^ 32 then 4 else 8.
Fixpoint le_bytes (w : nat) (i : Z) : list Z :=
  match w with O => [] | S w' => i mod 256 :: le_bytes w' (i / 256) end.
(** [ndarray.tobytes()] of unsigned items of [w] bytes *)
Definition tobytes (w : Z) (idx : list Z) : list Z := flat_map (le_bytes (Z.to_nat w)) idx.

(** the window of [dna] that is translated; [fm] = with the minus-strand repair C12-1 *)
Definition window (fm : bool) (s : str) (start : Z) (rc : bool) : str :=
  let dna := if start =? 0 then s
             else if fm && rc then slice_to s (Z.max (zlen s - start) 0) else slice_from s start in
  let diff := zlen dna mod 3 in
  if diff =? 0 then dna
  else if fm && rc then slice_from dna diff else slice_to dna (- diff).

(** [GeneticCode.translate] with the dtype of the index array made explicit.
    [fd] = with repair C12-4 (dtype taken from the size of the codon alphabet, 66 words: uint8);
    without it the dtype follows the number of codons as described above. *)
Definition translate_w (fm fd : bool) (aa : str) (s : str) (start : Z) (rc : bool) : str :=
  let seq := to_kmer_indices (window fm s start rc) in
  let w := get_array_type_width (if fd then zlen codon_words else zlen seq) in
  let bytes := tobytes w seq in
  let cs := code_seq aa in
  if rc then rev (convert minus_src cs bytes)
  else convert plus_src cs bytes.

(** new [GeneticCode.sixframes]: (strand, start, translation) for ("+","-") x range(3) *)
Definition sixframes (aa : str) (s : str) : list (bool * Z * str) :=
  flat_map (fun rc => map (fun start => (rc, start, translate aa s start rc)) [0; 1; 2]) [false; true].

(* ------------------------------------------------------------------ old GeneticCode *)

Definition old_lookup (aa : str) (w : str) : Z :=
  match getitem Old aa w with Ok a => a | Err _ => ch_X end.

(** old [GeneticCode.translate(dna, start)], for [start >= 0] *)
Definition translate_old (aa : str) (s : str) (start : Z) : res str :=
  if start <? 0 then Err E_Unmodelled
  else match s with
  | [] => Ok []
  | _ =>
    if start + 1 >? zlen s then Err E_Value
    else mapM (getitem Old aa) (chunks3 (skipn (Z.to_nat start) s))
  end.

(** old [GeneticCode.sixframes(dna)] with [dna] a DNA/RNA sequence object *)
Definition sixframes_old (aa : str) (m : moltype) (s : str) : res (list str) :=
  let reverse := rc_pure (comp_table Old m) s in
  bind (mapM (translate_old aa s) [0; 1; 2]) (fun plus =>
  bind (mapM (translate_old aa reverse) [0; 1; 2]) (fun minus => Ok (plus ++ minus))).

(** [cogent3.app.translate.translate_frames(seq, gc=, allow_rc=)]: the old object's six frames,
    the first three unless [allow_rc] *)
Definition translate_frames (aa : str) (m : moltype) (s : str) (allow_rc : bool) : res (list str) :=
  bind (sixframes_old aa m s) (fun l => Ok (if allow_rc then l else firstn 3 l)).

(* ------------------------------------------------------------------ sequences: stop handling *)

(** Two findings of this property live in this part of the code; the model carries one flag
    for each so that the code before and after the proposed repairs
    (notes/proposed_fixes/C12-2.diff, C12-3.diff) can both be run:
      [fix_empty]  has_terminal_stop answers False for a sequence with no residues
                   (before: gc.is_stop("") raised InvalidCodonError, a KeyError)
      [fix_aln]    the collection / alignment level get_translation, having dealt with terminal
                   stops itself, calls the per-sequence get_translation with trim_stop=False
                   (before: the alignment let the per-row call use its default trim_stop=True, so
                   trim_stop=False was ignored; alignment and collection trimmed a second time, so
                   a stop codon in front of the terminal one was silently removed too) *)
Section StopHandling.
Variable fix_empty : bool.
Variable fix_aln : bool.
(** [fix_dtype]: repair C12-4 in the translate call of new Sequence.get_translation *)
Variable fix_dtype : bool.

Definition degap (s : str) : str := filter (fun c => negb (c =? ch_gap)) s.
Definition has_gap (s : str) : bool := memZ ch_gap s.
(** [s[-3:]] *)
Definition last3 (s : str) : str := slice_from s (-3).

(** [Sequence.has_terminal_stop(gc, strict)] (old and new have the same body) *)
Definition has_terminal_stop (v : impl) (aa : str) (s : str) (strict : bool) : res bool :=
  let d := degap s in
  if fix_empty && is_nil d then Ok false
  else if zlen d mod 3 =? 0 then is_stop v aa (last3 d)
  else if strict then Err E_Alpha
  else Ok false.

(** stop codons of a code, [gc["*"]] *)
Definition stop_words (aa : str) : list str :=
  map fst (filter (fun p => snd p =? ch_star) (combine (product3 old_bases) aa)).
Definition is_stop_word (aa : str) (w : str) : bool := existsb (str_eqb w) (stop_words aa).
Definition is_gapch (c : Z) : bool := (c =? ch_gap) || (c =? ch_miss).

(** [re.sub(f"({'|'.join(gc['*'])})[{gaps}]*$", "-" * diff, s)]: leftmost position holding a
    stop codon followed only by gap symbols; everything from there on becomes "-" *)
Fixpoint regex_trim (aa : str) (s : str) : str :=
  match s with
  | [] => []
  | c :: r =>
      if is_stop_word aa (firstn 3 s) && forallb is_gapch (skipn 3 s)
      then repeat ch_gap (length s)
      else c :: regex_trim aa r
  end.

(** [Sequence.trim_stop_codon(gc, strict)] *)
Definition trim_stop_codon (v : impl) (aa : str) (s : str) (strict : bool) : res str :=
  bind (has_terminal_stop v aa s strict) (fun has =>
    if negb has then Ok s
    else if negb (has_gap s) then Ok (slice_to s (-3))
    else Ok (regex_trim aa s)).

Definition has_char (c : Z) (s : str) : bool := memZ c s.

(** new [Sequence.get_translation] *)
Definition seq_get_translation_new (aa : str) (s : str) (incomplete_ok include_stop trim_stop : bool) : res str :=
  bind (if trim_stop then trim_stop_codon New aa s (negb incomplete_ok) else Ok s) (fun seq =>
    let pep := translate_w true fix_dtype aa seq 0 false in
    if negb include_stop && has_char ch_star pep then Err E_Alpha
    else if negb incomplete_ok && (has_char ch_gap pep || has_char ch_X pep) then Err E_Alpha
    else Ok pep).

(** [MolType._what_ambiguity(motifs)] on an ambiguity dictionary in dict order: the first smallest
    set that holds every motif; the missing symbol when none does *)
Definition what_ambiguity_tbl (amb : list (Z * list Z)) (alpha_len : Z) (motifs : list Z) : Z :=
  snd (fold_left
         (fun (st : Z * Z) (kv : Z * list Z) =>
            let '(most_specific, result) := st in
            if subset motifs (snd kv) && (zlen (snd kv) <? most_specific)
            then (zlen (snd kv), fst kv) else st)
         amb (alpha_len + 1, ch_miss)).

(** the protein moltype the result is encoded with: "protein_with_stop" if include_stop else "protein" *)
Definition protein_what_ambiguity (include_stop : bool) (trans : list Z) : Z :=
  if include_stop then what_ambiguity_tbl prot_stop_ambig_old (zlen prot_stop_alpha_old) trans
  else what_ambiguity_tbl prot_ambig_old (zlen prot_alpha_old) trans.

(** the [codons] dictionary of an old GeneticCode object *)
Definition codon_dict (aa : str) : list (str * Z) := combine (product3 old_bases) aa.

(** membership in [gc.get_alphabet(include_stop=include_stop).with_gap_motif()]: the sense codons,
    the stop codons too if include_stop, and "---" *)
Definition in_codon_alphabet (dict : list (str * Z)) (include_stop : bool) (u : str) : bool :=
  str_eqb u gap_word ||
  match assoc_str u dict with
  | Some a => include_stop || negb (a =? ch_star)
  | None => false
  end.

(** one codon of the loop of old [Sequence.get_translation] (DNA sequences):
    resolve_ambiguity(codon, alphabet=codon_alphabet) -- the codon itself if it is in the alphabet,
    otherwise every expansion of its symbols through DNA.ambiguities that is in the alphabet,
    AlphabetError if a symbol is unknown or nothing is left (then, with incomplete_ok and a "-" in
    the codon, the codon itself) --, the amino acid gc[codon] of every resolution (stop codons
    skipped unless include_stop), and the protein symbol that stands for all of them *)
Definition old_codon_d (dict : list (str * Z)) (incomplete_ok include_stop : bool) (w : str) : res Z :=
  let resolved : res (list str) :=
    if in_codon_alphabet dict include_stop w then Ok [w]
    else match mapM (fun c => match assocZ c dna_ambig_old with Some s => Ok s | None => Err E_Alpha end) w with
         | Err e => Err e
         | Ok sets => match filter (in_codon_alphabet dict include_stop) (str_product sets) with
                      | [] => Err E_Alpha
                      | l => Ok l
                      end
         end in
  let resolved : res (list str) :=
    match resolved with
    | Ok l => Ok l
    | Err e => if negb incomplete_ok || negb (has_gap w) then Err e else Ok [w]
    end in
  bind resolved (fun l =>
  bind (mapM (fun u : str =>
                if str_eqb u gap_word then Ok [ch_gap]
                else if has_gap u then (if incomplete_ok then Ok [ch_miss] else Err E_Alpha)
                else (* gc[u]: upper-cased, U -> T, "X" when unknown *)
                  let a := match assoc_str (codon_key u) dict with Some a => a | None => ch_X end in
                  if (a =? ch_star) && negb include_stop then Ok [] else Ok [a]) l) (fun parts =>
  match concat parts with
  | [] => Err E_Alpha
  | trans => Ok (protein_what_ambiguity include_stop trans)
  end)).

Definition old_codon (aa : str) (incomplete_ok include_stop : bool) (w : str) : res Z :=
  old_codon_d (codon_dict aa) incomplete_ok include_stop w.

(** old [Sequence.get_translation] *)
Definition seq_get_translation_old (aa : str) (s : str) (incomplete_ok include_stop trim_stop : bool) : res str :=
  bind (if include_stop || negb trim_stop then Ok s
        else trim_stop_codon Old aa s (negb incomplete_ok)) (fun seq =>
    let dict := codon_dict aa in   (* gc.codons, built once *)
    mapM (old_codon_d dict incomplete_ok include_stop) (chunks3 seq)).

(* ------------------------------------------------------------------ collections and alignments *)

(** [has_terminal_stop] of a collection: first sequence that has one answers *)
Fixpoint coll_has_terminal_stop (v : impl) (aa : str) (seqs : list str) (strict : bool) : res bool :=
  match seqs with
  | [] => Ok false
  | s :: r => bind (has_terminal_stop v aa s strict) (fun b =>
                if b then Ok true else coll_has_terminal_stop v aa r strict)
  end.

(** old [_SequenceCollectionBase.trim_stop_codons] *)
Definition coll_trim_old (aa : str) (seqs : list str) (strict : bool) : res (list str) :=
  bind (coll_has_terminal_stop Old aa seqs strict) (fun any =>
    if negb any then Ok seqs
    else mapM (fun s => trim_stop_codon Old aa s strict) seqs).

(** old [_SequenceCollectionBase.get_translation] (SequenceCollection) *)
Definition coll_get_translation_old (aa : str) (seqs : list str) (incomplete_ok include_stop trim_stop : bool)
  : res (list str) :=
  bind (if trim_stop && negb include_stop then coll_trim_old aa seqs (negb incomplete_ok) else Ok seqs)
    (fun seqs' => mapM (fun s => seq_get_translation_old aa s true include_stop
                                   (if fix_aln then false else trim_stop)) seqs').

(** new [SequenceCollection.get_translation] *)
Definition coll_get_translation_new (aa : str) (seqs : list str) (incomplete_ok include_stop trim_stop : bool)
  : res (list str) :=
  mapM (fun s => seq_get_translation_new aa s incomplete_ok include_stop trim_stop) seqs.

(** old [AlignmentI.trim_stop_codons] (Alignment and ArrayAlignment) *)
Definition aln_trim_old (aa : str) (rows : list str) (strict : bool) : res (list str) :=
  bind (coll_has_terminal_stop Old aa rows strict) (fun any =>
    if negb any then Ok rows else Ok (map (regex_trim aa) rows)).

Definition same_lengths (l : list str) : bool :=
  match l with
  | [] => true
  | a :: r => forallb (fun b => zlen b =? zlen a) r
  end.

(** old [AlignmentI.get_translation] *)
Definition aln_get_translation_old (aa : str) (rows : list str) (incomplete_ok include_stop trim_stop : bool)
  : res (list str) :=
  bind (if negb trim_stop || include_stop then Ok rows else aln_trim_old aa rows (negb incomplete_ok))
    (fun rows' =>
       bind (mapM (fun s => seq_get_translation_old aa s incomplete_ok include_stop (if fix_aln then false else true)) rows')
         (fun peps => if same_lengths peps then Ok peps else Err E_Value)).

End StopHandling.

(* ------------------------------------------------------------------ app.translate: best_frame, select_translatable *)

(** [tr[:-1] if tr.endswith("*") else tr] *)
Definition strip_terminal_stop (p : str) : str :=
  match rev p with
  | x :: r => if x =? ch_star then rev r else p
  | [] => p
  end.

Fixpoint first_open (l : list str) (i : Z) : option Z :=
  match l with
  | [] => None
  | p :: r => if memZ ch_star p then first_open r (i + 1) else Some i
  end.

(** [best_frame(seq, gc, allow_rc, require_stop=False)]: the old object's six (or three) frames,
    a terminal "*" dropped from each; sorting (number of stops, index) puts first the first frame
    without a stop; if there is none the smallest count is >= 1 with the stop inside: ValueError.
    Frames are 1, 2, 3 and -1, -2, -3 (frames of the reverse complement). *)
Definition best_frame (aa : str) (s : str) (allow_rc : bool) : res Z :=
  bind (sixframes_old aa DNA s) (fun trs =>
    let trs := if allow_rc then trs else firstn 3 trs in
    match first_open (map strip_terminal_stop trs) 0 with
    | Some i => Ok (if allow_rc && (3 <=? i) then 2 - i else i + 1)
    | None => Err E_Value
    end).

(** one sequence in [select_translatable(allow_rc=, trim_terminal_stop=).main] (frame chosen by
    best_frame): degap; a ValueError drops the sequence; a negative frame means reverse complement
    FIRST, then the offset; whole codons only; optional trimming of a terminal stop codon *)
Definition select_translatable_one (fe : bool) (aa : str) (s : str) (allow_rc trim : bool) : option str :=
  let d := degap s in
  match best_frame aa d allow_rc with
  | Err _ => None
  | Ok f =>
      let t := if f <? 0 then rc_pure dna_comp_old d else d in
      let off := Z.abs f - 1 in
      let num := (zlen t - off) / 3 in
      let w := firstn (Z.to_nat (3 * num)) (skipn (Z.to_nat off) t) in
      if trim then match trim_stop_codon fe Old aa w false with Ok w' => Some w' | Err _ => None end
      else Some w
  end.

(* ------------------------------------------------------------------ IUPAC ambiguity *)

Definition alpha_of (v : impl) (m : moltype) : list Z :=
  match v, m with
  | Old, DNA => dna_alpha_old | Old, RNA => rna_alpha_old
  | New, DNA => dna_alpha_new | New, RNA => rna_alpha_new
  end.

(** the [ambiguities] dictionary [resolve_ambiguity] works with when [alphabet is None] and
    [allow_gap=False]: old = [MolType.ambiguities] with the gap removed from "?";
    new = the degenerate symbols + gap + "?" + every monomer, same adjustment *)
Definition ambig_dict (v : impl) (m : moltype) : list (Z * list Z) :=
  let strip := fun (kv : Z * list Z) =>
    if fst kv =? ch_miss then (fst kv, filter (fun c => negb (c =? ch_gap)) (snd kv)) else kv in
  match v with
  | Old => map strip (match m with DNA => dna_ambig_old | RNA => rna_ambig_old end)
  | New =>
      let base := match m with DNA => dna_ambig_new | RNA => rna_ambig_new end in
      let al := alpha_of New m in
      map strip (base ++ [(ch_gap, [ch_gap]); (ch_miss, al ++ [ch_gap])] ++ map (fun c => (c, [c])) al)
  end.

(** [MolType.resolve_ambiguity(motif)] with the default arguments; the result is a set of
    words (the new implementation iterates frozensets), observed sorted *)
Definition resolve_ambiguity (v : impl) (m : moltype) (motif : str) : res (list str) :=
  let al := alpha_of v m in
  if (match v with New => negb (forallb (fun c => memZ c (dga m)) motif) | Old => false end) then Err E_Alpha
  else if negb (is_nil motif) && forallb (fun c => memZ c al) motif then Ok [motif]
  else
    match mapM (fun c => match assocZ c (ambig_dict v m) with Some s => Ok s | None => Err E_Alpha end) motif with
    | Err e => Err e
    | Ok sets =>
        let result := filter (fun w => forallb (fun c => memZ c al) w) (str_product sets) in
        match result with [] => Err E_Alpha | _ => Ok (sort_strs result) end
    end.

(** old [MolType._what_ambiguity(motifs)] *)
Definition what_ambiguity_old (m : moltype) (motifs : list Z) : Z :=
  let amb := match m with DNA => dna_ambig_old | RNA => rna_ambig_old end in
  let al := alpha_of Old m in
  snd (fold_left
         (fun (st : Z * Z) (kv : Z * list Z) =>
            let '(most_specific, result) := st in
            if subset motifs (snd kv) && (zlen (snd kv) <? most_specific)
            then (zlen (snd kv), fst kv) else st)
         amb (zlen al + 1, ch_miss)).

(** old [MolType.degenerate_from_seq]: the exact-match step on [inverse_degenerates] (every
    set of monomers has an entry); the later fall-back steps are outside the model *)
Definition degenerate_from_seq_old (m : moltype) (symbols : list Z) : res Z :=
  let inv := match m with DNA => dna_invdeg_old | RNA => rna_invdeg_old end in
  match find (fun kv => set_eqb (snd kv) symbols) inv with
  | Some kv => Ok (fst kv)
  | None => Err E_Unmodelled
  end.

(** new [MolType.degenerate_from_seq] *)
Definition degenerate_from_seq_new (m : moltype) (seq : list Z) : res Z :=
  let symbols := to_set seq in
  match symbols with
  | [] => Err E_Index
  | [c] => Ok c
  | _ =>
    let amb := match m with DNA => dna_ambig_new | RNA => rna_ambig_new end in
    (* every degenerate symbol is added to the sets that encompass its own set *)
    let degens := map (fun kv2 : Z * list Z =>
                         (fst kv2, snd kv2 ++ map fst (filter (fun kv1 : Z * list Z => subset (snd kv1) (snd kv2)) amb))) amb in
    let inv := map (fun kv => (to_set (snd kv), fst kv)) degens
               ++ [([ch_gap], ch_gap); (to_set (dga m), ch_miss)] in
    match find (fun e => set_eqb (fst e) symbols) inv with
    | Some e => Ok (snd e)
    | None =>
        (* sorted(encompassing, key=len)[0]: the first of minimal size *)
        let enc := filter (fun e => subset symbols (fst e)) inv in
        match enc with
        | [] => Err E_Index
        | e0 :: r =>
            Ok (snd (fold_left (fun best e => if zlen (fst e) <? zlen (fst best) then e else best) r e0))
        end
    end
  end.
