(** C13 — runner used by the correspondence check: applies a history of
    operations to the directory-store or sqlite-store model and prints, after
    every operation, what harness/props/c13_impl.py observes on the real store:
    [ret; live snapshot; snapshot of a fresh read-only instance (VN when equal)]. *)
From CG3 Require Import Lib.PyZ Lib.Val Lib.Chars Model.DataStore Model.SqlStore.

Fixpoint val_eqb (a b : val) : bool :=
  match a, b with
  | VZ x, VZ y => x =? y
  | VB x, VB y => Bool.eqb x y
  | VS x, VS y => str_eqb x y
  | VL x, VL y =>
      (fix go (l1 l2 : list val) : bool :=
         match l1, l2 with
         | [], [] => true
         | h1 :: t1, h2 :: t2 => val_eqb h1 h2 && go t1 t2
         | _, _ => false
         end) x y
  | VN, VN => true
  | VE x, VE y => x =? y
  | _, _ => false
  end.

Definition vstrs (l : list str) : val := VL (map VS l).

Definition res_val (r : res) : val :=
  match r with
  | ROk (Some id) => VS id
  | ROk None => VN
  | RExc c => VE c
  end.

(** the harness maps a stored hex digest back to "=" ++ payload *)
Definition md5_val (o : option str) : val :=
  match o with Some m => VS (61 :: m) | None => VN end.

Definition validate_val (code : Z) (o : option (Z * Z * Z * bool)) : val :=
  match o with
  | Some (a, b, c, h) => VL [VZ a; VZ b; VZ c; VB h]
  | None => VE code
  end.

(** ------------------------------------------------------------------ directory store *)

Definition d_snapshot (s : dstore) : dstore * val :=
  let (s1, c0) := ds_completed_ids s in
  let (s2, n0) := ds_not_completed_ids s1 in
  let c := sort_strs c0 in
  let n := sort_strs n0 in
  let lg := sort_strs (ds_logs s2) in
  let rec_val uid := VL [VS uid;
                         match ds_read s2 uid with Some d => VS d | None => VE E_IO end;
                         md5_val (ds_md5 s2 uid)] in
  let log_val uid := VL [VS uid; match ds_read s2 uid with Some d => VS d | None => VE E_IO end] in
  let (s3, v) := ds_validate s2 in
  (s3, VL [vstrs c; vstrs n; vstrs lg; VL (map rec_val (c ++ n)); VL (map log_val lg); validate_val E_IO v]).

Fixpoint run_dir (v : variant) (obs_every : bool) (s : dstore) (ops : list op) : list val :=
  match ops with
  | [] => []
  | o :: rest =>
      let (s1, r) := ds_step v s o in
      if obs_every || negb (nonempty rest) then
        let (s2, live) := d_snapshot s1 in
        let fresh := snd (d_snapshot (ds_reopen s2 MR)) in
        VL [res_val r; live; if val_eqb fresh live then VN else fresh] :: run_dir v obs_every s2 rest
      else VL [res_val r; VN; VN] :: run_dir v obs_every s1 rest
  end.

(** ------------------------------------------------------------------ sqlite store *)

Definition q_snapshot (s : sqlstore) : sqlstore * val :=
  let (s1, c0) := sq_completed_prop s in
  let (s2, n0) := sq_nc_prop s1 in
  let c := sort_strs c0 in
  let n := sort_strs n0 in
  let lg := sort_strs (sq_logs s2) in
  let read_val uid := match sq_read s2 uid with inl d => VS d | inr e => VE e end in
  let rec_val uid := VL [VS uid; read_val uid; md5_val (sq_md5 s2 uid)] in
  let log_val uid := VL [VS uid; read_val uid] in
  let (s3, v) := sq_validate s2 in
  (s3, VL [vstrs c; vstrs n; vstrs lg; VL (map rec_val (c ++ n)); VL (map log_val lg); validate_val E_Type v]).

Fixpoint run_sql (v : variant) (obs_every : bool) (s : sqlstore) (ops : list op) : list val :=
  match ops with
  | [] => []
  | o :: rest =>
      let (s1, r) := sq_step v s o in
      if obs_every || negb (nonempty rest) then
        let (s2, live) := q_snapshot s1 in
        let fresh := snd (q_snapshot (sq_reopen s2 MR)) in
        VL [res_val r; live; if val_eqb fresh live then VN else fresh] :: run_sql v obs_every s2 rest
      else VL [res_val r; VN; VN] :: run_sql v obs_every s1 rest
  end.

(** a case: (variant of the code, directory store?, suffix, initial mode, observe after every op?, history) *)
Definition run_case (c : variant * bool * list Z * mode * bool * list op) : val :=
  let '(v, isdir, sfx, m, obs_every, ops) := c in
  if isdir then VL (run_dir v obs_every (ds_new sfx m) ops)
  else VL (run_sql v obs_every (sq_new m) ops).
