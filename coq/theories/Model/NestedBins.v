(** C16 — rate classes (bins > 1) and loci > 1: what the code does, and the
    vocabulary needed to state what exact initialisation WOULD mean.

    compatible_likelihood_functions (likelihood_function.py l.~215-232) is the
    first thing initialise_from_nested calls after the nfp assertion:
        if len(lf1.bin_names) != 1 or len(lf1.bin_names) != len(lf2.bin_names):
            raise NotImplementedError("Too many bins")
        if len(lf1.locus_names) != 1 or ...: raise NotImplementedError("Too many loci")
        motifs differ -> AssertionError ; tree newick differs -> AssertionError
    so with more than one bin the projection is never reached.  No proofs here. *)
From CG3 Require Import Lib.PyZ Lib.Val Model.Nested.

(** exception codes: 7 = NotImplementedError, 9 = AssertionError *)
Definition compatible (nbins1 nbins2 nloci1 nloci2 : Z) (motifs_equal newick_equal : bool) : mres unit :=
  if negb (nbins1 =? 1) || negb (nbins1 =? nbins2) then MErr 7
  else if negb (nloci1 =? 1) || negb (nloci1 =? nloci2) then MErr 7
  else if negb motifs_equal then MErr 9
  else if negb newick_equal then MErr 9
  else MOk tt.

(** a parameter rule that may also be scoped by bin ("bin" / "bins" keys of
    set_param_rule): what get_param_rules produces for e.g. the per-bin "rate"
    parameter of a discrete-gamma model *)
Record brule := mkbrule {
  b_par : name; b_edges : option (list name); b_bins : option (list name); b_val : Z
}.

(** _get_keyed_rule_indices builds its keys from par_name and edge(s) ONLY *)
Definition forget_bins (r : brule) : rule := mkrule (b_par r) (b_edges r) (b_val r).

(** value the rules give parameter [p] on edge [e] in bin [k] *)
Fixpoint bvalue_at (rules : list brule) (p e k : name) : option Z :=
  match rules with
  | [] => None
  | r :: t =>
      if name_eqb (b_par r) p
         && (match b_edges r with None => true | Some es => mem_name e es end)
         && (match b_bins r with None => true | Some ks => mem_name k ks end)
      then Some (b_val r) else bvalue_at t p e k
  end.
