(** C09 — executable model of the Robinson-Foulds distances of
    cogent3/phylo/tree_distance.py ([rooted_robinson_foulds],
    [unrooted_robinson_foulds]) over [TreeNode.subsets()].

    Python frozensets of names are lists of names compared as sets
    ([set_eqb]); frozensets of frozensets are lists of such lists, membership
    by [set_eqb].  No proofs in this file. *)
From CG3 Require Import Lib.PyZ Lib.Val Lib.Rose Model.Tree.

Definition subset_b (a b : list name) : bool := forallb (fun x => memb x b) a.
Definition set_eqb (a b : list name) : bool := subset_b a b && subset_b b a.

(** membership in a set of sets *)
Definition smemb (c : list name) (S : list (list name)) : bool := existsb (set_eqb c) S.

(** a list of sets as a set of sets: drop later repeats *)
Fixpoint sdedupe (S : list (list name)) : list (list name) :=
  match S with
  | [] => []
  | c :: r => if smemb c r then sdedupe r else c :: sdedupe r
  end.

(** number of distinct elements of a list of names ([len(frozenset)]) *)
Fixpoint nodup_count (l : list name) : nat :=
  match l with
  | [] => O
  | x :: r => if memb x r then nodup_count r else S (nodup_count r)
  end.

(** [subsets()]: the leaf sets of all nodes below the root that have more than
    one (distinct) leaf name, in postorder; a tip's leaf set is its own name *)
Fixpoint leaf_sets_below (t : tree) : list (list name) :=
  match t with
  | Node _ _ cs =>
      flat_map (fun c => leaf_sets_below c ++
                         (if Nat.ltb 1 (nodup_count (tips c)) then [tips c] else [])) cs
  end.

Definition subsets (t : tree) : list (list name) := sdedupe (leaf_sets_below t).

(** [len(A.symmetric_difference(B))] for two sets of sets *)
Definition symdiff_count (A B : list (list name)) : Z :=
  Z.of_nat (length (filter (fun c => negb (smemb c B)) A))
  + Z.of_nat (length (filter (fun c => negb (smemb c A)) B)).

Definition same_tip_set (t1 t2 : tree) : bool := set_eqb (tips t1) (tips t2).

Definition rooted_rf (t1 t2 : tree) : res Z :=
  if negb (same_tip_set t1 t2) then Err E_Value                                  (* tree tip names must match *)
  else if negb (Nat.eqb (length (kids t1)) 2) || negb (Nat.eqb (length (kids t2)) 2)
  then Err E_Value                                                               (* trees must be rooted *)
  else Ok (symdiff_count (subsets t1) (subsets t2)).

(** [_compute_splits]: every clade is replaced by the side of its split that
    contains the reference tip; [names] = all tip names *)
Definition other_side (names c : list name) : list name := filter (fun x => negb (memb x c)) names.

Definition compute_splits (ref : name) (names : list name) (clades : list (list name)) : list (list name) :=
  sdedupe (map (fun c => if memb ref c then c else other_side names c) clades).

Definition unrooted_rf (t1 t2 : tree) : res Z :=
  let names := tips t1 in
  if negb (same_tip_set t1 t2) then Err E_Value
  else if Nat.eqb (length (kids t1)) 2 || Nat.eqb (length (kids t2)) 2 then Err E_Value   (* trees must be unrooted *)
  else
    match names with
    | [] => Err E_Index
    | ref :: _ =>
        Ok (symdiff_count (compute_splits ref names (subsets t1)) (compute_splits ref names (subsets t2)))
    end.

(** [tree_distance(other, method="rf")]: rooted iff the receiver has exactly two children *)
Definition tree_distance_rf (t1 t2 : tree) : res Z :=
  let r1 := Nat.eqb (length (kids t1)) 2 in
  let r2 := Nat.eqb (length (kids t2)) 2 in
  if negb (Bool.eqb r1 r2) then Err E_Value
  else if r1 then rooted_rf t1 t2 else unrooted_rf t1 t2.
