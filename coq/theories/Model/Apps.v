(** Model of the composable-app machinery of cogent3 (property C14).

    Transcribed from
      src/cogent3/app/composable.py   _call (l.352-390), _validate_data_type (l.393-419),
                                      _add (input chain), source_proxy (l.290-349),
                                      _proxy_input (l.657), _source_wrapped (l.669),
                                      _as_completed (l.680-725), _apply_to (l.738-842)
      src/cogent3/app/io.py           writer .main (write_json l.533-544; the other writers
                                      have the same identifier / NotCompleted routing)
      src/cogent3/app/data_store.py   get_unique_id (l.716), get_data_source (l.723-767),
                                      DataStoreDirectory.__contains__/_write/write/
                                      write_not_completed/drop_not_completed (l.380-566)
      src/cogent3/util/io.py          get_format_suffixes (l.316)
      src/cogent3/util/parallel.py    as_completed: yields each submitted result once, in
                                      completion order (modelled as a re-ordering [sched])

    The data store is modelled in this file only as far as apply_to needs it:
    an insertion-ordered dictionary of completed records, the live list of
    not-completed records, a log counter and the mode.  What distinguishes the
    concrete stores is collected in a record [skind] of four string functions
    (file name of a completed record, name of a not-completed record, the
    string `x in store` compares, and which not-completed records a completed
    write retires).  [dict_kind] is the plain dictionary; [dir_kind] is
    DataStoreDirectory(suffix="json") transcribed literally, including its
    `Path(unique_id).stem` normalisation and its `endswith` retirement rule.

    No proofs in this file. *)
From CG3 Require Import Lib.PyZ Lib.Val.

Definition str := list Z.

(* ------------------------------------------------------------------ strings *)

Fixpoint str_eqb (a b : str) : bool :=
  match a, b with
  | [], [] => true
  | x :: a', y :: b' => (x =? y) && str_eqb a' b'
  | _, _ => false
  end.

Definition mem_str (x : str) (l : list str) : bool := existsb (str_eqb x) l.

Definition ostr_eqb (a b : option str) : bool :=
  match a, b with
  | None, None => true
  | Some x, Some y => str_eqb x y
  | _, _ => false
  end.

Definition is_empty {A} (l : list A) : bool := match l with [] => true | _ => false end.

(** python [s.split(c)] *)
Fixpoint split_on (c : Z) (cur s : str) : list str :=
  match s with
  | [] => [cur]
  | x :: r => if x =? c then cur :: split_on c [] r else split_on c (cur ++ [x]) r
  end.

Fixpoint starts_with (p s : str) : bool :=
  match p, s with
  | [], _ => true
  | x :: p', y :: s' => (x =? y) && starts_with p' s'
  | _ :: _, [] => false
  end.

Definition ends_with (s suf : str) : bool := starts_with (rev suf) (rev s).

Fixpoint contains_sub (p s : str) : bool :=
  starts_with p s || match s with [] => false | _ :: r => contains_sub p r end.

(** python [s.replace(pat, "")] for non-empty [pat] *)
Fixpoint remove_all_aux (pat s : str) (skip : nat) : str :=
  match s with
  | [] => []
  | c :: r =>
      match skip with
      | S k => remove_all_aux pat r k
      | O => if starts_with pat s then remove_all_aux pat r (length pat - 1)
             else c :: remove_all_aux pat r O
      end
  end.
Definition remove_all (pat s : str) : str := remove_all_aux pat s O.

Definition lower_c (c : Z) : Z := if (65 <=? c) && (c <=? 90) then c + 32 else c.
Definition lower (s : str) : str := map lower_c s.

Fixpoint lstrip_dot (s : str) : str :=
  match s with
  | c :: r => if c =? 46 then lstrip_dot r else s
  | [] => []
  end.

Definition join_dot (l : list str) : str :=
  match l with [] => [] | x :: r => x ++ flat_map (fun y => 46 :: y) r end.

Fixpoint join_with (sep : str) (l : list str) : str :=
  match l with
  | [] => []
  | [x] => x
  | x :: r => x ++ sep ++ join_with sep r
  end.

Definition s_ERROR : str := [69;82;82;79;82]. (* 'ERROR' *)
Definition s_BUG : str := [66;85;71]. (* 'BUG' *)
Definition s_FALSE : str := [70;65;76;83;69]. (* 'FALSE' *)
Definition s_str : str := [115;116;114]. (* 'str' *)
Definition s_NotCompleted : str := [78;111;116;67;111;109;112;108;101;116;101;100]. (* 'NotCompleted' *)
Definition s_NoneType : str := [78;111;110;101;84;121;112;101]. (* 'NoneType' *)
Definition s_list : str := [108;105;115;116]. (* 'list' *)
Definition m_none_in : str := [117;110;101;120;112;101;99;116;101;100;32;105;110;112;117;116;32;118;97;108;117;101;32;78;111;110;101]. (* 'unexpected input value None' *)
Definition m_none_out : str := [117;110;101;120;112;101;99;116;101;100;32;111;117;116;112;117;116;32;118;97;108;117;101;32;78;111;110;101]. (* 'unexpected output value None' *)
Definition m_empty : str := [101;109;112;116;121;32;100;97;116;97]. (* 'empty data' *)
Definition m_invalid1 : str := [105;110;118;97;108;105;100;32;100;97;116;97;32;116;121;112;101;44;32;39]. (* "invalid data type, '" *)
Definition m_invalid2 : str := [39;32;110;111;116;32;105;110;32]. (* "' not in " *)
Definition s_commasp : str := [44;32]. (* ', ' *)
Definition s_json : str := [106;115;111;110]. (* 'json' *)
Definition s_dotjson : str := [46;106;115;111;110]. (* '.json' *)
Definition s_dotlog : str := [46;108;111;103]. (* '.log' *)
Definition s_bz2 : str := [98;122;50]. (* 'bz2' *)
Definition s_gz : str := [103;122]. (* 'gz' *)
Definition s_zip : str := [122;105;112]. (* 'zip' *)
Definition s_ncdir : str := [110;111;116;95;99;111;109;112;108;101;116;101;100;47]. (* 'not_completed/' *)

(* ------------------------------------------------------------------ pathlib / identifiers *)

(** [Path(s).name] for '/'-separated text without trailing '/' or dot components *)
Definition basename (s : str) : str := last (split_on 47 [] s) [].

(** [PurePath.suffix] of a final component (python 3.12):
    i = name.rfind('.'); name[i:] if 0 < i < len(name)-1 else '' *)
Definition py_suffix (n : str) : str :=
  let lst := last (split_on 46 [] n) [] in
  let i := zlen n - zlen lst - 1 in
  if (0 <? i) && (i <? zlen n - 1) then 46 :: lst else [].

Definition py_stem (n : str) : str := firstn (length n - length (py_suffix n)) n.

(** [PurePath.suffixes], each without its leading period *)
Definition py_suffixes (n : str) : list str :=
  if ends_with n [46] then [] else tl (split_on 46 [] (lstrip_dot n)).

Definition last2 {A} (l : list A) : list A := skipn (length l - 2) l.

Definition is_cmp (s : str) : bool := str_eqb s s_bz2 || str_eqb s s_gz || str_eqb s s_zip.

(** util/io.py get_format_suffixes *)
Definition get_format_suffixes (n : str) : option str * option str :=
  if is_empty (py_suffix n) then (None, None) else
  let sf := map lower (last2 (py_suffixes n)) in
  let lst := last sf [] in
  let cmp := if is_cmp lst then Some lst else None in
  let sfx := match cmp with
             | Some _ => if Nat.eqb (length sf) 2 then Some (hd [] sf) else None
             | None => Some lst
             end in
  (sfx, cmp).

Definition opt_nonempty (o : option str) : list str :=
  match o with Some (c :: s) => [c :: s] | _ => [] end.

(** data_store.py get_unique_id on the text of a source: basename, then
    re.sub("[.]" + ".".join(suffixes) + "$", "", name).  The suffix text comes
    from the name itself (lower-cased), so for names over [A-Za-z0-9_-.] the
    regular expression matches iff the name literally ends with it. *)
Definition get_unique_id (name : str) : str :=
  let n := basename name in
  let '(sfx, cmp) := get_format_suffixes n in
  let pat := 46 :: join_dot (opt_nonempty sfx ++ opt_nonempty cmp) in
  if ends_with n pat then firstn (length n - length pat) n else n.

(* ------------------------------------------------------------------ values *)

(** What flows through a pipeline.  [VObj cls key trace src truthy] is an
    instance of a user class named [cls] carrying [.source = src]; [key]
    identifies the originating input and [trace] what has been done to it;
    [truthy] is [bool(obj)].  [VList] is a builtin list of such objects. *)
Inductive value : Type :=
| VStr (s : str)
| VObj (cls key trace : str) (src : option str) (truthy : bool)
| VList (items : list (str * str * str * option str))
| VNone
| VNC (ty origin msg : str) (src : option str).

Definition is_nc (v : value) : bool := match v with VNC _ _ _ _ => true | _ => false end.

(** get_data_source *)
Definition source_of (v : value) : option str :=
  match v with
  | VStr s => Some (basename s)
  | VObj _ _ _ src _ => option_map basename src
  | VNC _ _ _ src => option_map basename src
  | VList _ => None
  | VNone => None
  end.

Definition class_name (v : value) : str :=
  match v with
  | VStr _ => s_str
  | VObj cls _ _ _ _ => cls
  | VList _ => s_list
  | VNone => s_NoneType
  | VNC _ _ _ _ => s_NotCompleted
  end.

Definition truthy (v : value) : bool :=
  match v with
  | VStr s => negb (is_empty s)
  | VObj _ _ _ _ t => t
  | VList l => negb (is_empty l)
  | VNone => false
  | VNC _ _ _ _ => false
  end.

(** NotCompleted(type, origin, message, source=v): source = get_data_source(v) *)
Definition mk_nc (ty origin msg : str) (source : option str) : value := VNC ty origin msg source.

(* ------------------------------------------------------------------ apps *)

Inductive apptype := LOADER | GENERIC | WRITER.

Definition is_loader (t : apptype) : bool := match t with LOADER => true | _ => false end.

Inductive outcome : Type :=
| Ret (v : value)          (* main returned v (VNone: returned None; VNC: returned a NotCompleted) *)
| Raise (lastline : str).  (* main raised; the last line of the traceback *)

(** an app instance: class name, app_type, _data_types (None: accepts anything,
    i.e. empty or containing SerialisableType/IdentifierType), _skip_not_completed, main *)
Record step := mkstep {
  s_name : str;
  s_kind : apptype;
  s_types : option (list str);
  s_skip : bool;
  s_main : value -> outcome }.

(** _validate_data_type: [None] = returned True; [Some v] = returned the falsy value v *)
Definition validate (self : step) (data : value) : option value :=
  if is_nc data && s_skip self then Some data else
  match s_types self with
  | None => None
  | Some tys =>
      let chk (cls : str) (src : option str) :=
        if mem_str cls tys then None
        else Some (mk_nc s_ERROR (s_name self)
                     (m_invalid1 ++ cls ++ m_invalid2 ++ join_with s_commasp tys) src) in
      match data with
      | VList [] => Some (mk_nc s_ERROR (s_name self) m_empty None)
      | VList ((cls, _, _, src) :: _) => chk cls (option_map basename src)
      | _ => chk (class_name data) (source_of data)
      end
  end.

(** main wrapped by the exception capture and the None check of _call *)
Definition run_main (self : step) (val : value) : value :=
  let result := match s_main self val with
                | Ret r => r
                | Raise m => mk_nc s_ERROR (s_name self) m (source_of val)
                end in
  match result with
  | VNone => mk_nc s_BUG (s_name self) m_none_out (source_of val)
  | _ => result
  end.

(** _call on a composed app.  [chain] lists the composed apps starting with
    the one that was called: for [a + b + c] it is [c; b; a] (c.input = b,
    b.input = a). *)
Fixpoint call (chain : list step) (val : value) : value :=
  match chain with
  | [] => val
  | self :: ups =>
      let val := match val with
                 | VNone => mk_nc s_ERROR (s_name self) m_none_in None
                 | _ => val
                 end in
      if is_nc val && s_skip self then val else
      let upstream :=                         (* app_type is not LOADER and self.input *)
        match ups with
        | [] => (val, false)
        | _ :: _ => if is_loader (s_kind self) then (val, false)
                    else let v := call ups val in (v, is_nc v && s_skip self)
        end in
      if snd upstream then fst upstream else
      let val := fst upstream in
      match validate self val with
      | Some falsy => falsy
      | None => run_main self val
      end
  end.

(** the same, also recording every invocation of a [main]: (app name, argument) *)
Fixpoint call_log (chain : list step) (val : value) : value * list (str * value) :=
  match chain with
  | [] => (val, [])
  | self :: ups =>
      let val := match val with
                 | VNone => mk_nc s_ERROR (s_name self) m_none_in None
                 | _ => val
                 end in
      if is_nc val && s_skip self then (val, []) else
      let upstream :=
        match ups with
        | [] => (val, [], false)
        | _ :: _ => if is_loader (s_kind self) then (val, [], false)
                    else let '(v, lg) := call_log ups val in (v, lg, is_nc v && s_skip self)
        end in
      let '(val, lg, stop) := upstream in
      if stop then (val, lg) else
      match validate self val with
      | Some falsy => (falsy, lg)
      | None => (run_main self val, lg ++ [(s_name self, val)])
      end
  end.

(* ------------------------------------------------------------------ data store *)

Inductive result (A : Type) : Type :=
| Ok (a : A)
| Exc (code : Z).
Arguments Ok {A} a.
Arguments Exc {A} code.

Record skind := mkkind {
  k_fname : str -> str;           (* name under which write(unique_id=id) files the record *)
  k_ncname : str -> str;          (* name under which the writer files a NotCompleted for identifier id *)
  k_item : str -> str;            (* the text `x in store` compares with the completed names *)
  k_retire : str -> str -> bool   (* [k_retire n id]: write(unique_id=id) drops the not-completed record named n *)
}.

Definition dict_kind : skind := mkkind (fun i => i) (fun i => i) (fun i => i) str_eqb.

(** DataStoreDirectory(suffix="json") *)
Definition dir_fname (uid : str) : str :=
  match fst (get_format_suffixes uid) with
  | Some sfx => if str_eqb sfx s_json then uid else py_stem uid ++ s_dotjson
  | None => py_stem uid ++ s_dotjson
  end.
Definition dir_ncname (id : str) : str := dir_fname (id ++ s_dotjson).
Definition dir_item (x : str) : str :=
  if ends_with x s_dotlog || ends_with x s_dotjson then x
  else if contains_sub s_json x then x else x ++ s_dotjson.
Definition dir_retire (n id : str) : bool :=
  let u := remove_all s_dotjson id in
  if is_empty u then true else ends_with (s_ncdir ++ n) (u ++ s_dotjson).
Definition dir_kind : skind := mkkind dir_fname dir_ncname dir_item dir_retire.

(** DataStoreDirectory(suffix="json") after the repairs of __contains__ (the
    suffix is a trailing dotted component, not any occurrence of the text) and
    of drop_not_completed (`Path(m.unique_id).name != unique_id`: exact file
    name instead of `endswith`).  The Path.stem normalisation of _write is
    unchanged.  Selected by the driver's behavioural probe. *)
Definition dir_item_fixed (x : str) : str :=
  if ends_with x s_dotlog || ends_with x s_dotjson then x else x ++ s_dotjson.
Definition dir_retire_exact (n id : str) : bool :=
  let u := remove_all s_dotjson id in
  if is_empty u then true else str_eqb n (u ++ s_dotjson).
Definition dir_kind_fixed : skind := mkkind dir_fname dir_ncname dir_item_fixed dir_retire_exact.

Record store := mkstore {
  st_done : list (str * (str * value));  (* completed: file name -> (identifier handed to write, data) *)
  st_nc : list (str * value);            (* live not_completed member list: name, data *)
  st_logs : Z;
  st_mode : Z }.                         (* 0 = r, 1 = w, 2 = a *)

Definition done_names (st : store) : list str := map fst (st_done st).

(** `x in store` (only completed names can match a '/'-free text) *)
Definition contains (K : skind) (st : store) (x : str) : bool := mem_str (k_item K x) (done_names st).

(** DataStoreABC._check_writable *)
Definition check_writable (K : skind) (st : store) (uid : str) : option Z :=
  if st_mode st =? 0 then Some E_IO
  else if contains K st uid && (st_mode st =? 2) then Some E_IO
  else None.

(** write(unique_id=id, data): _write, then drop_not_completed(unique_id=id) *)
Definition write (K : skind) (st : store) (id : str) (data : value) : result store :=
  match check_writable K st id with
  | Some e => Exc e
  | None =>
      let uid := k_fname K id in
      let done := if contains K st uid then st_done st else st_done st ++ [(uid, (id, data))] in
      let nc := filter (fun e => negb (k_retire K (fst e) id)) (st_nc st) in
      Ok (mkstore done nc (st_logs st) (st_mode st))
  end.

(** writer: write_not_completed(unique_id=f"{identifier}.json", data) *)
Definition write_nc (K : skind) (st : store) (id : str) (data : value) : result store :=
  let uid := k_ncname K id in
  match check_writable K st uid with
  | Some e => Exc e
  | None =>
      if contains K st uid then Ok st
      else Ok (mkstore (st_done st) (st_nc st ++ [(uid, data)]) (st_logs st) (st_mode st))
  end.

(** id_from_source(x) = get_unique_id(x): TypeError when get_data_source gives None *)
Definition unique_id_of (src : option str) : option str := option_map get_unique_id src.

(** writer.main(data, identifier=...) of app/io.py *)
Definition writer_main (K : skind) (st : store) (data : value) (identifier : option str) : result store :=
  let ident := match identifier with
               | Some (c :: s) => Some (c :: s)
               | _ => unique_id_of (source_of data)      (* identifier or self._id_from_source(data) *)
               end in
  match ident with
  | None => Exc E_Type
  | Some i => if is_nc data then write_nc K st i data else write K st i data
  end.

(* ------------------------------------------------------------------ apply_to *)

(** element of the work list: a source_proxy (obj, src) or an object that has
    its own .source attribute *)
Inductive item : Type :=
| Wrapped (obj src : value)
| Bare (v : value).

Definition has_source_attr (v : value) : bool :=
  match v with VObj _ _ _ _ _ => true | VNC _ _ _ _ => true | _ => false end.

(** _proxy_input *)
Definition proxy_input (l : list value) : list item :=
  flat_map (fun e => if truthy e then [if has_source_attr e then Bare e else Wrapped e e] else []) l.

(** _source_wrapped *)
Definition source_wrapped (chain : list step) (it : item) : item :=
  match it with
  | Bare v => Bare (call chain v)
  | Wrapped obj src => Wrapped (call chain obj) src
  end.

(** getattr(result, "obj", result) and id_from_source(result.source):
    [None] = AttributeError/TypeError *)
Definition result_data (it : item) : value :=
  match it with Bare v => v | Wrapped obj _ => obj end.

Definition result_id (it : item) : option str :=
  match it with
  | Wrapped _ src => unique_id_of (source_of src)
  | Bare (VObj _ _ _ src _) => unique_id_of (option_map basename src)
  | Bare (VNC _ _ _ src) => unique_id_of (option_map basename src)
  | Bare _ => None
  end.

(** the loop that builds `inputs` (dict: identifier -> member) *)
Fixpoint collect (K : skind) (st : store) (seen : list (str * value)) (ms : list value)
  : result (list (str * value)) :=
  match ms with
  | [] => Ok seen
  | m :: r =>
      match unique_id_of (source_of m) with
      | None => Exc E_Type
      | Some id =>
          if mem_str id (map fst seen) then Exc E_Value
          else if contains K st id then collect K st seen r
          else collect K st (seen ++ [(id, m)]) r
      end
  end.

(** the body of the `for result in self.as_completed(...)` loop *)
Definition write_result (K : skind) (acc : result store) (it : item) : result store :=
  match acc with
  | Exc e => Exc e
  | Ok st =>
      match result_id it with
      | None => Exc E_Type
      | Some id => writer_main K st (result_data it) (Some id)
      end
  end.

Definition write_results (K : skind) (st : store) (rs : list item) : result store :=
  fold_left (write_result K) rs (Ok st).

(** as_completed: the results in the order [sched] (positions into the serial result list) *)
Definition reorder {A} (sched : list nat) (rs : list A) : list A :=
  flat_map (fun i => match nth_error rs i with Some r => [r] | None => [] end) sched.

(** writer.apply_to(inputs, parallel=..., logger=...) where the composed app
    is [chain + writer]; [sched = None]: serial; [Some p]: completion order p *)
Definition apply_to (K : skind) (chain : list step) (st : store) (inputs : list value)
           (sched : option (list nat)) (logging : bool) : result store :=
  match chain with
  | [] => Exc E_Other                                    (* not part of a composed function *)
  | _ :: _ =>
      match collect K st [] inputs with
      | Exc e => Exc e
      | Ok todo =>
          if is_empty inputs then Exc E_Value            (* "dstore is empty" *)
          else
            let mapped := proxy_input (map snd todo) in
            let serial := map (source_wrapped chain) mapped in
            let rs := match sched with None => serial | Some p => reorder p serial end in
            match write_results K st rs with
            | Exc e => Exc e
            | Ok st' =>
                if logging then
                  match check_writable K st' s_dotlog with     (* write_log: a fresh uuid-named .log *)
                  | Some e => Exc e
                  | None => Ok (mkstore (st_done st') (st_nc st') (st_logs st' + 1) (st_mode st'))
                  end
                else Ok st'
            end
      end
  end.

(* ------------------------------------------------------------------ repaired variants *)

(** The code after the repairs of _proxy_input (skips only None and empty
    str/bytes), of _apply_to (every input travels in a source_proxy) and of the
    directory store writes (an existing member is replaced, never listed
    twice; write() retires the not-completed record first).  Each repair is a
    flag, so that the model can follow any combination the driver's
    behavioural probes find; [pinned] is the code before the repairs (the
    definitions above), [repaired] the current code. *)
Record variant := mkvariant { v_keepfalsy : bool; v_wrapall : bool; v_upsert : bool }.
Definition pinned : variant := mkvariant false false false.
Definition repaired : variant := mkvariant true true true.

(** replace the record named n wherever it is listed, else append it *)
Definition upsert {A} (n : str) (x : A) (l : list (str * A)) : list (str * A) :=
  if mem_str n (map fst l) then map (fun e => if str_eqb (fst e) n then (n, x) else e) l
  else l ++ [(n, x)].

Definition write_v (V : variant) (K : skind) (st : store) (id : str) (data : value) : result store :=
  match check_writable K st id with
  | Some e => Exc e
  | None =>
      let uid := k_fname K id in
      let nc := filter (fun e => negb (k_retire K (fst e) id)) (st_nc st) in
      let done := if v_upsert V then upsert uid (id, data) (st_done st)
                  else if contains K st uid then st_done st else st_done st ++ [(uid, (id, data))] in
      Ok (mkstore done nc (st_logs st) (st_mode st))
  end.

Definition write_nc_v (V : variant) (K : skind) (st : store) (id : str) (data : value) : result store :=
  let uid := k_ncname K id in
  match check_writable K st uid with
  | Some e => Exc e
  | None =>
      if v_upsert V then Ok (mkstore (st_done st) (upsert uid data (st_nc st)) (st_logs st) (st_mode st))
      else if contains K st uid then Ok st
      else Ok (mkstore (st_done st) (st_nc st ++ [(uid, data)]) (st_logs st) (st_mode st))
  end.

Definition writer_main_v (V : variant) (K : skind) (st : store) (data : value) (identifier : option str) : result store :=
  let ident := match identifier with
               | Some (c :: s) => Some (c :: s)
               | _ => unique_id_of (source_of data)
               end in
  match ident with
  | None => Exc E_Type
  | Some i => if is_nc data then write_nc_v V K st i data else write_v V K st i data
  end.

Definition write_result_v (V : variant) (K : skind) (acc : result store) (it : item) : result store :=
  match acc with
  | Exc e => Exc e
  | Ok st =>
      match result_id it with
      | None => Exc E_Type
      | Some id => writer_main_v V K st (result_data it) (Some id)
      end
  end.

Definition write_results_v (V : variant) (K : skind) (st : store) (rs : list item) : result store :=
  fold_left (write_result_v V K) rs (Ok st).

(** _proxy_input on the elements of a list; [wrapped]: the elements already are
    source_proxy objects (apply_to after the repair), whose bool() is that of
    the object and which are neither None nor a str *)
Definition dropped (V : variant) (wrapped : bool) (e : value) : bool :=
  if v_keepfalsy V then
    (if wrapped then false else match e with VNone => true | VStr [] => true | _ => false end)
  else negb (truthy e).

Definition proxy_input_v (V : variant) (wrapped : bool) (l : list value) : list item :=
  flat_map (fun e => if dropped V wrapped e then []
                     else [if wrapped then Wrapped e e
                           else if has_source_attr e then Bare e else Wrapped e e]) l.

Definition apply_to_v (V : variant) (K : skind) (chain : list step) (st : store) (inputs : list value)
           (sched : option (list nat)) (logging : bool) : result store :=
  match chain with
  | [] => Exc E_Other
  | _ :: _ =>
      match collect K st [] inputs with
      | Exc e => Exc e
      | Ok todo =>
          if is_empty inputs then Exc E_Value
          else
            let mapped := proxy_input_v V (v_wrapall V) (map snd todo) in
            let serial := map (source_wrapped chain) mapped in
            let rs := match sched with None => serial | Some p => reorder p serial end in
            match write_results_v V K st rs with
            | Exc e => Exc e
            | Ok st' =>
                if logging then
                  match check_writable K st' s_dotlog with
                  | Some e => Exc e
                  | None => Ok (mkstore (st_done st') (st_nc st') (st_logs st' + 1) (st_mode st'))
                  end
                else Ok st'
            end
      end
  end.

(* ------------------------------------------------------------------ composition (`+`) *)

(** _add: [None] = accepted, [Some code] = raised.  [ret] is self._return_types
    (None: contains SerialisableType/IdentifierType), [other] the right operand *)
Definition add_check (self_kind : apptype) (self_ret : option (list str)) (other : step) : option Z :=
  match self_kind, s_kind other with
  | WRITER, _ => Some E_Type
  | _, LOADER => Some E_Type
  | _, _ =>
      match self_ret with
      | None => None
      | Some [] => Some E_Type
      | Some rts =>
          match s_types other with
          | None => Some E_Type   (* other._data_types = {SerialisableType}: no overlap with named types *)
          | Some [] => Some E_Type
          | Some dts => if existsb (fun t => mem_str t dts) rts then None else Some E_Type
          end
      end
  end.
