(** C04, alignment side: features of a sequence seen through an alignment.

    Transcribed from
      /repo/src/cogent3/core/alignment.py  Alignment._get_seq_features (l.5192-5263, with the row-without-residues
                                           repair), Aligned.make_feature (l.2463-2468),
                                           AlignmentI.get_projected_feature (l.4688-4719),
                                           Alignment._mapped / Aligned.__getitem__(FeatureMap) (via the C03 model)
      /repo/src/cogent3/core/annotation.py Feature.remapped_to (l.156), get_slice, _do_seq_slice
      /repo/src/cogent3/core/location.py   IndelMap.to_feature_map (l.1592)
    on top of the C08 models of IndelMap / FeatureMap ([spans], [fm_inverse],
    [fm_getitem_map] = Span.remap_with), the C03 model of an [Aligned] row
    ([arow] = indel map x sequence view; [row_getitem_slice], [row_rc],
    [row_getitem_locs], [row_gapped]) and the sequence-level model Model/Annot.v.
    No proofs here. *)
From CG3 Require Import Lib.PyZ Lib.Val Lib.PySlice Model.View Model.Annot.
From CG3 Require Import Model.IndelMap Model.IndelMapFixed Model.FeatureMap Model.Aligned.

(** [IndelMap.to_feature_map]: [FeatureMap(spans=list(self.spans), parent_length)] *)
Definition ispan_fspan (s : ispan) : fspan :=
  match s with ISpan a b => mk_span a b false | ILost n => FL n end.

Definition to_feature_map (m : imap) : fmap := mk_fmap (map ispan_fspan (spans m)) (parent_length m).

(** a sequence-level map (Model/Annot.v) as a FeatureMap over a sequence of length [n] *)
Definition span_fspan (s : Annot.span) : fspan :=
  match s with SSpan a b => mk_span a b false | SLost n => FL n end.

Definition fmap_of (n : Z) (m : list Annot.span) : fmap := mk_fmap (map span_fspan m) n.

(** and back, for [Sequence.__getitem__(FeatureMap)] *)
Definition fspan_span (s : fspan) : Annot.span :=
  match s with FS a b _ => SSpan a b | FL n => SLost n end.

(** [Aligned.make_feature(feature, alignment)]:
    [annot = self.data.make_feature(feature)], then
    [annot.remapped_to(alignment, self.map.to_feature_map().inverse())], i.e. [inverted[annot.map]].
    Result: strand relative to the alignment view and the map in alignment columns *)
Definition aligned_make_feature (fx : Annot.fixes) (r : arow) (spans : list (Z * Z)) (minus : bool)
  : res (bool * fmap) :=
  let v := sv (adata r) in
  bind (of_view (Annot.make_feature fx (vlen v) (is_reversed v) spans minus)) (fun fv =>
  bind (fm_inverse (to_feature_map (amap r))) (fun inv =>
  bind (fm_getitem_map inv (fmap_of (vlen v) (fv_map fv))) (fun am =>
    Ok (fv_minus fv, am)))).

(** [_get_seq_features] for one row and one db record: [None] = not returned *)
Definition aln_feature (fx : Annot.fixes) (r : arow) (f : feat) (partial : bool) : res (option (bool * fmap)) :=
  let v := sv (adata r) in
  if vlen v =? 0 then Ok None                       (* the row displays no residues (repair C04-4) *)
  else
    let start := parent_start v in
    let stop := parent_stop v in
    let offset := parent_start v in                  (* seq.data.annotation_offset *)
    if db_match partial start stop f then
      let spans := if offset =? 0 then f_spans f
                   else map (fun p => (fst p - offset, snd p - offset)) (f_spans f) in
      bind (aligned_make_feature fx r spans (f_minus f)) (fun x => Ok (Some x))
    else Ok None.

(** ** feature.get_slice() on the alignment: every row indexed by the map without its lost spans,
       reverse complemented when the feature is reversed *)

Definition row_empty (r : arow) : res arow :=
  (* [not span.useful]: [self.map[0:0]], [self.data[:0]] *)
  row_getitem_slice repaired r (Some 0) (Some 0).

Definition row_by_map (r : arow) (am : fmap) : res arow :=
  match fm_get_coordinates (fm_without_gaps am) with
  | [] => row_empty r
  | locs => row_getitem_locs repaired r locs
  end.

Definition row_feature_slice (r : arow) (minus : bool) (am : fmap) : res (list Z) :=
  bind (row_by_map r am) (fun r' =>
  if minus then bind (row_rc r') (fun r'' => Ok (row_gapped r'')) else Ok (row_gapped r')).

(** ** get_projected_feature(seqid=target, feature): [target.map.to_feature_map()[feature.map]] bound
       to the target's sequence; then its get_slice() *)
Definition projected_map (target : arow) (am : fmap) : res fmap :=
  fm_getitem_map (to_feature_map (amap target)) am.

Definition projected_slice (target : arow) (minus : bool) (am : fmap) : res (list Z) :=
  bind (projected_map target am) (fun pm =>
    of_view (Annot.get_slice_str (sv (adata target)) (parent (adata target))
               (mkFV minus (map fspan_span (fspans pm))))).
