(** Model of [index_name] of [cogent3.util.table.Table] (property C20), on top of
    Model/Table.v: an indexed table is a column store plus the name of the
    index column.

    Code: [Columns.index_name] setter (util/table.py l.352-372: the name must be
    a column, its values must be unique, the column moves to the front),
    [Table.index_name] setter / lazy getter (l.897-917), [Table.__init__]
    (index column set first), [Table.__getitem__] (l.588-638: row labels are
    looked up in the index column; the result gets the index back "if index_name
    in result.columns"), and the way every method carries the attribute:
    sorted / filtered / appended / inner join keep it ([_get_persistent_attrs]),
    with_new_column and __getitem__ re-set it when the column is still there,
    cross_join and transposed drop it.  [transposed] takes its data with
    [Columns.take_columns] (fix C20-9), i.e. exactly as the un-indexed model does.

    The index is activated lazily in the code (first access of
    [Table.index_name]); the model describes the table AFTER activation, which is
    what the harness observes (it reads [table.index_name] first): a kept index
    whose values are no longer unique (join / appended) or whose column is gone
    (filtered_by_column) is the ValueError of that activation.

    No proofs in this file. *)
From Coq Require Import QArith.
From CG3 Require Import Lib.PyZ Lib.Chars Lib.StableSort Lib.Val Model.Csv Model.Table Model.TableLoad Model.TableRun.
Import ListNotations.
Open Scope Z_scope.

Record itable := mkIT { base : table; iname : option str }.

(* the column order after [order = [name] + [c for c in self._order if c != name]] *)
Definition move_front (n : str) (t : table) : table :=
  let h := n :: filter (fun c => negb (str_eqb c n)) (hdr t) in
  mkT h (map (fun c => match assoc_get (hdr t) (cols t) c with Some v => v | None => [] end) h) (nrows t).

(* values of a column are pairwise different (len(set(col)) == num_rows) *)
Definition unique_col (col : list cell) : bool :=
  Nat.eqb (length (dedup [] (map (fun c => [c]) col))) (length col).

(* table.index_name = ix *)
Definition activate (t : table) (ix : option str) : res itable :=
  match ix with
  | None => Ok (mkIT t None)
  | Some n =>
      match assoc_get (hdr t) (cols t) n with
      | None => Er E_Value                                   (* unknown column *)
      | Some col => if unique_col col then Ok (mkIT (move_front n t) (Some n)) else Er E_Value
      end
  end.

Definition keep_if_present (t : table) (ix : option str) : option str :=
  match ix with
  | Some n => if mem_str n (hdr t) then Some n else None
  | None => None
  end.

(* Table(header, data, index_name=ix) *)
Definition it_make (hc : list str * list (list cell)) (ix : option str) : res itable :=
  activate (mk_table hc) ix.

(* self[:, names] *)
Definition it_getcols (t : itable) (names : list str) : res itable :=
  bind (sub_table (base t) names) (fun b => activate b (keep_if_present b (iname t))).

(* get_columns(names, with_index) *)
Definition it_get_columns (t : itable) (names : list str) (with_index : bool) : res itable :=
  match iname t with
  | Some n => if with_index then it_getcols t (n :: filter (fun c => negb (str_eqb c n)) names)
              else it_getcols t names
  | None => it_getcols t names
  end.

Fixpoint find_label (label : cell) (col : list cell) (i : nat) : option nat :=
  match col with
  | [] => None
  | x :: col' => if cell_eqb x label then Some i else find_label label col' (S i)
  end.

(* table[label, col] : one cell, the row found through the index column *)
Definition it_lookup (t : itable) (label : cell) (c : str) : res cell :=
  match iname t with
  | None => Er E_NotModelled
  | Some n =>
      bind (get_col (base t) n) (fun icol =>
        match find_label label icol 0 with
        | None => Er E_Key
        | Some i => bind (get_col (base t) c) (fun v => Ok (nth i v CN))
        end)
  end.

(* table[label] : the row as a one-row table *)
Definition it_row (t : itable) (label : cell) : res itable :=
  match iname t with
  | None => Er E_NotModelled
  | Some n =>
      bind (get_col (base t) n) (fun icol =>
        match find_label label icol 0 with
        | None => Er E_Key
        | Some i =>
            bind (set_cols empty_table (hdr (base t)) (map (take [i]) (cols (base t)))) (fun b =>
              activate b (keep_if_present b (iname t)))
        end)
  end.

Definition it_sorted (t : itable) (columns reverse : option (list str)) : res itable :=
  bind (sorted (base t) columns reverse) (fun b => activate b (iname t)).

Definition it_filtered (t : itable) (cb : list cell -> bool) (columns : option (list str)) : res itable :=
  bind (filtered (base t) cb columns) (fun b => activate b (iname t)).

Definition it_filtered_by_column (t : itable) (cb : list cell -> bool) : res itable :=
  bind (filtered_by_column (base t) cb) (fun b => activate b (iname t)).

Definition it_with_new_column (t : itable) (new : str) (cb : list cell -> cell) (columns : option (list str))
  : res itable :=
  bind (with_new_column (base t) new cb columns) (fun b => activate b (keep_if_present b (iname t))).

(* joined: the inner join keeps self's index_name, the cross join drops it; other's index plays no role *)
Definition it_joined (self : itable) (other : table) (cs co : option (list str)) (inner : bool) (prefix : str)
  : res itable :=
  bind (joined (base self) other cs co inner prefix) (fun b =>
    activate b (if inner then iname self else None)).

(* Table.inner_join(other) with the default use_index=True and no key columns (l.1012-1019): both tables
   must carry an index_name; rows pair on self[index_name] == other[other.index_name]; the result keeps
   self's index_name *)
Definition it_inner_join_index (self other : itable) (prefix : str) : res itable :=
  match iname self, iname other with
  | Some si, Some oi =>
      bind (inner_join (base self) (base other) (Some [si]) (Some [oi]) prefix) (fun b => activate b (iname self))
  | _, _ => Er E_Value
  end.

Definition it_appended (self : itable) (nc : option str) (titled : list (str * table)) : res itable :=
  bind (appended (base self) nc titled) (fun b => activate b (iname self)).

Definition it_transposed (t : itable) (new : str) (sah : option str) : res itable :=
  bind (transposed (base t) new sah) (fun b => Ok (mkIT b None)).

(* ------------------------------------------------------------------ title / legend rows of the delimited file *)

(* Table.write l.2177-2184: title row, header, rows, legend row *)
Definition write_records_tl (title legend : str) (t : table) : list (list str) :=
  (match title with [] => [] | _ => [[title]] end) ++
  write_records t ++
  (match legend with [] => [] | _ => [[legend]] end).

Fixpoint concat_strs (l : list str) : str := match l with [] => [] | x :: l' => x ++ concat_strs l' end.

Fixpoint split_last {A} (l : list A) : option (list A * A) :=
  match l with
  | [] => None
  | [x] => Some ([], x)
  | x :: l' => match split_last l' with Some (i, y) => Some (x :: i, y) | None => None end
  end.

(* parse/table.py load_delimited(header=True, with_title, with_legend) on the records csv.reader yields:
   (title, header, rows, legend) *)
Definition load_delimited_tl (recs : list (list str)) (with_title with_legend : bool)
  : res (str * list str * list (list str) * str) :=
  bind (if with_title then
          match recs with
          | x :: r => Ok (concat_strs x, r)
          | [] => Er E_Other                                 (* StopIteration from next(reader) *)
          end
        else Ok ([], recs)) (fun tr =>
    match snd tr with
    | [] => Er E_Index                                       (* rows.pop(0) *)
    | header :: rows =>
        if with_legend then
          match split_last rows with
          | None => Er E_Index                               (* rows.pop(-1) *)
          | Some (rows', lg) => Ok (fst tr, header, rows', concat_strs lg)
          end
        else Ok (fst tr, header, rows, [])
    end).

(* load_table(path, sep=d, with_title=, with_legend=, index_name=) *)
Definition load_table_tl (recs : list (list str)) (with_title with_legend : bool) (ix : option str)
  : res (str * str * itable) :=
  bind (load_delimited_tl recs with_title with_legend) (fun p =>
    let '(title, header, rows, legend) := p in
    bind (load_records (header :: rows)) (fun t =>
      bind (activate t ix) (fun it => Ok (title, legend, it)))).

Definition write_then_load_tl (d : Z) (title legend : str) (t : itable) : res (str * str * itable) :=
  match csv_read d (fmt_rows d (write_records_tl title legend (base t))) with
  | None => Er E_Other
  | Some recs => load_table_tl recs (negb (is_nil title)) (negb (is_nil legend)) (iname t)
  end.

(* ------------------------------------------------------------------ runner *)

Inductive iop :=
| IBase (o : op)                              (* the Table-API operations of Model/TableRun.v, index carried along *)
| ILookup (label : cell) (c : str)            (* table[label, c] *)
| IRow (label : cell)                         (* table[label] *)
| IGetColumns (names : list str) (with_index : bool)
| IInnerJoinIndex (other : nat) (other_index : option str) (prefix : str).   (* self.inner_join(other) *)

Definition itable_val (t : itable) : val :=
  VL [table_val (base t); match iname t with Some n => VS n | None => VN end].

Definition apply_iop (ts : list table) (cur : itable) (o : iop) : res (itable * val) :=
  let tv r := bind r (fun t => Ok (t, itable_val t)) in
  match o with
  | ILookup l c => bind (it_lookup cur l c) (fun v => Ok (cur, cell_val v))
  | IRow l => bind (it_row cur l) (fun r => Ok (cur, itable_val r))
  | IGetColumns names wi => tv (it_get_columns cur names wi)
  | IInnerJoinIndex k oix p =>
      bind (activate (nth k ts empty_table) oix) (fun other => tv (it_inner_join_index cur other p))
  | IBase (OJoin k cs co inner p) => tv (it_joined cur (nth k ts empty_table) cs co inner p)
  | IBase (OSorted c r) => tv (it_sorted cur c r)
  | IBase (OFiltered p c) => tv (it_filtered cur (eval_pred p) c)
  | IBase (OFilteredByCol c) => tv (it_filtered_by_column cur (fun col => existsb (fun x => cell_eqb c x) col))
  | IBase (OGetColumns c) => tv (it_get_columns cur c true)
  | IBase (OWithNew n e c) => tv (it_with_new_column cur n (eval_expr e) c)
  | IBase (OAppended nc st others) =>
      tv (it_appended cur nc ((st, base cur) :: map (fun tk => (fst tk, nth (snd tk) ts empty_table)) others))
  | IBase (OTransposed n s) => tv (it_transposed cur n s)
  | IBase (OCount p c) => bind (count (base cur) (eval_pred p) c) (fun n => Ok (cur, VZ n))
  | IBase (ODistinct c) =>
      bind (distinct_values (base cur) c) (fun ks => Ok (cur, VL (map (fun k => VL (map cell_val k)) ks)))
  | IBase (OCountUnique a) => bind (apply_op ts (base cur) (OCountUnique a)) (fun r => Ok (cur, snd r))
  | IBase (ODistinctArg a) => bind (apply_op ts (base cur) (ODistinctArg a)) (fun r => Ok (cur, snd r))
  end.

Fixpoint run_iops (ts : list table) (cur : itable) (ops : list iop) : list val :=
  match ops with
  | [] => []
  | o :: rest =>
      match apply_iop ts cur o with
      | Er e => [VE e]
      | Ok (new, obs) => obs :: run_iops ts new rest
      end
  end.

Inductive icase :=
| ICaseOps (tables : list (list str * list (list cell))) (index : option str) (ops : list iop)
| ICaseRT (d : Z) (title legend : str) (index : option str) (t : list str * list (list cell)).

Definition run_icase (c : icase) : val :=
  match c with
  | ICaseOps tables ix ops =>
      let ts := map mk_table tables in
      match activate (nth 0 ts empty_table) ix with
      | Er e => VL [VE e]
      | Ok it => VL (run_iops ts it ops)
      end
  | ICaseRT d title legend ix hc =>
      match activate (mk_table hc) ix with
      | Er e => VE e
      | Ok it =>
          let text := fmt_rows d (write_records_tl title legend (base it)) in
          VL [VS text;
              match write_then_load_tl d title legend it with
              | Ok (ti, lg, it') => VL [VS ti; VS lg; itable_val it']
              | Er e => VE e
              end]
      end
  end.
