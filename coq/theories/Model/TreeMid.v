(** C09 — executable model of [PhyloNode.root_at_midpoint] and
    [TreeNode.bifurcating] (cogent3/core/tree.py), kept apart from Model/Tree.v.

    root_at_midpoint halves the largest tip-to-tip distance; to stay in exact
    integers the model works on the tree with every length DOUBLED ([double]),
    so that "half the maximum" is an integer: results are in doubled units
    (the harness multiplies what the implementation returns by 2).
    The method edits the tree it is called on when the midpoint falls inside
    an edge (a new node is spliced into the receiver): the model returns the
    pair (result, receiver afterwards).  [fx = true] is the repaired method
    (notes/proposed_fixes/C09-2.diff), which works on a private copy.
    No proofs in this file. *)
From CG3 Require Import Lib.PyZ Lib.Val Lib.Rose Model.Tree.

Fixpoint double (t : tree) : tree :=
  match t with
  | Node n l cs => Node n (match l with Some z => Some (2 * z) | None => None end) (map double cs)
  end.

(** [max_tip_tip_distance]: the matrix of [tip_to_tip_distances] (missing
    length = default), [argmax] = first maximum in row-major order; the
    matrix is symmetric with a zero diagonal, so that is the first maximum of
    the upper triangle, or entry (0,0) when nothing is positive *)
Definition pair_dists (dflt : Z) (t : tree) : list ((name * name) * option Z) :=
  let es := dist_entries dflt t in
  map (fun p => (p, lookup_dist es (fst p) (snd p))) (upper_pairs (tips t)).

Fixpoint first_max (ps : list ((name * name) * option Z)) (best : (name * name) * Z) : (name * name) * Z :=
  match ps with
  | [] => best
  | (p, Some d) :: r => if snd best <? d then first_max r (p, d) else first_max r best
  | (_, None) :: r => first_max r best
  end.

(** the nodes below the root along a path *)
Fixpoint nodes_on (t : tree) (p : list nat) : list tree :=
  match p with
  | [] => []
  | i :: r => match nth_error (kids t) i with
              | Some c => c :: nodes_on c r
              | None => []
              end
  end.

Fixpoint common_prefix (p q : list nat) : nat :=
  match p, q with
  | i :: p', j :: q' => if Nat.eqb i j then S (common_prefix p' q') else O
  | _, _ => O
  end.

(** [if curr.length: count += curr.length] *)
Definition truthy_len (t : tree) : Z := match tlen t with Some z => z | None => 0 end.

(** the climbing loop; [up] = the nodes from the climb node up to the child
    of the root, [depth] = length of the climb node's path.  Reaching the root
    (length None) is a TypeError. *)
Fixpoint climb (half : Z) (up : list tree) (depth : nat) (dc : Z) : res (nat * Z * tree) :=
  match up with
  | [] => Err E_Type
  | n :: rest =>
      match tlen n with
      | None => Err E_Type
      | Some l => if dc + l <? half then climb half rest (pred depth) (dc + l) else Ok (depth, dc, n)
      end
  end.

Fixpoint map_nth {A} (i : nat) (f : A -> A) (l : list A) : list A :=
  match l, i with
  | [], _ => []
  | x :: r, O => f x :: r
  | x :: r, S j => x :: map_nth j f r
  end.

Fixpoint update_at (t : tree) (p : list nat) (f : tree -> tree) : tree :=
  match p with
  | [] => f t
  | i :: r => Node (tname t) (tlen t) (map_nth i (fun c => update_at c r f) (kids t))
  end.

(** [new_root.parent = climb_node.parent; climb_node.parent = new_root] and
    the two length assignments: the climb node (child [i]) leaves its parent's
    child list, the new node (no name) is appended at the end with the climb
    node as its only child; [x] = the climb node's new length, [l] its old one *)
Definition splice_child (i : nat) (l x : Z) (parent : tree) : tree :=
  match nth_error (kids parent) i with
  | None => parent
  | Some c =>
      Node (tname parent) (tlen parent)
           (remove_nth i (kids parent) ++ [Node [] (Some (l - x)) [Node (tname c) (Some x) (kids c)]])
  end.

Definition edge0_str : name := [101; 100; 103; 101; 46; 48].   (* "edge.0" *)

(** the converted parent of the nameless new node takes that node's name:
    [_unique_name(None)] = "edge.0" *)
Fixpoint name_unnamed (t : tree) : tree :=
  match t with
  | Node n l cs => Node (match n with [] => edge0_str | _ => n end) l (map name_unnamed cs)
  end.

(** [root_at_midpoint()] on the doubled tree: (result, receiver afterwards) *)
Definition root_at_midpoint (fx : bool) (t : tree) : res (tree * tree) :=
  let td := double t in
  let tn := tips td in
  let first := match tn with a :: _ => a | [] => [] end in
  let '((n1, n2), mx) := first_max (pair_dists 2 td) ((first, first), 0) in
  if mx =? 0 then
    match reroot_go td [] None with Some r => Ok (r, td) | None => Err E_Other end
  else
    let half := mx / 2 in
    match find_path n1 td, find_path n2 td with
    | Some p1, Some p2 =>
        let cp := common_prefix p1 p2 in
        let d1 := fold_right Z.add 0 (map truthy_len (skipn cp (nodes_on td p1))) in
        let p := if half <? d1 then p1 else p2 in
        match climb half (rev (nodes_on td p)) (length p) 0 with
        | Err e => Err e
        | Ok (d, dc, n) =>
            let pp := firstn (pred d) p in          (* path of climb_node.parent *)
            let i := nth (pred d) p O in            (* index of climb_node in it *)
            match subtree_at td pp with
            | None => Err E_Other
            | Some parent =>
                match nth_error (kids parent) i with
                | None => Err E_Other
                | Some c =>                          (* c is the climb node n *)
                    match tlen c with
                    | None => Err E_Type
                    | Some l =>
                        if dc + l =? half then
                          (* the midpoint is AT climb_node.parent *)
                          if is_tip parent then Err E_Other     (* RuntimeError: error trying to root tree at tip *)
                          else match reroot_go td pp None with Some r => Ok (r, td) | None => Err E_Other end
                        else
                          (* the midpoint is inside the edge above the climb node *)
                          let spliced := update_at td pp (splice_child i l (half - dc)) in
                          match reroot_go spliced (pp ++ [pred (length (kids parent))]) None with
                          | Some r => Ok (name_unnamed r, if fx then td else spliced)
                          | None => Err E_Other
                          end
                    end
                end
            end
        end
    | _, _ => Err E_Tree
    end.

(* ------------------------------------------------------------------ bifurcating *)

(** [multifurcating(2)]: while a node has more than two children its last two
    children are moved under a new node (no name, length eps = 0.0) appended
    at the end; nodes are visited in preorder of the tree being edited *)
Fixpoint bif_kids (fuel : nat) (cs : list tree) : list tree :=
  match fuel with
  | O => cs
  | S f =>
      if Nat.ltb 2 (length cs)
      then let k := (length cs - 2)%nat in
           bif_kids f (firstn k cs ++ [Node [] (Some 0) (skipn k cs)])
      else cs
  end.

Fixpoint bifurcating (t : tree) : tree :=
  match t with
  | Node n l cs => Node n l (bif_kids (length cs) (map bifurcating cs))
  end.
