(** Model of [cogent3.util.table.Table] (src/cogent3/util/table.py), property C20.

    Shaped like the code: a [Columns] object is an ordered list of column
    names ([_order]), one value list per name ([__dict__]) and [_num_rows];
    the relational methods select row indices and [take] them from every
    column.  Cells are the Python objects a column array holds.

    What is NOT modelled (compared by the correspondence only, or excluded by
    the generators; see harness/props/c20.py):
      - index_name (always None here), title/legend/format attributes
        (the title only as the explicit argument of [appended]);
      - floats are the decimals their repr() shows ([CF m e] = m * 10^e); float
        arithmetic is not modelled (only comparison, equality, negation, repr);
        numpy dtype coercions: a column's dtype is taken to be the one numpy
        infers from its cells, see [dtype_of]; a list holding ints and floats
        is held by numpy as floats, see [coerce_col];
      - column names are assumed stripped ([Columns.__setitem__] does
        [str(key).strip()]);
      - a natural join without shared column names goes through [sub_array t []],
        which has no rows: the result is the empty table (not the cross product);
        [joined(..., inner_join=False, col_prefix=p)] ignores [p] (always "right_");
        both are transcribed as they are, the specification is silent on them;
      - [data.argsort(kind="stable")] on the record array is modelled as a stable
        insertion sort (any stable sort gives the same list, Lib/StableSort.v).

    No proofs in this file. *)
From Coq Require Import QArith.
From CG3 Require Import Lib.PyZ Lib.Chars Lib.StableSort Lib.Val.
Import ListNotations.
Open Scope Z_scope.

Inductive cell :=
| CI (z : Z)        (* int *)
| CS (s : str)      (* str *)
| CB (b : bool)     (* bool *)
| CN                (* None *)
| CF (m e : Z).     (* float, as the decimal m * 10^e its repr() shows (shortest round-trip decimal);
                       the harness passes m without trailing zeros (m = 0 -> e = 0) *)

Inductive res (A : Type) := Ok (a : A) | Er (e : Z).
Arguments Ok {A} a.
Arguments Er {A} e.

Definition bind {A B} (r : res A) (f : A -> res B) : res B :=
  match r with Ok a => f a | Er e => Er e end.

Definition E_NotModelled : Z := 77.
Definition E_Assert : Z := 9.
Definition E_Runtime : Z := 9.

(* ------------------------------------------------------------------ Python equality of cells / keys *)

Definition b2z (b : bool) : Z := if b then 1 else 0.

(* the number a cell denotes (bool is an int subclass) *)
Definition dec_q (m e : Z) : Q := (inject_Z m * Qpower (10 # 1) e)%Q.

Definition cell_q (c : cell) : option Q :=
  match c with
  | CI z => Some (inject_Z z)
  | CB b => Some (inject_Z (b2z b))
  | CF m e => Some (dec_q m e)
  | _ => None
  end.

(* x == y for the objects found in cells: numbers by value (True == 1 == 1.0) *)
Definition cell_eqb (a b : cell) : bool :=
  match cell_q a, cell_q b with
  | Some x, Some y => Qeq_bool x y
  | None, None =>
      match a, b with
      | CS x, CS y => str_eqb x y
      | CN, CN => true
      | _, _ => false
      end
  | _, _ => false
  end.

(* tuple equality *)
Fixpoint key_eqb (a b : list cell) : bool :=
  match a, b with
  | [], [] => true
  | x :: a', y :: b' => cell_eqb x y && key_eqb a' b'
  | _, _ => false
  end.

(* ------------------------------------------------------------------ Columns *)

Record table := mkT { hdr : list str; cols : list (list cell); nrows : nat }.

Definition empty_table : table := mkT [] [] 0.

Fixpoint assoc_get {B} (ks : list str) (vs : list B) (k : str) : option B :=
  match ks, vs with
  | k' :: ks', v :: vs' => if str_eqb k k' then Some v else assoc_get ks' vs' k
  | _, _ => None
  end.

Fixpoint assoc_set {B} (ks : list str) (vs : list B) (k : str) (v : B) : list B :=
  match ks, vs with
  | k' :: ks', v' :: vs' => if str_eqb k k' then v :: vs' else v' :: assoc_set ks' vs' k v
  | _, _ => vs
  end.

(* self.columns[c] ; KeyError when absent *)
Definition get_col (t : table) (c : str) : res (list cell) :=
  match assoc_get (hdr t) (cols t) c with Some v => Ok v | None => Er E_Key end.

(* Columns.__setitem__ l.270-294 *)
Definition set_col (t : table) (c : str) (v : list cell) : res table :=
  let n := if Nat.eqb (nrows t) 0 then length v else nrows t in
  if negb (Nat.eqb (length v) n) then Er E_Value
  else if mem_str c (hdr t) then Ok (mkT (hdr t) (assoc_set (hdr t) (cols t) c v) n)
  else Ok (mkT (hdr t ++ [c]) (cols t ++ [v]) n).

(* t = Table(); for c in names: t.columns[c] = data[c] *)
Fixpoint set_cols (t : table) (names : list str) (data : list (list cell)) : res table :=
  match names, data with
  | c :: names', v :: data' => bind (set_col t c v) (fun t' => set_cols t' names' data')
  | _, _ => Ok t
  end.

(* numpy fancy indexing arr[sel] / arr.take(sel) with in-range indices *)
Definition take (sel : list nat) (c : list cell) : list cell := map (fun i => nth i c CN) sel.

(* arr[mask] with a boolean mask *)
Fixpoint mask_take {A} (mask : list bool) (c : list A) : list A :=
  match mask, c with
  | b :: mask', x :: c' => if b then x :: mask_take mask' c' else mask_take mask' c'
  | _, _ => []
  end.

Definition row_at (cs : list (list cell)) (i : nat) : list cell := map (fun c => nth i c CN) cs.

(* Columns.array : the rows *)
Definition array (t : table) : list (list cell) := map (row_at (cols t)) (seq 0 (nrows t)).

Fixpoint get_cols (t : table) (names : list str) : res (list (list cell)) :=
  match names with
  | [] => Ok []
  | c :: names' => bind (get_col t c) (fun v => bind (get_cols t names') (fun vs => Ok (v :: vs)))
  end.

(* self[:, names] (Table.__getitem__ l.576-626, index_name None): columns of
   length 0 are skipped, so the sub-table of a table without rows (or with no
   names) has no columns and no rows *)
Definition sub_table (t : table) (names : list str) : res table :=
  bind (get_cols t names) (fun vs =>
    if Nat.eqb (nrows t) 0 then Ok empty_table else set_cols empty_table names vs).

(* self[:, names].array *)
Definition sub_array (t : table) (names : list str) : res (list (list cell)) :=
  bind (sub_table t names) (fun s => Ok (array s)).

Definition prefixed (p : str) (names : list str) : list str := map (fun c => p ++ c) names.

(* a dict name -> column, with dict.update *)
Fixpoint dict_update (ks : list str) (vs : list (list cell)) (ks2 : list str) (vs2 : list (list cell))
  : list str * list (list cell) :=
  match ks2, vs2 with
  | k :: ks2', v :: vs2' =>
      if mem_str k ks then dict_update ks (assoc_set ks vs k v) ks2' vs2'
      else dict_update (ks ++ [k]) (vs ++ [v]) ks2' vs2'
  | _, _ => (ks, vs)
  end.

Fixpoint dict_gets (ks : list str) (vs : list (list cell)) (names : list str) : res (list (list cell)) :=
  match names with
  | [] => Ok []
  | c :: names' =>
      match assoc_get ks vs c with
      | Some v => bind (dict_gets ks vs names') (fun r => Ok (v :: r))
      | None => Er E_Key
      end
  end.

(* common tail of inner_join / cross_join: l.1035-1050 / l.927-948 *)
Definition assemble (self other : table) (other_names : list str) (prefix : str)
           (self_sel other_sel : list nat) : res table :=
  bind (get_cols other other_names) (fun ocols =>
    let jk := hdr self in
    let jv := map (take self_sel) (cols self) in
    let ok := prefixed prefix other_names in
    let ov := map (take other_sel) ocols in
    let '(dk, dv) := dict_update jk jv ok ov in
    let new_header := hdr self ++ ok in
    bind (dict_gets dk dv new_header) (fun data => set_cols empty_table new_header data)).

(* ------------------------------------------------------------------ cross_join l.913-948 *)

Definition right_ : str := [114; 105; 103; 104; 116; 95].   (* "right_" *)

Definition product_sel (n m : nat) : list nat * list nat :=
  (flat_map (fun i => repeat i m) (seq 0 n), flat_map (fun _ => seq 0 m) (seq 0 n)).

Definition cross_join (self other : table) (prefix : str) : res table :=
  let '(ss, os) := product_sel (nrows self) (nrows other) in
  (* pairs = list(product(..)); self_selected = [i for i, _ in pairs]; other_selected = [j for _, j in pairs] *)
  assemble self other (hdr other) prefix ss os.

(* ------------------------------------------------------------------ inner_join l.950-1050 *)

Definition index := list (list cell * list nat).

(* other_row_index[key].append(i) on a defaultdict(list) *)
Fixpoint idx_add (k : list cell) (i : nat) (m : index) : index :=
  match m with
  | [] => [(k, [i])]
  | (k', l) :: m' => if key_eqb k k' then (k', l ++ [i]) :: m' else (k', l) :: idx_add k i m'
  end.

Fixpoint idx_get (k : list cell) (m : index) : option (list nat) :=
  match m with
  | [] => None
  | (k', l) :: m' => if key_eqb k k' then Some l else idx_get k m'
  end.

Definition enumerate {A} (l : list A) : list (nat * A) := combine (seq 0 (length l)) l.

Definition build_index (rows : list (list cell)) : index :=
  fold_left (fun m ir => idx_add (snd ir) (fst ir) m) (enumerate rows) [].

Definition scan (m : index) (rows : list (list cell)) : list nat * list nat :=
  fold_left (fun acc ir =>
               match idx_get (snd ir) m with
               | None => acc
               | Some l => (fst acc ++ repeat (fst ir) (length l), snd acc ++ l)
               end) (enumerate rows) ([], []).

Definition truthy {A} (o : option (list A)) : bool :=
  match o with Some (_ :: _) => true | _ => false end.

(* resolution of the key columns, l.978-1013, use_index=False *)
Definition join_keys (self other : table) (cs co : option (list str)) : res (list str * list str) :=
  match cs, co with
  | None, None =>
      (* natural join: the shared names in self's order; the same-named columns of other are
         compared, whatever their order there (l.1007-1011) *)
      let shared := filter (fun c => mem_str c (hdr other)) (hdr self) in
      Ok (shared, shared)
  | Some a, None => if truthy cs then Ok (a, a) else Er E_Type
  | None, Some b => if truthy co then Ok (b, b) else Er E_Type
  | Some a, Some b =>
      if Nat.eqb (length a) (length b) then Ok (a, b) else Er E_Runtime
  end.

Definition inner_join (self other : table) (cs co : option (list str)) (prefix : str) : res table :=
  bind (join_keys self other cs co) (fun keys =>
    let '(ks, ko) := keys in
    let output_mask := filter (fun c => negb (mem_str c ko)) (hdr other) in
    bind (sub_array other ko) (fun orows =>
      let m := build_index orows in
      bind (sub_array self ks) (fun srows =>
        let '(ss, os) := scan m srows in
        assemble self other output_mask prefix ss os))).

(* joined l.1052-1077 : the cross join ignores col_prefix *)
Definition joined (self other : table) (cs co : option (list str)) (inner : bool) (prefix : str) : res table :=
  if inner then inner_join self other cs co prefix
  else match cs, co with
       | None, None => cross_join self other right_
       | _, _ => Er E_Assert
       end.

(* ------------------------------------------------------------------ cast_to_array l.139-155 on a list of values *)

(* float(z) as the decimal its repr shows: trailing zeros go to the exponent *)
Fixpoint strip10 (fuel : nat) (m e : Z) : Z * Z :=
  match fuel with
  | O => (m, e)
  | S f => if m =? 0 then (0, 0) else if m mod 10 =? 0 then strip10 f (m / 10) (e + 1) else (m, e)
  end.

Definition norm_dec (m e : Z) : Z * Z := strip10 (S (Z.to_nat (Z.log2 (Z.abs m)))) m e.

Definition to_float (c : cell) : cell :=
  match c with
  | CI z => let me := norm_dec z 0 in CF (fst me) (snd me)
  | other => other
  end.

Definition is_num_cell (c : cell) : bool := match c with CI _ => true | CF _ _ => true | _ => false end.
Definition is_float_cell (c : cell) : bool := match c with CF _ _ => true | _ => false end.

(* numpy.array(values) of Python ints and floats is a float array; any other mix is kept as it is
   (object / str / bool / int arrays hold the values given) *)
Definition coerce_col (v : list cell) : list cell :=
  if forallb is_num_cell v && existsb is_float_cell v then map to_float v else v.

(* ------------------------------------------------------------------ row selection l.1082-1177 *)

Definition default_cols (t : table) (columns : option (list str)) : list str :=
  match columns with None => hdr t | Some c => c end.

(* get_row_indices for a callable *)
Definition row_indices (t : table) (cb : list cell -> bool) (columns : list str) : res (list bool) :=
  bind (sub_array t columns) (fun rows => Ok (map cb rows)).

Definition filtered (t : table) (cb : list cell -> bool) (columns : option (list str)) : res table :=
  if Nat.eqb (nrows t) 0 then Ok t
  else bind (row_indices t cb (default_cols t columns)) (fun mask =>
         set_cols empty_table (hdr t) (map (mask_take mask) (cols t))).

Definition count (t : table) (cb : list cell -> bool) (columns : option (list str)) : res Z :=
  if Nat.eqb (nrows t) 0 then Ok 0
  else bind (row_indices t cb (default_cols t columns)) (fun mask =>
         Ok (Z.of_nat (length (filter (fun b => b) mask)))).

(* filtered_by_column l.1133-1148 *)
Definition filtered_by_column (t : table) (cb : list cell -> bool) : res table :=
  let mask := map cb (cols t) in
  set_cols empty_table (mask_take mask (hdr t)) (mask_take mask (cols t)).

(* distinct_values l.1205-1210 : the set, as the list of first occurrences *)
Fixpoint dedup (seen : list (list cell)) (l : list (list cell)) : list (list cell) :=
  match l with
  | [] => []
  | k :: l' => if existsb (key_eqb k) seen then dedup seen l' else k :: dedup (k :: seen) l'
  end.

Definition distinct_values (t : table) (columns : list str) : res (list (list cell)) :=
  bind (sub_array t columns) (fun rows => Ok (dedup [] rows)).

(* get_columns l.1274-1290, index_name None *)
Definition get_columns (t : table) (columns : list str) : res table := sub_table t columns.

(* with_new_column l.1292-1337 *)
Definition with_new_column (t : table) (new_column : str) (cb : list cell -> cell)
           (columns : option (list str)) : res table :=
  let keep := map (fun c => negb (str_eqb c new_column)) (hdr t) in
  bind (set_cols empty_table (mask_take keep (hdr t)) (mask_take keep (cols t))) (fun result =>
    bind (sub_array t (default_cols t columns)) (fun rows =>
      set_col result new_column (coerce_col (map cb rows)))).

(* ------------------------------------------------------------------ appended l.1212-1272 *)

Definition same_set (a b : list str) : bool :=
  forallb (fun c => mem_str c b) a && forallb (fun c => mem_str c a) b.

Fixpoint concat_cols (tables : list table) (c : str) : res (list cell) :=
  match tables with
  | [] => Ok []
  | t :: ts => bind (get_col t c) (fun v => bind (concat_cols ts c) (fun r => Ok (v ++ r)))
  end.

Fixpoint concat_all (tables : list table) (names : list str) : res (list (list cell)) :=
  match names with
  | [] => Ok []
  | c :: names' => bind (concat_cols tables c) (fun v => bind (concat_all tables names') (fun r => Ok (v :: r)))
  end.

(* [tables] = (self, title) :: others *)
Definition appended (self : table) (new_column : option str) (titled : list (str * table)) : res table :=
  let tables := map snd titled in
  if match new_column with Some n => mem_str n (hdr self) | None => false end then Er E_Assert
  else if negb (forallb (fun t => same_set (hdr t) (hdr self)) tables) then Er E_Assert
  else
    bind (concat_all tables (hdr self)) (fun data0 =>
      let data := map coerce_col data0 in
      match new_column with
      | Some n =>
          let new_col := flat_map (fun tt => repeat (CS (fst tt)) (nrows (snd tt))) titled in
          set_cols empty_table (n :: hdr self) (new_col :: data)
      | None => set_cols empty_table (hdr self) data
      end).

(* ------------------------------------------------------------------ str(cell) *)

Fixpoint digits (fuel : nat) (n : Z) (acc : str) : str :=
  match fuel with
  | O => acc
  | S f => let acc' := (48 + n mod 10) :: acc in
           if n <? 10 then acc' else digits f (n / 10) acc'
  end.

Definition nat_str (n : Z) : str := digits (S (Z.to_nat (Z.log2 n))) n [].

Definition z_str (z : Z) : str := if z <? 0 then 45 :: nat_str (- z) else nat_str z.

Definition s_True : str := [84; 114; 117; 101].
Definition s_False : str := [70; 97; 108; 115; 101].
Definition s_None : str := [78; 111; 110; 101].

(* repr(float) (CPython float_repr_style 'short', format code 'r'): digits of the shortest decimal,
   fixed notation when -4 < decpt <= 16, else d[.ddd]e+XX *)
Definition zeros (k : Z) : str := repeat 48 (Z.to_nat k).

Definition exp_str (x : Z) : str :=
  (if x <? 0 then 45 else 43) :: (if Z.abs x <? 10 then 48 :: nat_str (Z.abs x) else nat_str (Z.abs x)).

Definition float_str (m e : Z) : str :=
  let ds := nat_str (Z.abs m) in
  let n := zlen ds in
  let decpt := n + e in
  let body :=
    if (-4 <? decpt) && (decpt <=? 16) then
      if decpt <=? 0 then [48; 46] ++ zeros (- decpt) ++ ds
      else if n <=? decpt then ds ++ zeros (decpt - n) ++ [46; 48]
      else firstn (Z.to_nat decpt) ds ++ 46 :: skipn (Z.to_nat decpt) ds
    else
      match ds with
      | d1 :: rest => d1 :: (match rest with [] => [] | _ => 46 :: rest end) ++ 101 :: exp_str (decpt - 1)
      | [] => []
      end in
  if m <? 0 then 45 :: body else body.

Definition cell_str (c : cell) : str :=
  match c with
  | CI z => z_str z
  | CS s => s
  | CB b => if b then s_True else s_False
  | CN => s_None
  | CF m e => float_str m e
  end.

(* ------------------------------------------------------------------ transposed l.2072-2108 *)

Definition transposed (t : table) (new_column_name : str) (select_as_header : option str) : res table :=
  match (match select_as_header with
         | Some (c :: s) => Some (c :: s)
         | _ => match hdr t with h :: _ => Some h | [] => None end
         end) with
  | None => Er E_Index
  | Some sah =>
      if negb (mem_str sah (hdr t)) then Er E_Assert
      else
        bind (distinct_values t [sah]) (fun dv =>
          if negb (Nat.eqb (length dv) (nrows t)) then Er E_Value
          else
            let columns := sah :: filter (fun c => negb (str_eqb c sah)) (hdr t) in
            bind (sub_array t columns) (fun data =>
              bind (set_col empty_table new_column_name (map CS (tl columns))) (fun result =>
                fold_left (fun acc row =>
                             bind acc (fun r => set_col r (cell_str (hd CN row)) (coerce_col (tl row))))
                          data (Ok result))))
  end.

(* ------------------------------------------------------------------ sorted l.1461-1520 *)

Inductive dtype := DInt | DFloat | DStr | DBool | DObj.

Definition is_CI c := match c with CI _ => true | _ => false end.
Definition is_CS c := match c with CS _ => true | _ => false end.
Definition is_CB c := match c with CB _ => true | _ => false end.
Definition is_CF c := match c with CF _ _ => true | _ => false end.

(* the dtype numpy gives a non-empty column (cast_to_array l.139-155) *)
Definition dtype_of (c : list cell) : dtype :=
  if forallb is_CI c then DInt else if forallb is_CF c then DFloat else if forallb is_CS c then DStr
  else if forallb is_CB c then DBool else DObj.

(* _reverse_num: x * -1 (only ever applied to numeric columns) *)
Definition reverse_cell (c : cell) : cell :=
  match c with
  | CI z => CI (z * -1)
  | CF m e => CF (m * -1) e
  | other => other
  end.

(* comparison of the fields of a numpy record: ints, code points, bools; a
   rank between constructors only makes the order total (columns compared
   here are homogeneous, see [sortable_col]) *)
Fixpoint list_cmp {A} (cmp : A -> A -> comparison) (a b : list A) : comparison :=
  match a, b with
  | [], [] => Eq
  | [], _ :: _ => Lt
  | _ :: _, [] => Gt
  | x :: a', y :: b' => match cmp x y with Eq => list_cmp cmp a' b' | r => r end
  end.

Definition str_cmp : str -> str -> comparison := list_cmp Z.compare.

Definition cell_rank (c : cell) : Z :=
  match c with CN => 0 | CB _ => 1 | CI _ => 2 | CF _ _ => 3 | CS _ => 4 end.

Definition cell_cmp (a b : cell) : comparison :=
  match a, b with
  | CI x, CI y => x ?= y
  | CS x, CS y => str_cmp x y
  | CB x, CB y => b2z x ?= b2z y
  | CF m1 e1, CF m2 e2 =>
      (* floats by value; the structural tie-break only makes the order total on non-normalised pairs *)
      match Qcompare (dec_q m1 e1) (dec_q m2 e2) with
      | Eq => match e1 ?= e2 with Eq => m1 ?= m2 | r => r end
      | r => r
      end
  | _, _ => cell_rank a ?= cell_rank b
  end.

Definition key_cmp : list cell -> list cell -> comparison := list_cmp cell_cmp.

Definition key_leb (a b : list cell) : bool :=
  match key_cmp a b with Gt => false | _ => true end.

Fixpoint index_of (c : str) (l : list str) : option nat :=
  match l with
  | [] => None
  | x :: l' => if str_eqb c x then Some 0%nat
               else match index_of c l' with Some i => Some (S i) | None => None end
  end.

Fixpoint nodup_strs (l : list str) : bool :=
  match l with [] => true | x :: l' => negb (mem_str x l') && nodup_strs l' end.

Definition disjoint_strs (a b : list str) : bool := forallb (fun c => negb (mem_str c b)) a.

(* l.1481-1501 *)
Definition sort_columns (t : table) (columns reverse : option (list str)) : list str * list str :=
  let rev := match reverse with Some r => r | None => [] end in
  let columns := match rev, columns with _ :: _, None => Some rev | _, _ => columns end in
  let columns := default_cols t columns in
  let columns :=
    match rev with
    | _ :: _ =>
        if disjoint_strs columns rev
        then fold_left (fun cs c => if mem_str c cs then cs else cs ++ [c]) rev columns
        else columns
    | [] => columns
    end in
  (columns, rev).

Definition cell_ltb (a b : cell) : bool := match cell_cmp a b with Lt => true | _ => false end.
Definition cell_same (a b : cell) : bool := match cell_cmp a b with Eq => true | _ => false end.

(* the distinct values of a column *)
Fixpoint distinct_cells (l : list cell) : list cell :=
  match l with
  | [] => []
  | x :: l' => if existsb (cell_same x) l' then distinct_cells l' else x :: distinct_cells l'
  end.

(* numpy.unique(col, return_inverse=True)[1] : the position of x among the sorted distinct values
   = the number of distinct values below x *)
Definition rank_in (col : list cell) (x : cell) : Z :=
  Z.of_nat (length (filter (fun v => cell_ltb v x) (distinct_cells col))).

Definition neg_rank_cell (col : list cell) (x : cell) : cell := CI (- rank_in col x).

Definition set_nth {A} (i : nat) (v : A) (l : list A) : list A :=
  map (fun jc => if Nat.eqb (fst jc) i then v else snd jc) (enumerate l).

(* Python's < between the objects of a column: None compares with nothing, numbers (int, bool, float)
   with numbers, strings with strings *)
Definition py_class (c : cell) : Z := match c with CN => 0 | CS _ => 2 | _ => 1 end.

Definition incomparable_col (col : list cell) : bool :=
  existsb (fun c => py_class c =? 0) col ||
  (existsb (fun c => py_class c =? 1) col && existsb (fun c => py_class c =? 2) col).

(* one [for c in reverse] step: numeric columns are negated in place; any other
   column is REPLACED by the negated rank of the values of the original column *)
Definition reverse_step (t : table) (columns : list str) (data : res (list (list cell))) (c : str)
  : res (list (list cell)) :=
  bind data (fun d =>
    match index_of c columns with
    | None => Er E_Value
    | Some i =>
        bind (get_col t c) (fun orig =>
          match dtype_of orig with
          | DInt => Ok (map (fun jc => if Nat.eqb (fst jc) i then map reverse_cell (snd jc) else snd jc) (enumerate d))
          | DFloat => Ok (map (fun jc => if Nat.eqb (fst jc) i then map reverse_cell (snd jc) else snd jc) (enumerate d))
          | DStr => Ok (set_nth i (map (neg_rank_cell orig) orig) d)
          | DBool => Ok (set_nth i (map (neg_rank_cell orig) orig) d)
          | DObj =>
              (* numpy.unique sorts the values of the column: TypeError when they cannot be compared *)
              if Nat.leb 2 (nrows t) && incomparable_col orig then Er E_Type else Er E_NotModelled
          end)
    end).

(* the key columns handed to numpy.rec.fromarrays *)
Definition sort_keys (t : table) (columns rev : list str) : res (list (list cell)) :=
  if negb (nodup_strs columns) then Er E_Value
  else fold_left (reverse_step t columns) rev (get_cols t columns).

Definition sortable_dtype (c : list cell) : bool :=
  match dtype_of c with DObj => false | _ => true end.

(* data.argsort() *)
Definition argsort (keys : list (list cell)) : list nat :=
  map snd (isort_by (fun a b => key_leb (fst a) (fst b)) (combine keys (seq 0 (length keys)))).

(* an object-dtype FIRST key column (None / mixed values) of a table with >= 2 rows: every sort has to
   compare its values; Python raises TypeError as soon as None, or a number and a string, are compared.
   Other object-dtype keys (numbers of different Python types; object columns that are only compared on
   ties of earlier keys) are not modelled. *)
Definition object_key_error (t : table) (kcols : list (list cell)) : res table :=
  match kcols with
  | k0 :: _ =>
      if Nat.leb 2 (nrows t) && negb (sortable_dtype k0) && incomparable_col k0 then Er E_Type
      else Er E_NotModelled
  | [] => Er E_NotModelled
  end.

Definition sorted (t : table) (columns reverse : option (list str)) : res table :=
  let '(columns, rev) := sort_columns t columns reverse in
  bind (sort_keys t columns rev) (fun kcols =>
    if negb (forallb sortable_dtype kcols) then object_key_error t kcols
    else
      let keys := map (row_at kcols) (seq 0 (nrows t)) in
      let indices := argsort keys in
      set_cols empty_table (hdr t) (map (take indices) (cols t))).
