(** C08 — executable model of [cogent3.core.location.IndelMap]
    (location.py l.932-1788) and of [Sequence.parse_out_gaps]
    (sequence.py l.1452 / new_sequence.py l.1494), transcribed branch for
    branch.  No proofs in this file.

    numpy int arrays are [list Z]; a gapped string is its gap mask
    [list bool] ([true] = residue, [false] = gap character).
    An operation that can raise returns [res]: [Ok v] or [Err code] with the
    exception codes of Lib/Val.v ([Err 0] = the Python function fell off its
    end and returned [None]).

    Not modelled: int32 overflow of the numpy arrays, [termini_unknown]
    (only changes the class of terminal LostSpans), serialisation.
    [numpy.searchsorted] is modelled as "first index whose element is >= v"
    (resp. > v), which is what the binary search returns on a sorted array;
    every array it is applied to is sorted for a well-formed map.

    INTERFACE (for the models that build on this one, C03 / C04):
      [imap] / [mk_imap gap_pos cum_gap_lengths parent_length]   the record
      [res A] = [Ok a | Err code], [bind]                         results that may raise
      [from_mask k]                 parse_out_gaps on the gap mask (true = residue)
      [len], [num_gaps], [get_gap_lengths], [gap_starts], [gap_ends]
      [get_seq_index m i], [get_align_index m s slice_stop]       index conversions
      [getitem_slice m (o_start) (o_stop)], [getitem_int]         m[a:b], m[i]
      [add], [mul], [nucleic_reversed], [merge_maps], [minus_gaps], [shared_gaps],
      [joined_segments], [from_aligned_segments], [gap_coords_to_map]
      [spans] / [spans_mask], [nongap], [get_coordinates], [get_gap_coordinates],
      [get_gap_align_coordinates], [make_seq_coords]
    Meaning and theorems: Spec/IndelMapSpec.v ([abs : imap -> list bool], [WF]),
    Properties/C08.v (e.g. [WF m -> abs (m[a:b]) = msub (abs m) a b],
    [from_mask (abs m) = m], [get_seq_index m x = residues (firstn x (abs m))]);
    every well-formed map is [from_mask k] for exactly one string [k].
    The corrected variants of the four methods the property refutes are in
    Model/IndelMapFixed.v ([getitem_slice_v2], [add_v2], [get_coordinates_v2],
    [nongap_v2]). *)
From CG3 Require Import Lib.PyZ Lib.Val.

Inductive res (A : Type) : Type := Ok (a : A) | Err (e : Z).
Arguments Ok {A} a.
Arguments Err {A} e.

Definition bind {A B} (r : res A) (f : A -> res B) : res B :=
  match r with Ok a => f a | Err e => Err e end.

(** exception code used for AssertionError (class "other") *)
Definition E_Assert : Z := E_Other.
(** pseudo code: the Python function returned None *)
Definition E_None : Z := 0.

Record imap : Type := mk_imap {
  gap_pos : list Z;          (* gap insertion points, sequence coordinates *)
  cum_gap_lengths : list Z;  (* cumulative gap lengths *)
  parent_length : Z          (* length of the ungapped sequence *)
}.

(** ** list helpers (Python / numpy idioms) *)

(** [l[a:b]] for [0 <= a], [0 <= b] (Python clamps both to [len l]) *)
Definition zslice {A} (l : list A) (a b : Z) : list A :=
  firstn (Z.to_nat (b - a)) (skipn (Z.to_nat a) l).

(** [l[i]] with Python's negative-index wrap; out of range gives [0]
    (every use below is in range, see the comments at the call sites) *)
Definition pyget (l : list Z) (i : Z) : Z :=
  if i <? 0 then znth 0 l (zlen l + i) else znth 0 l i.

(** [l[-1]] *)
Definition zlast (l : list Z) : Z := pyget l (-1).

(** [numpy.cumsum] *)
Fixpoint cumsum_from (acc : Z) (l : list Z) : list Z :=
  match l with
  | [] => []
  | x :: t => (acc + x) :: cumsum_from (acc + x) t
  end.
Definition cumsum (l : list Z) : list Z := cumsum_from 0 l.

(** [lengths = cum.copy(); lengths[1:] = numpy.diff(lengths)] *)
Fixpoint diffs_from (prev : Z) (l : list Z) : list Z :=
  match l with
  | [] => []
  | x :: t => (x - prev) :: diffs_from x t
  end.

(** element-wise [a + b] on equally long arrays (truncates to the shorter) *)
Fixpoint add2 (a b : list Z) : list Z :=
  match a, b with
  | x :: a', y :: b' => (x + y) :: add2 a' b'
  | _, _ => []
  end.

(** [l[i] -= d] *)
Fixpoint sub_at (l : list Z) (i : Z) (d : Z) : list Z :=
  match l with
  | [] => []
  | x :: t => if i =? 0 then (x - d) :: t else x :: sub_at t (i - 1) d
  end.

(** [numpy.searchsorted(l, v, side="left")]: first index with [l[i] >= v] *)
Fixpoint ss_left (l : list Z) (v : Z) : Z :=
  match l with
  | [] => 0
  | x :: t => if x <? v then 1 + ss_left t v else 0
  end.
(** [numpy.searchsorted(l, v, side="right")]: first index with [l[i] > v] *)
Fixpoint ss_right (l : list Z) (v : Z) : Z :=
  match l with
  | [] => 0
  | x :: t => if x <=? v then 1 + ss_right t v else 0
  end.

(** indices [i] (from [i0]) with [l[i] = v]: [numpy.where(v == l)[0]] *)
Fixpoint where_eq (i0 : Z) (l : list Z) (v : Z) : list Z :=
  match l with
  | [] => []
  | x :: t => (if x =? v then [i0] else []) ++ where_eq (i0 + 1) t v
  end.

(** ** construction *)

Definition num_gaps (m : imap) : Z := zlen (gap_pos m).

(** [__post_init__] with [cum_gap_lengths] given (l.1026-1046) *)
Definition post_init (gp cum : list Z) (plen : Z) : res imap :=
  if negb (zlen gp =? zlen cum) then Err E_Value
  else if negb (zlen gp =? 0) && (zlast gp >? plen) then Err E_Value
  else Ok (mk_imap gp cum plen).

(** [__post_init__] with [gap_lengths] given: [cum = gap_lengths.cumsum()] *)
Definition post_init_lengths (gp lengths : list Z) (plen : Z) : res imap :=
  post_init gp (cumsum lengths) plen.

(** [re.finditer("[-]+", seq)]: (start, length) of every maximal gap run;
    [i] is the index of the head of [k], [cur] the run being read *)
Fixpoint gap_matches (i : Z) (cur : option (Z * Z)) (k : list bool) : list (Z * Z) :=
  match k with
  | [] => match cur with Some r => [r] | None => [] end
  | true :: k' =>
      match cur with
      | Some r => r :: gap_matches (i + 1) None k'
      | None => gap_matches (i + 1) None k'
      end
  | false :: k' =>
      match cur with
      | Some (s, n) => gap_matches (i + 1) (Some (s, n + 1)) k'
      | None => gap_matches (i + 1) (Some (i, 1)) k'
      end
  end.

Fixpoint count_true (k : list bool) : Z :=
  match k with
  | [] => 0
  | b :: t => (if b then 1 else 0) + count_true t
  end.

(** [gap_pos[1:] = gap_pos[1:] - cum_lengths[:-1]]: called with [cum' = 0 :: cum] *)
Fixpoint sub2 (a b : list Z) : list Z :=
  match a, b with
  | x :: a', y :: b' => (x - y) :: sub2 a' b'
  | _, _ => []
  end.

(** [Sequence.parse_out_gaps] on the gap mask of the string *)
Definition from_mask (k : list bool) : imap :=
  let ms := gap_matches 0 None k in
  let starts := map fst ms in
  let cum := cumsum (map snd ms) in
  let gp := sub2 starts (0 :: cum) in
  mk_imap gp cum (count_true k).

(** ** simple queries *)

(** [__len__] l.1303 *)
Definition len (m : imap) : Z :=
  let length_gaps := if num_gaps m =? 0 then 0 else zlast (cum_gap_lengths m) in
  parent_length m + length_gaps.

(** [get_gap_lengths] l.1339 *)
Definition get_gap_lengths (m : imap) : list Z := diffs_from 0 (cum_gap_lengths m).

(** [_gap_spans] l.963: alignment coordinates of gap starts / gap ends *)
Definition gap_starts (m : imap) : list Z := add2 (gap_pos m) (0 :: cum_gap_lengths m).
Definition gap_ends (m : imap) : list Z := add2 (gap_pos m) (cum_gap_lengths m).

(** [get_seq_index] l.1271, for an index already made non-negative *)
Definition seq_index_nn (m : imap) (align_index : Z) : res Z :=
  if (num_gaps m =? 0) || (align_index <? znth 0 (gap_pos m) 0) then Ok align_index
  else
    let cum := cum_gap_lengths m in
    let gs := gap_starts m in
    let ge := gap_ends m in
    if align_index >=? zlast ge then Ok (align_index - zlast cum)
    else
      let index := ss_left ge align_index in
      if align_index <? pyget gs index then Ok (align_index - pyget cum (index - 1))
      else if align_index =? pyget ge index then Ok (align_index - pyget cum index)
      else if (pyget gs index <=? align_index) && (align_index <? pyget ge index)
           then Ok (pyget (gap_pos m) index)
      else Err E_None.

Definition get_seq_index (m : imap) (align_index : Z) : res Z :=
  let align_index := if align_index <? 0 then len m + align_index else align_index in
  if align_index <? 0 then Err E_Index else seq_index_nn m align_index.

(** [get_align_index] l.1223 *)
Definition get_align_index (m : imap) (seq_index : Z) (slice_stop : bool) : res Z :=
  let cum := cum_gap_lengths m in
  let gp := gap_pos m in
  let seq_index := if seq_index <? 0 then seq_index + parent_length m else seq_index in
  if seq_index <? 0 then Err E_Index
  else if (num_gaps m =? 0) || (seq_index <? znth 0 gp 0) then Ok seq_index
  else
    let matches := where_eq 0 gp seq_index in
    if slice_stop && negb (zlen matches =? 0) then
      (* (idx,) = numpy.where(match)[0] : exactly one match or ValueError *)
      match matches with
      | [idx] =>
          let gap_len := if idx =? 0 then pyget cum idx else pyget cum idx - pyget cum (idx - 1) in
          let gap_end := pyget gp idx + pyget cum idx in
          Ok (gap_end - gap_len)
      | _ => Err E_Value
      end
    else if seq_index >=? zlast gp then Ok (seq_index + zlast cum)
    else
      let index := ss_left gp seq_index in
      let gap_lengths :=
        if seq_index <? pyget gp index
        then (if index =? 0 then 0 else pyget cum (index - 1))
        else pyget cum index in
      Ok (seq_index + gap_lengths).

(** ** slicing: [__getitem__(slice)] l.1119-1221, step is None *)

Definition getitem_slice (m : imap) (item_start item_stop : option Z) : res imap :=
  let gp := gap_pos m in
  let cum := cum_gap_lengths m in
  (* start = item.start or 0 ; stop = item.stop if item.stop is not None else len(self) *)
  let start := match item_start with Some s => s | None => 0 end in
  let stop := match item_stop with Some s => s | None => len m end in
  (* convert negative indices *)
  let start := if start >=? 0 then start else len m + start in
  let stop := if stop >=? 0 then stop else len m + stop in
  if Z.min start stop <? 0 then Err E_Index
  else if start >=? stop then post_init [] [] 0
  else
    let no_gaps := post_init [] [] (stop - start) in
    if num_gaps m =? 0 then no_gaps
    else
      let first_gap := znth 0 gp 0 in
      let last_gap := zlast gp + zlast cum in
      if (stop <? first_gap) || (start >=? last_gap) then no_gaps
      else
        let gs := gap_starts m in
        let ge := gap_ends m in
        (* l < num_gaps because start < last_gap = ge[-1] *)
        let l := ss_left ge start in
        if (pyget gs l <=? start) && (start <? pyget ge l) && (stop <=? pyget ge l) then
          (* entire span is within a single gap *)
          post_init [0] [stop - start] 0
        else
          let lengths := get_gap_lengths m in
          let '(begin, shift, lengths) :=
            if start <? first_gap then (0, start, lengths)
            else if (pyget gs l <=? start) && (start <? pyget ge l) then
              let begin_diff := start - pyget gs l in
              (l,
               (if l =? 0 then znth 0 gp 0 else start - pyget cum (l - 1) - begin_diff),
               sub_at lengths l begin_diff)
            else if start =? pyget ge l then (l + 1, start - pyget cum l, lengths)
            else (l, (if l =? 0 then start else start - pyget cum (l - 1)), lengths) in
          let r := ss_right (zslice ge l (zlen ge)) stop + l in
          let '(end_, lengths) :=
            if r =? num_gaps m then (r, lengths)
            else if (pyget gs r <? stop) && (stop <=? pyget ge r) then
              (r + 1, sub_at lengths r (pyget ge r - stop))
            else (r, lengths) in
          let pos_result := map (fun p => p - shift) (zslice gp begin end_) in
          let lengths := zslice lengths begin end_ in
          bind (seq_index_nn m stop) (fun si_stop =>
          bind (seq_index_nn m start) (fun si_start =>
          post_init_lengths pos_result lengths (si_stop - si_start))).

(** [__getitem__(int)] l.1115: [self[item : item + 1]] *)
Definition getitem_int (m : imap) (item : Z) : res imap :=
  getitem_slice m (Some item) (Some (item + 1)).

(** ** [__add__] l.1307, [__mul__] l.1325, [nucleic_reversed] l.1511 *)

Definition add (m other : imap) : res imap :=
  let gp := gap_pos m ++ map (fun p => parent_length m + p) (gap_pos other) in
  let cum_length := if num_gaps m =? 0 then 0 else zlast (cum_gap_lengths m) in
  let cum := cum_gap_lengths m ++ map (fun c => cum_length + c) (cum_gap_lengths other) in
  post_init gp cum (parent_length m + parent_length other).

Definition mul (m : imap) (scale : Z) : res imap :=
  post_init (map (fun p => p * scale) (gap_pos m))
            (map (fun c => c * scale) (cum_gap_lengths m))
            (parent_length m * scale).

Definition nucleic_reversed (m : imap) : res imap :=
  let lengths := get_gap_lengths m in
  if zlen (gap_pos m) =? 0 then post_init_lengths (gap_pos m) lengths (parent_length m)
  else post_init_lengths (rev (map (fun p => parent_length m - p) (gap_pos m)))
                         (rev lengths) (parent_length m).

(** ** spans and coordinate listings *)

Inductive ispan : Type :=
| ISpan (s e : Z)      (* Span(start, end) *)
| ILost (n : Z).       (* LostSpan(length) *)

(** the loop of the [spans] property l.1373-1392; [prev_pos], [prev_cum] are
    [gap_pos[i-1]], [cum_gap_lengths[i-1]] ([0], [0] for [i = 0], the values
    the code uses for [start] and [prev_length] there) *)
Fixpoint spans_loop (prev_pos prev_cum : Z) (gp cum : list Z) : list ispan :=
  match gp, cum with
  | pos :: gp', c :: cum' =>
      (if pos =? 0 then [ILost c]
       else [ISpan prev_pos pos; ILost (c - prev_cum)]) ++ spans_loop pos c gp' cum'
  | _, _ => []
  end.

Definition spans (m : imap) : list ispan :=
  if num_gaps m =? 0 then [ISpan 0 (parent_length m)]
  else spans_loop 0 0 (gap_pos m) (cum_gap_lengths m)
       ++ (if zlast (gap_pos m) <? parent_length m
           then [ISpan (zlast (gap_pos m)) (parent_length m)] else []).

Definition span_mask (s : ispan) : list bool :=
  match s with
  | ISpan s e => repeat true (Z.to_nat (e - s))
  | ILost n => repeat false (Z.to_nat n)
  end.
(** the gapped string the spans spell out *)
Definition spans_mask (m : imap) : list bool := concat (map span_mask (spans m)).

(** [nongap] l.1344: ungapped segments in alignment coordinates.  [prev_pos]
    is the loop variable of that name, [prev_cum] is [cum_gap_lengths[i-1]]
    ([0] when [i = 0], as in the code) *)
Fixpoint nongap_loop (prev_pos prev_cum : Z) (gp cum : list Z) : list (Z * Z) :=
  match gp, cum with
  | pos :: gp', c :: cum' =>
      if pos =? 0 then nongap_loop pos c gp' cum'
      else (prev_pos + prev_cum, pos + prev_cum) :: nongap_loop pos c gp' cum'
  | _, _ => []
  end.

Definition nongap (m : imap) : list (Z * Z) :=
  nongap_loop 0 0 (gap_pos m) (cum_gap_lengths m)
  ++ (if negb (num_gaps m =? 0) && (zlast (gap_pos m) + zlast (cum_gap_lengths m) <? len m)
      then [(zlast (gap_pos m) + zlast (cum_gap_lengths m), len m)] else []).

(** [get_coordinates] l.1406 *)
Definition get_coordinates (m : imap) : list (Z * Z) :=
  let gp := gap_pos m in
  let n := num_gaps m in
  if (n =? 0) || ((n =? 1) && (znth 0 gp 0 =? 0)) then [(0, parent_length m)]
  else if n =? 1 then [(0, znth 0 gp 0); (znth 0 gp 0, parent_length m)]
  else
    let starts := zslice gp 0 (n - 1) in
    let ends := zslice gp 1 n in
    let '(starts, ends) :=
      if negb (znth 0 gp 0 =? 0) then (0 :: starts, zslice starts 0 1 ++ ends) else (starts, ends) in
    let '(starts, ends) :=
      if zlast gp + zlast (cum_gap_lengths m) <? parent_length m
      then (starts ++ [zlast ends], ends ++ [parent_length m]) else (starts, ends) in
    combine starts ends.

(** [get_gap_coordinates] l.1435 *)
Definition get_gap_coordinates (m : imap) : list (Z * Z) :=
  combine (gap_pos m) (get_gap_lengths m).

(** [get_gap_align_coordinates] l.1440 *)
Definition get_gap_align_coordinates (m : imap) : list (Z * Z) :=
  combine (gap_starts m) (gap_ends m).

(** ** [merge_maps] l.1454 *)

Fixpoint insert_sorted_unique (x : Z) (l : list Z) : list Z :=
  match l with
  | [] => [x]
  | y :: t => if x <? y then x :: l else if x =? y then l else y :: insert_sorted_unique x t
  end.
(** [numpy.union1d] *)
Definition union1d (a b : list Z) : list Z :=
  fold_right insert_sorted_unique [] (a ++ b).

Fixpoint lookup (k : Z) (keys vals : list Z) : option Z :=
  match keys, vals with
  | x :: ks, v :: vs => if x =? k then Some v else lookup k ks vs
  | _, _ => None
  end.

(** [_update_lengths]: add the length of the gap at [p] if [p] is a gap position *)
Definition length_at (gp lengths : list Z) (p : Z) : Z :=
  match lookup p gp lengths with Some v => v | None => 0 end.

Definition merge_maps (m other : imap) (plen : option Z) : res imap :=
  let unique_pos := union1d (gap_pos m) (gap_pos other) in
  let self_lengths := get_gap_lengths m in
  let other_lengths := get_gap_lengths other in
  let gap_lengths :=
    map (fun p => length_at (gap_pos m) self_lengths p + length_at (gap_pos other) other_lengths p)
        unique_pos in
  (* parent_length = parent_length or self.parent_length *)
  let plen := match plen with
              | Some v => if v =? 0 then parent_length m else v
              | None => parent_length m end in
  post_init_lengths unique_pos gap_lengths plen.

(** ** [joined_segments] l.1479 *)

Fixpoint insert_pair (x : Z * Z) (l : list (Z * Z)) : list (Z * Z) :=
  match l with
  | [] => [x]
  | y :: t =>
      if (fst x <? fst y) || ((fst x =? fst y) && (snd x <=? snd y)) then x :: l
      else y :: insert_pair x t
  end.
(** [sorted(list of pairs)] *)
Definition sort_pairs (l : list (Z * Z)) : list (Z * Z) := fold_right insert_pair [] l.

(** [gaps[pos] = gaps.get(pos, dflt) + v] on an association list *)
Fixpoint dict_add (pos dflt v : Z) (d : list (Z * Z)) : list (Z * Z) :=
  match d with
  | [] => [(pos, dflt + v)]
  | (k, x) :: t => if k =? pos then (k, x + v) :: t else (k, x) :: dict_add pos dflt v t
  end.

(** inner loop over the gaps of one slice *)
Fixpoint join_gaps (gp cum : list Z) (cum_parent_length cum_length : Z) (gaps : list (Z * Z))
  : list (Z * Z) :=
  match gp, cum with
  | p :: gp', c :: cum' =>
      join_gaps gp' cum' cum_parent_length cum_length (dict_add (p + cum_parent_length) cum_length c gaps)
  | _, _ => gaps
  end.

Fixpoint join_loop (m : imap) (coords : list (Z * Z)) (gaps : list (Z * Z))
         (cum_length cum_parent_length : Z) : res (list (Z * Z) * Z) :=
  match coords with
  | [] => Ok (gaps, cum_parent_length)
  | (s, e) :: rest =>
      bind (getitem_slice m (Some s) (Some e)) (fun im =>
        let gaps := join_gaps (gap_pos im) (cum_gap_lengths im) cum_parent_length cum_length gaps in
        let cum_parent_length := cum_parent_length + parent_length im in
        let cum_length := if num_gaps im =? 0 then cum_length
                          else cum_length + zlast (cum_gap_lengths im) in
        join_loop m rest gaps cum_length cum_parent_length)
  end.

Definition joined_segments (m : imap) (coords : list (Z * Z)) : res imap :=
  bind (join_loop m (sort_pairs coords) [] 0 0) (fun '(gaps, plen) =>
    let items := sort_pairs gaps in
    post_init (map fst items) (map snd items) plen).

(** ** gap-coordinate set operations l.1677-1788 *)

(** [span_and_span]; [Ok None] is [(None, None)] *)
Definition span_and_span (a b : Z * Z) : res (option (Z * Z)) :=
  let '(a1, a2) := a in
  let '(b1, b2) := b in
  if (a1 >=? a2) || (b1 >=? b2) then Err E_Value
  else if (a1 <? b1) && (a2 >? b2) then Ok (Some (b1, b2))
  else if (a1 >=? b1) && (a2 <=? b2) then Ok (Some (a1, a2))
  else if a1 =? b1 then Ok (Some (a1, Z.min a2 b2))
  else if a2 =? b2 then Ok (Some (Z.max a1 b1, a2))
  else if (a1 <? b1) && (b1 <? a2) then Ok (Some (b1, Z.min a2 b2))
  else if (a1 <? b2) && (b2 <? a2) then Ok (Some (Z.max a1 b1, b2))
  else Ok None.

(** inner loop of [coords_minus_coords]; [tot = None] is [total_intersect is None] *)
Fixpoint cmc_inner (a1 a2 : Z) (coords2 : list (Z * Z)) (tot : option Z) : res (option Z) :=
  match coords2 with
  | [] => Ok tot
  | (b1, b2) :: rest =>
      if b2 <? a1 then cmc_inner a1 a2 rest tot
      else if a2 <=? b1 then Ok tot
      else
        bind (span_and_span (a1, a2) (b1, b2)) (fun r =>
          match r with
          | Some (i1, i2) =>
              cmc_inner a1 a2 rest (Some (i2 - i1 + match tot with Some t => t | None => 0 end))
          | None => cmc_inner a1 a2 rest tot
          end)
  end.

Fixpoint coords_minus_coords (coords1 coords2 : list (Z * Z)) : res (list (Z * Z)) :=
  match coords1 with
  | [] => Ok []
  | (a1, a2) :: rest =>
      bind (cmc_inner a1 a2 coords2 None) (fun tot =>
        let t := match tot with Some t => t | None => 0 end in
        let end_ := a2 - t in
        if end_ <? 0 then Err E_Value
        else
          bind (coords_minus_coords rest coords2) (fun tl =>
            (* a2 - a1 != total_intersect  (None != int is True) *)
            match tot with
            | Some t' => if a2 - a1 =? t' then Ok tl else Ok ((a1, end_) :: tl)
            | None => Ok ((a1, end_) :: tl)
            end))
  end.

Fixpoint ci_inner (a1 a2 : Z) (coords2 : list (Z * Z)) : res (list (Z * Z)) :=
  match coords2 with
  | [] => Ok []
  | (b1, b2) :: rest =>
      if (a1 <=? b2) && (b1 <=? a2) then
        bind (span_and_span (a1, a2) (b1, b2)) (fun r =>
          bind (ci_inner a1 a2 rest) (fun tl =>
            match r with Some p => Ok (p :: tl) | None => Ok tl end))
      else if a2 <? b1 then Ok []
      else ci_inner a1 a2 rest
  end.

Fixpoint coords_intersect (coords1 coords2 : list (Z * Z)) : res (list (Z * Z)) :=
  match coords1 with
  | [] => Ok []
  | (a1, a2) :: rest =>
      bind (ci_inner a1 a2 coords2) (fun hd =>
        bind (coords_intersect rest coords2) (fun tl => Ok (hd ++ tl)))
  end.

Definition last_end (coords : list (Z * Z)) : Z :=
  match rev coords with (_, e) :: _ => e | [] => 0 end.

(** [shared_gaps(ndarray)] l.1611 *)
Definition shared_gaps_coords (m : imap) (other_gaps : list (Z * Z)) : res (list (Z * Z)) :=
  if zlen other_gaps =? 0 then Ok []
  else if last_end other_gaps >? len m then Err E_Assert
  else coords_intersect (get_gap_align_coordinates m) other_gaps.

(** [shared_gaps(IndelMap)] l.1594 *)
Definition shared_gaps (m other : imap) : res (list (Z * Z)) :=
  if negb (len m =? len other) then Err E_Assert
  else if (num_gaps m =? 0) || (num_gaps other =? 0) then Ok []
  else shared_gaps_coords m (get_gap_align_coordinates other).

Fixpoint minus_new_gaps (m : imap) (unique : list (Z * Z)) : res (list Z * list Z) :=
  match unique with
  | [] => Ok ([], [])
  | (s, e) :: rest =>
      bind (get_seq_index m s) (fun p =>
        bind (minus_new_gaps m rest) (fun '(ps, ls) => Ok (p :: ps, (e - s) :: ls)))
  end.

(** [minus_gaps(ndarray)] l.1652 *)
Definition minus_gaps_coords (m : imap) (other_gaps : list (Z * Z)) : res imap :=
  if zlen other_gaps =? 0 then Ok m
  else if last_end other_gaps >? len m then Err E_Assert
  else
    bind (coords_minus_coords (get_gap_align_coordinates m) other_gaps) (fun unique =>
      bind (minus_new_gaps m unique) (fun '(gp, lengths) =>
        post_init_lengths gp lengths (parent_length m))).

(** [minus_gaps(IndelMap)] l.1632 *)
Definition minus_gaps (m other : imap) : res imap :=
  if negb (len m =? len other) then Err E_Assert
  else minus_gaps_coords m (get_gap_align_coordinates other).

(** ** alternative constructors *)

Fixpoint flatten_pairs (l : list (Z * Z)) : list Z :=
  match l with [] => [] | (a, b) :: t => a :: b :: flatten_pairs t end.
Fixpoint pair_up (l : list Z) : list (Z * Z) :=
  match l with a :: b :: t => (a, b) :: pair_up t | _ => [] end.

(** [from_aligned_segments] l.1060: [locations] are the ungapped segments in
    alignment coordinates *)
Definition from_aligned_segments (locations : list (Z * Z)) (aligned_length : Z) : res imap :=
  match locations with
  | [] => post_init [] [] aligned_length
  | (s0, e0) :: tl =>
      if (zlen locations =? 1) && (s0 =? 0) && (e0 =? aligned_length) then post_init [] [] aligned_length
      else
        let locations := if negb (s0 =? 0) then (0, 0) :: locations else locations in
        let locations := if last_end locations <? aligned_length
                         then locations ++ [(aligned_length, aligned_length)] else locations in
        let flat := flatten_pairs locations in
        let flat := zslice flat 1 (zlen flat - 1) in
        let gap_coords := pair_up flat in        (* rows (gap start, gap end) *)
        let gap_starts := map fst gap_coords in
        let gap_lengths := map (fun p => snd p - fst p) gap_coords in
        let cum_lens := cumsum gap_lengths in
        let gp := sub2 gap_starts (0 :: cum_lens) in
        let seq_length := aligned_length - zlast cum_lens in
        post_init gp cum_lens seq_length
  end.

(** [gap_coords_to_map] l.2143: a dict {gap pos: gap length} given as item list
    with distinct keys *)
Definition gap_coords_to_map (gaps_lengths : list (Z * Z)) (seq_length : Z) : res imap :=
  let items := sort_pairs gaps_lengths in
  post_init_lengths (map fst items) (map snd items) seq_length.

(** [make_seq_feature_map] l.1571 on non-lost spans given as (start, end) *)
Fixpoint make_seq_coords (m : imap) (spans : list (Z * Z)) : res (list (Z * Z)) :=
  match spans with
  | [] => Ok []
  | (s, e) :: rest =>
      bind (get_seq_index m s) (fun s' =>
        bind (get_seq_index m e) (fun e' =>
          bind (make_seq_coords m rest) (fun tl => Ok ((s', e') :: tl))))
  end.
