(** C19 — runner for the correspondence check.  Kill / fault points of the real
    code are the audited events (mkdtemp, open, remove, rename, rmtree); [Write]
    and [Close] are not audited, so the k-th audited event is located in the
    model program first. *)
From CG3 Require Import Lib.PyZ Lib.Val Model.AtomicWrite.

Definition audited (o : op) : bool :=
  match o with Write _ | Close => false | _ => true end.

(** index in [p] of the k-th audited operation (length p if there is none) *)
Fixpoint audited_index (p : list op) (k : nat) : nat :=
  match p with
  | [] => 0
  | o :: t => if audited o then match k with O => O | S k' => S (audited_index t k') end
              else S (audited_index t k)
  end.

Definition op_code (o : op) : Z :=
  match o with
  | Mkdtemp => 1 | OpenTmp => 2 | Write _ => 3 | Close => 4 | UnlinkDest => 5
  | Rename => 6 | Replace => 6 | Rmtree => 7 | UnlinkDestOnError => 5
  end.

Definition OLD : content := [79; 76; 68].
Definition CHUNKS : list content := [[78; 69]; [87]].

Definition dest_code (s : fs) : Z :=
  match dest s with
  | None => 0
  | Some c => if list_eq_dec Z.eq_dec c OLD then 1
              else if list_eq_dec Z.eq_dec c (concat CHUNKS) then 2 else 3
  end.

Definition obs (s : fs) : val :=
  VL [VZ (dest_code s); VB (negb (no_tmp s))].

(** ---- exception classes / handler clauses as numbers ---- *)
Definition exc_of (z : Z) : exc :=
  if z =? 0 then EOS else if z =? 1 then EValue else if z =? 2 then EAttr else if z =? 3 then EOther else EBase.
Definition hbase_of (z : Z) : hbase :=
  if z =? 0 then BBaseException else if z =? 1 then BException else if z =? 2 then BOSError
  else if z =? 3 then BValueError else if z =? 4 then BAttributeError else BOtherName.
Definition handlers_of (h : list Z * list Z) : handlers :=
  {| h_enter := map hbase_of (fst h); h_exit := map hbase_of (snd h) |}.

(** ---- zip programs ---- *)
Definition zaudited (o : zop) : bool := match o with ZWrite _ | ZClose => false | _ => true end.

Fixpoint zaudited_index (p : list zop) (k : nat) : nat :=
  match p with
  | [] => 0
  | o :: t => if zaudited o then match k with O => O | S k' => S (zaudited_index t k') end
              else S (zaudited_index t k)
  end.

Definition zop_code (nested : bool) (o : zop) : Z :=
  match o with
  | ZMkOuter => 1 | ZMkInner => 11 | ZOpenFile => if nested then 12 else 2
  | ZWrite _ => 3 | ZClose => 4
  | ZTryOpen Staged => 13 | ZCreate Staged => 14 | ZTryOpen Dest => 23 | ZCreate Dest => 24
  | ZAdd _ => 15 | ZRmInner => 17 | ZReplace => 6 | ZRmOuter => 7
  end.

Definition arch_eqb (a b : option arch) : bool :=
  match a, b with
  | None, None => true
  | Some Garbage, Some Garbage => true
  | Some (Members x), Some (Members y) => if list_eq_dec (list_eq_dec Z.eq_dec) x y then true else false
  | _, _ => false
  end.

Definition zobs (old new : option arch) (s : zfs) : val :=
  VL [VZ (match zdest s with
          | None => 0
          | d => if arch_eqb d old then 1 else if arch_eqb d new then 2 else 3
          end);
      VB (negb (zno_tmp s))].

(** case: (shape, old present?, mode, k, exception class, (enter clause, exit clause))
    shape 0 = plain target, write succeeds; 1 = the body raises after the first chunk;
          4 = the body raises before the first chunk; 5 = opening the temporary file raises (class e);
          2 = `.zip` destination (temporary archive + replace); 3 = archive appended to in place
    mode  0 = trace, 1 = kill before audited event k, 2 = exception of class e at audited event k *)
Definition run_case (c : Z * bool * Z * Z * Z * (list Z * list Z)) : val :=
  let '(shape, has_old, mode, k, e, h) := c in
  let kk := Z.to_nat k in
  if (shape =? 2) || (shape =? 3) then
    let nested := shape =? 2 in
    let old := if has_old then Some (Members [OLD]) else None in
    let p := if nested then zprog_staged CHUNKS else zprog_append has_old CHUNKS in
    let new := Some (Members ((if nested then [] else old_members old) ++ [concat CHUNKS])) in
    if mode =? 0 then
      VL [vlistZ (map (zop_code nested) (filter zaudited p)); zobs old new (zrun p (zinit old))]
    else if mode =? 1 then
      zobs old new (zrun (firstn (zaudited_index p kk) p) (zinit old))
    else VN
  else
    let p := if shape =? 1 then prog_fail [] CHUNKS 1
             else if shape =? 4 then prog_fail [] CHUNKS 0
             else prog_ok commit_replace CHUNKS in
    let s0 := init (if has_old then Some OLD else None) in
    let H := handlers_of h in
    if shape =? 5 then
      VL [vlistZ []; obs (run_fault_cls H (exc_of e) 1 p s0)]
    else if mode =? 0 then
      VL [vlistZ (map op_code (filter audited p)); obs (run p s0)]
    else if mode =? 1 then
      obs (run_prefix (audited_index p kk) p s0)
    else
      obs (run_fault_cls H (exc_of e) (audited_index p kk) p s0).

(** do the except-clauses read from the source cover every handled class? *)
Definition run_covers (h : list Z * list Z) : val := VB (covers_handled (handlers_of h)).

(** resume: (inputs, ids already completed, k) -> (processed on resume, final ids, final ids of the uninterrupted run) *)
Definition run_resume (c : list Z * list Z * Z) : val :=
  let '(inputs, pre, k) := c in
  let f := fun i : Z => i in
  let st0 := map (fun i => (i, f i)) pre in
  let st1 := interrupted f (Z.to_nat k) inputs st0 in
  VL [vlistZ (processed inputs st1);
      vlistZ (map fst (apply_to f inputs st1));
      vlistZ (map fst (apply_to f inputs st0))].

(** resume with failing inputs: (inputs, failing inputs, k) ->
    (processed on resume, completed ids, not-completed ids, the same two for the uninterrupted run) *)
Definition run_resume_nc (c : list Z * list Z * Z) : val :=
  let '(inputs, bad, k) := c in
  let g := fun i : Z => (i, negb (existsb (Z.eqb i) bad)) in
  let st1 := interrupted_nc g (Z.to_nat k) inputs [] in
  let fin := apply_nc g inputs st1 in
  let ref := apply_nc g inputs [] in
  let ids (b : bool) (st : list rec) := map fst (filter (fun p => Bool.eqb (snd (snd p)) b) st) in
  VL [vlistZ (processed_nc inputs st1);
      vlistZ (ids true fin); vlistZ (ids false fin);
      vlistZ (ids true ref); vlistZ (ids false ref)].
