(** C19 — runner for the correspondence check.  Kill / fault points of the real
    code are the audited events (mkdtemp, open, remove, rename, rmtree); [Write]
    and [Close] are not audited, so the k-th audited event is located in the
    model program first. *)
From CG3 Require Import Lib.PyZ Lib.Val Model.AtomicWrite.

Definition audited (o : op) : bool :=
  match o with Write _ | Close => false | _ => true end.

(** index in [p] of the k-th audited operation (length p if there is none) *)
Fixpoint audited_index (p : list op) (k : nat) : nat :=
  match p with
  | [] => 0
  | o :: t => if audited o then match k with O => O | S k' => S (audited_index t k') end
              else S (audited_index t k)
  end.

Definition op_code (o : op) : Z :=
  match o with
  | Mkdtemp => 1 | OpenTmp => 2 | Write _ => 3 | Close => 4 | UnlinkDest => 5
  | Rename => 6 | Replace => 6 | Rmtree => 7 | UnlinkDestOnError => 5
  end.

Definition OLD : content := [79; 76; 68].
Definition CHUNKS : list content := [[78; 69]; [87]].

Definition dest_code (s : fs) : Z :=
  match dest s with
  | None => 0
  | Some c => if list_eq_dec Z.eq_dec c OLD then 1
              else if list_eq_dec Z.eq_dec c (concat CHUNKS) then 2 else 3
  end.

Definition obs (s : fs) : val :=
  VL [VZ (dest_code s); VB (negb (no_tmp s))].

(** case: (fail?, old present?, mode, k)   mode 0 = trace, 1 = kill before audited event k,
    2 = OSError at audited event k *)
Definition run_case (c : bool * bool * Z * Z) : val :=
  let '(fail, has_old, mode, k) := c in
  let p := if fail then prog_fail [] CHUNKS 1 else prog_ok commit_replace CHUNKS in
  let s0 := init (if has_old then Some OLD else None) in
  let kk := Z.to_nat k in
  if mode =? 0 then
    VL [vlistZ (map op_code (filter audited p)); obs (run p s0)]
  else if mode =? 1 then
    obs (run_prefix (audited_index p kk) p s0)
  else
    obs (run_fault (audited_index p kk) p s0).

(** resume: (inputs, ids already completed, k) -> (processed on resume, final ids, final ids of the uninterrupted run) *)
Definition run_resume (c : list Z * list Z * Z) : val :=
  let '(inputs, pre, k) := c in
  let f := fun i : Z => i in
  let st0 := map (fun i => (i, f i)) pre in
  let st1 := interrupted f (Z.to_nat k) inputs st0 in
  VL [vlistZ (processed inputs st1);
      vlistZ (map fst (apply_to f inputs st1));
      vlistZ (map fst (apply_to f inputs st0))].
