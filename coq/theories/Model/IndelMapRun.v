(** C08 — runner used by the correspondence check.  One case carries one gap
    mask (or one mask and a list of partners) and returns every observation
    the harness also takes from the real [IndelMap], in a fixed order. *)
From CG3 Require Import Lib.PyZ Lib.Val Model.IndelMap Model.IndelMapFixed.

(** which transcription of the four corrected methods to run ([false] = the
    pinned code of Model/IndelMap.v, [true] = the corrected code of
    Model/IndelMapFixed.v); chosen by the harness from the behaviour of the
    implementation on the four witness inputs *)
Record variant := mk_variant { v_slice : bool; v_add : bool; v_coords : bool; v_nongap : bool }.
Definition pinned : variant := mk_variant false false false false.

Definition slice_fn (v : variant) := if v_slice v then getitem_slice_v2 else getitem_slice.
Definition int_fn (v : variant) := if v_slice v then getitem_int_v2 else getitem_int.
Definition add_fn (v : variant) := if v_add v then add_v2 else add.
Definition coords_fn (v : variant) := if v_coords v then get_coordinates_v2 else get_coordinates.
Definition nongap_fn (v : variant) := if v_nongap v then nongap_v2 else nongap.

Definition vpairs (l : list (Z * Z)) : val := VL (map vpairZ l).

Definition vstate (m : imap) : val :=
  VL [vlistZ (gap_pos m); vlistZ (cum_gap_lengths m); VZ (parent_length m)].

Definition vres {A} (f : A -> val) (r : res A) : val :=
  match r with
  | Ok a => f a
  | Err e => if e =? E_None then VN else VE e
  end.

Definition vspan (s : ispan) : val :=
  match s with ISpan s e => VL [VZ s; VZ e] | ILost n => VZ n end.

Definition vmask (k : list bool) : val := VS (map (fun b : bool => if b then 120 else 45) k).

(** which slices a unary case exercises *)
Inductive slice_args :=
| SAll (lo hi : Z)                       (* every a, b in lo..hi and None *)
| SList (l : list (option Z * option Z)).

Definition bounds (lo hi : Z) : list (option Z) := None :: map Some (zrange lo (hi + 1)).

Definition slice_list (s : slice_args) : list (option Z * option Z) :=
  match s with
  | SAll lo hi => flat_map (fun a => map (fun b => (a, b)) (bounds lo hi)) (bounds lo hi)
  | SList l => l
  end.

Inductive case :=
| CUnary (k : list bool) (sl : slice_args) (idx : list Z) (sidx : list Z) (scales : list Z)
| CBinary (k : list bool) (others : list (list bool))
| CJoin (k : list bool) (coordss : list (list (Z * Z)))
| CSeqMap (k : list bool) (spans : list (Z * Z)).   (* make_seq_feature_map: the non-lost alignment spans *)

Definition run_unary (v : variant) (k : list bool) (sl : slice_args) (idx sidx scales : list Z) : val :=
  let m := from_mask k in
  VL [ vstate m;
       VZ (len m);
       VL (map vspan (spans m));
       vmask (spans_mask m);
       vpairs (nongap_fn v m);
       vpairs (coords_fn v m);
       vpairs (get_gap_coordinates m);
       vpairs (get_gap_align_coordinates m);
       VL (map (fun i => vres VZ (get_seq_index m i)) idx);
       VL (map (fun s => VL [vres VZ (get_align_index m s false); vres VZ (get_align_index m s true)]) sidx);
       VL (map (fun ab => vres vstate (slice_fn v m (fst ab) (snd ab))) (slice_list sl));
       VL (map (fun i => vres vstate (int_fn v m i)) (zrange 0 (len m)));
       vres vstate (nucleic_reversed m);
       VL (map (fun s => vres vstate (mul m s)) scales);
       vres vstate (from_aligned_segments (nongap_fn v m) (len m));
       vres vstate (gap_coords_to_map (get_gap_coordinates m) (parent_length m)) ].

Definition run_pair (v : variant) (m1 : imap) (k2 : list bool) : val :=
  let m2 := from_mask k2 in
  let s := add_fn v m1 m2 in
  VL [ vres vstate s;
       vres (fun m => vmask (spans_mask m)) s;
       vres (fun m => VZ (len m)) s;
       vres (fun m => VL (map (fun i => vres VZ (get_seq_index m i)) (zrange 0 (len m + 1)))) s;
       vres (fun m => VL (map (fun i => VL [vres VZ (get_align_index m i false); vres VZ (get_align_index m i true)])
                              (zrange 0 (parent_length m + 1)))) s;
       (if parent_length m1 =? parent_length m2 then vres vstate (merge_maps m1 m2 None) else VN);
       vres vstate (minus_gaps m1 m2);
       vres vpairs (shared_gaps m1 m2) ].

Definition run_case_v (v : variant) (c : case) : val :=
  match c with
  | CUnary k sl idx sidx scales => run_unary v k sl idx sidx scales
  | CBinary k others => let m1 := from_mask k in VL (map (run_pair v m1) others)
  | CJoin k coordss =>
      let m := from_mask k in VL (map (fun cs => vres vstate (joined_segments m cs)) coordss)
  | CSeqMap k spans =>
      let m := from_mask k in
      VL (map (fun se => vres vpairs (make_seq_coords m [se])) spans ++ [VZ (parent_length m)])
  end.

Definition run_case : case -> val := run_case_v pinned.

(** masks are written as strings of [1] (residue) / [0] (gap) digits *)
Definition mk (l : list Z) : list bool := map (fun z => negb (z =? 0)) l.
