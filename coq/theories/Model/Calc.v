(** C07 — executable model of cogent3/recalculation/calculation.py [Calculator]
    (double-buffered cell values, one-deep undo, recycled result arrays,
    consequence programs) and of the dirty-set controller of
    cogent3/recalculation/scope.py [ParameterController] (_changed,
    _update_suspended, updates_postponed, _updateIntermediateValues).

    No proofs in this file.  Cell functions are Section variables.

    Modelling decisions (each is stated again in the evidence file):
    * values are an abstract type [V]; the calc function of the cell at rank r
      is [f r : list V -> option V], [None] standing for
      ParameterOutOfBoundsError / ArithmeticError (-> CalculationInterupted);
    * object identity matters only for recycled cells (Python: the array a
      recycled calc is given is overwritten in place).  A buffer slot is
      [(sid, sval)]: [sid] is the identity of the array stored at that rank
      (0 = None / an immutable value), [sval] its content.  An in-place write
      through identity [a] at rank r updates every holder of [a] at rank r
      (both buffers and [spare]).  Identities never move between ranks
      (data[:] = base[:], spare[rank] = data[rank], data[rank] = spare[rank]
      are all rank-wise), assuming calc functions of non-recycled cells return
      new/immutable values and recycled ones overwrite the array they get;
    * [_programs] is a memo table of the pure function [program]; not state;
    * with_undo = True (the default, the only mode cogent3 itself uses);
    * a recycled cell's self-argument ((self,) + args) is represented by the
      [recycled] flag; its only other effect (rank in its own consequences) is
      unobservable because evaluated cells are never change targets. *)
From Coq Require Import List Arith Bool Lia.
Import ListNotations.

Fixpoint upd {A} (r : nat) (v : A) (l : list A) : list A :=
  match l, r with
  | [], _ => []
  | _ :: t, O => v :: t
  | h :: t, S r' => h :: upd r' v t
  end.

Definition memb (r : nat) (l : list nat) : bool := existsb (Nat.eqb r) l.

Definition is_nil {A} (l : list A) : bool := match l with [] => true | _ => false end.

(** ** static graph (cells in rank order; Calculator.__init__ puts OptPars first) *)
Inductive cell :=
| COpt                                         (* OptPar / LogOptPar *)
| CConst                                       (* ConstCell *)
| CEval (args : list nat) (recycled : bool).   (* EvaluatedCell, args by rank *)

Definition graph := list cell.

Definition args_of (c : cell) : list nat := match c with CEval a _ => a | _ => [] end.
Definition recycled_of (c : cell) : bool := match c with CEval _ b => b | _ => false end.
Definition is_eval (c : cell) : bool := match c with CEval _ _ => true | _ => false end.
Definition is_opt (c : cell) : bool := match c with COpt => true | _ => false end.
Definition cell_at (g : graph) (r : nat) : cell := nth r g CConst.
Definition nopt (g : graph) : nat := length (filter is_opt g).

(** Calculator.__init__ l.238-241:
      for cell in self._cells[::-1]:
          for arg in cell.args:
              arg.consequences[cell.rank] = True
              arg.consequences.update(cell.consequences) *)
Definition conseq_step (T : list (list nat)) (rc : nat * cell) : list (list nat) :=
  fold_left (fun T a => upd a (fst rc :: nth (fst rc) T [] ++ nth a T []) T) (args_of (snd rc)) T.

Definition conseq_table (g : graph) : list (list nat) :=
  fold_left conseq_step (rev (combine (seq 0 (length g)) g)) (repeat [] (length g)).

(** cells_changed_by l.485-500: program = [cell for cell in cells if cell.rank in
    union of consequences of the changed keys] *)
Definition program_of (n : nat) (T : list (list nat)) (keys : list nat) : list nat :=
  filter (fun r => existsb (fun i => memb r (nth i T [])) keys) (seq 0 n).

Definition program (g : graph) (keys : list nat) : list nat :=
  program_of (length g) (conseq_table g) keys.

Section Calc.
  Variable V : Type.
  Variable dflt : V.
  Variable f : nat -> list V -> option V.    (* cell.calc, by rank *)
  Variable tr : nat -> V -> V.               (* opt_pars[i].transform_from_optimiser *)
  Variable tinv : nat -> V -> V.             (* opt_pars[i].transform_to_optimiser *)
  Variable veq : V -> V -> bool.             (* Python == on values *)

  Record slot := mk_slot { sid : nat; sval : V }.
  Definition dslot : slot := mk_slot 0 dflt.
  Definition slot_at (l : list slot) (r : nat) : slot := nth r l dslot.

  Record state := mk_state {
    cv0 : list slot;             (* cell_values[0] *)
    cv1 : list slot;             (* cell_values[1] *)
    sw : bool;                   (* _switch *)
    lastv : list V;              (* last_values (optimiser space) *)
    undo : list (nat * V);       (* last_undo *)
    spare : list slot;           (* spare ; sid 0 = None *)
    nxt : nat                    (* next unused array identity *)
  }.

  Definition cur (s : state) : list slot := if sw s then cv1 s else cv0 s.
  Definition oth (s : state) : list slot := if sw s then cv0 s else cv1 s.

  Inductive res := RVal (v : V) | RExc (r : nat) | RAssert.

  Definition argvals (g : graph) (r : nat) (d : list slot) : list V :=
    map (fun a => sval (slot_at d a)) (args_of (cell_at g r)).

  (** the three holders of arrays at a rank, and the identity counter *)
  Record bufs := mk_bufs { b_data : list slot; b_base : list slot; b_spare : list slot; b_nxt : nat }.

  Definition thru (r a : nat) (v : V) (l : list slot) : list slot :=
    if sid (slot_at l r) =? a then upd r (mk_slot a v) l else l.

  (** data[cell.rank] = cell.calc(data[a] for a in cell.arg_ranks) *)
  Definition write (rec : bool) (r : nat) (v : V) (b : bufs) : bufs :=
    if rec then
      let a := sid (slot_at (b_data b) r) in
      if a =? 0 then (* recycled_result is None: the calc allocates *)
        mk_bufs (upd r (mk_slot (b_nxt b) v) (b_data b)) (b_base b) (b_spare b) (S (b_nxt b))
      else
        mk_bufs (upd r (mk_slot a v) (b_data b)) (thru r a v (b_base b)) (thru r a v (b_spare b)) (b_nxt b)
    else mk_bufs (upd r (mk_slot 0 v) (b_data b)) (b_base b) (b_spare b) (b_nxt b).

  (** plain_update l.502-512; returns the failing rank if a calc raised *)
  Fixpoint plain_update (g : graph) (prog : list nat) (b : bufs) : bufs * option nat :=
    match prog with
    | [] => (b, None)
    | r :: p =>
        match f r (argvals g r (b_data b)) with
        | None => (b, Some r)
        | Some v => plain_update g p (write (recycled_of (cell_at g r)) r v b)
        end
    end.

  (** (i, v) in changes *)
  Definition inb (u : nat * V) (l : list (nat * V)) : bool :=
    existsb (fun c => (fst c =? fst u) && veq (snd c) (snd u)) l.

  (** change l.414-425: the undo pre-step *)
  Definition pre_undo (s : state) (changes : list (nat * V)) : list (nat * V) * bool * list V :=
    if negb (is_nil (undo s)) && forallb (fun u => inb u changes) (undo s)
    then (filter (fun ch => negb (inb ch (undo s))) changes,
          negb (sw s),
          fold_left (fun lv u => upd (fst u) (snd u) lv) (undo s) (lastv s))
    else (changes, sw s, lastv s).

  (** l.436-438: for rank in recycled_cells: if data[rank] is not base[rank]: spare[rank] = data[rank] *)
  Definition save_spare (g : graph) (data base sp : list slot) : list slot :=
    map (fun r => if recycled_of (cell_at g r) && negb (sid (slot_at data r) =? sid (slot_at base r))
                  then slot_at data r else slot_at sp r) (seq 0 (length g)).

  (** l.440-444: for cell in program: if cell.recycled: if data[rank] is base[rank]: data[rank] = spare[rank] *)
  Definition give_spare (g : graph) (prog : list nat) (data base sp : list slot) : list slot :=
    map (fun r => if memb r prog && recycled_of (cell_at g r) && (sid (slot_at data r) =? sid (slot_at base r))
                  then slot_at sp r else slot_at data r) (seq 0 (length g)).

  Definition assert_ok (g : graph) (prog : list nat) (data base : list slot) : bool :=
    forallb (fun r => negb (recycled_of (cell_at g r)) || negb (sid (slot_at data r) =? sid (slot_at base r))) prog.

  (** l.449-457: set new OptPar values *)
  Definition set_vals (np : nat) (changes : list (nat * V)) (lv : list V) (d : list slot)
    : list (nat * V) * list V * list slot :=
    fold_left (fun acc ch =>
                 let '(co, lv, d) := acc in
                 if fst ch <? np
                 then (co ++ [(fst ch, nth (fst ch) lv dflt)], upd (fst ch) (snd ch) lv,
                       upd (fst ch) (mk_slot 0 (tr (fst ch) (snd ch))) d)
                 else (co, lv, upd (fst ch) (mk_slot 0 (snd ch)) d))
              changes ([], lv, d).

  Definition maxfst (l : list (nat * V)) : nat := fold_left (fun m u => Nat.max m (fst u)) l 0.

  Definition change (g : graph) (s : state) (changes0 : list (nat * V)) : state * res :=
    let n := length g in
    let '(changes, sw1, lv1) := pre_undo s changes0 in
    let undo1 : list (nat * V) := [] in                  (* self.last_undo = [] *)
    let prog := program g (map fst changes) in
    let sw2 := negb sw1 in
    let data0 := if sw2 then cv1 s else cv0 s in
    let base := if sw2 then cv0 s else cv1 s in
    let sp1 := save_spare g data0 base (spare s) in
    let data1 := base in                                 (* data[:] = base[:] *)
    let data2 := give_spare g prog data1 base sp1 in
    let mk d b sp nx sw lv un :=   (* sw2 says which buffer is [data] *)
        if sw2 then mk_state b d sw lv un sp nx else mk_state d b sw lv un sp nx in
    if negb (assert_ok g prog data2 base)
    then (mk data2 base sp1 (nxt s) sw2 lv1 undo1, RAssert)
    else
      let '(changed_optpars, lv2, data3) := set_vals (nopt g) changes lv1 data2 in
      match plain_update g prog (mk_bufs data3 base sp1 (nxt s)) with
      | (b, None) =>
          (* l.466-469: undo1 is [] here, so the first branch is dead code *)
          let undo2 := if negb (is_nil undo1) && (nopt g <=? maxfst undo1) then [] else changed_optpars in
          let s' := mk (b_data b) (b_base b) (b_spare b) (b_nxt b) sw2 lv2 undo2 in
          (s', RVal (sval (slot_at (cur s') (n - 1))))
      | (b, Some r) =>
          (* except CalculationInterupted: switch back, restore last_values, clear undo, raise *)
          let lv3 := fold_left (fun lv u => upd (fst u) (snd u) lv) changed_optpars lv2 in
          (mk (b_data b) (b_base b) (b_spare b) (b_nxt b) (negb sw2) lv3 [], RExc r)
      end.

  (** testoptparvector l.388-399 *)
  Fixpoint vec_changes (i : nat) (olds news : list V) : list (nat * V) :=
    match olds, news with
    | o :: os, x :: xs => if negb (veq o x) then (i, x) :: vec_changes (S i) os xs else vec_changes (S i) os xs
    | _, _ => []
    end.

  Definition testoptparvector (g : graph) (s : state) (values : list V) : state * res :=
    change g s (vec_changes 0 (lastv s) values).

  (** testfunction l.403 *)
  Definition testfunction (g : graph) (s : state) : V := sval (slot_at (cur s) (length g - 1)).

  (** Calculator.__init__ l.202-232: priming.  [inp0] gives OptPar.default_value /
      ConstCell.value by rank. *)
  Definition prime_cell (g : graph) (inp0 : list V) (acc : option (list slot * list slot * list bool * nat)) (r : nat)
    : option (list slot * list slot * list bool * nat) :=
    match acc with
    | None => None
    | Some (c0, c1, isc, nx) =>
        match cell_at g r with
        | COpt => Some (upd r (mk_slot 0 (nth r inp0 dflt)) c0, upd r (mk_slot 0 (nth r inp0 dflt)) c1, upd r false isc, nx)
        | CConst => Some (upd r (mk_slot 0 (nth r inp0 dflt)) c0, upd r (mk_slot 0 (nth r inp0 dflt)) c1, upd r true isc, nx)
        | CEval args rec =>
            let const := forallb (fun a => nth a isc false) args in
            if const then
              match f r (argvals g r c0) with
              | None => None
              | Some v => let sl := if rec then mk_slot nx v else mk_slot 0 v in
                          Some (upd r sl c0, upd r sl c1, upd r true isc, if rec then S nx else nx)
              end
            else
              match f r (argvals g r c0), f r (argvals g r c1) with
              | Some v0, Some v1 =>
                  if rec then Some (upd r (mk_slot nx v0) c0, upd r (mk_slot (S nx) v1) c1, upd r false isc, S (S nx))
                  else Some (upd r (mk_slot 0 v0) c0, upd r (mk_slot 0 v1) c1, upd r false isc, nx)
              | _, _ => None
              end
        end
    end.

  Definition init (g : graph) (inp0 : list V) : option state :=
    let n := length g in
    match fold_left (prime_cell g inp0) (seq 0 n) (Some (repeat dslot n, repeat dslot n, repeat false n, 1)) with
    | None => None
    | Some (c0, c1, _, nx) =>
        Some (mk_state c0 c1 false
                (map (fun i => tinv i (sval (slot_at c0 i))) (seq 0 (nopt g)))   (* get_value_array() *)
                [] (repeat dslot n) nx)
    end.

  (** histories *)
  Inductive op := OChange (changes : list (nat * V)) | OVec (values : list V).

  Definition step (g : graph) (s : state) (o : op) : state * res :=
    match o with
    | OChange c => change g s c
    | OVec v => testoptparvector g s v
    end.

  Fixpoint run (g : graph) (s : state) (ops : list op) : state * list res :=
    match ops with
    | [] => (s, [])
    | o :: rest => let '(s1, r) := step g s o in
                   let '(s2, rs) := run g s1 rest in (s2, r :: rs)
    end.
End Calc.

Arguments mk_slot {V}.
Arguments sid {V}.
Arguments sval {V}.
Arguments RVal {V}.
Arguments RExc {V}.
Arguments RAssert {V}.
Arguments OChange {V}.
Arguments OVec {V}.

(** ** the dirty-set controller (scope.py l.698-805)

    Definitions in topological order ([self.defns]); [dargs d] are the ranks of
    the definitions it is computed from (leaf = no args; its value is the
    assigned setting).  [clients d] = definitions that list d among their
    args.  State: [values] (defn.values), [assigned] (the leaf settings),
    [changed] (_changed), [suspended] (_update_suspended). *)
Section Controller.
  Variable V : Type.
  Variable dflt : V.
  Variable h : nat -> list V -> V.         (* defn.update(): recompute from args' values *)
  Variable fails : nat -> list V -> bool.  (* defn.update() RAISES on these argument values (e.g. an inadmissible
                                              parameter combination); the exception reaches the caller *)
  Variable retain : bool.                  (* the dirty set survives a raising update (pinned code: _changed is only
                                              cleared after the loop); false = swap-and-clear before the loop *)

  Definition dgraph := list (list nat).     (* args by rank; [] = leaf *)

  Record cstate := mk_cstate {
    values : list V;
    assigned : list V;                     (* by rank; meaningful for leaves *)
    changed : list nat;
    suspended : bool
  }.

  Definition dargs (g : dgraph) (d : nat) : list nat := nth d g [].
  Definition is_leaf (g : dgraph) (d : nat) : bool := is_nil (dargs g d).
  Definition clients (g : dgraph) (d : nat) : list nat :=
    filter (fun c => memb d (dargs g c)) (seq 0 (length g)).

  (** defn.update() *)
  Definition recompute (g : dgraph) (asg vals : list V) (d : nat) : V :=
    if is_leaf g d then nth d asg dflt else h d (map (fun a => nth a vals dflt) (dargs g d)).

  Definition dargvals (g : dgraph) (vals : list V) (d : nat) : list V := map (fun a => nth a vals dflt) (dargs g d).
  Definition raises_at (g : dgraph) (vals : list V) (d : nat) : bool := negb (is_leaf g d) && fails d (dargvals g vals d).

  (** one iteration of the loop of _updateIntermediateValues; the third component says that an
      update has raised (the loop is abandoned) *)
  Definition pass_step (g : dgraph) (asg : list V) (acc : list V * list nat * bool) (d : nat) : list V * list nat * bool :=
    let '(vals, ch, failed) := acc in
    if failed then acc
    else if memb d ch then
           (if raises_at g vals d then (vals, ch, true)
            else (upd d (recompute g asg vals d) vals, ch ++ clients g d, false))
         else acc.

  (** _updateIntermediateValues l.793-802: on success the dirty set is cleared; when an update raised,
      self.values of that definition is not assigned and the dirty set is retained (or lost) *)
  Definition update_pass (g : dgraph) (s : cstate) : cstate :=
    if suspended s then s
    else
      let '(vals, ch, failed) := fold_left (pass_step g (assigned s)) (seq 0 (length g)) (values s, changed s, false) in
      mk_cstate vals (assigned s) (if failed then (if retain then ch else []) else []) (suspended s).

  (** assign_all l.802-809: defn.assign_all(...) ; update_intermediate_values([defn]) *)
  Definition assign (g : dgraph) (s : cstate) (d : nat) (v : V) : cstate :=
    update_pass g (mk_cstate (values s) (upd d v (assigned s)) (d :: changed s) (suspended s)).

  (** updates_postponed l.777-783 (a generator context manager WITHOUT try/finally):
        (old, self._update_suspended) = (self._update_suspended, True); yield
        self._update_suspended = old; self._updateIntermediateValues()
      [body] = the assignments made inside the block; [raises] = the block
      raised after making them (then the two lines after `yield` never run).
      [fin] = the two lines after `yield` are in a `finally:` clause (the
      proposed fix); the check reads the current source to decide which
      variant it faces. *)
  Definition postponed (fin : bool) (g : dgraph) (s : cstate) (body : list (nat * V)) (raises : bool) : cstate :=
    let old := suspended s in
    let s1 := mk_cstate (values s) (assigned s) (changed s) true in
    let s2 := fold_left (fun s dv => assign g s (fst dv) (snd dv)) body s1 in
    if raises && negb fin then s2
    else update_pass g (mk_cstate (values s2) (assigned s2) (changed s2) old).

  Inductive cop := CAssign (d : nat) (v : V) | CPostponed (body : list (nat * V)) (raises : bool).

  Definition cstep (fin : bool) (g : dgraph) (s : cstate) (o : cop) : cstate :=
    match o with
    | CAssign d v => assign g s d v
    | CPostponed body raises => postponed fin g s body raises
    end.

  (** ParameterController.__init__: update_intermediate_values(self.defns) *)
  Definition cinit (g : dgraph) (asg : list V) : cstate :=
    update_pass g (mk_cstate (repeat dflt (length g)) asg (seq 0 (length g)) false).

  (** get_final_result *)
  Definition final (g : dgraph) (s : cstate) : V := nth (length g - 1) (values s) dflt.
End Controller.

Arguments CAssign {V}.
Arguments CPostponed {V}.

(** ** rule export / import for one setting
    (recalculation/setting.py Setting.get_param_rule_dict; evolve/parameter_controller.py
    set_param_rule l.385-420; recalculation/scope.py _LeafDefn.assign_all l.526-585 for a
    single scope).  A rule is a dict of OPTIONAL fields; [None] = key absent or None. *)
Section RuleIO.
  Variable V : Type.
  Variable ltb : V -> V -> bool.        (* Python < *)
  Variable truthy : V -> bool.          (* Python bool(v): 0.0 is falsy *)
  Variable dlower dupper : V.           (* the class-default bounds (get_default_setting) *)

  Inductive setting :=
  | SConst (v : V)                      (* ConstVal(v) *)
  | SVar (lower v upper : V)            (* Var((lower, v, upper)) of a numeric parameter *)
  | SNVar (v : V).                      (* Var((None, v, None)) of a non-scalar parameter *)

  Record rule := mk_rule {
    r_value : option V; r_const : bool; r_init : option V; r_lower : option V; r_upper : option V }.

  (** get_param_rule_dict: dict(value=, is_constant=True) | dict(init=, lower=, upper=) *)
  Definition export (s : setting) : rule :=
    match s with
    | SConst v => mk_rule (Some v) true None None None
    | SVar l v u => mk_rule None false (Some v) (Some l) (Some u)
    | SNVar v => mk_rule None false (Some v) None None
    end.

  Inductive outcome := ROk (s : setting) | RAssertionError | RValueError.

  Definition cur_value (c : setting) : V := match c with SConst v => v | SVar _ v _ => v | SNVar v => v end.
  (** get_current_bounds for one scope: a constant (upper == lower) falls back to the class defaults *)
  Definition cur_bounds (c : setting) : V * V := match c with SVar l _ u => (l, u) | _ => (dlower, dupper) end.

  Definition otruthy (o : option V) : bool := match o with Some v => truthy v | None => false end.
  Definition odflt (o : option V) (d : V) : V := match o with Some v => v | None => d end.

  (** assign_all for one scope; [c] = the setting currently assigned there *)
  Definition assign_setting (numeric : bool) (c : setting) (value lower upper : option V) (const : bool) : outcome :=
    let sv := odflt value (cur_value c) in          (* value is None -> get_mean_current_value *)
    if const then ROk (SConst sv)
    else if negb numeric then
      match lower, upper with
      | None, None => ROk (SNVar sv)
      | _, _ => RValueError                         (* doesn't support bounds *)
      end
    else
      let '(cl, cu) := cur_bounds c in
      let sl := odflt lower cl in
      let su := odflt upper cu in
      if ltb su sl then RValueError                 (* Bounds: upper < lower *)
      else if ltb sv sl then ROk (SVar sl sl su)
      else if ltb su sv then ROk (SVar sl su su)
      else ROk (SVar sl sv su).

  (** set_param_rule called with the rule as keyword arguments *)
  Definition import (numeric : bool) (c : setting) (r : rule) : outcome :=
    if r_const r then
      if otruthy (r_init r) || otruthy (r_lower r) || otruthy (r_upper r) then RAssertionError
      else assign_setting numeric c (r_value r) (r_lower r) (r_upper r) true
    else
      match r_init r with
      | Some i => if otruthy (r_value r) then RAssertionError
                  else assign_setting numeric c (Some i) (r_lower r) (r_upper r) false
      | None => assign_setting numeric c (r_value r) (r_lower r) (r_upper r) false
      end.

  (** which keys a rule carries (observation for the correspondence) *)
  Definition rule_keys (r : rule) : list bool :=
    [match r_value r with Some _ => true | None => false end; r_const r;
     match r_init r with Some _ => true | None => false end;
     match r_lower r with Some _ => true | None => false end;
     match r_upper r with Some _ => true | None => false end].
End RuleIO.

