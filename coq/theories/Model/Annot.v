(** Executable model of feature-coordinate translation through sequence views (C04).

    Transcribed branch-for-branch from
      /repo/src/cogent3/core/sequence.py      Sequence.get_features (l.902-1000), make_feature (l.1020-1075),
                                              add_feature (l.1095-1138), _mapped / __getitem__ (l.1303-1352)
      /repo/src/cogent3/core/new_sequence.py  the textually identical get_features / make_feature / add_feature and
                                              the new-style _mapped (l.1337-1356)
      /repo/src/cogent3/core/annotation.py    Feature.get_slice / _do_seq_slice (l.77-115)
      /repo/src/cogent3/core/location.py      _spans_from_locations (l.903-929), FeatureMap.nucleic_reversed (l.1918),
                                              without_gaps, get_coordinates, start
      /repo/src/cogent3/core/annotation_db.py the two coordinate clauses of the WHERE text (C17 proves what they mean)
    The view kernel (start/stop/step/offset arithmetic, absolute_position,
    relative_position, slicing) is the C01 model, imported from Model/View.v.

    Features live in the annotation db in ABSOLUTE plus-strand coordinates
    (parent coordinate + annotation offset) with a strand flag.  No proofs here. *)
From CG3 Require Import Lib.PyZ Lib.Val Lib.PySlice Model.View.

(** * features and feature maps *)

Record feat := mkF { f_spans : list (Z * Z); f_minus : bool }.

(** a [FeatureMap] is a list of spans over a parent of known length *)
Inductive span := SSpan (s e : Z) | SLost (n : Z).

Definition is_lost (s : span) : bool := match s with SLost _ => true | _ => false end.

(** which proposed repairs are switched on (all [false] = the pinned tree):
    [fx_bound]  make_feature drops spans that only touch the view boundary
    [fx_mapped] seq[one-span map] is built from the view slice, so the slice keeps its parent coordinates
    [fx_add]    add_feature stores absolute plus-strand coordinates *)
Record fixes := mkFx { fx_bound : bool; fx_mapped : bool; fx_add : bool }.
Definition pinned : fixes := mkFx false false false.
Definition all_fixed : fixes := mkFx true true true.

Inductive seqimpl := OldSeq | NewSeq.

(** * the annotation db side (user table): [start] = min, [stop] = max over all span coordinates *)

Definition all_coords (l : list (Z * Z)) : list Z := flat_map (fun p => [fst p; snd p]) l.

Definition bb_lo (l : list (Z * Z)) : Z :=
  match all_coords l with [] => 0 | x :: r => fold_right Z.min x r end.
Definition bb_hi (l : list (Z * Z)) : Z :=
  match all_coords l with [] => 0 | x :: r => fold_right Z.max x r end.

(** SQL: ((start >= QS AND stop <= QE) OR (start <= QS AND stop > QS) OR (start < QE AND stop >= QE) OR (start <= QS AND stop >= QE)) *)
Definition db_partial (fs fe qs qe : Z) : bool :=
  ((fs >=? qs) && (fe <=? qe)) || ((fs <=? qs) && (fe >? qs)) || ((fs <? qe) && (fe >=? qe)) || ((fs <=? qs) && (fe >=? qe)).

(** SQL: (start >= QS AND stop <= QE) *)
Definition db_within (fs fe qs qe : Z) : bool := (fs >=? qs) && (fe <=? qe).

Definition db_match (partial : bool) (qs qe : Z) (f : feat) : bool :=
  if partial then db_partial (bb_lo (f_spans f)) (bb_hi (f_spans f)) qs qe
  else db_within (bb_lo (f_spans f)) (bb_hi (f_spans f)) qs qe.

(** * Sequence.get_features: the query window *)

(** Python's [x or d] on an optional int *)
Definition py_or (o : option Z) (d : Z) : Z :=
  match o with None => d | Some x => if x =? 0 then d else x end.

Definition query_window (v : view) (ws we : option Z) : res (Z * Z) :=
  let n := vlen v in
  let s := py_or ws 0 in
  let e := py_or we n in
  let s := if s <? 0 then s + n else s in
  let e := if e <? 0 then e + n else e in
  let '(s, e) := if s <? e then (s, e) else (e, s) in
  bind (absolute_position v s false) (fun qs =>
  bind (absolute_position v e true) (fun qe =>
  let '(qs, qe) := if is_reversed v then (qe, qs) else (qs, qe) in
  Ok (Z.max qs 0, qe))).

(** spans converted from absolute to view-relative, then flipped to the
    plus orientation on a reversed view ([spans = len(self) - spans]) *)
Definition rel_coord (v : view) (x : Z) : res Z :=
  bind (relative_position v x false) (fun r =>
    Ok (if is_reversed v then vlen v - r else r)).

Fixpoint rel_spans (v : view) (l : list (Z * Z)) : res (list (Z * Z)) :=
  match l with
  | [] => Ok []
  | (a, b) :: r =>
      bind (rel_coord v a) (fun a' =>
      bind (rel_coord v b) (fun b' =>
      bind (rel_spans v r) (fun r' => Ok ((a', b') :: r'))))
  end.

(** * make_feature *)

(** one iteration of the clamping loop: [None] = [continue] *)
Definition clamp_span (fx : fixes) (n : Z) (p : Z * Z) : option (Z * Z) :=
  let '(s, e) := p in
  let lo := Z.min s e in
  let hi := Z.max s e in
  if (lo <? 0) && (0 <? hi) then Some (Z.max s 0, Z.max e 0)               (* new[new < 0] = 0 *)
  else if (lo <? n) && (n <? hi) then Some (Z.min s n, Z.min e n)           (* new[new > len] = len *)
  else if fx_bound fx then
    (if (s =? e) || (lo >=? n) || (hi <=? 0) then None else Some (s, e))
  else
    (if (s =? e) || (lo >? n) || (hi <? 0) then None else Some (s, e)).

Fixpoint clamp_spans (fx : fixes) (n : Z) (l : list (Z * Z)) : list (Z * Z) :=
  match l with
  | [] => []
  | p :: r => match clamp_span fx n p with
              | Some q => q :: clamp_spans fx n r
              | None => clamp_spans fx n r
              end
  end.

(** the loop of [_spans_from_locations]; RuntimeError is class "other" *)
Fixpoint sfl_loop (n : Z) (l : list (Z * Z)) : res (list span) :=
  match l with
  | [] => Ok []
  | (s, e) :: r =>
      if (s >? e) || (Z.min s e <? 0) then Err E_Value
      else if s >? n then Err E_Other
      else bind (sfl_loop n r) (fun r' =>
        Ok (if e >? n then SSpan s (Z.min e n) :: SLost (Z.abs (e - n)) :: r'
            else SSpan s e :: r'))
  end.

Definition spans_from_locations (n : Z) (l : list (Z * Z)) : res (list span) :=
  match l with
  | [] => Ok []
  | (s0, _) :: _ =>
      if s0 >? snd (last l (0, 0)) then Err E_Value else sfl_loop n l
  end.

(** [FeatureMap.nucleic_reversed] *)
Definition nrev_span (n : Z) (s : span) : span :=
  match s with
  | SSpan a b => SSpan (n - b) (n - b + (b - a))
  | SLost k => SLost k
  end.

Definition nucleic_reversed (n : Z) (m : list span) : list span := rev (map (nrev_span n) m).

Record fview := mkFV { fv_minus : bool; fv_map : list span }.

(** [make_feature(feature)] on a view of length [n]; [rced] = [self._seq.is_reversed] *)
Definition make_feature (fx : fixes) (n : Z) (rced : bool) (spans : list (Z * Z)) (minus : bool) : res fview :=
  match all_coords spans with
  | [] => Err E_Value                                   (* numpy: min of an empty array *)
  | x :: r =>
      let vmin := fold_right Z.min x r in
      let vmax := fold_right Z.max x r in
      let pre := if vmin <? 0 then Z.abs vmin else 0 in
      let post := if vmax >? n then Z.abs (vmax - n) else 0 in
      bind (spans_from_locations n (clamp_spans fx n spans)) (fun m =>
        let m := if (negb (pre =? 0)) || (negb (post =? 0)) then
                   (if negb (pre =? 0) then [SLost pre] else []) ++ m ++
                   (if negb (post =? 0) then [SLost post] else [])
                 else m in
        let m := if rced then nucleic_reversed n m else m in
        Ok (mkFV (negb (Bool.eqb minus rced)) m))       (* "+" if revd == seq_rced else "-" *)
  end.

(** [get_features] for one db record *)
Definition feature_on_view (fx : fixes) (v : view) (f : feat) : res fview :=
  bind (rel_spans v (f_spans f)) (fun sp =>
    make_feature fx (vlen v) (is_reversed v) sp (f_minus f)).

Fixpoint index_from {A} (i : Z) (l : list A) : list (Z * A) :=
  match l with [] => [] | x :: r => (i, x) :: index_from (i + 1) r end.

Fixpoint collect (fx : fixes) (v : view) (l : list (Z * feat)) : res (list (Z * fview)) :=
  match l with
  | [] => Ok []
  | (i, f) :: r =>
      bind (feature_on_view fx v f) (fun fv =>
      bind (collect fx v r) (fun r' => Ok ((i, fv) :: r')))
  end.

(** [list(seq.get_features(start=ws, stop=we, allow_partial=partial))]:
    an exception anywhere ends the generator *)
Definition get_features (fx : fixes) (v : view) (db : list feat) (ws we : option Z) (partial : bool)
  : res (list (Z * fview)) :=
  bind (query_window v ws we) (fun '(qs, qe) =>
    collect fx v (filter (fun '(_, f) => db_match partial qs qe f) (index_from 0 db))).

(** * Feature.get_slice *)

Definition without_gaps (m : list span) : list span := filter (fun s => negb (is_lost s)) m.

Definition coordinates (m : list span) : list (Z * Z) :=
  flat_map (fun s => match s with SSpan a b => [(a, b)] | SLost _ => [] end) m.

(** [FeatureMap.start] ([self._start or 0]) *)
Definition map_start (m : list span) : Z :=
  match all_coords (map (fun p => (fst p, fst p)) (coordinates m)) with
  | [] => 0
  | x :: r => fold_right Z.min x r
  end.

Definition cmpl (l : list Z) : list Z := map (comp KDna) l.

(** [str(self[a:b])] *)
Definition view_substr (v : view) (p : list Z) (a b : Z) : res (view * list Z) :=
  bind (getitem_slice FSeqView v (Some a) (Some b) None) (fun v' =>
    Ok (v', if is_reversed v' then cmpl (value v' p) else value v' p)).

Fixpoint segments (v : view) (p : list Z) (m : list span) : res (list Z) :=
  match m with
  | [] => Ok []
  | SSpan a b :: r =>
      bind (view_substr v p a b) (fun '(_, s) =>
      bind (segments v p r) (fun r' => Ok (s ++ r')))
  | SLost _ :: r => Err E_Value                         (* "gap(s) in map" *)
  end.

(** the string of [feature.get_slice()] *)
Definition get_slice_str (v : view) (p : list Z) (fv : fview) : res (list Z) :=
  bind (segments v p (without_gaps (fv_map fv))) (fun s =>
    Ok (if fv_minus fv then cmpl (rev s) else s)).

(** parent coordinates (parent_start, parent_stop, strand) of [feature.get_slice()]
    when that slice keeps the annotation db, i.e. when the feature's map is one
    span; [Ok None] otherwise.  Also carries the ValueError of the new-style
    constructor ("cannot set offset on a SeqView with an offset"). *)
Definition rc_if (minus : bool) (v : view) : res view :=
  if minus then getitem_slice FSeqView v None None (Some (-1)) else Ok v.

Definition pcoords (v : view) : Z * Z * Z :=
  (parent_start v, parent_stop v, if is_reversed v then -1 else 1).

Definition slice_coords (fx : fixes) (i : seqimpl) (v : view) (p : list Z) (fv : fview) : res (option (Z * Z * Z)) :=
  match fv_map fv with
  | [SSpan a b] =>
      bind (view_substr v p a b) (fun '(v', s) =>
        if fx_mapped fx then
          (* the view slice itself; rc() when the feature is reversed *)
          bind (rc_if (fv_minus fv) v') (fun w => Ok (Some (pcoords w)))
        else
          match i with
          | OldSeq =>                                   (* fresh string, annotation_offset = map.start *)
              Ok (Some (a, a + zlen s, if fv_minus fv then -1 else 1))
          | NewSeq =>
              if negb (a =? 0) && negb (offset v' =? 0) then Err E_Value
              else
                let v'' := if a =? 0 then v' else mkV (start v') (stop v') (step v') (seq_len v') a in
                bind (rc_if (fv_minus fv) v'') (fun w => Ok (Some (pcoords w)))
          end)
  | _ => Ok None
  end.

(** new-style [feature.get_slice()] raises in the constructor for a one-span
    map (after without_gaps) on a view with an offset *)
Definition get_slice_err (fx : fixes) (i : seqimpl) (v : view) (fv : fview) : bool :=
  match i, without_gaps (fv_map fv) with
  | NewSeq, [SSpan a b] =>
      if fx_mapped fx then false else
      match getitem_slice FSeqView v (Some a) (Some b) None with
      | Ok v' => negb (a =? 0) && negb (offset v' =? 0)
      | Err _ => false
      end
  | _, _ => false
  end.

Definition get_slice (fx : fixes) (i : seqimpl) (v : view) (p : list Z) (fv : fview) : res (list Z) :=
  if get_slice_err fx i v fv then Err E_Value else get_slice_str v p fv.

(** * add_feature on a view *)

(** repaired add_feature: view coordinates to absolute plus-strand coordinates
    through [absolute_position(.., include_boundary=True)] *)
Fixpoint add_conv (v : view) (l : list (Z * Z)) : res (list (Z * Z)) :=
  match l with
  | [] => Ok []
  | (a, b) :: r =>
      bind (absolute_position v a true) (fun a' =>
      bind (absolute_position v b true) (fun b' =>
      bind (add_conv v r) (fun r' =>
        Ok ((if is_reversed v then (b', a') else (a', b')) :: r'))))
  end.

(** what is stored in the db, and the spans / strand handed to make_feature *)
Definition add_feature (fx : fixes) (v : view) (spans : list (Z * Z)) (minus : bool)
  : res (feat * list (Z * Z) * bool) :=
  if fx_add fx then
    (* strand flipped and span order reversed on a reversed view *)
    bind (add_conv v spans) (fun ab =>
      let ab := if is_reversed v then rev ab else ab in
      let dbminus := if is_reversed v then negb minus else minus in
      bind (rel_spans v ab) (fun sp => Ok (mkF ab dbminus, sp, dbminus)))
  else Ok (mkF spans minus, spans, minus).
