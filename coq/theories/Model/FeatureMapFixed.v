(** C08 — [Span.remap_with] after the repair of finding C08-6 (commit 4575965a7): a span lying entirely
    outside the map corresponds to none of it ([result = spans[first:last+1] if zlo < zhi else []]) and the
    lost padding at either end is the part of the span that lies outside
    ([LostSpan(min(self.end, 0) - self.start)], [LostSpan(self.end - max(self.start, map_length))]).
    Model/FeatureMap.v keeps the pinned transcription ([remap_with], with the double padding); the
    correspondence check runs the variant that matches the behaviour of the implementation on the
    witness of C08-6 (Model/FeatureMapRun.v).  No proofs in this file. *)
From CG3 Require Import Lib.PyZ Lib.Val Model.IndelMap Model.FeatureMap.

Definition remap_with_v2 (sp : fspan) (fm : fmap) : res (list fspan) :=
  match sp with
  | FL n => Ok [FL n]
  | FS sstart send srev =>
      let offs := offsets fm in
      let spans := fspans fm in
      if zlen spans =? 0 then Err E_Index        (* offsets[-1] *)
      else
        let map_length := zlast offs + slen (nth_span spans (zlen spans - 1)) in
        let zlo := Z.max 0 sstart in
        let zhi := Z.min map_length send in
        let first := ss_right offs zlo - 1 in
        let last := (first + ss_left (zslice offs first (zlen offs)) zhi) - 1 in
        let result := if zlo <? zhi then zslice spans first (last + 1) else [] in
        bind
          (if zlen result =? 0 then Ok result
           else
             let end_trim := pyget offs last + slen (nth_span spans last) - zhi in
             let start_trim := zlo - pyget offs first in
             bind (if end_trim >? 0
                   then let lastsp := nth_span result (zlen result - 1) in
                        bind (span_getitem lastsp None (Some (slen lastsp - end_trim)))
                             (fun x => Ok (set_at result (zlen result - 1) x))
                   else Ok result) (fun result =>
             if start_trim >? 0
             then bind (span_getitem (nth_span result 0) (Some start_trim) None)
                       (fun x => Ok (set_at result 0 x))
             else Ok result))
          (fun result =>
             let result := if sstart <? 0 then FL (Z.min send 0 - sstart) :: result else result in
             let result := if send >? map_length then result ++ [FL (send - Z.max sstart map_length)] else result in
             Ok (if srev then rev (map span_reversed result) else result))
  end.

Fixpoint remap_all_v2 (spans : list fspan) (fm : fmap) : res (list fspan) :=
  match spans with
  | [] => Ok []
  | sp :: t => bind (remap_with_v2 sp fm) (fun hd => bind (remap_all_v2 t fm) (fun tl => Ok (hd ++ tl)))
  end.

Definition fm_getitem_map_v2 (fm new_map : fmap) : res fmap :=
  bind (remap_all_v2 (fspans new_map) fm) (fun parts => Ok (mk_fmap parts (fplen fm))).

Definition fm_getitem_slice_v2 (fm : fmap) (a b : option Z) : res fmap :=
  bind (as_map_slice a b (flen fm)) (fun nm => fm_getitem_map_v2 fm nm).
