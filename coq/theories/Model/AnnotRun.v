(** Runner for the C04 correspondence check: one case = one parent, its
    annotation offset, the db records, a view history, an optional
    [add_feature] through the final view, and a list of queries. *)
From CG3 Require Import Lib.PyZ Lib.Val Lib.PySlice Model.View Model.Annot.

Inductive vop := VSlice (a b c : option Z) | VRc.

Definition apply_vop (r : res view) (o : vop) : res view :=
  bind r (fun v =>
    match o with
    | VSlice a b c => getitem_slice FSeqView v a b c
    | VRc => getitem_slice FSeqView v None None (Some (-1))
    end).

(** a history step of the correspondence: a view operation or [seq.copy()]
    ([copy(sliced=True)]: the parent is cut down to the displayed segment, the
    view is re-based and the annotation offset set to the old parent_start;
    C01's [apply_op Fixed _ CopySliced], both sequence classes since the
    new-style repair) *)
Inductive hop := HOp (o : vop) | HCopy.

Definition apply_hop (r : res (view * list Z)) (h : hop) : res (view * list Z) :=
  bind r (fun '(v, p) =>
    match h with
    | HOp o => bind (apply_vop (Ok v) o) (fun v' => Ok (v', p))
    | HCopy => match apply_op Fixed (mkS v p KDna true) CopySliced with
               | Ok s' => Ok (sv s', parent s')
               | Err e => Err e
               end
    end).

Definition vres {A} (f : A -> val) (r : res A) : val :=
  match r with Ok a => f a | Err e => VE e end.

Definition vspans (l : list (Z * Z)) : val := VL (map vpairZ l).

Definition vcoords (o : option (Z * Z * Z)) : val :=
  match o with
  | None => VN
  | Some (a, b, s) => VL [VZ a; VZ b; VZ s]
  end.

(** what is observed of one returned feature: db index, strand on the view,
    map.get_coordinates(), str(get_slice()), parent coordinates of the slice *)
Definition obs_feature (fx : fixes) (i : seqimpl) (v : view) (p : list Z) (x : Z * fview) : val :=
  let '(k, fv) := x in
  VL [VZ k; VB (fv_minus fv); vspans (coordinates (fv_map fv));
      vres VS (get_slice fx i v p fv);
      vres vcoords (slice_coords fx i v p fv)].

(** one query per db record ([get_features(name=..)]): VN = not returned *)
Definition obs_one (fx : fixes) (i : seqimpl) (v : view) (p : list Z)
                   (ws we : option Z) (partial : bool) (x : Z * feat) : val :=
  let '(k, f) := x in
  match get_features fx v [f] ws we partial with
  | Err e => VE e
  | Ok [] => VN
  | Ok ((_, fv) :: _) => obs_feature fx i v p (k, fv)
  end.

Definition obs_query (fx : fixes) (i : seqimpl) (v : view) (p : list Z) (db : list feat)
                     (q : option Z * option Z * bool) : val :=
  let '(ws, we, partial) := q in
  VL (map (obs_one fx i v p ws we partial) (index_from 0 db)).

Definition mk_feat (x : list (Z * Z) * bool) : feat := mkF (fst x) (snd x).

Definition case : Type :=
  (Z * (bool * bool * bool) * list Z * Z * list (list (Z * Z) * bool) * list hop
   * option (list (Z * Z) * bool) * list (option Z * option Z * bool))%type.

Definition run_case (c : case) : val :=
  let '(iz, fxs, p, off, feats, ops, add, qs) := c in
  let '(f1, f2, f3) := fxs in
  let fx := mkFx f1 f2 f3 in
  let i := if iz =? 0 then OldSeq else NewSeq in
  let db := map mk_feat feats in
  let root := mk_view (zlen p) None None None off in
  match root, fold_left apply_hop ops (bind root (fun v0 => Ok (v0, p))) with
  | Ok v0, Ok (v, pv) =>
      match add with
      | None => VL [VN; VL (map (obs_query fx i v pv db) qs); VN]
      | Some (sp, minus) =>
          match add_feature fx v sp minus with
          | Err e => VL [VE e; VL []; VN]
          | Ok (rec, msp, mminus) =>
              let db' := db ++ [rec] in
              let direct := match make_feature fx (vlen v) (is_reversed v) msp mminus with
                            | Ok fv => obs_feature fx i v pv (zlen db, fv)
                            | Err e => VE e
                            end in
              VL [direct; VL (map (obs_query fx i v pv db') qs);
                  obs_query fx i v0 p db' (None, None, true)]
          end
      end
  | Err e, _ => VE e
  | _, Err e => VE e
  end.
