(** C15 — runner for the distance-calculator correspondence. *)
From CG3 Require Import Lib.PyZ Lib.Val Model.Dist.
From Coq Require Import QArith.
Open Scope Z_scope.

Definition vq (q : Q) : val := let r := Qred q in VL [VZ (Qnum r); VZ (Zpos (Qden r))].

Fixpoint vexpr (e : rexpr) : val :=
  match e with
  | RQ q => VL [VZ 0; VZ (Qnum q); VZ (Zpos (Qden q))]
  | RLn a => VL [VZ 1; vexpr a]
  | RSqrt a => VL [VZ 2; vexpr a]
  | RNeg a => VL [VZ 3; vexpr a]
  | RAdd a b => VL [VZ 4; vexpr a; vexpr b]
  | RMul a b => VL [VZ 5; vexpr a; vexpr b]
  | RDiv a b => VL [VZ 6; vexpr a; vexpr b]
  end.

Definition vres (r : dist_result) : val :=
  match r with
  | DInvalid => VN
  | DNan => VS [110; 97; 110]
  | DVal t p e => VL [VZ t; vq p; vexpr e]
  end.

Definition vcell (c : cell) : val :=
  match c with
  | CMissing => VN
  | CZero => VZ 0
  | CRes r => vres r
  end.

(** calculators by code: 0 hamming, 1 pdist, 2 jc69, 3 tn93, 4 paralinear, 5 logdet(tk), 6 logdet(no tk) *)
Definition calc_func (code : Z) (sts : list Z) : zmat -> dist_result :=
  let dim := zlen sts in
  (* get_purine_indices: map(states.index, "AG") ; get_pyrimidine_indices: "CT" (DNA) or "CU" (RNA) *)
  let pur := [index_of sts 65 0 (-1); index_of sts 71 0 (-1)] in
  let y := if zmem 85 sts then 85 else 84 in
  let pyr := [index_of sts 67 0 (-1); index_of sts y 0 (-1)] in
  if code =? 0 then hamming dim
  else if code =? 1 then pdist dim
  else if code =? 2 then jc69 dim
  else if code =? 3 then tn93 dim pur pyr
  else if code =? 4 then paralinear dim
  else if code =? 5 then logdet true dim
  else logdet false dim.

Definition vcounts (dim : Z) (m : zmat) : val :=
  VL (map (fun a => VL (map (fun b => VZ (m a b)) (states dim))) (states dim)).

(** case: (duplicate-rule variant of the source, calculator code, canonical states, invalid value, sequences as code points).
    Output: the cell of every ordered pair i <> j after run + _expand, the
    diversity matrix and the function value of every pair i < j computed
    directly, and the duplicates found. *)
Definition run_dist_case (c : bool * Z * list Z * Z * list (list Z)) : val :=
  let '(strict, code, sts, invalid, raw) := c in
  let dim := zlen sts in
  let seqs := map (seq_to_indices sts invalid) raw in
  let n := zlen seqs in
  let f := calc_func code sts in
  VL [VL (map (fun kc => vcell (snd kc)) (pairwise strict f dim seqs));
      VL (flat_map (fun i => map (fun j =>
              let m := diversity (znth [] seqs i) (znth [] seqs j) in
              VL [vcounts dim m; vres (f m)]) (zrange (i + 1) n)) (zrange 0 n));
      VL (map VZ (rs_dupes (run strict f dim seqs)))].
