(** C01 - executable runner for the correspondence check.

    A case describes a batch of observations (a whole (a,b,c) lattice applied
    to one view, a chain of operations, a constructor lattice ...).  With
    [detail = false] the runner answers with a digest of the canonical
    serialisation of the observations (the harness computes the same digest
    over what the implementation did, so that millions of observations cross
    the Coq boundary as one number per case); with [detail = true] it returns
    the observations themselves (used to localise a digest mismatch). *)
From CG3 Require Import Lib.PyZ Lib.Val Lib.PySlice Model.View.

(** * digest of a [val] *)

Fixpoint flat (v : val) : list Z :=
  match v with
  | VZ z => [1; z]
  | VS s => 2 :: zlen s :: s
  | VL l => 3 :: zlen l :: flat_map flat l
  | VE e => [4; e]
  | VN => [5]
  | VB b => [6; if b then 1 else 0]
  end.

Definition mask48 : Z := 281474976710655.   (* 2^48 - 1 *)

Definition mix (h x : Z) : Z := Z.land (h * 1000003 + x + 1048576) mask48.

Definition digest (v : val) : Z := fold_left mix (flat v) 7.

Definition answer (detail : bool) (v : val) : val := if detail then v else VZ (digest v).

(** * kernel level *)

Inductive kop := KS (a b c : option Z) | KI (i : Z).

Definition obs_view (fl : flavour) (p : list Z) (v : view) : val :=
  VL [VZ (start v); VZ (stop v); VZ (step v); VZ (seq_len v); VZ (offset v); VZ (vlen v);
      VZ (parent_start v); VZ (parent_stop v); VS (value_of fl v p)].

Definition obs_res (fl : flavour) (p : list Z) (r : res view) : val :=
  match r with Ok v => obs_view fl p v | Err e => VE e end.

Definition kapply (fl : flavour) (v : view) (o : kop) : res view :=
  match o with
  | KS a b c => getitem_slice fl v a b c
  | KI i => getitem_int v i
  end.

Definition kstep (fl : flavour) (v : view) (o : kop) : view :=
  match kapply fl v o with Ok v' => v' | Err _ => v end.

Definition vres {A} (f : A -> val) (r : res A) : val := match r with Ok a => f a | Err e => VE e end.

(** [absolute_position] for every relative index 0..len (both boundary
    flags) and [relative_position] for every absolute index
    offset-1..offset+seq_len+1 (both stop flags) *)
Definition obs_positions (v : view) : val :=
  let rels := zrange (-1) (vlen v + 2) in
  let abss := zrange (offset v - 1) (offset v + seq_len v + 2) in
  VL [VL (map (fun i => vres VZ (absolute_position v i false)) rels);
      VL (map (fun i => vres VZ (absolute_position v i true)) rels);
      VL (map (fun i => vres VZ (relative_position v i false)) abss);
      VL (map (fun i => vres VZ (relative_position v i true)) abss)].

Definition init_view (p : list Z) (off : Z) : view :=
  match mk_view (zlen p) None None None off with Ok v => v | Err _ => mkV 0 0 1 0 0 end.

Definition lattice {A} (avals bvals cvals : list (option Z)) (f : option Z -> option Z -> option Z -> A) : list A :=
  flat_map (fun a => flat_map (fun b => map (fun c => f a b c) cvals) bvals) avals.

Fixpoint kchain (fl : flavour) (p : list Z) (v : view) (ops : list kop) : list val :=
  match ops with
  | [] => []
  | o :: rest =>
      let r := kapply fl v o in
      let v' := match r with Ok v' => v' | Err _ => v end in
      VL [obs_res fl p r; match r with Ok v' => obs_positions v' | Err _ => VN end] :: kchain fl p v' rest
  end.

(** * sequence level *)

Definition kind_code (k : kind) : Z := match k with KDna => 0 | KRna => 1 | KOther => 2 end.

Definition obs_seq (i : impl) (s : pseq) : val :=
  let n := vlen (sv s) in
  let '(ps, pe, strand) := parent_coords s in
  VL [VS (realise s); VZ n; VZ (kind_code (skind s));
      VL [VB (has_id s); VZ ps; VZ pe; VZ strand];
      VZ (parent_start (sv s));
      VL (map (fun j => vres (fun s' => VS (realise s')) (apply_op i s (Index j))) (zrange (- n - 1) (n + 1)))].

Fixpoint schain (i : impl) (s : pseq) (ops : list op) : list val :=
  match ops with
  | [] => []
  | o :: rest =>
      let r := apply_op i s o in
      let s' := match r with Ok s' => s' | Err _ => s end in
      vres (obs_seq i) r :: schain i s' rest
  end.

(** * cases *)

Inductive kcase :=
| KLattice (detail : bool) (fl : flavour) (p : list Z) (off : Z) (pre : list kop)
           (avals bvals cvals : list (option Z))
| KChain (detail : bool) (fl : flavour) (p : list Z) (off : Z) (ops : list kop)
| KCtor (detail : bool) (n : Z) (off : Z) (avals bvals cvals : list (option Z))
| SChain (detail : bool) (i : impl) (k : kind) (p : list Z) (off : Z) (ops : list op)
| CompTable (k : kind) (chars : list Z).

Definition run_case (c : kcase) : val :=
  match c with
  | KLattice detail fl p off pre avals bvals cvals =>
      let v0 := fold_left (kstep fl) pre (init_view p off) in
      answer detail
        (VL [obs_view fl p v0;
             VL (lattice avals bvals cvals (fun a b c => obs_res fl p (getitem_slice fl v0 a b c)))])
  | KChain detail fl p off ops =>
      let v0 := init_view p off in
      answer detail (VL (VL [obs_view fl p v0; obs_positions v0] :: kchain fl p v0 ops))
  | KCtor detail n off avals bvals cvals =>
      let p := zrange 97 (97 + n) in
      answer detail (VL (lattice avals bvals cvals (fun a b c => obs_res FSeqView p (mk_view n a b c off))))
  | SChain detail i k p off ops =>
      match init_seq k p off with
      | Ok s0 => answer detail (VL (obs_seq i s0 :: schain i s0 ops))
      | Err e => VE e
      end
  | CompTable k chars => VS (map (comp k) chars)
  end.
