(** C15 — runners for the NJ / UPGMA correspondence: exact-rational replay of
    the implementation's join trace, the model's own run, UPGMA. *)
From Coq Require Import QArith List Bool Arith ZArith.
From CG3 Require Import Lib.Val Model.NJ.
Import ListNotations.
Open Scope Q_scope.

Definition vq (q : Q) : val := let r := Qred q in VL [VZ (Qnum r); VZ (Zpos (Qden r))].
Definition vnat (n : nat) : val := VZ (Z.of_nat n).
Definition vmat (L : nat) (d : qmat) : val := VL (map (fun row => VL (map vq row)) (lists_of_mat L d)).
Definition vtips (t : ltree) : val := VL (map (fun nd => VZ (fst nd)) (tip_depths t)).
Definition vdists (l : list (Z * Z * Q)) : val :=
  VL (map (fun x => VL [VZ (fst (fst x)); VZ (snd (fst x)); vq (snd x)]) l).
Definition vdepths (l : list (Z * Q)) : val := VL (map (fun x => VL [VZ (fst x); vq (snd x)]) l).
Definition vclades (l : list (list Z)) : val := VL (map (fun c => VL (map VZ c)) l).

Definition vtree (t : ltree) : val := VL [vdists (tip_dists t); vclades (clades t)].

(** one join of the implementation's trace replayed on the model state *)
Definition step_val (t : partial_tree) (i j : nat) : val * option partial_tree :=
  let '(bi, bj) := best_pair t in
  let sc := score_matrix t in
  let t' := join t i j in
  (VL [VL [vnat bi; vnat bj]; vq (sc bi bj); vq (sc i j);
       vq (max0 (join_left (pt_L t) (pt_d t) i j)); vq (max0 (join_right (pt_L t) (pt_d t) i j));
       match t' with
       | Some u => VL [vmat (pt_L u) (pt_d u); VL (map vtips (pt_nodes u)); vq (pt_score u)]
       | None => VN
       end], t').

Fixpoint trace (t : partial_tree) (joins : list (nat * nat)) : list val * option partial_tree :=
  match joins with
  | [] => ([], Some t)
  | (i, j) :: r =>
      let '(v, t') := step_val t i j in
      match t' with
      | Some u => let '(vs, fin) := trace u r in (v :: vs, fin)
      | None => ([v], None)
      end
  end.

(** case: (n, matrix, joins taken by the implementation) *)
Definition run_nj_trace (c : nat * list (list Q) * list (nat * nat)) : val :=
  let '(n, m, joins) := c in
  let '(vs, fin) := trace (star_tree n (mat_of_lists m)) joins in
  VL [VL vs;
      match fin with
      | Some t => if Nat.eqb (pt_L t) 3 then VL [VL (map vq (final_lengths (pt_d t))); vtree (final_tree t)] else VN
      | None => VN
      end].

(** the model's own run of nj() *)
Definition run_nj (c : nat * list (list Q)) : val :=
  let '(n, m) := c in
  match nj n (mat_of_lists m) with
  | Some t => vtree t
  | None => VN
  end.

(** UPGMA: the merge order and the resulting tree *)
Fixpoint upgma_trace (k n : nat) (large : Q) (st : qmat * list (option unode)) : list (nat * nat) :=
  match k with
  | O => []
  | S k' => let '(st', ix) := upgma_step n large st in ix :: upgma_trace k' n large st'
  end.

Definition run_upgma (c : nat * Q * list (list Q)) : val :=
  let '(n, large, m) := c in
  let d := mat_of_lists m in
  let m0 : qmat := fun k l => if Nat.eqb k l then d k l + large else d k l in
  let order0 := map (fun k => Some (UN (Some (Z.of_nat k)) None None [])) (seq 0 n) in
  VL [VL (map (fun ix => VL [vnat (fst ix); vnat (snd ix)]) (upgma_trace (n - 1) n large (m0, order0)));
      match upgma n large d with
      | Some t => VL [vdists (u_tip_dists t); vdepths (u_tip_depths t)]
      | None => VN
      end].
