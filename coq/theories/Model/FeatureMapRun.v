(** C08 — runner of the FeatureMap model for the correspondence check: one
    case = one feature map (span list + parent length), scales, sub-maps and
    slices; the observations are those of harness/props/c08_impl.py [run_fmap],
    in the same order. *)
From CG3 Require Import Lib.PyZ Lib.Val Model.IndelMap Model.IndelMapRun Model.FeatureMap Model.FeatureMapFixed.

Definition vfspan (sp : fspan) : val :=
  match sp with FL n => VZ n | FS s e r => VL [VZ s; VZ e; VB r] end.

Definition vfm (fm : fmap) : val :=
  VL [VL (map vfspan (fspans fm)); VZ (fplen fm); VZ (flen fm)].

Inductive fcase :=
| CFmap (spans : list fspan) (plen : Z) (scales : list Z) (subs : list (list fspan))
        (slices : list (option Z * option Z)).

(** [fixed] = the implementation behaves like the repaired [remap_with] (finding C08-6) *)
Definition run_fcase_v (fixed : bool) (c : fcase) : val :=
  match c with
  | CFmap spans plen scales subs slices =>
      let fm := mk_fmap spans plen in
      VL [ vfm fm;
           VL [VB (fuseful fm); VB (fcomplete fm); VZ (fstart fm); VZ (fend fm)];
           vpairs (fm_get_coordinates fm);
           vres vfm (fm_covered fm);
           vres vfm (fm_nucleic_reversed fm);
           vres vfm (fm_inverse fm);
           vres vfm (fm_shadow fm);
           vres vfm (fm_gaps fm);
           vfm (fm_without_gaps fm);
           vres (fun l => VL (map vfspan l)) (fm_nongap fm);
           vres vpairs (fm_get_gap_coordinates fm);
           vres vfm (fm_get_covering_span fm);
           VL (map (fun k => vfm (fm_mul fm k)) scales);
           VL (map (fun sub => vres vfm ((if fixed then fm_getitem_map_v2 else fm_getitem_map) fm (mk_fmap sub (flen fm)))) subs);
           VL (map (fun ab => vres vfm ((if fixed then fm_getitem_slice_v2 else fm_getitem_slice) fm (fst ab) (snd ab))) slices);
           match fm_inverse fm with
           | Err _ => VN
           | Ok inv => vres vfm (fm_inverse inv)
           end ]
  end.

Definition run_fcase : fcase -> val := run_fcase_v false.
