(** C18 — runner of the pairwise model for the correspondence check.
    A case carries the score tables as literal lists (state order BEGIN, X, Y,
    M; residues are indices into the emission tables), the mode and two
    residue lists.
      mode 0: global alignment of xs, ys     -> [score; path; row1; row2]
      mode 1: local alignment of xs, ys      -> [score; path; row1; row2; i; j]
      mode 2: xs, ys are gapped ROWS: global score of the path they spell (the specification's score function)
      mode 3: the same for local rows (score over the residues the rows contain)
      mode 4: the middle row of the Hirschberg divide step at k = len(xs) // 2:
              [forward + backward] for j = 0..len(ys), state = BEGIN, X, Y, M (flattened)
      mode 5: the whole linear-space recursion ([hirsch_align]) -> [score; path; row1; row2] *)
From CG3 Require Import Lib.PyZ Lib.Val Lib.MaxPlus Model.PairAlign Spec.AlignSpec Model.Hirschberg.

Definition st_index (s : st) : nat := match s with SB => 0 | SX => 1 | SY => 2 | SM => 3 end.

Definition tab1 (l : list ez) (i : nat) : ez := nth i l None.
Definition tab2 (l : list (list ez)) (i j : nat) : ez := nth j (nth i l []) None.

Definition mk_params (trt : list (list ez)) (tet : list ez) (emt : list (list ez)) (gxt gyt : list ez) : params :=
  {| tr := fun p s => tab2 trt (st_index p) (st_index s);
     te := fun p => tab1 tet (st_index p);
     em := fun a b => tab2 emt (Z.to_nat a) (Z.to_nat b);
     gx := fun a => tab1 gxt (Z.to_nat a);
     gy := fun b => tab1 gyt (Z.to_nat b) |}.

Definition vpath (p : list st) : val := vlistZ (map (fun s => Z.of_nat (st_index s)) p).

Definition pcase := (Z * (list (list ez) * list ez * list (list ez) * list ez * list ez) * list Z * list Z)%type.

Definition run_case (c : pcase) : val :=
  let '(mode, (trt, tet, emt, gxt, gyt), xs, ys) := c in
  let P := mk_params trt tet emt gxt gyt in
  if mode =? 0 then
    let '(v, p) := align_global P xs ys in
    let '(r1, r2) := rows_of p xs ys in
    VL [voptZ v; vpath p; vlistZ r1; vlistZ r2]
  else if mode =? 1 then
    let '(v, p, i, j) := align_local P xs ys in
    let sx := skipn (Z.to_nat i - count_x p) (firstn (Z.to_nat i) xs) in
    let sy := skipn (Z.to_nat j - count_y p) (firstn (Z.to_nat j) ys) in
    let '(r1, r2) := rows_of p sx sy in
    VL [voptZ v; vpath p; vlistZ r1; vlistZ r2; VZ i; VZ j]
  else if mode =? 2 then
    VL [voptZ (gscore P (rev (path_of_rows xs ys)) (rev (degap xs)) (rev (degap ys)))]
  else if mode =? 4 then
    VL (map voptZ (middle P xs ys (Nat.div (length xs) 2)))
  else if mode =? 5 then
    let '(v, p) := hirsch_align P xs ys in
    let '(r1, r2) := rows_of p xs ys in
    VL [voptZ v; vpath p; vlistZ r1; vlistZ r2]
  else
    VL [voptZ (rscore P true (rev (path_of_rows xs ys)) (rev (degap xs)) (rev (degap ys)))].
