(** C13 — executable model of [cogent3.app.data_store.DataStoreDirectory]
    (src/cogent3/app/data_store.py l.94-590), transcribed method by method.

    Disk state: the root directory, [not_completed/] (may be absent), [logs/],
    [md5/] as finite maps file-name -> content (kept sorted by name: directory
    listings are taken in name order, the harness pins [Path.glob] to that order).
    Instance state: mode, suffix, the two member caches [_completed] /
    [_not_completed] with their "empty list => list the directory again" rule.

    Payloads are strings; the md5 side file holds the payload itself where the
    code stores its hex digest (the digest is treated as an injective tag).

    Not modelled (the runner refuses / the generators avoid): identifiers
    containing '/', a newline or a leading '.', upper-case suffixes, compression
    suffixes (.gz/.bz2/.zip members), an empty store suffix, the [limit] argument,
    suffixes with characters outside [a-z0-9] (they are spliced unescaped into a
    regular expression by [md5]).

    Exported for other properties (C14, C19): [mode], [op], [res], [dstore],
    [ds_new], [ds_step], [ds_completed_ids], [ds_not_completed_ids], [ds_read],
    [ds_md5], [ds_validate]. *)
From CG3 Require Import Lib.PyZ Lib.Val Lib.Chars.

Inductive mode := MR | MW | MA.          (* READONLY, OVERWRITE, APPEND *)

Definition mode_eqb (a b : mode) : bool :=
  match a, b with MR, MR | MW, MW | MA, MA => true | _, _ => false end.

(** the operations of a data store (shared with Model/SqlStore.v) *)
Inductive op :=
| OWrite (id data : str)          (* write(unique_id=id, data=data) *)
| OWriteNC (id data : str)        (* write_not_completed(...) *)
| OWriteLog (id data : str)       (* write_log(...) *)
| ODrop (id : str)                (* drop_not_completed(unique_id=id) *)
| ODropAll                        (* drop_not_completed() *)
| OReopen (m : mode).             (* close; open the same source again in mode m *)

(** result of a call: the returned member's unique_id / None, or the exception class *)
Inductive res := ROk (member : option str) | RExc (code : Z).

(** The code at the pinned commit violates the property in several independent
    places (see Properties/C13.v, the [_refuted] theorems).  For each of them a
    minimal patch is proposed (notes/proposed_fixes/C13-<n>.diff); the model
    carries one boolean per patch: [false] = the pinned code, [true] = the code
    with that patch applied.  The harness determines the flags of the tree it is
    run on from witness histories and then requires the model with these flags to
    agree with the implementation on every case. *)
Record variant := mkV {
  v_exact : bool;       (* C13-1: drop_not_completed matches the file name exactly, not by endswith *)
  v_sfx : bool;         (* C13-2: the suffix is replaced as a dotted component only, not as a substring *)
  v_dropfirst : bool;   (* C13-3: write() retires the not-completed record before writing *)
  v_rodrop : bool;      (* C13-4: drop_not_completed refuses in read-only mode *)
  v_presence : bool;    (* C13-5: _write no longer skips an existing id (w mode overwrites); member lists without duplicates *)
  v_sqlupd : bool }.    (* C13-6: sqlite UPDATE also sets is_completed; member caches follow *)

Definition pinned : variant := mkV false false false false false false.
Definition repaired : variant := mkV true true true true true true.

(** literals *)
Definition s_json : str := [106;115;111;110].
Definition s_log : str := [108;111;103].
Definition s_txt : str := [116;120;116].
Definition s_gz : str := [103;122].
Definition s_bz2 : str := [98;122;50].
Definition s_zip : str := [122;105;112].
Definition s_dot_json : str := ch_dot :: s_json.
Definition s_dot_log : str := ch_dot :: s_log.
Definition s_dot_txt : str := ch_dot :: s_txt.
Definition s_nc_prefix : str := [110;111;116;95;99;111;109;112;108;101;116;101;100;47].   (* "not_completed/" *)
Definition s_logs_prefix : str := [108;111;103;115;47].                                   (* "logs/" *)

Definition nonempty {A} (l : list A) : bool := match l with [] => false | _ => true end.

Definition opt_str_eqb (a b : option str) : bool :=
  match a, b with
  | Some x, Some y => str_eqb x y
  | None, None => true
  | _, _ => false
  end.

(** [cogent3.util.io.get_format_suffixes] : (suffix, compression suffix) *)
Definition is_compression (s : str) : bool := str_eqb s s_bz2 || str_eqb s s_gz || str_eqb s s_zip.

Definition wout_period (s : str) : str :=
  match s with c :: t => if c =? ch_dot then t else s | [] => [] end.

Definition get_format_suffixes (filename : str) : option str * option str :=
  let name := path_name filename in
  match path_suffix name with
  | [] => (None, None)
  | _ =>
      let sufs := map (fun x => ascii_lower (wout_period x)) (last_n 2 (path_suffixes name)) in
      match rev sufs with
      | [] => (None, None)                      (* IndexError in the code; needs a leading '.' *)
      | lastx :: before =>
          if is_compression lastx then
            match before with
            | b :: _ => (Some b, Some lastx)
            | [] => (None, Some lastx)
            end
          else (Some lastx, None)
      end
  end.

(** ------------------------------------------------------------------ state *)

Record dstore := mkD {
  d_suffix : str;
  d_mode : mode;
  d_root : fmap;                 (* files directly under source *)
  d_nc : option fmap;            (* source/not_completed, None = directory absent *)
  d_logs : fmap;                 (* source/logs *)
  d_md5 : fmap;                  (* source/md5 *)
  d_completed : list str;        (* self._completed : unique ids *)
  d_ncache : list str }.         (* self._not_completed : unique ids "not_completed/<name>" *)

Definition with_root (s : dstore) (x : fmap) : dstore :=
  mkD (d_suffix s) (d_mode s) x (d_nc s) (d_logs s) (d_md5 s) (d_completed s) (d_ncache s).
Definition with_nc (s : dstore) (x : option fmap) : dstore :=
  mkD (d_suffix s) (d_mode s) (d_root s) x (d_logs s) (d_md5 s) (d_completed s) (d_ncache s).
Definition with_logs (s : dstore) (x : fmap) : dstore :=
  mkD (d_suffix s) (d_mode s) (d_root s) (d_nc s) x (d_md5 s) (d_completed s) (d_ncache s).
Definition with_md5 (s : dstore) (x : fmap) : dstore :=
  mkD (d_suffix s) (d_mode s) (d_root s) (d_nc s) (d_logs s) x (d_completed s) (d_ncache s).
Definition with_completed (s : dstore) (x : list str) : dstore :=
  mkD (d_suffix s) (d_mode s) (d_root s) (d_nc s) (d_logs s) (d_md5 s) x (d_ncache s).
Definition with_ncache (s : dstore) (x : list str) : dstore :=
  mkD (d_suffix s) (d_mode s) (d_root s) (d_nc s) (d_logs s) (d_md5 s) (d_completed s) x.

(** [DataStoreDirectory(source, suffix=sfx, mode=m)] on a source that does not
    exist yet, m in {w, a}: [_source_check_create] makes the four directories *)
Definition ds_new (sfx : str) (m : mode) : dstore := mkD sfx m [] (Some []) [] [] [] [].

(** close + open again.  [_source_check_create]: READONLY returns at once (the
    source exists); w / a re-create missing sub-directories.  Nothing is deleted
    in any mode. *)
Definition ds_reopen (s : dstore) (m : mode) : dstore :=
  mkD (d_suffix s) m (d_root s)
      (match m with
       | MR => d_nc s
       | _ => Some (match d_nc s with Some x => x | None => [] end)
       end)
      (d_logs s) (d_md5 s) [] [].

(** ------------------------------------------------------------------ member lists *)

(** [completed] property: glob("*.<suffix>") when the cache is empty *)
Definition glob_completed (s : dstore) : list str :=
  filter (fun n => endswith n (ch_dot :: d_suffix s)) (fm_keys (d_root s)).

Definition completed_prop (s : dstore) : dstore * list str :=
  match d_completed s with
  | [] => let l := glob_completed s in (with_completed s l, l)
  | l => (s, l)
  end.

(** [not_completed] property: glob("*.json") in not_completed/ when the cache is empty *)
Definition glob_nc (s : dstore) : list str :=
  match d_nc s with
  | Some m => map (fun n => s_nc_prefix ++ n) (filter (fun n => endswith n s_dot_json) (fm_keys m))
  | None => []
  end.

Definition nc_prop (s : dstore) : dstore * list str :=
  match d_ncache s with
  | [] => let l := glob_nc s in (with_ncache s l, l)
  | l => (s, l)
  end.

(** [members] = completed + not_completed *)
Definition members (s : dstore) : dstore * list str :=
  let (s1, c) := completed_prop s in
  let (s2, n) := nc_prop s1 in
  (s2, c ++ n).

(** [logs] property *)
Definition ds_logs (s : dstore) : list str := map (fun n => s_logs_prefix ++ n) (fm_keys (d_logs s)).

(** [_special_suffixes.search(item)] : r"\.(log|json)$" *)
Definition special_suffix (item : str) : bool := endswith item s_dot_log || endswith item s_dot_json.

(** the identifier [__contains__] really looks up *)
Definition contains_key (v : variant) (sfx item : str) : str :=
  if special_suffix item then item
  else if (if v_sfx v then endswith item (ch_dot :: sfx) else contains item sfx) then item
  else item ++ ch_dot :: sfx.

(** [DataStoreDirectory.__contains__] *)
Definition contains_item (v : variant) (s : dstore) (item : str) : dstore * bool :=
  let k := contains_key v (d_suffix s) item in
  let (s1, ms) := members s in
  (s1, mem_str k ms).

(** [_check_writable]: Some exception code / None *)
Definition check_writable (v : variant) (s : dstore) (uid : str) : dstore * option Z :=
  match d_mode s with
  | MR => (s, Some E_IO)
  | m =>
      let (s1, b) := contains_item v s uid in
      if b && mode_eqb m MA then (s1, Some E_IO) else (s1, None)
  end.

(** [re.sub(rf"[.]{old}(?=[.]|$)", "." + new, s)]: every dotted component equal to
    [old], except the first one, becomes [new] *)
Fixpoint join_dot (l : list str) : str :=
  match l with
  | [] => []
  | [x] => x
  | x :: t => x ++ ch_dot :: join_dot t
  end.

Definition replace_comp (s old new : str) : str :=
  match split_on ch_dot s with
  | [] => s
  | h :: t => join_dot (h :: map (fun p => if str_eqb p old then new else p) t)
  end.

Definition subst_suffix (v : variant) (s old new : str) : str :=
  if v_sfx v then replace_comp s old new else replace_all s old new.

(** ------------------------------------------------------------------ _write *)

Inductive subdir := SRoot | SNC | SLogs.

(** the file name [_write] ends up with, and the compression suffix it computed *)
Definition write_name (v : variant) (self_sfx suffix uid : str) : str * option str :=
  let '(sfx, cmp) := get_format_suffixes uid in
  let '(uid1, cmp1) :=
    if opt_str_eqb sfx (Some suffix) then (uid, cmp)
    else let u := path_stem (path_name uid) ++ ch_dot :: suffix in (u, snd (get_format_suffixes u)) in
  let uid2 :=
    if nonempty self_sfx && negb (str_eqb self_sfx suffix) then subst_suffix v uid1 self_sfx suffix else uid1 in
  (uid2, cmp1).

(** name of the md5 side file written for a member file *)
Definition md5_write_name (v : variant) (suffix fname : str) : str := subst_suffix v fname suffix s_txt.

Definition E_Unsupported : Z := 99.

Definition subdir_prefix (sub : subdir) : str :=
  match sub with SRoot => [] | SNC => s_nc_prefix | SLogs => s_logs_prefix end.

Definition write_ (v : variant) (s : dstore) (sub : subdir) (uid suffix data : str) : dstore * res :=
  let (s1, e) := check_writable v s uid in
  match e with
  | Some c => (s1, RExc c)
  | None =>
      if negb (nonempty suffix) then (s1, RExc E_Other)          (* assert suffix *)
      else
        let '(fname, cmp) := write_name v (d_suffix s1) suffix uid in
        (* pinned: [if suffix != "log" and unique_id in self: return None];  C13-5: these two lines are gone *)
        let (s2, present) :=
          if str_eqb suffix s_log || v_presence v then (s1, false)
          else contains_item v s1 fname in
        if present then (s2, ROk None)
        else
          match cmp with
          | Some _ => (s2, RExc E_Unsupported)                     (* compressed members: not modelled *)
          | None =>
              match sub with
              | SLogs => (with_logs s2 (fm_set (d_logs s2) fname data), ROk None)
              | SNC =>
                  match d_nc s2 with
                  | None => (s2, RExc E_IO)
                  | Some m =>
                      let s3 := with_nc s2 (Some (fm_set m fname data)) in
                      (with_md5 s3 (fm_set (d_md5 s3) (md5_write_name v suffix fname) data),
                       ROk (Some (s_nc_prefix ++ fname)))
                  end
              | SRoot =>
                  let s3 := with_root s2 (fm_set (d_root s2) fname data) in
                  (with_md5 s3 (fm_set (d_md5 s3) (md5_write_name v suffix fname) data), ROk (Some fname))
              end
          end
  end.

(** ------------------------------------------------------------------ drop_not_completed *)

(** the end-pattern [drop_not_completed] matches member ids against ("" = all) *)
Definition drop_pattern (sfx uid : str) : str :=
  let u := replace_all uid (ch_dot :: sfx) [] in
  match u with [] => [] | _ => u ++ s_dot_json end.

Fixpoint drop_loop (v : variant) (pat : str) (todo : list str) (s : dstore) : dstore * option Z :=
  match todo with
  | [] => (s, None)
  | m :: rest =>
      if nonempty pat && negb (if v_exact v then str_eqb (path_name m) pat else endswith m pat)
      then drop_loop v pat rest s
      else
        let name := path_name m in
        match d_nc s with
        | None => (s, Some E_IO)                                   (* file.unlink(): FileNotFoundError *)
        | Some ncm =>
            if fm_mem ncm name then
              let s1 := with_nc s (Some (fm_del ncm name)) in
              let md5n := path_stem name ++ s_dot_txt in
              if fm_mem (d_md5 s1) md5n then
                let s2 := with_md5 s1 (fm_del (d_md5 s1) md5n) in
                let (s3, l) := nc_prop s2 in                        (* self.not_completed.remove(m) *)
                if mem_str m l then drop_loop v pat rest (with_ncache s3 (remove_first m l))
                else (s3, Some E_Value)
              else (s1, Some E_IO)                                 (* md5_file.unlink(): FileNotFoundError *)
            else (s, Some E_IO)
        end
  end.

Definition drop_nc (v : variant) (s : dstore) (uid : str) : dstore * option Z :=
  if v_rodrop v && mode_eqb (d_mode s) MR then (s, Some E_IO) else
  let pat := drop_pattern (d_suffix s) uid in
  let (s1, l) := nc_prop s in
  let (s2, e) := drop_loop v pat l s1 in
  match e with
  | Some c => (s2, Some c)
  | None =>
      match pat with
      | [] =>
          match d_nc s2 with
          | None => (s2, Some E_IO)                                (* rmdir: FileNotFoundError *)
          | Some [] => (with_ncache (with_nc s2 None) [], None)
          | Some _ => (s2, Some E_IO)                              (* rmdir: directory not empty *)
          end
      | _ => (s2, None)
      end
  end.

(** ------------------------------------------------------------------ public methods *)

(** [self._completed.append(member)]; with C13-5 only when not already listed *)
Definition cache_add (v : variant) (l : list str) (id : str) : list str :=
  if v_presence v && mem_str id l then l else l ++ [id].

Definition ds_write (v : variant) (s : dstore) (uid data : str) : dstore * res :=
  if v_dropfirst v then
    let (s0, e0) := check_writable v s uid in
    match e0 with
    | Some c => (s0, RExc c)
    | None =>
        let (s1, e) := drop_nc v s0 uid in
        match e with
        | Some c => (s1, RExc c)
        | None =>
            let (s2, r) := write_ v s1 SRoot uid (d_suffix s1) data in
            match r with
            | ROk (Some id) => (with_completed s2 (cache_add v (d_completed s2) id), r)
            | _ => (s2, r)
            end
        end
    end
  else
  let (s1, r) := write_ v s SRoot uid (d_suffix s) data in
  match r with
  | RExc _ => (s1, r)
  | ROk m =>
      let (s2, e) := drop_nc v s1 uid in
      match e with
      | Some c => (s2, RExc c)
      | None =>
          match m with
          | Some id => (with_completed s2 (cache_add v (d_completed s2) id), r)
          | None => (s2, r)
          end
      end
  end.

Definition mkdir_nc (s : dstore) : dstore :=
  match d_nc s with Some _ => s | None => with_nc s (Some []) end.

Definition ds_write_nc (v : variant) (s : dstore) (uid data : str) : dstore * res :=
  let s0 := mkdir_nc s in                                           (* before any mode check *)
  let (s1, r) := write_ v s0 SNC uid s_json data in
  match r with
  | ROk (Some id) => (with_ncache s1 (cache_add v (d_ncache s1) id), r)
  | _ => (s1, r)
  end.

Definition ds_write_log (v : variant) (s : dstore) (uid data : str) : dstore * res :=
  write_ v s SLogs uid s_log data.

Definition ds_drop (v : variant) (s : dstore) (uid : str) : dstore * res :=
  let (s1, e) := drop_nc v s uid in
  (s1, match e with Some c => RExc c | None => ROk None end).

Definition ds_step (v : variant) (s : dstore) (o : op) : dstore * res :=
  match o with
  | OWrite id data => ds_write v s id data
  | OWriteNC id data => ds_write_nc v s id data
  | OWriteLog id data => ds_write_log v s id data
  | ODrop id => ds_drop v s id
  | ODropAll => ds_drop v s []
  | OReopen m => (ds_reopen s m, ROk None)
  end.

(** [md5(unique_id)]: name looked up in md5/ :
    re.sub(rf"[.]({suffix}|json)$", ".txt", Path(unique_id).name) *)
Definition md5_lookup_name (sfx uid : str) : str :=
  let name := path_name uid in
  if endswith name (ch_dot :: sfx) then firstn (length name - S (length sfx)) name ++ s_dot_txt
  else if endswith name s_dot_json then firstn (length name - 5) name ++ s_dot_txt
  else name.

Definition ds_md5 (s : dstore) (uid : str) : option str :=
  fm_get (d_md5 s) (md5_lookup_name (d_suffix s) uid).

(** [read(unique_id)]: None = FileNotFoundError *)
Definition ds_read (s : dstore) (uid : str) : option str :=
  if startswith uid s_nc_prefix then
    match d_nc s with
    | Some m => fm_get m (skipn (length s_nc_prefix) uid)
    | None => None
    end
  else if startswith uid s_logs_prefix then fm_get (d_logs s) (skipn (length s_logs_prefix) uid)
  else fm_get (d_root s) uid.

Definition ds_completed_ids (s : dstore) : dstore * list str := completed_prop s.
Definition ds_not_completed_ids (s : dstore) : dstore * list str := nc_prop s.

(** [validate()]: (correct, incorrect, missing, has_log); None = a read raised *)
Fixpoint validate_count (s : dstore) (ms : list str) (correct missing : Z) : option (Z * Z) :=
  match ms with
  | [] => Some (correct, missing)
  | m :: rest =>
      match ds_read s m with
      | None => None
      | Some data =>
          match ds_md5 s m with
          | None => validate_count s rest (correct - 1) (missing + 1)
          | Some t => validate_count s rest (if str_eqb t data then correct else correct - 1) missing
          end
      end
  end.

Definition ds_validate (s : dstore) : dstore * option (Z * Z * Z * bool) :=
  let (s1, ms) := members s in
  let n := zlen ms in
  match validate_count s1 ms n 0 with
  | None => (s1, None)
  | Some (correct, missing) => (s1, Some (correct, n - correct - missing, missing, nonempty (d_logs s1)))
  end.
