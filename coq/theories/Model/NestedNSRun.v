(** C16 — runner for the correspondence of the not-same projection: motif
    probabilities and rule values are given as fractions num/den *)
From CG3 Require Import Lib.PyZ Lib.Val Model.Nested Model.NestedNS Spec.NestedNSSpec.

Definition mkq (n d : Z) : Qc := Q2Qc (Qmake n (Z.to_pos d)).

Fixpoint nth_pi (l : list (Z * Z)) (j : Z) : Qc :=
  match l with
  | [] => Q2Qc 0
  | (n, d) :: t => if j =? 0 then mkq n d else nth_pi t (j - 1)
  end.

Definition vq (q : Qc) : val := VL [VZ (Qnum (this q)); VZ (Zpos (Qden (this q)))].

Definition vqrule (r : qrule) : val :=
  VL [VS (q_par r); match q_edges r with None => VN | Some es => VL (map VS es) end; vq (q_val r)].

(** (exact_rule, pi, rich, simple, rules as (name, num, den)) *)
Definition run_nscase (c : bool * list (Z * Z) * coords * coords * list (name * Z * Z)) : val :=
  let '(ex, pis, rich, simple, rs) := c in
  let pi := nth_pi pis in
  let rules := map (fun r => mkqrule (fst (fst r)) None (mkq (snd (fst r)) (snd r))) rs in
  VL [match project_not_same ex pi rich simple rules with
      | MOk new => VL (map vqrule new)
      | MErr code => VE code
      end;
      VB (nested_ok_ns ex rich simple)].
