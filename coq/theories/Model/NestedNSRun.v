(** C16 — runner for the correspondence of the not-same projection: motif
    probabilities and rule values are given as fractions num/den *)
From CG3 Require Import Lib.PyZ Lib.Val Model.Nested Model.NestedNS Spec.NestedNSSpec.

Definition mkq (n d : Z) : Qc := Q2Qc (Qmake n (Z.to_pos d)).

Fixpoint nth_pi (l : list (Z * Z)) (j : Z) : Qc :=
  match l with
  | [] => Q2Qc 0
  | (n, d) :: t => if j =? 0 then mkq n d else nth_pi t (j - 1)
  end.

Definition vq (q : Qc) : val := VL [VZ (Qnum (this q)); VZ (Zpos (Qden (this q)))].

Definition vqrule (r : qrule) : val :=
  VL [VS (q_par r); match q_edges r with None => VN | Some es => VL (map VS es) end; vq (q_val r)].

Definition vqo (o : option Qc) : val := match o with Some q => vq q | None => VN end.

(** (exact_rule, pi, rich, simple, rules as (name, num, den, is_constant)): every rule goes through
    update_param_rules (same = False) and then update_rule_value reads the number handed to the rich rule *)
Definition run_nscase (c : bool * list (Z * Z) * coords * coords * list (name * Z * Z * bool)) : val :=
  let '(ex, pis, rich, simple, rs) := c in
  let pi := nth_pi pis in
  let rules := map (fun r : name * Z * Z * bool => let '(n, a, b, k) := r in
                             if k then mkprule n None true (Some (mkq a b)) None
                             else mkprule n None false None (Some (mkq a b))) rs in
  VL [match param_mapping ex rich simple with
      | MErr code => VE code
      | MOk pm =>
          match ref_val pi rich with
          | MErr code => VE code
          | MOk rho =>
              VL (map (fun r => VL [VS (p_par r); match p_edges r with None => VN | Some es => VL (map VS es) end;
                                    vqo (null_rule_value r)])
                      (flat_map (project_prule pi rho rich pm) (rules ++ [mkprule ref_cell None false None (Some 1%Qc)])))
          end
      end;
      VB (nested_ok_ns ex rich simple)].
