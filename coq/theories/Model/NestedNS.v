(** C16 — _ParamProjection for a stationary nested model and a NON-stationary
    rich model ([same = False]: e.g. HKY85 / TN93 / GTR -> GN), transcribed from
    cogent3.evolve.likelihood_function:

      _ParamProjection.__init__ / _set_ref_val     l.~168-189
      _ParamProjection._rate_not_same              l.~191-202
      _ParamProjection.update_param_rules          l.~213-241  (same = False)

    The stationary model's rate matrix is  Q[i,j] = (product of its rate
    parameters covering (i,j)) * pi_j ; the non-stationary one has no pi
    factor and its reference cell is fixed at 1.  The projection therefore
    multiplies by the motif probability of the TARGET state j of the cell and
    divides by the motif probability of the target state of the rich model's
    reference cell.  Values are exact rationals (Qc).  Sets are given as lists
    in the iteration order of the implementation's Python sets (the harness
    passes that order), because the code reads "the last cell" of a parameter
    and "the first cell" of the reference set.  No proofs in this file. *)
From Coq Require Export QArith Qcanon.
From CG3 Require Import Lib.PyZ Lib.Val Model.Nested.
Open Scope Z_scope.

(** [for i, j in coords: new_terms[rich_param] = motif_probs[j] * mle / ref_val]:
    the assignment of the LAST cell in iteration order survives *)
Definition last_col (cs : list cell) : option Z :=
  match rev cs with [] => None | c :: _ => Some (snd c) end.

(** _set_ref_val, same = False:  i, j = list(rich_coords["ref_cell"])[0]; motif_probs[j].
    An empty reference set: IndexError (1) *)
Definition ref_val (pi : Z -> Qc) (rich : coords) : mres Qc :=
  match coords_of ref_cell rich with
  | [] => MErr 1
  | c :: _ => MOk (pi (snd c))
  end.

(** _rate_not_same *)
Definition rate_not_same (pi : Z -> Qc) (rho : Qc) (rich : coords) (pmap : list (name * list name))
  (sp : name) (mle : Qc) : list (name * Qc) :=
  flat_map (fun rp =>
              if name_eqb rp ref_cell then []
              else match last_col (coords_of rp rich) with
                   | None => []
                   | Some j => [(rp, (pi j * mle / rho)%Qc)]
                   end)
           (lookup_map sp pmap).

Record qrule := mkqrule { q_par : name; q_edges : option (list name); q_val : Qc }.

(** update_param_rules with same = False: the pseudo rule
    [dict(par_name="ref_cell", init=1.0, edges=None)] is appended, so that the rich
    parameters lying in the nested model's reference cells are projected from the value 1 *)
Definition update_param_rules_not_same (pi : Z -> Qc) (rho : Qc) (rich : coords) (pmap : list (name * list name))
  (rules : list qrule) : list qrule :=
  flat_map (fun r =>
              if name_eqb (q_par r) n_mprobs || name_eqb (q_par r) n_length then [r]
              else map (fun nv => mkqrule (fst nv) (q_edges r) (snd nv))
                       (rate_not_same pi rho rich pmap (q_par r) (q_val r)))
           (rules ++ [mkqrule ref_cell None 1%Qc]).

(** the whole projection: mapping, reference value, rules *)
Definition project_not_same (ex : bool) (pi : Z -> Qc) (rich simple : coords) (rules : list qrule) : mres (list qrule) :=
  match param_mapping ex rich simple with
  | MErr c => MErr c
  | MOk pm =>
      match ref_val pi rich with
      | MErr c => MErr c
      | MOk rho => MOk (update_param_rules_not_same pi rho rich pm rules)
      end
  end.

(** * rules with their "init" and "value" fields

    get_param_rules gives a free term the key "init" and a CONSTANT term
    ("is_constant": True) the key "value".  update_param_rules (l.~213-241) reads
    the mle from "value" for a constant rule and from "init" otherwise, copies
    the rule and stores the PROJECTED value under "init" (the old "value" stays in
    the copy).  update_rule_value / extend_rule_value (l.44-64) then hand
    [null.get("init", null.get("value"))] to the rich rule: "init" first, which
    is the projected value. *)
Record prule := mkprule {
  p_par : name; p_edges : option (list name); p_const : bool;
  p_value : option Qc; p_init : option Qc
}.

(** rule[par_val_key]  (None: KeyError, not a rule get_param_rules produces) *)
Definition p_mle (r : prule) : option Qc := if p_const r then p_value r else p_init r.

(** one rule through update_param_rules, same = False *)
Definition project_prule (pi : Z -> Qc) (rho : Qc) (rich : coords) (pmap : list (name * list name)) (r : prule)
  : list prule :=
  if name_eqb (p_par r) n_mprobs || name_eqb (p_par r) n_length then [r]
  else match p_mle r with
       | None => []
       | Some mle => map (fun nv => mkprule (fst nv) (p_edges r) (p_const r) (p_value r) (Some (snd nv)))
                         (rate_not_same pi rho rich pmap (p_par r) mle)
       end.

(** null.get("init", null.get("value")) *)
Definition null_rule_value (n : prule) : option Qc :=
  match p_init n with Some v => Some v | None => p_value n end.

(** the variant that prefers "value" (a seeded change): reads the un-projected number of a constant rule *)
Definition null_rule_value_value_first (n : prule) : option Qc :=
  match p_value n with Some v => Some v | None => p_init n end.

(** the rule as the integer/rational-valued model of the projection sees it *)
Definition prule_as_qrule (r : prule) : option qrule :=
  match p_mle r with Some v => Some (mkqrule (p_par r) (p_edges r) v) | None => None end.
