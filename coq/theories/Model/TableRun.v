(** C20 — executable runner used by the correspondence check: builds tables,
    applies a sequence of Table-API operations (callbacks come from a small
    closed language that the harness renders as Python lambdas), and the
    write / load_delimited round trip through the csv codec model. *)
From Coq Require Import QArith.
From CG3 Require Import Lib.PyZ Lib.Chars Lib.StableSort Lib.Val Model.Csv Model.Table Model.TableLoad Model.TableCount.
Open Scope Z_scope.
Import ListNotations.

(* row predicates: callbacks of filtered / count *)
Inductive pred :=
| PTrue
| PGt (i : nat) (k : Z)          (* lambda r: r[i] > k        (numeric cell) *)
| PEqC (i : nat) (c : cell)      (* lambda r: r[i] == c *)
| PEqCols (i j : nat)            (* lambda r: r[i] == r[j] *)
| PMulGt (i j : nat) (k : Z)     (* lambda r: r[i] * r[j] > k      / "a * b > k"   (Python ints: unbounded) *)
| PSqGt (i : nat) (k : Z)        (* lambda r: r[i] ** 2 > k        / "a ** 2 > k" *)
| PAddGt (i j : nat) (k : Z)     (* lambda r: r[i] + r[j] > k      / "a + b > k" *)
| PNot (p : pred).

(* Python ints, bool being an int subclass (True * 3 == 3) *)
Definition int_of_cell (c : cell) : option Z :=
  match c with CI z => Some z | CB b => Some (b2z b) | _ => None end.

Fixpoint eval_pred (p : pred) (row : list cell) : bool :=
  match p with
  | PTrue => true
  | PGt i k => match cell_q (nth i row CN) with
               | Some q => match Qcompare (inject_Z k) q with Lt => true | _ => false end
               | None => false
               end
  | PEqC i c => cell_eqb (nth i row CN) c
  | PEqCols i j => cell_eqb (nth i row CN) (nth j row CN)
  | PMulGt i j k => match int_of_cell (nth i row CN), int_of_cell (nth j row CN) with Some a, Some b => k <? a * b | _, _ => false end
  | PSqGt i k => match int_of_cell (nth i row CN) with Some a => k <? a * a | _ => false end
  | PAddGt i j k => match int_of_cell (nth i row CN), int_of_cell (nth j row CN) with Some a, Some b => k <? a + b | _, _ => false end
  | PNot q => negb (eval_pred q row)
  end.

(* row expressions: callbacks of with_new_column *)
Inductive expr :=
| EConst (c : cell)
| EAdd (i j : nat)               (* lambda r: r[i] + r[j]   (int+int / str+str) *)
| EIsEq (i : nat) (c : cell)     (* lambda r: r[i] == c *)
| EMul (i j : nat)               (* lambda r: r[i] * r[j]   / "a * b"    (ints) *)
| ESq (i : nat).                 (* lambda r: r[i] ** 2     / "a ** 2"   (ints) *)

Definition eval_expr (e : expr) (row : list cell) : cell :=
  match e with
  | EConst c => c
  | EAdd i j =>
      match nth i row CN, nth j row CN with
      | CI a, CI b => CI (a + b)
      | CS a, CS b => CS (a ++ b)
      | _, _ => CN
      end
  | EIsEq i c => CB (cell_eqb (nth i row CN) c)
  | EMul i j => match int_of_cell (nth i row CN), int_of_cell (nth j row CN) with Some a, Some b => CI (a * b) | _, _ => CN end
  | ESq i => match int_of_cell (nth i row CN) with Some a => CI (a * a) | _ => CN end
  end.

Inductive op :=
| OJoin (other : nat) (cs co : option (list str)) (inner : bool) (prefix : str)
| OSorted (columns reverse : option (list str))
| OFiltered (p : pred) (columns : option (list str))
| OFilteredByCol (c : cell)      (* lambda col: c in col.tolist() *)
| OGetColumns (columns : list str)
| OWithNew (name : str) (e : expr) (columns : option (list str))
| OAppended (newcol : option str) (self_title : str) (others : list (str * nat))
| OTransposed (new : str) (sah : option str)
| OCount (p : pred) (columns : option (list str))
| ODistinct (columns : list str)
| OCountUnique (a : carg)        (* count_unique(arg): (keys scalar?, [(key, count)]) *)
| ODistinctArg (a : carg).       (* distinct_values(arg) with every argument form: (scalar?, keys) *)

Definition cell_val (c : cell) : val :=
  match c with
  | CI z => VZ z | CS s => VS s | CB b => VB b | CN => VN
  | CF m e => VL [VS [60; 102; 62]; VZ m; VZ e]      (* tagged "<f>": the float m * 10^e *)
  end.

Definition table_val (t : table) : val :=
  VL [VL (map VS (hdr t)); VL (map (fun c => VL (map cell_val c)) (cols t)); VZ (Z.of_nat (nrows t))].

Definition apply_op (ts : list table) (cur : table) (o : op) : res (table * val) :=
  let tv r := bind r (fun t => Ok (t, table_val t)) in
  match o with
  | OJoin k cs co inner p => tv (joined cur (nth k ts empty_table) cs co inner p)
  | OSorted c r => tv (sorted cur c r)
  | OFiltered p c => tv (filtered cur (eval_pred p) c)
  | OFilteredByCol c => tv (filtered_by_column cur (fun col => existsb (fun x => cell_eqb c x) col))
  | OGetColumns c => tv (get_columns cur c)
  | OWithNew n e c => tv (with_new_column cur n (eval_expr e) c)
  | OAppended nc st others =>
      tv (appended cur nc ((st, cur) :: map (fun tk => (fst tk, nth (snd tk) ts empty_table)) others))
  | OTransposed n s => tv (transposed cur n s)
  | OCount p c => bind (count cur (eval_pred p) c) (fun n => Ok (cur, VZ n))
  | ODistinct c => bind (distinct_values cur c) (fun ks => Ok (cur, VL (map (fun k => VL (map cell_val k)) ks)))
  | OCountUnique a =>
      bind (count_unique cur a) (fun r =>
        Ok (cur, VL [VB (fst r); VL (map (fun kn => VL [VL (map cell_val (fst kn)); VZ (snd kn)]) (snd r))]))
  | ODistinctArg a =>
      bind (distinct_values_arg cur a) (fun r =>
        Ok (cur, VL [VB (fst r); VL (map (fun k => VL (map cell_val k)) (snd r))]))
  end.

Fixpoint run_ops (ts : list table) (cur : table) (ops : list op) : list val :=
  match ops with
  | [] => []
  | o :: rest =>
      match apply_op ts cur o with
      | Er e => [VE e]
      | Ok (new, obs) => obs :: run_ops ts new rest
      end
  end.

(* Table(header=..., data=columns) *)
Definition mk_table (hc : list str * list (list cell)) : table :=
  match set_cols empty_table (fst hc) (map coerce_col (snd hc)) with Ok t => t | Er _ => empty_table end.

(* the text csv.writer receives for a cell: None is written as the empty string *)
Definition csv_cell_text (c : cell) : str := match c with CN => [] | _ => cell_str c end.

(* Table.write l.2177-2182 without title/legend: header row then the rows of self.array *)
Definition write_records (t : table) : list (list str) :=
  hdr t :: map (map csv_cell_text) (array t).

Definition vrows (o : option (list (list str))) : val :=
  match o with
  | Some rows => VL (map (fun r => VL (map VS r)) rows)
  | None => VE E_Other
  end.

Inductive case :=
| CaseOps (tables : list (list str * list (list cell))) (ops : list op)
| CaseRT (d : Z) (t : list str * list (list cell)).

Definition run_case (c : case) : val :=
  match c with
  | CaseOps tables ops =>
      let ts := map mk_table tables in
      VL (run_ops ts (nth 0 ts empty_table) ops)
  | CaseRT d hc =>
      let t := mk_table hc in
      let text := fmt_rows d (write_records t) in
      VL [VS text; vrows (csv_read d text);
          match write_then_load d (write_records t) with Ok t' => table_val t' | Er e => VE e end]
  end.
