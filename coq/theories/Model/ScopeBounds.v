(** C16 — declared bounds per scope of one parameter
    (cogent3.recalculation.scope._LeafDefn.assign_all l.526-586, get_current_bounds l.604-618).
    A table gives every cell (edge) of the parameter its (lower, upper).  A rule
    selects edges; interpret_scopes turns the selection into scopes (one per
    edge when independent, one for all otherwise); FOR EACH SCOPE the inherited
    bounds are the envelope of that scope's own cells, overridden by the bounds
    the rule states.  Constant settings are not modelled.  No proofs here. *)
From CG3 Require Import Lib.PyZ Lib.Val Model.Nested.

Definition btable := list (name * (Z * Z)).

Fixpoint blookup (t : btable) (e : name) : option (Z * Z) :=
  match t with [] => None | (k, b) :: r => if name_eqb k e then Some b else blookup r e end.

(** get_current_bounds(scope): lowest lower, highest upper over the scope's cells *)
Definition envelope (t : btable) (scope : list name) : option (Z * Z) :=
  match map snd (filter (fun c => mem_name (fst c) scope) t) with
  | [] => None
  | b :: r => Some (fold_left (fun acc x => (Z.min (fst acc) (fst x), Z.max (snd acc) (snd x))) r b)
  end.

Definition set_cells (t : btable) (scope : list name) (b : Z * Z) : btable :=
  map (fun c => if mem_name (fst c) scope then (fst c, b) else c) t.

Definition override (o : option Z) (d : Z) : Z := match o with Some v => v | None => d end.

(** the body of the loop of assign_all for one scope *)
Definition assign_scope (t : btable) (scope : list name) (lo hi : option Z) : btable :=
  match envelope t scope with
  | None => t
  | Some (l, u) => set_cells t scope (override lo l, override hi u)
  end.

(** one rule: set_param_rule(par, edges=..., is_independent=..., lower=..., upper=...).
    The inherited bounds of every scope are read from the table as it was BEFORE the
    rule (settings are collected first, assigned afterwards, l.583-586). *)
Definition apply_rule (t : btable) (edges : list name) (independent : bool) (lo hi : option Z) : btable :=
  if independent
  then fold_left (fun acc e => match envelope t [e] with
                               | None => acc
                               | Some (l, u) => set_cells acc [e] (override lo l, override hi u)
                               end) edges t
  else assign_scope t edges lo hi.

(** the seeded variant: inherited bounds computed once for the whole selection *)
Definition apply_rule_envelope_of_selection (t : btable) (edges : list name) (independent : bool) (lo hi : option Z) : btable :=
  match envelope t edges with
  | None => t
  | Some (l, u) => set_cells t edges (override lo l, override hi u)
  end.
