(** C08 — the few numpy idioms the translator (harness/translators/indelmap.py)
    maps generated code to that Model/IndelMap.v does not already define.
    No proofs in this file. *)
From CG3 Require Import Lib.PyZ Lib.Val Model.IndelMap.

(** [numpy.diff(a)]: differences of consecutive elements *)
Definition np_diff (l : list Z) : list Z :=
  match l with [] => [] | x :: t => diffs_from x t end.

(** [a[i] = v] for [0 <= i] (out of range: unchanged; numpy raises IndexError) *)
Fixpoint np_set (l : list Z) (i v : Z) : list Z :=
  match l with
  | [] => []
  | x :: t => if i =? 0 then v :: t else x :: np_set t (i - 1) v
  end.
