(** C08 — the few numpy idioms the translator (harness/translators/indelmap.py)
    maps generated code to that Model/IndelMap.v does not already define.
    No proofs in this file. *)
From CG3 Require Import Lib.PyZ Lib.Val Model.IndelMap.

(** [numpy.diff(a)]: differences of consecutive elements *)
Definition np_diff (l : list Z) : list Z :=
  match l with [] => [] | x :: t => diffs_from x t end.

(** [a[i] = v] for [0 <= i] (out of range: unchanged; numpy raises IndexError) *)
Fixpoint np_set (l : list Z) (i v : Z) : list Z :=
  match l with
  | [] => []
  | x :: t => if i =? 0 then v :: t else x :: np_set t (i - 1) v
  end.

(** ** fancy indexing idioms of [_update_lengths] / [merge_maps] *)

(** first position of [x] in [l], counted from [i0] *)
Fixpoint np_index_of (x : Z) (i0 : Z) (l : list Z) : option Z :=
  match l with
  | [] => None
  | y :: t => if y =? x then Some i0 else np_index_of x (i0 + 1) t
  end.

(** [numpy.intersect1d(a, b, assume_unique=True, return_indices=True)]: for every element of [a]
    (positions from [i0]) that occurs in [b], the pair (its index in [a], its index in [b]).
    numpy orders the result by the common VALUE; [a] is sorted at the only call sites
    (the output of [numpy.union1d]), where that is the order of the positions in [a]. *)
Fixpoint np_isect_pairs (i0 : Z) (a b : list Z) : list (Z * Z) :=
  match a with
  | [] => []
  | x :: t => (match np_index_of x 0 b with Some j => [(i0, j)] | None => [] end) ++ np_isect_pairs (i0 + 1) t b
  end.
Definition np_isect_vals (a b : list Z) : list Z := map (fun ij => pyget a (fst ij)) (np_isect_pairs 0 a b).
Definition np_isect_a (a b : list Z) : list Z := map fst (np_isect_pairs 0 a b).
Definition np_isect_b (a b : list Z) : list Z := map snd (np_isect_pairs 0 a b).

(** [g[idx]] with an index array *)
Definition np_take (g idx : list Z) : list Z := map (fun i => pyget g i) idx.

(** [l[i] = f(l[i])] for [0 <= i] *)
Fixpoint np_upd (f : Z -> Z) (l : list Z) (i : Z) : list Z :=
  match l with
  | [] => []
  | x :: t => if i =? 0 then f x :: t else x :: np_upd f t (i - 1)
  end.

(** [r[idx] += vals] / [r[idx] = vals] with an index array of DISTINCT indices, one after the other
    (with repeated indices numpy's buffered [+=] differs: [intersect1d] of unique arrays has none) *)
Definition np_add_at (r idx vals : list Z) : list Z :=
  fold_left (fun acc iv => np_upd (fun x => x + snd iv) acc (fst iv)) (combine idx vals) r.
Definition np_set_at (r idx vals : list Z) : list Z :=
  fold_left (fun acc iv => np_set acc (fst iv) (snd iv)) (combine idx vals) r.

(** [numpy.zeros(a.shape)] *)
Definition np_zeros_like (a : list Z) : list Z := map (fun _ => 0) a.

(** ** two-column arrays ([minus_gaps]) *)

(** [numpy.empty((n, 2))]: n rows of unspecified content (every row is assigned before it is read) *)
Definition np_empty_pairs (n : Z) : list (Z * Z) := repeat (0, 0) (Z.to_nat n).

(** [a[i] = x, y] for [0 <= i] *)
Fixpoint np_set_pair (l : list (Z * Z)) (i : Z) (v : Z * Z) : list (Z * Z) :=
  match l with
  | [] => []
  | x :: t => if i =? 0 then v :: t else x :: np_set_pair t (i - 1) v
  end.

(** ** dicts, 1-D empty arrays, rows ([joined_segments], [from_aligned_segments]) *)

(** [numpy.empty(n)] : every element is assigned before it is read *)
Definition np_empty (n : Z) : list Z := repeat 0 (Z.to_nat n).

(** a Python dict with int keys as an association list with distinct keys (insertion order is irrelevant:
    the only reading is [sorted(d.items())]) *)
Fixpoint np_dict_get (d : list (Z * Z)) (k dflt : Z) : Z :=
  match d with
  | [] => dflt
  | (k', v) :: t => if k' =? k then v else np_dict_get t k dflt
  end.
Fixpoint np_dict_set (d : list (Z * Z)) (k v : Z) : list (Z * Z) :=
  match d with
  | [] => [(k, v)]
  | (k', x) :: t => if k' =? k then (k', v) :: t else (k', x) :: np_dict_set t k v
  end.

(** row [i] of a two-column array / list of pairs, Python negative wrap *)
Definition np_row (l : list (Z * Z)) (i : Z) : Z * Z :=
  if i <? 0 then nth (Z.to_nat (zlen l + i)) l (0, 0) else nth (Z.to_nat i) l (0, 0).
