(** C16 — the app-level sequence of [hypothesis] / [model_collection]
    (cogent3.app.evo) for one alternate, as a small state machine on top of the
    optimiser-wrapper model:

      _ModelCollectionBase._initialised_alt   null fit -> alt(aln, initialise=_InitFrom(null))
      model._configure_lf                     make lf, bounds, [time_het], THEN initialise(lf)
      _InitFrom.__call__                      try: other.initialise_from_nested(nested)
                                              except Exception: pass
      LikelihoodFunction.initialise_from_nested   assert self.nfp > nested.nfp; compatible...;
                                              projection; apply_param_rules
      model._fit_aln -> lf.optimise           recalculation/scope.py optimise: maximise,
                                              MaximumEvaluationsReached by limit_action,
                                              finally: update_from_calculator

    The projection itself is the subject of Model/Nested.v, Model/NestedNS.v;
    here it is an arbitrary outcome [project] (a start vector or an exception
    code), and [init_after_time_het] records the ORDER of the two steps in
    _configure_lf (true = the pinned code).  No proofs in this file. *)
From CG3 Require Import Lib.PyZ Lib.Val Model.Optim Model.Nested.

Inductive init_status :=
| NotRequested            (* sequential=False or init_alt given: initialise_from_nested is not called *)
| Initialised             (* initialise_from_nested returned *)
| Swallowed (code : Z).   (* it raised; _InitFrom.__call__ swallowed the exception *)

Record alt_model := mkalt {
  nfp_homog : Z;           (* free parameters of the alternate before set_time_heterogeneity *)
  nfp_het : option Z;      (* after it, when time_het is given *)
  x_default : point        (* the parameter vector of a function nobody initialised *)
}.

Definition nfp_final (a : alt_model) : Z := match nfp_het a with Some n => n | None => nfp_homog a end.

(** _configure_lf + _InitFrom + the entry checks of initialise_from_nested.
    [project het]: outcome of the projection onto the alternate as it is at that
    moment ([het] = time heterogeneity already applied): the start vector of the
    function that will be optimised, or the code of the exception raised *)
Definition configure (init_after_time_het sequential : bool) (nfp_null : Z) (a : alt_model)
  (project : bool -> mres point) : point * init_status * Z :=
  if negb sequential then (x_default a, NotRequested, nfp_final a)
  else
    let het_at_init := match nfp_het a with Some _ => init_after_time_het | None => false end in
    let nfp_at_init := if het_at_init then nfp_final a else nfp_homog a in
    if nfp_at_init <=? nfp_null
    then (x_default a, Swallowed 9, nfp_at_init)          (* AssertionError "wrong order for likelihood functions" *)
    else match project het_at_init with
         | MOk x => (x, Initialised, nfp_at_init)
         | MErr c => (x_default a, Swallowed c, nfp_at_init)
         end.

(** what the caller of the alternate's model app gets: how lf.optimise ended,
    and the parameter vector the likelihood function is left at *)
Definition fit (f_alt : point -> fv) (maxev : option Z) (b : bounds) (local : option bool) (limit_action : Z)
  (x_start : point) (g l : list act) : lf_result * option point * final :=
  let '(fin, s) := maximise f_alt maxev b local x_start g l in
  (lf_optimise_result limit_action fin, lf_state_after s, fin).

(** the whole step for one alternate *)
Definition alt_step (init_after_time_het sequential : bool) (nfp_null : Z) (a : alt_model)
  (project : bool -> mres point) (f_alt : point -> fv) (maxev : option Z) (b : bounds) (local : option bool)
  (limit_action : Z) (g l : list act) : init_status * (lf_result * option point * final) :=
  let '(x0, st, _) := configure init_after_time_het sequential nfp_null a project in
  (st, fit f_alt maxev b local limit_action x0 g l).

(** runner for the correspondence: (init_after_time_het, sequential, nfp_null, nfp_homog, nfp_het, projection code:
    0 = succeeds, c>0 = raises c) -> [status; nfp seen by initialise_from_nested] *)
Definition run_cfg (c : bool * bool * Z * Z * option Z * Z) : val :=
  let '(ord, sq, n0, nh, nhet, pc) := c in
  let '(_, st, n) := configure ord sq n0 (mkalt nh nhet []) (fun _ => if pc =? 0 then MOk [] else MErr pc) in
  VL [match st with NotRequested => VZ 0 | Initialised => VZ 1 | Swallowed c => VL [VZ 2; VZ c] end; VZ n].
