(** Universal observation type used by every correspondence check.

    The harness turns what the implementation returned (ints, bools, strings,
    lists, tuples, None, an exception class) into a [val] literal; each model
    exposes a runner [case -> val].  Comparing the two is structural equality
    on [val], done on the Python side after parsing what [vm_compute] printed.
    Nothing here is specific to one property. *)
From Coq Require Import ZArith List Bool.
Import ListNotations.
Open Scope Z_scope.

Inductive val : Type :=
| VZ (z : Z)                 (* Python int *)
| VB (b : bool)              (* Python bool *)
| VS (s : list Z)            (* Python str / bytes, as code points *)
| VL (l : list val)          (* list / tuple *)
| VN                         (* None *)
| VE (e : Z).                (* exception, by class code, see harness/vcheck/val.py *)

(* exception class codes *)
Definition E_Index : Z := 1.
Definition E_Value : Z := 2.
Definition E_Type : Z := 3.
Definition E_IO : Z := 4.
Definition E_Key : Z := 5.
Definition E_Other : Z := 9.

Definition VP (a b : val) : val := VL [a; b].
Definition vlistZ (l : list Z) : val := VL (map VZ l).
Definition voptZ (o : option Z) : val := match o with Some z => VZ z | None => VN end.
Definition vpairZ (p : Z * Z) : val := VL [VZ (fst p); VZ (snd p)].
