(** * StableSort: a generic, fully proved stable insertion sort.

    [isort_by leb l] sorts [l] by the boolean preorder [leb].  An element is
    inserted before the first element it is [leb] to; as it preceded every
    element of the (already sorted) tail in the input, the sort is stable.

    Main results: permutation, length, membership, sortedness, stability
    (for every [x], the sub-list of elements equivalent to [x] is unchanged)
    and uniqueness (sorted + permutation + stable determines the result). *)

From Coq Require Import List Bool Sorting.Permutation Sorting.Sorted Lia.
Import ListNotations.

Fixpoint insert_by {A} (leb : A -> A -> bool) (x : A) (l : list A) : list A :=
  match l with
  | [] => [x]
  | y :: t => if leb x y then x :: y :: t else y :: insert_by leb x t
  end.

Fixpoint isort_by {A} (leb : A -> A -> bool) (l : list A) : list A :=
  match l with
  | [] => []
  | x :: t => insert_by leb x (isort_by leb t)
  end.

Definition leb_total {A} (leb : A -> A -> bool) :=
  forall x y, leb x y = true \/ leb y x = true.
Definition leb_trans {A} (leb : A -> A -> bool) :=
  forall x y z, leb x y = true -> leb y z = true -> leb x z = true.
Definition leb_equiv {A} (leb : A -> A -> bool) (x y : A) : bool :=
  leb x y && leb y x.

(** ** Permutation, length, membership *)

Lemma insert_by_perm : forall A leb (x : A) (l : list A),
  Permutation (insert_by leb x l) (x :: l).
Proof.
  intros A leb x l.
  induction l as [|y t IH].
  - simpl. apply Permutation_refl.
  - simpl. destruct (leb x y) eqn:Hxy.
    + apply Permutation_refl.
    + apply perm_trans with (l' := y :: x :: t).
      * apply perm_skip. exact IH.
      * apply perm_swap.
Qed.

Theorem isort_by_perm : forall A leb (l : list A),
  Permutation (isort_by leb l) l.
Proof.
  intros A leb l.
  induction l as [|x t IH].
  - simpl. apply perm_nil.
  - simpl. apply perm_trans with (l' := x :: isort_by leb t).
    + apply insert_by_perm.
    + apply perm_skip. exact IH.
Qed.

Theorem isort_by_length : forall A leb (l : list A),
  length (isort_by leb l) = length l.
Proof.
  intros A leb l.
  apply Permutation_length.
  apply isort_by_perm.
Qed.

Theorem isort_by_In : forall A leb (l : list A) x,
  In x (isort_by leb l) <-> In x l.
Proof.
  intros A leb l x.
  split.
  - intros Hin.
    apply Permutation_in with (l := isort_by leb l).
    + apply isort_by_perm.
    + exact Hin.
  - intros Hin.
    apply Permutation_in with (l := l).
    + apply Permutation_sym. apply isort_by_perm.
    + exact Hin.
Qed.

(** ** Sortedness *)

Lemma insert_by_sorted : forall A (leb : A -> A -> bool),
  leb_total leb -> leb_trans leb ->
  forall (x : A) (l : list A),
    StronglySorted (fun a b => leb a b = true) l ->
    StronglySorted (fun a b => leb a b = true) (insert_by leb x l).
Proof.
  intros A leb Htot Htr x l.
  induction l as [|y t IH]; intros Hs.
  - simpl. apply SSorted_cons.
    + apply SSorted_nil.
    + apply Forall_nil.
  - inversion Hs as [|y' t' Hst Hall]; subst y' t'.
    simpl. destruct (leb x y) eqn:Hxy.
    + apply SSorted_cons.
      * exact Hs.
      * apply Forall_cons.
        -- exact Hxy.
        -- apply Forall_forall. intros z Hz.
           apply Htr with (y := y).
           ++ exact Hxy.
           ++ apply (proj1 (Forall_forall _ _) Hall z Hz).
    + apply SSorted_cons.
      * apply IH. exact Hst.
      * apply Forall_forall. intros z Hz.
        assert (Hz' : In z (x :: t)).
        { apply Permutation_in with (l := insert_by leb x t).
          - apply insert_by_perm.
          - exact Hz. }
        destruct Hz' as [Hzx | Hzt].
        -- subst z.
           destruct (Htot x y) as [Hc | Hc].
           ++ rewrite Hc in Hxy. discriminate Hxy.
           ++ exact Hc.
        -- apply (proj1 (Forall_forall _ _) Hall z Hzt).
Qed.

Theorem isort_by_sorted : forall A (leb : A -> A -> bool),
  leb_total leb -> leb_trans leb ->
  forall l, StronglySorted (fun x y => leb x y = true) (isort_by leb l).
Proof.
  intros A leb Htot Htr l.
  induction l as [|x t IH].
  - simpl. apply SSorted_nil.
  - simpl. apply insert_by_sorted.
    + exact Htot.
    + exact Htr.
    + exact IH.
Qed.

(** ** Stability *)

(** Inserting [x] only moves it past elements [y] with [leb x y = false];
    such a [y] cannot be in the same equivalence class as [x]. *)
Lemma insert_by_stable : forall A (leb : A -> A -> bool),
  leb_trans leb ->
  forall (x0 x : A) (l : list A),
    filter (leb_equiv leb x0) (insert_by leb x l)
    = filter (leb_equiv leb x0) (x :: l).
Proof.
  intros A leb Htr x0 x l.
  induction l as [|y t IH].
  - simpl. reflexivity.
  - simpl insert_by. destruct (leb x y) eqn:Hxy.
    + reflexivity.
    + change (filter (leb_equiv leb x0) (y :: insert_by leb x t))
        with (if leb_equiv leb x0 y
              then y :: filter (leb_equiv leb x0) (insert_by leb x t)
              else filter (leb_equiv leb x0) (insert_by leb x t)).
      rewrite IH.
      simpl filter.
      destruct (leb_equiv leb x0 x) eqn:Hex.
      * destruct (leb_equiv leb x0 y) eqn:Hey.
        -- unfold leb_equiv in Hex, Hey.
           apply andb_true_iff in Hex. destruct Hex as [_ Hxx0].
           apply andb_true_iff in Hey. destruct Hey as [Hx0y _].
           assert (Hc : leb x y = true).
           { apply Htr with (y := x0).
             - exact Hxx0.
             - exact Hx0y. }
           rewrite Hc in Hxy. discriminate Hxy.
        -- reflexivity.
      * reflexivity.
Qed.

Theorem isort_by_stable : forall A (leb : A -> A -> bool),
  leb_total leb -> leb_trans leb ->
  forall (l : list A) (x : A),
    filter (leb_equiv leb x) (isort_by leb l) = filter (leb_equiv leb x) l.
Proof.
  intros A leb _ Htr l x.
  induction l as [|y t IH].
  - simpl. reflexivity.
  - simpl isort_by.
    rewrite insert_by_stable.
    + simpl filter. rewrite IH. reflexivity.
    + exact Htr.
Qed.

(** ** Uniqueness of the sorted, stable permutation *)

(** The head of a sorted list is below every element of the list. *)
Lemma sorted_head_le : forall A (leb : A -> A -> bool),
  leb_total leb ->
  forall (a : A) (t : list A) (z : A),
    StronglySorted (fun x y => leb x y = true) (a :: t) ->
    In z (a :: t) -> leb a z = true.
Proof.
  intros A leb Htot a t z Hs Hin.
  inversion Hs as [|a' t' _ Hall]; subst a' t'.
  destruct Hin as [Haz | Hzt].
  - subst z. destruct (Htot a a) as [Hc | Hc]; exact Hc.
  - apply (proj1 (Forall_forall _ _) Hall z Hzt).
Qed.

Lemma sorted_equiv_filters_eq : forall A (leb : A -> A -> bool),
  leb_total leb -> leb_trans leb ->
  forall l1 l2 : list A,
    StronglySorted (fun x y => leb x y = true) l1 ->
    StronglySorted (fun x y => leb x y = true) l2 ->
    Permutation l1 l2 ->
    (forall x, filter (leb_equiv leb x) l1 = filter (leb_equiv leb x) l2) ->
    l1 = l2.
Proof.
  intros A leb Htot Htr l1.
  induction l1 as [|a t1 IH]; intros l2 Hs1 Hs2 Hperm Hfil.
  - apply Permutation_nil in Hperm. symmetry. exact Hperm.
  - destruct l2 as [|b t2].
    + apply Permutation_sym in Hperm.
      apply Permutation_nil in Hperm. discriminate Hperm.
    + assert (Hab : leb a b = true).
      { apply sorted_head_le with (t := t1).
        - exact Htot.
        - exact Hs1.
        - apply Permutation_in with (l := b :: t2).
          + apply Permutation_sym. exact Hperm.
          + left. reflexivity. }
      assert (Hba : leb b a = true).
      { apply sorted_head_le with (t := t2).
        - exact Htot.
        - exact Hs2.
        - apply Permutation_in with (l := a :: t1).
          + exact Hperm.
          + left. reflexivity. }
      assert (Haa : leb a a = true).
      { destruct (Htot a a) as [Hc | Hc]; exact Hc. }
      assert (Heq : a = b).
      { assert (Heaa : leb_equiv leb a a = true).
        { unfold leb_equiv. rewrite Haa. reflexivity. }
        assert (Heab : leb_equiv leb a b = true).
        { unfold leb_equiv. rewrite Hab, Hba. reflexivity. }
        pose proof (Hfil a) as Hfa.
        simpl filter in Hfa.
        rewrite Heaa, Heab in Hfa.
        injection Hfa as Hhead _. exact Hhead. }
      subst b.
      f_equal.
      inversion Hs1 as [|a1 t1' Hst1 _]; subst a1 t1'.
      inversion Hs2 as [|a2 t2' Hst2 _]; subst a2 t2'.
      apply IH.
      * exact Hst1.
      * exact Hst2.
      * apply Permutation_cons_inv with (a := a). exact Hperm.
      * intros x. pose proof (Hfil x) as Hfx.
        simpl in Hfx.
        destruct (leb_equiv leb x a) eqn:Hexa.
        -- injection Hfx as Htl. exact Htl.
        -- exact Hfx.
Qed.

Theorem stable_sort_unique : forall A (leb : A -> A -> bool),
  leb_total leb -> leb_trans leb ->
  forall l l1 l2 : list A,
    Permutation l1 l -> Permutation l2 l ->
    StronglySorted (fun x y => leb x y = true) l1 ->
    StronglySorted (fun x y => leb x y = true) l2 ->
    (forall x, filter (leb_equiv leb x) l1 = filter (leb_equiv leb x) l) ->
    (forall x, filter (leb_equiv leb x) l2 = filter (leb_equiv leb x) l) ->
    l1 = l2.
Proof.
  intros A leb Htot Htr l l1 l2 Hp1 Hp2 Hs1 Hs2 Hf1 Hf2.
  apply sorted_equiv_filters_eq with (leb := leb).
  - exact Htot.
  - exact Htr.
  - exact Hs1.
  - exact Hs2.
  - apply perm_trans with (l' := l).
    + exact Hp1.
    + apply Permutation_sym. exact Hp2.
  - intros x. rewrite Hf1, Hf2. reflexivity.
Qed.
