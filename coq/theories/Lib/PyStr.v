(** More Python [str] / [pathlib] / [re] readings on code-point lists, used by the
    generated file gen/DsNamesGen.v (harness/translators/ds_names.py).  Only
    executable definitions; the lemmas about them are in Proofs/DsNamesEq.v.

      [py_rstrip s chars]      s.rstrip(chars)         (chars is a SET of characters)
      [py_lstrip s chars]      s.lstrip(chars)
      [py_strip s chars]       s.strip(chars)
      [removesuffix s p]       s.removesuffix(p)
      [removeprefix s p]       s.removeprefix(p)
      [split_first c s]        s.split(chr(c))[0]
      [split_last c s]         s.split(chr(c))[-1]
      [path_join a b]          str(Path(a) / b)         (b a relative name, a without trailing '/')
      [re_search_dot_alts_end s alts]        re.search(r"\.(a1|a2|..)$", s) is not None
      [re_sub_dot_alts_end s alts repl]      re.sub(r"[.](a1|a2|..)$", repl, s)
      [re_sub_dot_lit_la s lit repl]         re.sub(rf"[.]{re.escape(lit)}(?=[.]|$)", repl, s)
    for strings without a newline ('$' also matches before a trailing newline) and
    alternatives / literals that are plain text (the unescaped alternatives of the
    md5 pattern are read as plain text: no regular-expression metacharacter). *)
From Coq Require Import ZArith List Bool.
From CG3 Require Import Lib.Chars.
Import ListNotations.
Open Scope Z_scope.

Definition in_chars (c : Z) (chars : str) : bool := existsb (Z.eqb c) chars.

Fixpoint py_lstrip (s chars : str) : str :=
  match s with
  | c :: t => if in_chars c chars then py_lstrip t chars else s
  | [] => []
  end.

Definition py_rstrip (s chars : str) : str := rev (py_lstrip (rev s) chars).

Definition py_strip (s chars : str) : str := py_rstrip (py_lstrip s chars) chars.

Definition removesuffix (s p : str) : str :=
  if endswith s p then firstn (length s - length p) s else s.

Definition removeprefix (s p : str) : str :=
  if startswith s p then skipn (length p) s else s.

Definition split_first (c : Z) (s : str) : str :=
  match split_on c s with w :: _ => w | [] => [] end.

Definition split_last (c : Z) (s : str) : str := last (split_on c s) [].

Definition path_join (a b : str) : str := a ++ ch_slash :: b.

(** [re.search(r"\.(a1|a2|..)$", s)]: some alternative, preceded by a dot, ends the string *)
Definition re_search_dot_alts_end (s : str) (alts : list str) : bool :=
  existsb (fun a => endswith s (ch_dot :: a)) alts.

(** [re.sub(r"[.](a1|a2|..)$", repl, s)]: the match is anchored at the end, the leftmost
    match is the one of the LONGEST alternative that fits; at most one replacement *)
Fixpoint longest_alt (s : str) (alts : list str) (best : option str) : option str :=
  match alts with
  | [] => best
  | a :: rest =>
      if endswith s (ch_dot :: a)
      then longest_alt s rest (match best with
                               | Some b => if Nat.ltb (length b) (length a) then Some a else best
                               | None => Some a
                               end)
      else longest_alt s rest best
  end.

Definition re_sub_dot_alts_end (s : str) (alts : list str) (repl : str) : str :=
  match longest_alt s alts None with
  | Some a => firstn (length s - S (length a)) s ++ repl
  | None => s
  end.

(** [re.sub(rf"[.]{re.escape(lit)}(?=[.]|$)", repl, s)]: left to right, non-overlapping;
    a match is a dot, the literal, and then the end of the string or another dot (not consumed).
    [skip] counts the characters of a matched occurrence still to be dropped. *)
Definition la_ok (r : str) : bool := match r with [] => true | x :: _ => x =? ch_dot end.

Fixpoint re_sub_go (lit repl : str) (skip : nat) (s : str) : str :=
  match s with
  | [] => []
  | c :: t =>
      match skip with
      | S k => re_sub_go lit repl k t
      | O => if (c =? ch_dot) && startswith t lit && la_ok (skipn (length lit) t)
             then repl ++ re_sub_go lit repl (length lit) t
             else c :: re_sub_go lit repl O t
      end
  end.

Definition re_sub_dot_lit_la (s lit repl : str) : str := re_sub_go lit repl O s.

Example rstrip_ex : py_rstrip [97;46;102;97] [46;102;97] = [] /\ py_rstrip [98;97;46;102] [46;102] = [98;97].
Proof. split; reflexivity. Qed.
Example re_sub_ex1 : re_sub_dot_lit_la [97;46;102;97;46;102;97;46;103;122] [102;97] [46;120] = [97;46;120;46;120;46;103;122].
Proof. reflexivity. Qed.
Example re_sub_ex2 : re_sub_dot_lit_la [102;97;95;97;46;102;97;98] [102;97] [46;120] = [102;97;95;97;46;102;97;98].
Proof. reflexivity. Qed.
Example re_sub_end_ex : re_sub_dot_alts_end [97;46;106;115;111;110] [[102;97];[106;115;111;110]] [46;116] = [97;46;116].
Proof. reflexivity. Qed.
