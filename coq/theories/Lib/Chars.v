(** Python [str] functions on code-point lists.

    Strings are [list Z] (code points), as everywhere in this development.
    Only executable definitions and a few basic facts; nothing here is specific
    to one property.  Python names are kept:

      [str_eqb a b]            a == b
      [startswith s p]         s.startswith(p)
      [endswith s p]           s.endswith(p)
      [contains s p]           p in s
      [replace_all s old new]  s.replace(old, new)
      [str_ltb a b]            a < b   (code-point order, the order of [sorted])
      [sort_strs l]            sorted(l)
      [ascii_lower s]          s.lower() for ASCII strings
      [split_on c s]           s.split(chr(c))
      [rsplit1 c s]            (s[:i], s[i+1:]) for i = s.rfind(chr(c)), None if absent
      [path_name s]            pathlib.PurePosixPath(s).name     (s without trailing '/', no '.'/'..' parts)
      [path_parent s]          str(PurePosixPath(s).parent)      (same restriction)
      [path_suffix n], [path_stem n], [path_suffixes n]   the pathlib properties of a file NAME (Python <= 3.13)
*)
From Coq Require Import ZArith List Bool Lia.
Import ListNotations.
Open Scope Z_scope.

Definition str := list Z.

(** string literals used by clients *)
Definition ch_dot : Z := 46.
Definition ch_slash : Z := 47.

Fixpoint str_eqb (a b : str) : bool :=
  match a, b with
  | [], [] => true
  | x :: a', y :: b' => (x =? y) && str_eqb a' b'
  | _, _ => false
  end.

Lemma str_eqb_spec a b : reflect (a = b) (str_eqb a b).
Proof.
  revert b; induction a as [|x a IH]; intros [|y b]; simpl; try (constructor; congruence).
  destruct (Z.eqb_spec x y) as [->|Hn]; simpl.
  - destruct (IH b) as [->|Hn]; constructor; congruence.
  - constructor; congruence.
Qed.

Lemma str_eqb_eq a b : str_eqb a b = true <-> a = b.
Proof. destruct (str_eqb_spec a b); split; congruence. Qed.

Lemma str_eqb_refl a : str_eqb a a = true.
Proof. apply str_eqb_eq; reflexivity. Qed.

Lemma str_eqb_neq a b : str_eqb a b = false <-> a <> b.
Proof. destruct (str_eqb_spec a b); split; congruence. Qed.

Lemma str_eqb_sym a b : str_eqb a b = str_eqb b a.
Proof. destruct (str_eqb_spec a b), (str_eqb_spec b a); congruence. Qed.

Definition str_eq_dec (a b : str) : {a = b} + {a <> b} := list_eq_dec Z.eq_dec a b.

(** [s.startswith(p)] *)
Fixpoint startswith (s p : str) : bool :=
  match p with
  | [] => true
  | y :: p' => match s with
               | [] => false
               | x :: s' => (x =? y) && startswith s' p'
               end
  end.

(** [s.endswith(p)]: s is p, or the tail of s ends with p *)
Fixpoint endswith (s p : str) : bool :=
  str_eqb s p || match s with [] => false | _ :: t => endswith t p end.

(** [p in s] *)
Fixpoint contains (s p : str) : bool :=
  startswith s p || match s with [] => false | _ :: t => contains t p end.

(** [s.replace(old, new)]: left to right, non-overlapping.  [skip] counts the
    characters of a matched occurrence still to be dropped. *)
Fixpoint replace_go (old new : str) (skip : nat) (s : str) : str :=
  match s with
  | [] => []
  | c :: t =>
      match skip with
      | S k => replace_go old new k t
      | O => if startswith s old then new ++ replace_go old new (pred (length old)) t
             else c :: replace_go old new O t
      end
  end.

Definition replace_all (s old new : str) : str :=
  match old with
  | [] => new ++ flat_map (fun c => c :: new) s      (* "abc".replace("", "-") = "-a-b-c-" *)
  | _ => replace_go old new O s
  end.

(** code-point order *)
Fixpoint str_ltb (a b : str) : bool :=
  match a, b with
  | _, [] => false
  | [], _ :: _ => true
  | x :: a', y :: b' => (x <? y) || ((x =? y) && str_ltb a' b')
  end.

Definition str_leb (a b : str) : bool := negb (str_ltb b a).

Fixpoint insert_sorted {A} (leb : A -> A -> bool) (x : A) (l : list A) : list A :=
  match l with
  | [] => [x]
  | y :: t => if leb x y then x :: l else y :: insert_sorted leb x t
  end.

Definition sort_by {A} (leb : A -> A -> bool) (l : list A) : list A :=
  fold_right (insert_sorted leb) [] l.

(** [sorted(l)] for a list of strings *)
Definition sort_strs (l : list str) : list str := sort_by str_leb l.

Definition ascii_lower_ch (c : Z) : Z := if (65 <=? c) && (c <=? 90) then c + 32 else c.
Definition ascii_lower (s : str) : str := map ascii_lower_ch s.

(** [s.split(chr(c))] *)
Fixpoint split_on (c : Z) (s : str) : list str :=
  match s with
  | [] => [[]]
  | x :: t =>
      match split_on c t with
      | [] => [[]]      (* unreachable: the result is never empty *)
      | w :: ws => if x =? c then [] :: w :: ws else (x :: w) :: ws
      end
  end.

(** split at the FIRST occurrence of [c]: (before, after) *)
Fixpoint split1 (c : Z) (s : str) : option (str * str) :=
  match s with
  | [] => None
  | x :: t =>
      if x =? c then Some ([], t)
      else match split1 c t with
           | Some (a, b) => Some (x :: a, b)
           | None => None
           end
  end.

(** split at the LAST occurrence of [c]: (s[:i], s[i+1:]) with i = s.rfind(c) *)
Definition rsplit1 (c : Z) (s : str) : option (str * str) :=
  match split1 c (rev s) with
  | Some (a, b) => Some (rev b, rev a)
  | None => None
  end.

(** [PurePosixPath(s).name] / [str(PurePosixPath(s).parent)] for s without
    trailing slash and without "." / ".." components *)
Definition path_name (s : str) : str :=
  match rsplit1 ch_slash s with Some (_, n) => n | None => s end.

Definition path_parent (s : str) : str :=
  match rsplit1 ch_slash s with
  | Some ([], _) => [ch_slash]
  | Some (p, _) => p
  | None => [ch_dot]
  end.

(** pathlib (<= 3.13) on a file name:
      i = name.rfind('.') ; suffix = name[i:] if 0 < i < len(name)-1 else ''  ; stem likewise *)
Definition path_suffix (name : str) : str :=
  match rsplit1 ch_dot name with
  | Some (a, b) => match a, b with
                   | [], _ => []          (* i = 0 *)
                   | _, [] => []          (* i = len-1 *)
                   | _, _ => ch_dot :: b
                   end
  | None => []
  end.

Definition path_stem (name : str) : str :=
  match rsplit1 ch_dot name with
  | Some (a, b) => match a, b with
                   | [], _ => name
                   | _, [] => name
                   | _, _ => a
                   end
  | None => name
  end.

Fixpoint lstrip_ch (c : Z) (s : str) : str :=
  match s with
  | x :: t => if x =? c then lstrip_ch c t else s
  | [] => []
  end.

(** [PurePath.suffixes]: [] if name ends with '.', else
    ['.' + x for x in name.lstrip('.').split('.')[1:]] *)
Definition path_suffixes (name : str) : list str :=
  if endswith name [ch_dot] then []
  else map (fun x => ch_dot :: x) (tl (split_on ch_dot (lstrip_ch ch_dot name))).

(** last [n] elements, [l[-n:]] *)
Definition last_n {A} (n : nat) (l : list A) : list A := skipn (length l - n) l.

(** association lists keyed by strings, kept sorted by key (a directory) *)
Definition fmap := list (str * str).

Fixpoint fm_get (m : fmap) (k : str) : option str :=
  match m with
  | [] => None
  | (k', v) :: t => if str_eqb k k' then Some v else fm_get t k
  end.

Definition fm_mem (m : fmap) (k : str) : bool :=
  match fm_get m k with Some _ => true | None => false end.

(** insert a new key at its place in name order *)
Fixpoint fm_insert (m : fmap) (k v : str) : fmap :=
  match m with
  | [] => [(k, v)]
  | (k', v') :: t => if str_ltb k k' then (k, v) :: m else (k', v') :: fm_insert t k v
  end.

(** replace in place when the key is present, insert otherwise *)
Definition fm_set (m : fmap) (k v : str) : fmap :=
  if fm_mem m k then map (fun p => if str_eqb (fst p) k then (k, v) else p) m
  else fm_insert m k v.

Definition fm_del (m : fmap) (k : str) : fmap :=
  filter (fun p => negb (str_eqb (fst p) k)) m.

Definition fm_keys (m : fmap) : list str := map fst m.

(** first occurrence removed: [l.remove(x)] (no error if absent) *)
Fixpoint remove_first (x : str) (l : list str) : list str :=
  match l with
  | [] => []
  | y :: t => if str_eqb x y then t else y :: remove_first x t
  end.

Definition mem_str (x : str) (l : list str) : bool := existsb (str_eqb x) l.

(** Python semantics checked on examples *)
Example replace_ex1 : replace_all [102;97;95;102;97] [102;97] [120] = [120;95;120].
Proof. reflexivity. Qed.
Example replace_ex2 : replace_all [97;97;97] [97;97] [98] = [98;97].
Proof. reflexivity. Qed.
Example suffix_ex1 : path_suffix [97;46;98] = [46;98] /\ path_stem [97;46;98] = [97]
  /\ path_suffix [46;97] = [] /\ path_suffix [97;46] = [] /\ path_stem [97;46] = [97;46]
  /\ path_suffixes [97;46;98;46;99] = [[46;98];[46;99]] /\ path_suffixes [97;46;46;98] = [[46];[46;98]].
Proof. repeat split. Qed.
Example name_ex1 : path_name [97;47;98;47;99] = [99] /\ path_parent [97;47;98;47;99] = [97;47;98]
  /\ path_parent [99] = [46] /\ path_name [99] = [99].
Proof. repeat split. Qed.
Example sort_ex1 : sort_strs [[98];[97;98];[97];[]] = [[];[97];[97;98];[98]].
Proof. reflexivity. Qed.
