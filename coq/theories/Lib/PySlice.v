(** Python slice semantics on lists, independent of any cogent3 code.

    [slice_indices len a b c] is CPython's [PySlice_Unpack] followed by
    [PySlice_AdjustIndices] (Objects/sliceobject.c): [a], [b] are the optional
    bounds of [l[a:b:c]], [c] the (already defaulted, non-zero) step.
    [range_len] is the element count computed by the same C function,
    [py_range] the index progression, [py_slice] the resulting list and
    [py_getitem] integer indexing ([None] = IndexError).

    Only definitions and code-independent algebra live here (no cogent3
    notions), so that every model can reuse it. *)
From CG3 Require Import Lib.PyZ.

(** * Definitions *)

(** one bound of a slice after defaulting and clamping; [is_stop] selects the
    default used for an omitted bound *)
Definition adjust_bound (len step : Z) (is_stop : bool) (x : option Z) : Z :=
  match x with
  | None =>
      if step <? 0 then (if is_stop then -1 else len - 1)
      else (if is_stop then len else 0)
  | Some i =>
      if i <? 0 then
        (if i + len <? 0 then (if step <? 0 then -1 else 0) else i + len)
      else if i >=? len then (if step <? 0 then len - 1 else len)
      else i
  end.

Definition slice_indices (len : Z) (a b : option Z) (c : Z) : Z * Z :=
  (adjust_bound len c false a, adjust_bound len c true b).

(** number of elements of [range(s, e, c)] *)
Definition range_len (s e c : Z) : Z :=
  if 0 <? c then (if s <? e then (e - s - 1) / c + 1 else 0)
  else if c <? 0 then (if e <? s then (s - e - 1) / (- c) + 1 else 0)
  else 0.

(** arithmetic progression [first; first+stride; ...] of [n] terms *)
Fixpoint prog (first stride : Z) (n : nat) : list Z :=
  match n with
  | O => []
  | S k => first :: prog (first + stride) stride k
  end.

Definition py_range (s e c : Z) : list Z := prog s c (Z.to_nat (range_len s e c)).

(** [l[i]] for a non-negative in-range [i], as a 0/1-element list *)
Definition zget {A} (l : list A) (i : Z) : list A :=
  if i <? 0 then []
  else match nth_error l (Z.to_nat i) with Some x => [x] | None => [] end.

Definition gather {A} (l : list A) (idx : list Z) : list A := flat_map (zget l) idx.

(** [l[a:b:c]] (for [c <> 0]; Python raises ValueError for [c = 0]) *)
Definition py_slice {A} (l : list A) (a b : option Z) (c : Z) : list A :=
  let '(s, e) := slice_indices (zlen l) a b c in gather l (py_range s e c).

(** [l[i]]; [None] is IndexError *)
Definition py_getitem {A} (l : list A) (i : Z) : option A :=
  let j := if i <? 0 then i + zlen l else i in
  if (j <? 0) || (j >=? zlen l) then None else nth_error l (Z.to_nat j).

(** * Lemmas *)

Lemma zlen_nonneg {A} (l : list A) : 0 <= zlen l.
Proof. unfold zlen; lia. Qed.

Lemma zlen_app {A} (l1 l2 : list A) : zlen (l1 ++ l2) = zlen l1 + zlen l2.
Proof. unfold zlen. rewrite app_length. lia. Qed.

Lemma zlen_map {A B} (f : A -> B) l : zlen (map f l) = zlen l.
Proof. unfold zlen. now rewrite map_length. Qed.

Lemma zlen_rev {A} (l : list A) : zlen (rev l) = zlen l.
Proof. unfold zlen. now rewrite rev_length. Qed.

Lemma zlen_nil {A} : zlen (@nil A) = 0.
Proof. reflexivity. Qed.

Lemma zlen_0_nil {A} (l : list A) : zlen l = 0 -> l = [].
Proof. destruct l; unfold zlen; simpl; [auto|lia]. Qed.

(** ** the element count *)

Lemma range_len_nonneg s e c : 0 <= range_len s e c.
Proof.
  unfold range_len.
  destruct (0 <? c) eqn:Hc.
  - destruct (s <? e) eqn:Hse; [|lia].
    assert (0 <= (e - s - 1) / c) by (apply Z.div_pos; lia). lia.
  - destruct (c <? 0) eqn:Hc'; [|lia].
    destruct (e <? s) eqn:Hse; [|lia].
    assert (0 <= (s - e - 1) / (- c)) by (apply Z.div_pos; lia). lia.
Qed.

(** characterisation for a positive step: [n] is the count iff
    [c*(n-1) < e-s <= c*n] (non-empty) / [n = 0] (empty) *)
Lemma range_len_pos_spec s e c : 0 < c -> s < e ->
  c * (range_len s e c - 1) < e - s <= c * range_len s e c.
Proof.
  intros Hc Hse. unfold range_len.
  replace (0 <? c) with true by lia. replace (s <? e) with true by lia. nia.
Qed.

Lemma range_len_pos_empty s e c : 0 < c -> e <= s -> range_len s e c = 0.
Proof.
  intros Hc Hse. unfold range_len.
  replace (0 <? c) with true by lia. now replace (s <? e) with false by lia.
Qed.

Lemma range_len_pos_cdiv s e c : 0 < c -> s <= e -> range_len s e c = cdiv (e - s) c.
Proof.
  intros Hc Hse. destruct (Z.eq_dec s e) as [->|Hne].
  - rewrite range_len_pos_empty by lia. rewrite Z.sub_diag. symmetry. now apply cdiv_0.
  - symmetry. apply cdiv_uniq; [lia|]. apply range_len_pos_spec; lia.
Qed.

Lemma range_len_neg_spec s e c : c < 0 -> e < s ->
  (- c) * (range_len s e c - 1) < s - e <= (- c) * range_len s e c.
Proof.
  intros Hc Hse. unfold range_len.
  replace (0 <? c) with false by lia. replace (c <? 0) with true by lia.
  replace (e <? s) with true by lia. nia.
Qed.

Lemma range_len_neg_empty s e c : c < 0 -> s <= e -> range_len s e c = 0.
Proof.
  intros Hc Hse. unfold range_len.
  replace (0 <? c) with false by lia. replace (c <? 0) with true by lia.
  now replace (e <? s) with false by lia.
Qed.

Lemma range_len_neg_cdiv s e c : c < 0 -> e <= s -> range_len s e c = cdiv (s - e) (- c).
Proof.
  intros Hc Hse. destruct (Z.eq_dec s e) as [->|Hne].
  - rewrite range_len_neg_empty by lia. rewrite Z.sub_diag. symmetry. apply cdiv_0; lia.
  - symmetry. apply cdiv_uniq; [lia|]. apply range_len_neg_spec; lia.
Qed.

(** mirror symmetry: a descending range has as many elements as the ascending one *)
Lemma range_len_opp s e c : range_len (- s) (- e) (- c) = range_len s e c.
Proof.
  unfold range_len.
  destruct (0 <? c) eqn:H1; destruct (c <? 0) eqn:H2; try lia.
  - replace (0 <? - c) with false by lia. replace (- c <? 0) with true by lia.
    replace (- e <? - s) with (s <? e) by lia.
    destruct (s <? e); [|reflexivity].
    replace (- - c) with c by lia. replace (- s - - e - 1) with (e - s - 1) by lia. reflexivity.
  - replace (0 <? - c) with true by lia.
    replace (- s <? - e) with (e <? s) by lia.
    destruct (e <? s); [|reflexivity].
    replace (- e - - s - 1) with (s - e - 1) by lia. reflexivity.
  - replace (0 <? - c) with false by lia. now replace (- c <? 0) with false by lia.
Qed.

(** ** progressions *)

Lemma prog_length f st n : length (prog f st n) = n.
Proof. revert f; induction n; simpl; intros; auto. Qed.

Lemma prog_nth f st n i d : (i < n)%nat -> nth i (prog f st n) d = f + Z.of_nat i * st.
Proof.
  revert f i; induction n as [|n IH]; intros f i Hi; [lia|].
  destruct i as [|i]; simpl prog; simpl nth; [lia|].
  rewrite IH by lia. lia.
Qed.

Lemma prog_In f st n x : In x (prog f st n) <-> exists k, 0 <= k < Z.of_nat n /\ x = f + k * st.
Proof.
  revert f; induction n as [|n IH]; intros f; simpl.
  - split; [tauto|]. intros (k & Hk & _). lia.
  - rewrite IH. split.
    + intros [<-|(k & Hk & ->)].
      * exists 0. lia.
      * exists (k + 1). lia.
    + intros (k & Hk & ->). destruct (Z.eq_dec k 0) as [->|Hne].
      * left. lia.
      * right. exists (k - 1). lia.
Qed.

Lemma prog_map_affine f st n a m :
  map (fun i => a + i * m) (prog f st n) = prog (a + f * m) (st * m) n.
Proof.
  revert f; induction n as [|n IH]; intros f; simpl; [reflexivity|].
  rewrite IH. f_equal. f_equal. lia.
Qed.

Lemma prog_0_1 n : prog 0 1 n = map Z.of_nat (seq 0 n).
Proof.
  assert (H : forall k, prog (Z.of_nat k) 1 n = map Z.of_nat (seq k n)).
  { induction n as [|n IH]; intros k; simpl; [reflexivity|].
    f_equal. replace (Z.of_nat k + 1) with (Z.of_nat (S k)) by lia. apply IH. }
  exact (H O).
Qed.

Lemma prog_app f st n m :
  prog f st (n + m) = prog f st n ++ prog (f + Z.of_nat n * st) st m.
Proof.
  revert f; induction n as [|n IH]; intros f.
  - simpl. f_equal. lia.
  - cbn [Nat.add prog app]. rewrite IH. f_equal. f_equal. f_equal. lia.
Qed.

Lemma prog_rev f st n :
  rev (prog f st n) = prog (f + (Z.of_nat n - 1) * st) (- st) n.
Proof.
  revert f; induction n as [|n IH]; intros f; [reflexivity|].
  cbn [prog rev]. rewrite IH.
  transitivity (prog (f + (Z.of_nat (S n) - 1) * st) (- st) (n + 1)).
  2:{ replace (n + 1)%nat with (S n) by lia. reflexivity. }
  rewrite prog_app. f_equal.
  - f_equal. lia.
  - cbn [prog]. f_equal. nia.
Qed.

(** ** gather *)

Lemma zget_in {A} (l : list A) i d : 0 <= i < zlen l -> zget l i = [nth (Z.to_nat i) l d].
Proof.
  intros Hi. unfold zget. replace (i <? 0) with false by lia.
  destruct (nth_error l (Z.to_nat i)) eqn:E.
  - now rewrite (nth_error_nth _ _ d E).
  - apply nth_error_None in E. unfold zlen in Hi. lia.
Qed.

Lemma zget_out {A} (l : list A) i : i < 0 \/ zlen l <= i -> zget l i = [].
Proof.
  intros Hi. unfold zget. destruct (i <? 0) eqn:E; [reflexivity|].
  destruct (nth_error l (Z.to_nat i)) eqn:E2; [|reflexivity].
  assert (Z.to_nat i < length l)%nat by (apply nth_error_Some; congruence).
  unfold zlen in Hi. lia.
Qed.

Lemma gather_nil {A} (l : list A) : gather l [] = [].
Proof. reflexivity. Qed.

Lemma gather_cons {A} (l : list A) i idx : gather l (i :: idx) = zget l i ++ gather l idx.
Proof. reflexivity. Qed.

Lemma gather_app {A} (l : list A) i1 i2 : gather l (i1 ++ i2) = gather l i1 ++ gather l i2.
Proof. unfold gather. apply flat_map_app. Qed.

Lemma gather_in_range {A} (l : list A) idx d :
  (forall i, In i idx -> 0 <= i < zlen l) ->
  gather l idx = map (fun i => nth (Z.to_nat i) l d) idx.
Proof.
  induction idx as [|i idx IH]; intros H; [reflexivity|].
  rewrite gather_cons, (zget_in l i d) by (apply H; now left).
  simpl. f_equal. apply IH. intros j Hj. apply H. now right.
Qed.

Lemma gather_length {A} (l : list A) idx :
  (forall i, In i idx -> 0 <= i < zlen l) -> length (gather l idx) = length idx.
Proof.
  induction idx as [|i idx IH]; intros H; [reflexivity|].
  rewrite gather_cons, app_length, IH by (intros j Hj; apply H; now right).
  destruct l as [|d l']; [specialize (H i (or_introl eq_refl)); unfold zlen in H; simpl in H; lia|].
  rewrite (zget_in _ i d) by (apply H; now left). reflexivity.
Qed.

Lemma gather_map {A B} (f : A -> B) (l : list A) idx :
  gather (map f l) idx = map f (gather l idx).
Proof.
  induction idx as [|i idx IH]; [reflexivity|].
  rewrite !gather_cons, map_app, IH. f_equal.
  unfold zget. destruct (i <? 0); [reflexivity|].
  rewrite nth_error_map. destruct (nth_error l (Z.to_nat i)); reflexivity.
Qed.

Lemma gather_seq_aux {A} (l pre : list A) :
  gather (pre ++ l) (map Z.of_nat (seq (length pre) (length l))) = l.
Proof.
  revert pre; induction l as [|x l IH]; intros pre; [reflexivity|].
  cbn [length seq map]. rewrite gather_cons.
  unfold zget at 1. replace (Z.of_nat (length pre) <? 0) with false by lia.
  rewrite Nat2Z.id, nth_error_app2, Nat.sub_diag by lia. cbn [nth_error app]. f_equal.
  specialize (IH (pre ++ [x])). rewrite <- app_assoc in IH. cbn [app] in IH.
  rewrite app_length in IH. cbn [length] in IH.
  replace (length pre + 1)%nat with (S (length pre)) in IH by lia. exact IH.
Qed.

Lemma gather_all {A} (l : list A) : gather l (prog 0 1 (length l)) = l.
Proof. rewrite prog_0_1. exact (gather_seq_aux l []). Qed.

(** gathering from a gathered progression is gathering a progression:
    the composition law every slice-of-a-view proof reduces to *)
Lemma gather_prog_prog {A} (l : list A) f st n s c m :
  (forall i, In i (prog f st n) -> 0 <= i < zlen l) ->
  (forall j, In j (prog s c m) -> 0 <= j < Z.of_nat n) ->
  gather (gather l (prog f st n)) (prog s c m) = gather l (prog (f + s * st) (st * c) m).
Proof.
  intros Hin Hjn.
  destruct l as [|d l']; [|set (l := d :: l') in *].
  { destruct n as [|n].
    - destruct m as [|m]; [reflexivity|]. specialize (Hjn s). simpl in Hjn. lia.
    - specialize (Hin f). simpl in Hin. unfold zlen in Hin. simpl in Hin. lia. }
  assert (Hlen : zlen (gather l (prog f st n)) = Z.of_nat n).
  { unfold zlen. rewrite gather_length, prog_length by assumption. reflexivity. }
  rewrite (gather_in_range (gather l (prog f st n)) (prog s c m) d)
    by (intros j Hj; rewrite Hlen; now apply Hjn).
  rewrite (gather_in_range l (prog f st n) d Hin).
  assert (Hin2 : forall i, In i (prog (f + s * st) (st * c) m) -> 0 <= i < zlen l).
  { intros i Hi. apply prog_In in Hi. destruct Hi as (k & Hk & ->).
    apply Hin. apply prog_In. exists (s + k * c). split; [|lia].
    apply Hjn. apply prog_In. exists k. split; [lia|reflexivity]. }
  rewrite (gather_in_range l _ d Hin2).
  replace (prog (f + s * st) (st * c) m) with (map (fun j => f + j * st) (prog s c m))
    by (rewrite prog_map_affine; f_equal; lia).
  rewrite map_map. apply map_ext_in. intros j Hj.
  specialize (Hjn j Hj).
  rewrite (nth_indep _ _ (nth (Z.to_nat (f + j * st)) l d))
    by (rewrite map_length, prog_length; lia).
  rewrite (map_nth (fun i => nth (Z.to_nat i) l d)).
  rewrite prog_nth by lia. rewrite Z2Nat.id by lia. reflexivity.

Qed.

(** ** bounds produced by [slice_indices] *)

Lemma adjust_bound_pos len c is_stop x : 0 <= len -> 0 < c ->
  0 <= adjust_bound len c is_stop x <= len.
Proof.
  intros Hl Hc. unfold adjust_bound. replace (c <? 0) with false by lia.
  destruct x as [i|]; [|destruct is_stop; lia].
  destruct (i <? 0) eqn:E1; [destruct (i + len <? 0) eqn:E2; lia|].
  destruct (i >=? len) eqn:E3; lia.
Qed.

Lemma adjust_bound_neg len c is_stop x : 0 <= len -> c < 0 ->
  -1 <= adjust_bound len c is_stop x <= len - 1.
Proof.
  intros Hl Hc. unfold adjust_bound. replace (c <? 0) with true by lia.
  destruct x as [i|]; [|destruct is_stop; lia].
  destruct (i <? 0) eqn:E1; [destruct (i + len <? 0) eqn:E2; lia|].
  destruct (i >=? len) eqn:E3; lia.
Qed.

(** every index of a slice's range is a valid index *)
Lemma py_range_in_bounds len a b c i : 0 <= len -> c <> 0 ->
  In i (let '(s, e) := slice_indices len a b c in py_range s e c) -> 0 <= i < len.
Proof.
  intros Hl Hc. unfold slice_indices, py_range. intros Hi.
  apply prog_In in Hi. destruct Hi as (k & Hk & ->).
  set (s := adjust_bound len c false a) in *. set (e := adjust_bound len c true b) in *.
  rewrite Z2Nat.id in Hk by apply range_len_nonneg.
  destruct (Z_lt_le_dec 0 c) as [Hpos|Hneg].
  - pose proof (adjust_bound_pos len c false a Hl Hpos) as Hs.
    pose proof (adjust_bound_pos len c true b Hl Hpos) as He. fold s in Hs. fold e in He.
    destruct (Z_lt_le_dec s e) as [Hse|Hse].
    + pose proof (range_len_pos_spec s e c Hpos Hse). nia.
    + rewrite range_len_pos_empty in Hk by lia. lia.
  - assert (Hneg' : c < 0) by lia.
    pose proof (adjust_bound_neg len c false a Hl Hneg') as Hs.
    pose proof (adjust_bound_neg len c true b Hl Hneg') as He. fold s in Hs. fold e in He.
    destruct (Z_lt_le_dec e s) as [Hse|Hse].
    + pose proof (range_len_neg_spec s e c Hneg' Hse). nia.
    + rewrite range_len_neg_empty in Hk by lia. lia.
Qed.

(** ** [py_slice] *)

Lemma py_slice_unfold {A} (l : list A) a b c :
  py_slice l a b c =
  gather l (prog (adjust_bound (zlen l) c false a) c
              (Z.to_nat (range_len (adjust_bound (zlen l) c false a) (adjust_bound (zlen l) c true b) c))).
Proof. reflexivity. Qed.

Lemma py_slice_indices_in {A} (l : list A) a b c i : c <> 0 ->
  In i (prog (adjust_bound (zlen l) c false a) c
          (Z.to_nat (range_len (adjust_bound (zlen l) c false a) (adjust_bound (zlen l) c true b) c))) ->
  0 <= i < zlen l.
Proof.
  intros Hc Hi. apply (py_range_in_bounds (zlen l) a b c i (zlen_nonneg l) Hc). exact Hi.
Qed.

Lemma length_py_slice {A} (l : list A) a b c : c <> 0 ->
  zlen (py_slice l a b c) =
  range_len (adjust_bound (zlen l) c false a) (adjust_bound (zlen l) c true b) c.
Proof.
  intros Hc. rewrite py_slice_unfold. unfold zlen at 1.
  rewrite gather_length by (intros i Hi; now apply (py_slice_indices_in l a b c i Hc)).
  rewrite prog_length, Z2Nat.id by apply range_len_nonneg. reflexivity.
Qed.

Lemma py_slice_nil {A} a b c : py_slice (@nil A) a b c = [].
Proof.
  rewrite py_slice_unfold.
  induction (prog _ _ _) as [|i idx IH]; [reflexivity|].
  rewrite gather_cons, IH. unfold zget. destruct (i <? 0); [reflexivity|].
  now destruct (Z.to_nat i).
Qed.

Lemma py_slice_map {A B} (f : A -> B) (l : list A) a b c :
  py_slice (map f l) a b c = map f (py_slice l a b c).
Proof. rewrite !py_slice_unfold, zlen_map. apply gather_map. Qed.

(** [l[:]] *)
Lemma py_slice_full {A} (l : list A) : py_slice l None None 1 = l.
Proof.
  rewrite py_slice_unfold. cbn [adjust_bound]. replace (1 <? 0) with false by lia.
  destruct l as [|x l']; [reflexivity|]. set (l := x :: l').
  assert (0 < zlen l) by (unfold zlen, l; simpl; lia).
  rewrite range_len_pos_cdiv by lia. unfold cdiv. rewrite Z.div_1_r.
  replace (Z.to_nat (- - (zlen l - 0))) with (length l) by (unfold zlen; lia).
  apply gather_all.
Qed.

(** [l[::-1]] *)
Lemma py_slice_rev {A} (l : list A) : py_slice l None None (-1) = rev l.
Proof.
  rewrite py_slice_unfold. cbn [adjust_bound]. replace (-1 <? 0) with true by lia.
  destruct l as [|x l']; [reflexivity|]. set (l := x :: l').
  assert (0 < zlen l) by (unfold zlen, l; simpl; lia).
  rewrite range_len_neg_cdiv by lia. unfold cdiv. replace (- (-1)) with 1 by lia. rewrite Z.div_1_r.
  replace (Z.to_nat (- - (zlen l - 1 - -1))) with (length l) by (unfold zlen; lia).
  rewrite <- (gather_all l) at 4.
  rewrite (gather_in_range l (prog 0 1 (length l)) x).
  2:{ intros i Hi. apply prog_In in Hi. destruct Hi as (k & Hk & ->). unfold zlen. lia. }
  rewrite <- map_rev, prog_rev.
  rewrite (gather_in_range l _ x).
  2:{ intros i Hi. apply prog_In in Hi. destruct Hi as (k & Hk & ->). unfold zlen in *. lia. }
  f_equal. f_equal; unfold zlen; lia.
Qed.

(** integer indexing agrees with the one-element slice *)
Lemma py_getitem_in {A} (l : list A) i x : py_getitem l i = Some x ->
  - zlen l <= i < zlen l /\
  gather l [if i <? 0 then i + zlen l else i] = [x].
Proof.
  unfold py_getitem. set (j := if i <? 0 then i + zlen l else i).
  destruct ((j <? 0) || (j >=? zlen l)) eqn:E; [discriminate|].
  intros Hn. split; [subst j; destruct (i <? 0) eqn:E2; lia|].
  rewrite gather_cons, gather_nil, app_nil_r. unfold zget.
  replace (j <? 0) with false by lia. now rewrite Hn.
Qed.

Lemma py_getitem_none {A} (l : list A) i : py_getitem l i = None <-> (i < - zlen l \/ zlen l <= i).
Proof.
  unfold py_getitem. set (j := if i <? 0 then i + zlen l else i).
  destruct ((j <? 0) || (j >=? zlen l)) eqn:E.
  - split; [intros _|reflexivity]. subst j. destruct (i <? 0) eqn:E2; lia.
  - split.
    + intros Hn. apply nth_error_None in Hn. unfold zlen in *. subst j. destruct (i <? 0) eqn:E2; lia.
    + subst j. destruct (i <? 0) eqn:E2; lia.
Qed.

(** Python facts checked by evaluation *)
Example py_slice_examples :
  let l := [10; 11; 12; 13; 14; 15; 16] in
  py_slice l (Some 1) (Some 6) 2 = [11; 13; 15] /\
  py_slice l (Some (-2)) None (-3) = [15; 12] /\
  py_slice l (Some 100) (Some (-100)) (-2) = [16; 14; 12; 10] /\
  py_slice l (Some (-100)) (Some 2) 1 = [10; 11] /\
  py_slice l (Some 3) (Some 3) 1 = [] /\
  py_getitem l (-1) = Some 16 /\ py_getitem l 7 = None.
Proof. repeat split. Qed.
