(** Rose trees for the likelihood models (C02/C11): a node has any number of
    children; every child hangs on an edge carrying a payload [E] (edge name,
    or transition matrix); leaves carry a payload [L] (sequence name, or
    profile vector).  The root has no edge above it — exactly the shape the
    likelihood recursion walks ([edge.children], [psubs[child.name]]).

    Contents: nested induction principle, [tmap], [leaves]/[edges],
    [tree_all], and the tree transformations of C11 stated once for every
    payload type: one-hole contextual closure, reordering of children,
    moving the root across an edge ([reroot_child]/[reroot_path]), splitting
    an edge in two. *)
From Coq Require Import List Permutation Arith Lia.
Import ListNotations.

Set Implicit Arguments.

Section Tree.
  Variables L E : Type.

  Inductive tree : Type :=
  | Leaf (l : L)
  | Node (ch : list (E * tree)).

  (** nested induction principle *)
  Section Ind.
    Variable P : tree -> Prop.
    Hypothesis HL : forall l, P (Leaf l).
    Hypothesis HN : forall ch, Forall (fun ec => P (snd ec)) ch -> P (Node ch).
    Fixpoint tree_ind' (t : tree) : P t :=
      match t with
      | Leaf l => HL l
      | Node ch =>
          @HN ch ((fix go (l : list (E * tree)) : Forall (fun ec => P (snd ec)) l :=
                    match l with
                    | [] => Forall_nil _
                    | ec :: l' => Forall_cons ec (tree_ind' (snd ec)) (go l')
                    end) ch)
      end.
  End Ind.

  Fixpoint leaves (t : tree) : list L :=
    match t with
    | Leaf l => [l]
    | Node ch => flat_map (fun ec => leaves (snd ec)) ch
    end.

  Fixpoint edges (t : tree) : list E :=
    match t with
    | Leaf _ => []
    | Node ch => flat_map (fun ec => fst ec :: edges (snd ec)) ch
    end.

  Fixpoint tsize (t : tree) : nat :=
    match t with
    | Leaf _ => 1
    | Node ch => S (list_sum (map (fun ec => tsize (snd ec)) ch))
    end.

  (** every leaf payload satisfies [PL], every edge payload [PE] *)
  Fixpoint tree_all (PL : L -> Prop) (PE : E -> Prop) (t : tree) : Prop :=
    match t with
    | Leaf l => PL l
    | Node ch =>
        (fix go (l : list (E * tree)) : Prop :=
           match l with
           | [] => True
           | ec :: l' => (PE (fst ec) /\ tree_all PL PE (snd ec)) /\ go l'
           end) ch
    end.

  Lemma tree_all_node PL PE ch :
    tree_all PL PE (Node ch) <-> Forall (fun ec => PE (fst ec) /\ tree_all PL PE (snd ec)) ch.
  Proof.
    cbn [tree_all]. induction ch as [|ec ch IH].
    - split; auto.
    - split.
      + intros [H1 H2]. constructor; [exact H1| apply IH, H2].
      + intros H. inversion H as [|? ? H1 H2]; subst. split; [exact H1| apply IH, H2].
  Qed.

  (* ---------------------------------------------------------------- transformations *)

  (** one-hole contextual closure of a relation on trees: the rewrite may be
      applied at the root or inside any subtree *)
  Inductive ctx_clos (Rl : tree -> tree -> Prop) : tree -> tree -> Prop :=
  | cc_here t t' : Rl t t' -> ctx_clos Rl t t'
  | cc_deep pre e c c' post :
      ctx_clos Rl c c' -> ctx_clos Rl (Node (pre ++ (e, c) :: post)) (Node (pre ++ (e, c') :: post)).

  (** reordering the children of a node *)
  Inductive perm_root : tree -> tree -> Prop :=
  | perm_root_intro ch ch' : Permutation ch ch' -> perm_root (Node ch) (Node ch').

  (** one reordering anywhere in the tree; [reorder] = any number of them *)
  Definition reorder1 : tree -> tree -> Prop := ctx_clos perm_root.
  Inductive reorder : tree -> tree -> Prop :=
  | reorder_refl t : reorder t t
  | reorder_step t t' t'' : reorder1 t t' -> reorder t' t'' -> reorder t t''.

  (** the edge [e] above subtree [c] is replaced by edge [ea] leading to a
      new unary node whose only child hangs on edge [eb] *)
  Inductive split_root (e ea eb : E) : tree -> tree -> Prop :=
  | split_root_intro pre c post :
      split_root e ea eb (Node (pre ++ (e, c) :: post)) (Node (pre ++ (ea, Node [(eb, c)]) :: post)).
  Definition split_edge (e ea eb : E) : tree -> tree -> Prop := ctx_clos (split_root e ea eb).

  (** moving the root across the edge to its [k]-th child (which must be an
      internal node): the child's children stay, the old root — minus that
      child — becomes a further child, hanging on the same edge payload *)
  Definition reroot_child (k : nat) (t : tree) : option tree :=
    match t with
    | Leaf _ => None
    | Node ch =>
        match nth_error ch k with
        | Some (e, Node ch1) => Some (Node (ch1 ++ [(e, Node (firstn k ch ++ skipn (S k) ch))]))
        | _ => None
        end
    end.

  (** moving the root along a path of child indices (each index refers to the
      tree as re-rooted so far) *)
  Fixpoint reroot_path (p : list nat) (t : tree) : option tree :=
    match p with
    | [] => Some t
    | k :: p' => match reroot_child k t with Some t' => reroot_path p' t' | None => None end
    end.

  (** relational form of one step *)
  Inductive reroot_step : tree -> tree -> Prop :=
  | reroot_step_intro pre e ch1 post :
      reroot_step (Node (pre ++ (e, Node ch1) :: post)) (Node (ch1 ++ [(e, Node (pre ++ post))])).

  Lemma firstn_app_exact A (pre post : list A) : firstn (length pre) (pre ++ post) = pre.
  Proof. induction pre as [|a pre IH]; cbn; [now destruct post| now rewrite IH]. Qed.

  Lemma skipn_app_S A (pre : list A) x post : skipn (S (length pre)) (pre ++ x :: post) = post.
  Proof. induction pre as [|a pre IH]; cbn; [reflexivity| exact IH]. Qed.

  Lemma reroot_child_step k t t' : reroot_child k t = Some t' -> reroot_step t t'.
  Proof.
    destruct t as [l|ch]; unfold reroot_child; [discriminate|].
    destruct (nth_error ch k) as [[e c]|] eqn:Hn; [|discriminate].
    destruct c as [l|ch1]; [discriminate|].
    intros H. apply (f_equal (fun o => match o with Some x => x | None => t' end)) in H.
    subst t'.
    pose proof (nth_error_split ch k Hn) as (pre & post & Hch & Hlen).
    subst ch k.
    rewrite firstn_app_exact, skipn_app_S.
    constructor.
  Qed.

  Lemma reroot_step_child t t' : reroot_step t t' -> exists k, reroot_child k t = Some t'.
  Proof.
    intros H. destruct H as [pre e ch1 post]. exists (length pre). unfold reroot_child.
    replace (nth_error (pre ++ (e, Node ch1) :: post) (length pre)) with (Some (e, Node ch1)).
    - now rewrite firstn_app_exact, skipn_app_S.
    - symmetry. rewrite nth_error_app2 by lia. now rewrite Nat.sub_diag.
  Qed.
End Tree.

Arguments Leaf {L E} l.
Arguments Node {L E} ch.

(** relabelling of leaves and edges *)
Section Map.
  Variables L E L' E' : Type.
  Variable f : L -> L'.
  Variable g : E -> E'.
  Fixpoint tmap (t : tree L E) : tree L' E' :=
    match t with
    | Leaf l => Leaf (f l)
    | Node ch => Node (map (fun ec => (g (fst ec), tmap (snd ec))) ch)
    end.
End Map.

Lemma tmap_ext L E L' E' (f f' : L -> L') (g g' : E -> E') (t : tree L E) :
  (forall l, In l (leaves t) -> f l = f' l) ->
  (forall e, In e (edges t) -> g e = g' e) ->
  tmap f g t = tmap f' g' t.
Proof.
  induction t as [l|ch IH] using tree_ind'; intros Hf Hg; cbn.
  - f_equal. apply Hf. cbn. auto.
  - f_equal. apply map_ext_in. intros [e c] Hin. cbn [fst snd].
    rewrite Forall_forall in IH. f_equal.
    + apply Hg. cbn. apply in_flat_map. exists (e, c). split; [exact Hin| cbn; auto].
    + apply (IH (e, c) Hin).
      * intros l Hl. apply Hf. cbn. apply in_flat_map. exists (e, c). auto.
      * intros e' He'. apply Hg. cbn. apply in_flat_map. exists (e, c). split; [exact Hin| cbn; auto].
Qed.
