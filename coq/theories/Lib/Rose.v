(** Rose trees with named nodes and optional branch lengths (generic; used by
    the C09 tree-transformation model).  A node with no children is a tip.
    Names are strings ([list Z] of code points), lengths exact integers (the
    correspondence scales the dyadic-rational float lengths of the
    implementation by a power of two). *)
From Coq Require Import ZArith List Bool Lia Permutation.
Import ListNotations.
Open Scope Z_scope.

Definition name := list Z.

Inductive tree : Type :=
| Node (nm : name) (len : option Z) (children : list tree).

Definition tname (t : tree) : name := match t with Node n _ _ => n end.
Definition tlen (t : tree) : option Z := match t with Node _ l _ => l end.
Definition kids (t : tree) : list tree := match t with Node _ _ cs => cs end.
Definition is_tip (t : tree) : bool := match kids t with [] => true | _ => false end.

(** nested induction principle *)
Section TreeInd.
  Variable P : tree -> Prop.
  Hypothesis HNode : forall n l cs, Forall P cs -> P (Node n l cs).

  Fixpoint tree_ind' (t : tree) : P t :=
    match t with
    | Node n l cs =>
        HNode n l cs
          ((fix go (l : list tree) : Forall P l :=
              match l with
              | [] => Forall_nil P
              | c :: r => Forall_cons c (tree_ind' c) (go r)
              end) cs)
    end.
End TreeInd.

(** string equality *)
Fixpoint str_eqb (a b : name) : bool :=
  match a, b with
  | [], [] => true
  | x :: a', y :: b' => (x =? y) && str_eqb a' b'
  | _, _ => false
  end.

Lemma str_eqb_spec a b : reflect (a = b) (str_eqb a b).
Proof.
  revert b; induction a as [|x a IH]; intros [|y b]; simpl; try (constructor; congruence).
  destruct (Z.eqb_spec x y) as [->|Hn]; simpl.
  - destruct (IH b) as [->|Hn]; constructor; congruence.
  - constructor; congruence.
Qed.

Lemma str_eqb_refl a : str_eqb a a = true.
Proof. destruct (str_eqb_spec a a); congruence. Qed.

Lemma str_eqb_eq a b : str_eqb a b = true <-> a = b.
Proof. destruct (str_eqb_spec a b); split; congruence. Qed.

Definition memb (a : name) (S : list name) : bool := existsb (str_eqb a) S.

Lemma memb_In a S : memb a S = true <-> In a S.
Proof.
  unfold memb. rewrite existsb_exists. split.
  - intros (x & Hx & He). apply str_eqb_eq in He. subst; auto.
  - intros H. exists a. split; auto. apply str_eqb_refl.
Qed.

Lemma memb_app a S T : memb a (S ++ T) = memb a S || memb a T.
Proof. unfold memb. apply existsb_app. Qed.

Lemma memb_false_In a S : memb a S = false <-> ~ In a S.
Proof. rewrite <- memb_In. destruct (memb a S); split; congruence. Qed.

Lemma memb_perm a S T : Permutation S T -> memb a S = memb a T.
Proof.
  intros HP. destruct (memb a T) eqn:E.
  - apply memb_In. apply memb_In in E. eapply Permutation_in; [apply Permutation_sym|]; eauto.
  - apply memb_false_In. apply memb_false_In in E. intros HI. apply E. eapply Permutation_in; eauto.
Qed.

(** tips (in tree order), all nodes (preorder), size *)
Fixpoint tips (t : tree) : list name :=
  match t with
  | Node n _ [] => [n]
  | Node _ _ cs => flat_map tips cs
  end.

Definition tips_of (cs : list tree) : list name := flat_map tips cs.

Fixpoint nodes (t : tree) : list tree :=
  match t with
  | Node _ _ cs => t :: flat_map nodes cs
  end.

Fixpoint size (t : tree) : nat :=
  match t with
  | Node _ _ cs => S (fold_right (fun c acc => (size c + acc)%nat) O cs)
  end.

Lemma tips_node n l cs : cs <> [] -> tips (Node n l cs) = tips_of cs.
Proof. destruct cs; [congruence|reflexivity]. Qed.

Lemma tips_tip n l : tips (Node n l []) = [n].
Proof. reflexivity. Qed.

Lemma tips_of_app a b : tips_of (a ++ b) = tips_of a ++ tips_of b.
Proof. unfold tips_of. apply flat_map_app. Qed.

Lemma tips_of_cons c cs : tips_of (c :: cs) = tips c ++ tips_of cs.
Proof. reflexivity. Qed.

Lemma tips_nonempty t : tips t <> [].
Proof.
  induction t as [n l cs IH] using tree_ind'.
  destruct cs as [|c cs]; simpl; [congruence|].
  inversion IH as [|? ? Hc _]; subst.
  destruct (tips c); [congruence|]. simpl. congruence.
Qed.

Lemma tips_of_nonempty cs : cs <> [] -> tips_of cs <> [].
Proof.
  destruct cs as [|c cs]; [congruence|]. intros _. rewrite tips_of_cons.
  pose proof (tips_nonempty c). destruct (tips c); simpl; congruence.
Qed.

(** removing the i-th element *)
Fixpoint remove_nth {A} (i : nat) (l : list A) : list A :=
  match l, i with
  | [], _ => []
  | _ :: r, O => r
  | x :: r, S j => x :: remove_nth j r
  end.

Lemma remove_nth_perm {A} (l : list A) i c :
  nth_error l i = Some c -> Permutation l (c :: remove_nth i l).
Proof.
  revert i; induction l as [|x l IH]; intros [|i] H; simpl in *; try discriminate.
  - inversion H; subst. reflexivity.
  - rewrite (IH _ H) at 1. apply perm_swap.
Qed.
