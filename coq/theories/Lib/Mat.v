(** Square matrices over a field record ([Lib/FieldAlg.v]).

    Two layers:
    * the mathematical layer: a matrix is a function [nat -> nat -> R] read on
      indices [< n]; equality is [meq n] (pointwise on the [n × n] block);
    * the executable layer: [lmat := list (list R)], built with [mk n f] and
      read with [get]; every list operation is [mk n] of the corresponding
      function-level operation, so one lemma ([get_mk]) moves between them.

    Content: associativity / unit of the product, eigenvector transport
    ([rfix]: [A v = c v], [lfix]: [π A = c π]) through sums, scalings and
    products, π-balance ([π_i A_ij = π_j A_ji]) through commuting products, and
    the closure [polyev A a M c] ("M is a polynomial p(A) and c = p(a)") with
    the theorems that every such M keeps every eigenvector of A, commutes with
    every other polynomial in A, and keeps π-balance. *)
From Coq Require Import Arith Lia List Ring.
From CG3 Require Import Lib.FieldAlg.
Import ListNotations.

Set Implicit Arguments.

Definition fmat (R : Type) := nat -> nat -> R.
Definition lmat (R : Type) := list (list R).

Section MatDefs.
  Variable R : Type.
  Variable o : fld_ops R.
  Local Notation "0" := (fzero o).
  Local Notation "1" := (fone o).
  Local Infix "+" := (fadd o).
  Local Infix "*" := (fmul o).

  Definition mI : fmat R := fun i j => if Nat.eqb i j then 1 else 0.
  Definition mzero : fmat R := fun _ _ => 0.
  Definition mmul (n : nat) (A B : fmat R) : fmat R := fun i j => sumn o n (fun k => A i k * B k j).
  Definition madd (A B : fmat R) : fmat R := fun i j => A i j + B i j.
  Definition mscale (c : R) (A : fmat R) : fmat R := fun i j => c * A i j.
  Definition mopp (A : fmat R) : fmat R := fun i j => fopp o (A i j).
  Definition mdiag (d : nat -> R) : fmat R := fun i j => if Nat.eqb i j then d i else 0.

  Definition meq (n : nat) (A B : fmat R) : Prop :=
    forall i j, (i < n)%nat -> (j < n)%nat -> A i j = B i j.

  (** [A v = c v] on indices < n *)
  Definition rfix (n : nat) (A : fmat R) (v : nat -> R) (c : R) : Prop :=
    forall i, (i < n)%nat -> sumn o n (fun j => A i j * v j) = c * v i.
  (** [π A = c π] *)
  Definition lfix (n : nat) (p : nat -> R) (A : fmat R) (c : R) : Prop :=
    forall j, (j < n)%nat -> sumn o n (fun i => p i * A i j) = c * p j.
  (** every row sums to [c] *)
  Definition rows (n : nat) (A : fmat R) (c : R) : Prop :=
    forall i, (i < n)%nat -> sumn o n (fun j => A i j) = c.
  (** π-balance (detailed balance when A is a rate or transition matrix) *)
  Definition balanced (n : nat) (p : nat -> R) (A : fmat R) : Prop :=
    forall i j, (i < n)%nat -> (j < n)%nat -> p i * A i j = p j * A j i.

  (** [M] is a polynomial in [A]; [c] is the same polynomial evaluated at the scalar [a] *)
  Inductive polyev (n : nat) (A : fmat R) (a : R) : fmat R -> R -> Prop :=
  | pe_I : polyev n A a mI 1
  | pe_A : polyev n A a A a
  | pe_add M N c d : polyev n A a M c -> polyev n A a N d -> polyev n A a (madd M N) (c + d)
  | pe_scale k M c : polyev n A a M c -> polyev n A a (mscale k M) (k * c)
  | pe_mul M N c d : polyev n A a M c -> polyev n A a N d -> polyev n A a (mmul n M N) (c * d)
  | pe_eq M M' c : meq n M M' -> polyev n A a M c -> polyev n A a M' c.

  (* ---------------------------------------------------------------- lists *)

  Definition get (M : lmat R) : fmat R := fun i j => nth j (nth i M []) 0.
  Definition mk (n : nat) (f : fmat R) : lmat R :=
    map (fun i => map (fun j => f i j) (seq 0 n)) (seq 0 n).
  Definition vget (v : list R) : nat -> R := fun i => nth i v 0.
  Definition vmk (n : nat) (f : nat -> R) : list R := map f (seq 0 n).

  Definition lI (n : nat) : lmat R := mk n mI.
  Definition lmul (n : nat) (A B : lmat R) : lmat R := mk n (mmul n (get A) (get B)).
  Definition ladd (n : nat) (A B : lmat R) : lmat R := mk n (madd (get A) (get B)).
  Definition lscale (n : nat) (c : R) (A : lmat R) : lmat R := mk n (mscale c (get A)).
  Definition lopp (n : nat) (A : lmat R) : lmat R := mk n (mopp (get A)).
  Definition lsub (n : nat) (A B : lmat R) : lmat R := mk n (madd (get A) (mopp (get B))).
End MatDefs.

Section MatLemmas.
  Variable R : Type.
  Variable o : fld_ops R.
  Hypothesis L : fld_laws o.
  Add Ring fld_ring_m : (fld_ring_theory L).

  Local Notation "0" := (fzero o).
  Local Notation "1" := (fone o).
  Local Infix "+" := (fadd o).
  Local Infix "*" := (fmul o).
  Local Notation sum := (sumn o).

  Variable n : nat.
  Implicit Types A B C D N M F Dinv : fmat R.
  Implicit Types v p : nat -> R.

  (* ---------------------------------------------------------------- meq *)
  Lemma meq_refl A : meq n A A.
  Proof. intros i j _ _; reflexivity. Qed.
  Lemma meq_sym A B : meq n A B -> meq n B A.
  Proof. intros H i j Hi Hj; symmetry; now apply H. Qed.
  Lemma meq_trans A B C : meq n A B -> meq n B C -> meq n A C.
  Proof. intros H1 H2 i j Hi Hj. now rewrite H1, H2. Qed.

  Lemma mmul_ext A A' B B' : meq n A A' -> meq n B B' -> meq n (mmul o n A B) (mmul o n A' B').
  Proof.
    intros HA HB i j Hi Hj. unfold mmul. apply (sumn_ext o); intros k Hk.
    now rewrite HA, HB.
  Qed.
  Lemma madd_ext A A' B B' : meq n A A' -> meq n B B' -> meq n (madd o A B) (madd o A' B').
  Proof. intros HA HB i j Hi Hj. unfold madd. now rewrite HA, HB. Qed.
  Lemma mscale_ext c A A' : meq n A A' -> meq n (mscale o c A) (mscale o c A').
  Proof. intros HA i j Hi Hj. unfold mscale. now rewrite HA. Qed.

  (* ---------------------------------------------------------------- product *)
  Lemma mmul_assoc A B C : meq n (mmul o n (mmul o n A B) C) (mmul o n A (mmul o n B C)).
  Proof.
    intros i j Hi Hj. unfold mmul.
    rewrite (@sumn_ext R o n _ (fun k => sum n (fun l => A i l * B l k * C k j))).
    2:{ intros k _. now rewrite <- (sumn_mul_r L). }
    rewrite (sumn_swap L).
    apply (sumn_ext o); intros l _. rewrite <- (sumn_mul_l L).
    apply (sumn_ext o); intros k _. ring.
  Qed.

  Lemma mmul_I_l A : meq n (mmul o n (mI o) A) A.
  Proof.
    intros i j Hi Hj. unfold mmul, mI.
    rewrite (@sumn_ext R o n _ (fun k => if Nat.eqb i k then A k j else 0)).
    - exact (sumn_delta' L (fun k => A k j) Hi).
    - intros k _. destruct (Nat.eqb i k); ring.
  Qed.

  Lemma mmul_I_r A : meq n (mmul o n A (mI o)) A.
  Proof.
    intros i j Hi Hj. unfold mmul, mI.
    rewrite (@sumn_ext R o n _ (fun k => if Nat.eqb k j then A i k else 0)).
    - exact (sumn_delta L (fun k => A i k) Hj).
    - intros k _. destruct (Nat.eqb k j); ring.
  Qed.

  Lemma mmul_zero_r A : meq n (mmul o n A (mzero o)) (mzero o).
  Proof.
    intros i j _ _. unfold mmul, mzero.
    rewrite (@sumn_ext R o n _ (fun _ => 0)); [apply (sumn_zero L)|intros; ring].
  Qed.

  Lemma mmul_add_l A B C : meq n (mmul o n (madd o A B) C) (madd o (mmul o n A C) (mmul o n B C)).
  Proof.
    intros i j _ _. unfold mmul, madd. rewrite <- (sumn_add L).
    apply (sumn_ext o); intros; ring.
  Qed.
  Lemma mmul_add_r A B C : meq n (mmul o n A (madd o B C)) (madd o (mmul o n A B) (mmul o n A C)).
  Proof.
    intros i j _ _. unfold mmul, madd. rewrite <- (sumn_add L).
    apply (sumn_ext o); intros; ring.
  Qed.
  Lemma mmul_scale_l c A B : meq n (mmul o n (mscale o c A) B) (mscale o c (mmul o n A B)).
  Proof.
    intros i j _ _. unfold mmul, mscale. rewrite <- (sumn_mul_l L).
    apply (sumn_ext o); intros; ring.
  Qed.
  Lemma mmul_scale_r c A B : meq n (mmul o n A (mscale o c B)) (mscale o c (mmul o n A B)).
  Proof.
    intros i j _ _. unfold mmul, mscale. rewrite <- (sumn_mul_l L).
    apply (sumn_ext o); intros; ring.
  Qed.

  (* ---------------------------------------------------------------- eigenvectors *)
  Lemma rfix_ext A A' v c : meq n A A' -> rfix o n A v c -> rfix o n A' v c.
  Proof.
    intros E H i Hi. rewrite <- (H i Hi). apply (sumn_ext o); intros j Hj. now rewrite E.
  Qed.
  Lemma lfix_ext p A A' c : meq n A A' -> lfix o n p A c -> lfix o n p A' c.
  Proof.
    intros E H j Hj. rewrite <- (H j Hj). apply (sumn_ext o); intros i Hi. now rewrite E.
  Qed.

  Lemma rfix_I v : rfix o n (mI o) v 1.
  Proof.
    intros i Hi. unfold mI.
    rewrite (@sumn_ext R o n _ (fun j => if Nat.eqb i j then v j else 0)).
    - rewrite (sumn_delta' L) by assumption. ring.
    - intros j _. destruct (Nat.eqb i j); ring.
  Qed.
  Lemma lfix_I p : lfix o n p (mI o) 1.
  Proof.
    intros j Hj. unfold mI.
    rewrite (@sumn_ext R o n _ (fun i => if Nat.eqb i j then p i else 0)).
    - rewrite (sumn_delta L) by assumption. ring.
    - intros i _. destruct (Nat.eqb i j); ring.
  Qed.

  Lemma rfix_add A B v a b : rfix o n A v a -> rfix o n B v b -> rfix o n (madd o A B) v (a + b).
  Proof.
    intros HA HB i Hi. unfold madd.
    rewrite (@sumn_ext R o n _ (fun j => A i j * v j + B i j * v j)) by (intros; ring).
    rewrite (sumn_add L), HA, HB by assumption. ring.
  Qed.
  Lemma lfix_add p A B a b : lfix o n p A a -> lfix o n p B b -> lfix o n p (madd o A B) (a + b).
  Proof.
    intros HA HB j Hj. unfold madd.
    rewrite (@sumn_ext R o n _ (fun i => p i * A i j + p i * B i j)) by (intros; ring).
    rewrite (sumn_add L), HA, HB by assumption. ring.
  Qed.

  Lemma rfix_scale k A v a : rfix o n A v a -> rfix o n (mscale o k A) v (k * a).
  Proof.
    intros HA i Hi. unfold mscale.
    rewrite (@sumn_ext R o n _ (fun j => k * (A i j * v j))) by (intros; ring).
    rewrite (sumn_mul_l L), HA by assumption. ring.
  Qed.
  Lemma lfix_scale k p A a : lfix o n p A a -> lfix o n p (mscale o k A) (k * a).
  Proof.
    intros HA j Hj. unfold mscale.
    rewrite (@sumn_ext R o n _ (fun i => k * (p i * A i j))) by (intros; ring).
    rewrite (sumn_mul_l L), HA by assumption. ring.
  Qed.

  Lemma rfix_mul A B v a b : rfix o n A v a -> rfix o n B v b -> rfix o n (mmul o n A B) v (a * b).
  Proof.
    intros HA HB i Hi. unfold mmul.
    rewrite (@sumn_ext R o n _ (fun j => sum n (fun k => A i k * B k j * v j))).
    2:{ intros j _. now rewrite (sumn_mul_r L). }
    rewrite (sumn_swap L).
    rewrite (@sumn_ext R o n _ (fun k => b * (A i k * v k))).
    - rewrite (sumn_mul_l L), HA by assumption. ring.
    - intros k Hk.
      rewrite (@sumn_ext R o n _ (fun j => A i k * (B k j * v j))) by (intros; ring).
      rewrite (sumn_mul_l L), HB by assumption. ring.
  Qed.
  Lemma lfix_mul p A B a b : lfix o n p A a -> lfix o n p B b -> lfix o n p (mmul o n A B) (a * b).
  Proof.
    intros HA HB j Hj. unfold mmul.
    rewrite (@sumn_ext R o n _ (fun i => sum n (fun k => p i * A i k * B k j))).
    2:{ intros i _. rewrite <- (sumn_mul_l L). apply (sumn_ext o); intros; ring. }
    rewrite (sumn_swap L).
    rewrite (@sumn_ext R o n _ (fun k => a * (p k * B k j))).
    - rewrite (sumn_mul_l L), HB by assumption. ring.
    - intros k Hk. rewrite (sumn_mul_r L), HA by assumption. ring.
  Qed.

  (** rows summing to [c] is the all-ones right eigenvector *)
  Lemma rows_rfix A c : rows o n A c <-> rfix o n A (fun _ => 1) c.
  Proof.
    split; intros H i Hi.
    - rewrite (@sumn_ext R o n _ (fun j => A i j)) by (intros; ring). rewrite H by assumption. ring.
    - rewrite <- (@sumn_ext R o n (fun j => A i j * 1)) by (intros; ring). rewrite H by assumption. ring.
  Qed.

  (* ---------------------------------------------------------------- polynomials in A *)
  Theorem polyev_rfix A a v M c : rfix o n A v a -> polyev o n A a M c -> rfix o n M v c.
  Proof.
    intros HA HP. induction HP.
    - apply rfix_I.
    - exact HA.
    - now apply rfix_add.
    - now apply rfix_scale.
    - now apply rfix_mul.
    - eapply rfix_ext; eauto.
  Qed.

  Theorem polyev_lfix p A a M c : lfix o n p A a -> polyev o n A a M c -> lfix o n p M c.
  Proof.
    intros HA HP. induction HP.
    - apply lfix_I.
    - exact HA.
    - now apply lfix_add.
    - now apply lfix_scale.
    - now apply lfix_mul.
    - eapply lfix_ext; eauto.
  Qed.

  (** commutation *)
  Definition commute (A B : fmat R) : Prop := meq n (mmul o n A B) (mmul o n B A).

  Lemma commute_sym A B : commute A B -> commute B A.
  Proof. intros H. now apply meq_sym. Qed.

  Lemma commute_ext_r A B B' : meq n B B' -> commute A B -> commute A B'.
  Proof.
    intros E H. unfold commute.
    eapply meq_trans; [apply mmul_ext; [apply meq_refl|apply meq_sym, E]|].
    eapply meq_trans; [apply H|]. apply mmul_ext; [exact E|apply meq_refl].
  Qed.

  Lemma commute_mul A B C : commute A B -> commute A C -> commute A (mmul o n B C).
  Proof.
    intros HB HC. unfold commute.
    eapply meq_trans; [apply meq_sym, mmul_assoc|].
    eapply meq_trans; [apply mmul_ext; [apply HB|apply meq_refl]|].
    eapply meq_trans; [apply mmul_assoc|].
    eapply meq_trans; [apply mmul_ext; [apply meq_refl|apply HC]|].
    apply meq_sym, mmul_assoc.
  Qed.

  Lemma commute_add A B C : commute A B -> commute A C -> commute A (madd o B C).
  Proof.
    intros HB HC. unfold commute.
    eapply meq_trans; [apply mmul_add_r|].
    eapply meq_trans; [apply madd_ext; [apply HB|apply HC]|].
    apply meq_sym, mmul_add_l.
  Qed.

  Lemma commute_scale A B k : commute A B -> commute A (mscale o k B).
  Proof.
    intros HB. unfold commute.
    eapply meq_trans; [apply mmul_scale_r|].
    eapply meq_trans; [apply mscale_ext, HB|].
    apply meq_sym, mmul_scale_l.
  Qed.

  Lemma commute_I A : commute A (mI o).
  Proof. unfold commute. eapply meq_trans; [apply mmul_I_r|apply meq_sym, mmul_I_l]. Qed.

  Lemma polyev_commute_A A a M c : polyev o n A a M c -> commute A M.
  Proof.
    intros HP. induction HP.
    - apply commute_I.
    - apply meq_refl.
    - now apply commute_add.
    - now apply commute_scale.
    - now apply commute_mul.
    - eapply commute_ext_r; eauto.
  Qed.

  (** any two polynomials in the same matrix commute *)
  Theorem polyev_commute A a M c N d : polyev o n A a M c -> polyev o n A a N d -> commute M N.
  Proof.
    intros HM HN. induction HN.
    - apply commute_I.
    - apply commute_sym. eapply polyev_commute_A; eauto.
    - now apply commute_add.
    - now apply commute_scale.
    - now apply commute_mul.
    - eapply commute_ext_r; eauto.
  Qed.

  (* ---------------------------------------------------------------- balance *)
  Lemma balanced_ext p A A' : meq n A A' -> balanced o n p A -> balanced o n p A'.
  Proof. intros E H i j Hi Hj. rewrite <- !E by assumption. now apply H. Qed.

  Lemma balanced_I p : balanced o n p (mI o).
  Proof.
    intros i j _ _. unfold mI. destruct (Nat.eqb i j) eqn:E.
    - apply Nat.eqb_eq in E; subst. now rewrite Nat.eqb_refl.
    - rewrite Nat.eqb_sym, E. ring.
  Qed.
  Lemma balanced_add p A B : balanced o n p A -> balanced o n p B -> balanced o n p (madd o A B).
  Proof.
    intros HA HB i j Hi Hj. unfold madd.
    transitivity (p i * A i j + p i * B i j); [ring|]. rewrite HA, HB by assumption. ring.
  Qed.
  Lemma balanced_scale p k A : balanced o n p A -> balanced o n p (mscale o k A).
  Proof.
    intros HA i j Hi Hj. unfold mscale.
    transitivity (k * (p i * A i j)); [ring|]. rewrite HA by assumption. ring.
  Qed.
  (** π_i (AB)_ij = π_j (BA)_ji *)
  Lemma balanced_mul_swap p A B i j : balanced o n p A -> balanced o n p B ->
    (i < n)%nat -> (j < n)%nat -> p i * mmul o n A B i j = p j * mmul o n B A j i.
  Proof.
    intros HA HB Hi Hj. unfold mmul. rewrite <- !(sumn_mul_l L).
    apply (sumn_ext o); intros k Hk.
    transitivity (p i * A i k * B k j); [ring|]. rewrite HA by assumption.
    transitivity (A k i * (p k * B k j)); [ring|]. rewrite HB by assumption. ring.
  Qed.
  Lemma balanced_mul p A B : balanced o n p A -> balanced o n p B -> commute A B ->
    balanced o n p (mmul o n A B).
  Proof.
    intros HA HB HC i j Hi Hj. rewrite (balanced_mul_swap HA HB Hi Hj). now rewrite (HC j i Hj Hi).
  Qed.

  Theorem polyev_balanced p A a M c : balanced o n p A -> polyev o n A a M c -> balanced o n p M.
  Proof.
    intros HA HP. induction HP.
    - apply balanced_I.
    - exact HA.
    - now apply balanced_add.
    - now apply balanced_scale.
    - apply balanced_mul; auto. eapply polyev_commute; eauto.
    - eapply balanced_ext; eauto.
  Qed.

  (** balance gives the left eigenvector from the right one: rows sum to c ⇒ πA = cπ *)
  Lemma balanced_rows_lfix p A c : balanced o n p A -> rows o n A c -> lfix o n p A c.
  Proof.
    intros HB HR j Hj.
    rewrite (@sumn_ext R o n _ (fun i => p j * A j i)) by (intros i Hi; now apply HB).
    rewrite (sumn_mul_l L), HR by assumption. ring.
  Qed.

  (* ---------------------------------------------------------------- inverses *)
  (** [D F = N] with [D] invertible: [F] inherits every eigenvector shared by [D] and [N] *)
  Lemma solve_rfix D Dinv N F v d c :
    meq n (mmul o n Dinv D) (mI o) -> meq n (mmul o n D F) N ->
    rfix o n D v d -> rfix o n N v c -> d = 1 -> rfix o n F v c.
  Proof.
    intros Hinv HDF HD HN Hd. subst d.
    (* Dinv v = v *)
    assert (HDi : rfix o n Dinv v 1).
    { assert (H1 : rfix o n (mmul o n Dinv D) v 1) by (eapply rfix_ext; [apply meq_sym, Hinv|apply rfix_I]).
      intros i Hi. rewrite <- (H1 i Hi). unfold mmul.
      rewrite (@sumn_ext R o n (fun j => sum n (fun k => Dinv i k * D k j) * v j)
                 (fun j => sum n (fun k => Dinv i k * D k j * v j))).
      2:{ intros j _. now rewrite (sumn_mul_r L). }
      rewrite (sumn_swap L). apply (sumn_ext o); intros k Hk.
      rewrite (@sumn_ext R o n _ (fun j => Dinv i k * (D k j * v j))) by (intros; ring).
      rewrite (sumn_mul_l L), HD by assumption. ring. }
    (* F = Dinv (D F) = Dinv N *)
    assert (HF : meq n F (mmul o n Dinv N)).
    { eapply meq_trans; [apply meq_sym, mmul_I_l|].
      eapply meq_trans; [apply mmul_ext; [apply meq_sym, Hinv|apply meq_refl]|].
      eapply meq_trans; [apply mmul_assoc|]. apply mmul_ext; [apply meq_refl|exact HDF]. }
    eapply rfix_ext; [apply meq_sym, HF|].
    replace c with (1 * c) by ring. now apply rfix_mul.
  Qed.

  Lemma solve_lfix D Dinv N F p d c :
    meq n (mmul o n Dinv D) (mI o) -> meq n (mmul o n D Dinv) (mI o) -> meq n (mmul o n D F) N ->
    lfix o n p D d -> lfix o n p N c -> d = 1 -> lfix o n p F c.
  Proof.
    intros Hinv Hinv' HDF HD HN Hd. subst d.
    assert (HDi : lfix o n p Dinv 1).
    { assert (H1 : lfix o n p (mmul o n D Dinv) 1) by (eapply lfix_ext; [apply meq_sym, Hinv'|apply lfix_I]).
      intros j Hj. rewrite <- (H1 j Hj). unfold mmul.
      rewrite (@sumn_ext R o n (fun i => p i * sum n (fun k => D i k * Dinv k j))
                 (fun i => sum n (fun k => p i * D i k * Dinv k j))).
      2:{ intros i _. rewrite <- (sumn_mul_l L). apply (sumn_ext o); intros; ring. }
      rewrite (sumn_swap L). apply (sumn_ext o); intros k Hk.
      rewrite (sumn_mul_r L), HD by assumption. ring. }
    assert (HF : meq n F (mmul o n Dinv N)).
    { eapply meq_trans; [apply meq_sym, mmul_I_l|].
      eapply meq_trans; [apply mmul_ext; [apply meq_sym, Hinv|apply meq_refl]|].
      eapply meq_trans; [apply mmul_assoc|]. apply mmul_ext; [apply meq_refl|exact HDF]. }
    eapply lfix_ext; [apply meq_sym, HF|].
    replace c with (1 * c) by ring. now apply lfix_mul.
  Qed.

  (* ---------------------------------------------------------------- lists *)
  Lemma get_mk f i j : (i < n)%nat -> (j < n)%nat -> get o (mk n f) i j = f i j.
  Proof.
    intros Hi Hj. unfold get, mk.
    rewrite (nth_indep _ [] (map (fun j => f 0%nat j) (seq 0 n))) by (now rewrite map_length, seq_length).
    rewrite (map_nth (fun i => map (fun j => f i j) (seq 0 n)) (seq 0 n) 0%nat i).
    rewrite seq_nth by assumption. cbn [plus].
    rewrite (nth_indep _ 0 (f i 0%nat)) by (now rewrite map_length, seq_length).
    rewrite (map_nth (fun j => f i j) (seq 0 n) 0%nat j).
    now rewrite seq_nth by assumption.
  Qed.

  Lemma meq_get_mk f : meq n (get o (mk n f)) f.
  Proof. intros i j Hi Hj. now apply get_mk. Qed.

  Lemma vget_vmk f i : (i < n)%nat -> vget o (vmk n f) i = f i.
  Proof.
    intros Hi. unfold vget, vmk.
    rewrite (nth_indep _ 0 (f 0%nat)) by (now rewrite map_length, seq_length).
    rewrite (map_nth f (seq 0 n) 0%nat i). now rewrite seq_nth by assumption.
  Qed.
End MatLemmas.
