(** Fields as a *record of operations* plus a [Prop] record of laws that every
    lemma takes as a section hypothesis (nothing is declared as an axiom), and
    finite sums [sumn n f = f 0 + ... + f (n-1)] over them.

    Used by the rate-matrix development (C05).  Self-contained on purpose (does
    not import Lib/Semiring.v).  Instance proved lawful: [Qc] (exact rationals
    with Leibniz equality). *)
From Coq Require Import Arith Lia List Ring Field QArith Qcanon.
Import ListNotations.

Set Implicit Arguments.

Record fld_ops (R : Type) : Type := mk_fld {
  fadd : R -> R -> R;
  fmul : R -> R -> R;
  fzero : R;
  fone : R;
  fopp : R -> R;
  finv : R -> R
}.

Definition fsub (R : Type) (o : fld_ops R) (a b : R) : R := fadd o a (fopp o b).
Definition fdiv (R : Type) (o : fld_ops R) (a b : R) : R := fmul o a (finv o b).

Record fld_laws (R : Type) (o : fld_ops R) : Prop := mk_fld_laws {
  f_add_comm : forall a b, fadd o a b = fadd o b a;
  f_add_assoc : forall a b c, fadd o a (fadd o b c) = fadd o (fadd o a b) c;
  f_add_0_l : forall a, fadd o (fzero o) a = a;
  f_add_opp_r : forall a, fadd o a (fopp o a) = fzero o;
  f_mul_comm : forall a b, fmul o a b = fmul o b a;
  f_mul_assoc : forall a b c, fmul o a (fmul o b c) = fmul o (fmul o a b) c;
  f_mul_1_l : forall a, fmul o (fone o) a = a;
  f_distr_l : forall a b c, fmul o (fadd o a b) c = fadd o (fmul o a c) (fmul o b c);
  f_mul_inv_r : forall a, a <> fzero o -> fmul o a (finv o a) = fone o
}.

(** image of a natural number: 1 + 1 + ... *)
Fixpoint f_of_nat (R : Type) (o : fld_ops R) (n : nat) : R :=
  match n with O => fzero o | S k => fadd o (f_of_nat o k) (fone o) end.

(** finite sum over [0 .. n-1] *)
Fixpoint sumn (R : Type) (o : fld_ops R) (n : nat) (f : nat -> R) : R :=
  match n with O => fzero o | S k => fadd o (sumn o k f) (f k) end.

Section Field.
  Variable R : Type.
  Variable o : fld_ops R.
  Hypothesis L : fld_laws o.

  Local Notation "0" := (fzero o).
  Local Notation "1" := (fone o).
  Local Infix "+" := (fadd o).
  Local Infix "*" := (fmul o).
  Local Notation "- a" := (fopp o a).
  Local Infix "-" := (fsub o).
  Local Notation "/ a" := (finv o a).

  Lemma fld_ring_theory : ring_theory 0 1 (fadd o) (fmul o) (fsub o) (fopp o) (@eq R).
  Proof.
    constructor; intros.
    - apply (f_add_0_l L).
    - apply (f_add_comm L).
    - apply (f_add_assoc L).
    - apply (f_mul_1_l L).
    - apply (f_mul_comm L).
    - apply (f_mul_assoc L).
    - apply (f_distr_l L).
    - reflexivity.
    - apply (f_add_opp_r L).
  Qed.

  Add Ring fld_ring : fld_ring_theory.

  Lemma f_mul_0_l a : 0 * a = 0.  Proof. ring. Qed.
  Lemma f_mul_0_r a : a * 0 = 0.  Proof. ring. Qed.
  Lemma f_add_0_r a : a + 0 = a.  Proof. ring. Qed.
  Lemma f_mul_1_r a : a * 1 = a.  Proof. ring. Qed.
  Lemma f_opp_0 : - 0 = 0.  Proof. ring. Qed.
  Lemma f_mul_inv_l a : a <> 0 -> / a * a = 1.
  Proof. intros H. rewrite (f_mul_comm L). now apply (f_mul_inv_r L). Qed.

  (** no zero divisors *)
  Lemma f_integral a b : a * b = 0 -> a <> 0 -> b = 0.
  Proof.
    intros H Ha.
    assert (E : b = / a * (a * b)).
    { rewrite (f_mul_assoc L), (f_mul_inv_l Ha). ring. }
    rewrite E, H. ring.
  Qed.

  (* ---------------------------------------------------------------- sums *)

  Lemma sumn_ext n f g : (forall k, (k < n)%nat -> f k = g k) -> sumn o n f = sumn o n g.
  Proof.
    induction n as [|n IH]; intros H; cbn; [reflexivity|].
    rewrite IH by (intros; apply H; lia). now rewrite H by lia.
  Qed.

  Lemma sumn_zero n : sumn o n (fun _ => 0) = 0.
  Proof. induction n as [|n IH]; cbn; [reflexivity|]. rewrite IH. ring. Qed.

  Lemma sumn_add n f g : sumn o n (fun k => f k + g k) = sumn o n f + sumn o n g.
  Proof. induction n as [|n IH]; cbn; [ring|]. rewrite IH. ring. Qed.

  Lemma sumn_opp n f : sumn o n (fun k => - f k) = - sumn o n f.
  Proof. induction n as [|n IH]; cbn; [ring|]. rewrite IH. ring. Qed.

  Lemma sumn_mul_l n c f : sumn o n (fun k => c * f k) = c * sumn o n f.
  Proof. induction n as [|n IH]; cbn; [ring|]. rewrite IH. ring. Qed.

  Lemma sumn_mul_r n c f : sumn o n (fun k => f k * c) = sumn o n f * c.
  Proof. induction n as [|n IH]; cbn; [ring|]. rewrite IH. ring. Qed.

  (** exchange of two finite sums *)
  Lemma sumn_swap n m (f : nat -> nat -> R) :
    sumn o n (fun i => sumn o m (fun j => f i j)) = sumn o m (fun j => sumn o n (fun i => f i j)).
  Proof.
    induction n as [|n IH]; cbn.
    - now rewrite sumn_zero.
    - rewrite IH, <- sumn_add. reflexivity.
  Qed.

  (** Σ_{k<n} [k = i]·f k = f i *)
  Lemma sumn_delta n i f : (i < n)%nat ->
    sumn o n (fun k => if Nat.eqb k i then f k else 0) = f i.
  Proof.
    induction n as [|n IH]; intros Hi; [lia|]. cbn.
    destruct (Nat.eqb n i) eqn:E.
    - apply Nat.eqb_eq in E; subst i.
      rewrite (@sumn_ext n _ (fun _ => 0)).
      + rewrite sumn_zero. ring.
      + intros k Hk. destruct (Nat.eqb k n) eqn:E2; [apply Nat.eqb_eq in E2; lia|reflexivity].
    - apply Nat.eqb_neq in E. rewrite IH by lia. ring.
  Qed.

  Lemma sumn_delta' n i f : (i < n)%nat ->
    sumn o n (fun k => if Nat.eqb i k then f k else 0) = f i.
  Proof.
    intros Hi. rewrite <- (@sumn_delta n i f Hi). apply sumn_ext; intros k _.
    now rewrite Nat.eqb_sym.
  Qed.

  (** split one index off a sum: Σ_k f k = f i + Σ_{k≠i} f k *)
  Lemma sumn_split n i f : (i < n)%nat ->
    sumn o n f = f i + sumn o n (fun k => if Nat.eqb k i then 0 else f k).
  Proof.
    intros Hi. rewrite <- (@sumn_delta n i f Hi), <- sumn_add.
    apply sumn_ext; intros k _. destruct (Nat.eqb k i); ring.
  Qed.
End Field.

(* ------------------------------------------------------------------ the Qc instance *)

Definition Qc_fld : fld_ops Qc := mk_fld Qcplus Qcmult (Q2Qc 0) (Q2Qc 1) Qcopp Qcinv.

Lemma Qc_fld_laws : fld_laws Qc_fld.
Proof.
  constructor; cbn; intros.
  - apply Qcplus_comm.
  - apply Qcplus_assoc.
  - apply Qcplus_0_l.
  - apply Qcplus_opp_r.
  - apply Qcmult_comm.
  - apply Qcmult_assoc.
  - apply Qcmult_1_l.
  - apply Qcmult_plus_distr_l.
  - now apply Qcmult_inv_r.
Qed.

(** sign and zero tests on Qc (used to instantiate [x < 0.0] and an exact [allclose(x, 0)]) *)
Definition Qc_neg (x : Qc) : bool := Z.ltb (Qnum (this x)) 0.
Definition Qc_is0 (x : Qc) : bool := Z.eqb (Qnum (this x)) 0.
Lemma Qc_is0_not_neg : forall x, Qc_is0 x = true -> Qc_neg x = false.
Proof.
  intros x H. unfold Qc_is0, Qc_neg in *. apply Z.eqb_eq in H. rewrite H. reflexivity.
Qed.
