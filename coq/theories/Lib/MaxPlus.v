(** The ordered (max,+) structure used by the alignment models (C18):
    integers extended with minus infinity.  [None] is minus infinity (an
    impossible transition / an unreachable cell, numpy's [-inf] in the
    log-space Viterbi code), [Some z] a finite log-score. *)
From Coq Require Import ZArith List Bool Lia.
Import ListNotations.
Open Scope Z_scope.

Definition ez := option Z.

Definition eplus (a b : ez) : ez :=
  match a, b with
  | Some x, Some y => Some (x + y)
  | _, _ => None
  end.

(** Python's [candidate > cumulative_score] on floats with -inf *)
Definition egtb (a b : ez) : bool :=
  match a, b with
  | Some x, Some y => y <? x
  | Some _, None => true
  | None, _ => false
  end.

Definition ele (a b : ez) : Prop :=
  match a, b with
  | None, _ => True
  | Some _, None => False
  | Some x, Some y => x <= y
  end.

Lemma ele_refl a : ele a a.
Proof. destruct a; simpl; lia. Qed.

Lemma ele_trans a b c : ele a b -> ele b c -> ele a c.
Proof. destruct a, b, c; simpl; try tauto; lia. Qed.

Lemma ele_none a : ele None a.
Proof. exact I. Qed.

Lemma ele_antisym a b : ele a b -> ele b a -> a = b.
Proof. destruct a, b; simpl; try tauto; intros; f_equal; lia. Qed.

Lemma egtb_false a b : egtb a b = false -> ele a b.
Proof. destruct a, b; simpl; try discriminate; auto; intros H; apply Z.ltb_ge in H; lia. Qed.

Lemma egtb_true a b : egtb a b = true -> ele b a /\ a <> b.
Proof.
  destruct a, b; simpl; try discriminate; intros H.
  - apply Z.ltb_lt in H. split; [lia | intros E; inversion E; lia].
  - split; [exact I | discriminate].
Qed.

Lemma eplus_comm a b : eplus a b = eplus b a.
Proof. destruct a, b; simpl; try reflexivity; f_equal; lia. Qed.

Lemma eplus_assoc a b c : eplus a (eplus b c) = eplus (eplus a b) c.
Proof. destruct a, b, c; simpl; try reflexivity; f_equal; lia. Qed.

Lemma eplus_mono_r a b c : ele b c -> ele (eplus a b) (eplus a c).
Proof. destruct a, b, c; simpl; try tauto; lia. Qed.

Lemma eplus_mono_l a b c : ele a b -> ele (eplus a c) (eplus b c).
Proof. destruct a, b, c; simpl; try tauto; lia. Qed.

Lemma eplus_none_r a : eplus a None = None.
Proof. destruct a; reflexivity. Qed.

Lemma eplus_0_l a : eplus (Some 0) a = a.
Proof. destruct a; simpl; auto. Qed.

Lemma eplus_some_inv a b z : eplus a b = Some z -> exists x y, a = Some x /\ b = Some y /\ z = x + y.
Proof. destruct a, b; simpl; try discriminate. intros H; inversion H; eauto. Qed.
