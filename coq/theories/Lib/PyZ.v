(** Python integer arithmetic on [Z].

    Python's [//] and [%] are floor division / modulo with the sign of the
    divisor: exactly Coq's [Z.div] / [Z.modulo] (checked below on all sign
    combinations).  This file fixes the [lia]/[nia] set-up used by every proof
    file and exports the "characterise a quotient by two inequalities" lemmas. *)
From Coq Require Export ZArith List Bool Lia ZifyBool.
Export ListNotations.
Open Scope Z_scope.

Ltac Zify.zify_post_hook ::= Z.to_euclidean_division_equations.

Example py_floordiv_signs :
  ((-7) / 2 = -4) /\ ((-7) mod 2 = 1) /\ (7 / (-2) = -4) /\ (7 mod (-2) = -1)
  /\ ((-7) / (-2) = 3) /\ ((-7) mod (-2) = -1).
Proof. repeat split. Qed.

(** ceiling division for a positive divisor *)
Definition cdiv (x s : Z) : Z := - ((- x) / s).

Lemma cdiv_spec x s : 0 < s -> s * (cdiv x s - 1) < x <= s * cdiv x s.
Proof. unfold cdiv; intros; nia. Qed.

Lemma cdiv_uniq x s q : 0 < s -> s * (q - 1) < x <= s * q -> cdiv x s = q.
Proof. intros Hs H. pose proof (cdiv_spec x s Hs). nia. Qed.

Lemma cdiv_nonneg x s : 0 < s -> 0 <= x -> 0 <= cdiv x s.
Proof. intros Hs Hx. pose proof (cdiv_spec x s Hs). nia. Qed.

Lemma cdiv_pos x s : 0 < s -> 0 < x -> 0 < cdiv x s.
Proof. intros Hs Hx. pose proof (cdiv_spec x s Hs). nia. Qed.

Lemma cdiv_0 s : 0 < s -> cdiv 0 s = 0.
Proof. intros; apply cdiv_uniq; lia. Qed.

Lemma cdiv_cdiv x s c : 0 < s -> 0 < c -> cdiv x (s * c) = cdiv (cdiv x s) c.
Proof.
  intros Hs Hc. apply cdiv_uniq; [nia|].
  pose proof (cdiv_spec x s Hs). pose proof (cdiv_spec (cdiv x s) c Hc).
  set (u := cdiv x s) in *. set (w := cdiv u c) in *. nia.
Qed.

Lemma cdiv_mono x y s : 0 < s -> x <= y -> cdiv x s <= cdiv y s.
Proof.
  intros Hs Hxy. pose proof (cdiv_spec x s Hs). pose proof (cdiv_spec y s Hs). nia.
Qed.

(** Python [abs((start - stop) // step)] for a forward range *)
Lemma pylen_forward start stop step : 0 < step -> start <= stop ->
  Z.abs ((start - stop) / step) = cdiv (stop - start) step.
Proof.
  intros. unfold cdiv. replace (-(stop-start)) with (start-stop) by lia.
  assert ((start-stop)/step <= 0) by (apply Z.div_le_upper_bound; lia). lia.
Qed.

(** list helpers over Z indices *)
Definition zlen {A} (l : list A) : Z := Z.of_nat (length l).

Definition znth {A} (d : A) (l : list A) (i : Z) : A :=
  if i <? 0 then d else nth (Z.to_nat i) l d.

Fixpoint zrange_aux (start : Z) (n : nat) : list Z :=
  match n with O => [] | S k => start :: zrange_aux (start + 1) k end.
(** [range(a, b)] *)
Definition zrange (a b : Z) : list Z := zrange_aux a (Z.to_nat (b - a)).

Lemma zrange_aux_length s n : length (zrange_aux s n) = n.
Proof. revert s; induction n; simpl; intros; auto. Qed.

Lemma zrange_aux_In s n x : In x (zrange_aux s n) <-> s <= x < s + Z.of_nat n.
Proof.
  revert s; induction n as [|n IH]; intros s; simpl.
  - lia.
  - rewrite IH. lia.
Qed.

Lemma zrange_In a b x : In x (zrange a b) <-> a <= x < b.
Proof. unfold zrange. rewrite zrange_aux_In. lia. Qed.
