(** Commutative monoids and commutative semirings as *records of operations*;
    the laws are a [Prop] record that every lemma below takes as a *section
    hypothesis* (so each exported lemma has the laws as a premise; nothing is
    ever declared as an axiom).

    [big_op] folds a commutative monoid over a list; [big_sum]/[big_prod] are
    its instances for the additive / multiplicative monoid of a semiring.
    Contents: Permutation invariance, app/map/flat_map/ext, linearity,
    exchange of two sums, indicator sums, [nscale] (n-fold sum) and the
    general distributivity of a product of sums [sum_prod_distr].

    Instances proved to satisfy the laws: [Z] and [Qc] (exact rationals with
    Leibniz equality); executable, law-free instances (floats) live in the
    Run files of the models. *)
From Coq Require Import List Permutation Arith Lia ZArith QArith Qcanon.
Import ListNotations.

Set Implicit Arguments.

(* ------------------------------------------------------------------ monoids *)

Record cm_ops (A : Type) : Type := mk_cm { cm_op : A -> A -> A; cm_unit : A }.

Record cm_laws (A : Type) (m : cm_ops A) : Prop := mk_cm_laws {
  cm_comm : forall a b, cm_op m a b = cm_op m b a;
  cm_assoc : forall a b c, cm_op m a (cm_op m b c) = cm_op m (cm_op m a b) c;
  cm_unit_l : forall a, cm_op m (cm_unit m) a = a
}.

Definition big_op (A : Type) (m : cm_ops A) (X : Type) (f : X -> A) (l : list X) : A :=
  fold_right (fun x acc => cm_op m (f x) acc) (cm_unit m) l.

(** n-fold sum [x + (x + ... + unit)] *)
Fixpoint nscale (A : Type) (m : cm_ops A) (n : nat) (x : A) : A :=
  match n with O => cm_unit m | S k => cm_op m x (nscale m k x) end.

(** all lists of length [n] over [ys] (the index set of a product of sums) *)
Fixpoint choices (B : Type) (ys : list B) (n : nat) : list (list B) :=
  match n with
  | O => [[]]
  | S k => flat_map (fun y => map (cons y) (choices ys k)) ys
  end.

Section Monoid.
  Variable A : Type.
  Variable m : cm_ops A.
  Hypothesis M : cm_laws m.
  Local Infix "⊕" := (cm_op m) (at level 50, left associativity).
  Local Notation "'ε'" := (cm_unit m).

  Lemma cm_unit_r a : a ⊕ ε = a.
  Proof. rewrite (cm_comm M). apply (cm_unit_l M). Qed.

  Lemma cm_swap_mid a b c d : (a ⊕ b) ⊕ (c ⊕ d) = (a ⊕ c) ⊕ (b ⊕ d).
  Proof.
    rewrite <- (cm_assoc M a b), (cm_assoc M b c d), (cm_comm M b c),
      <- (cm_assoc M c b d), (cm_assoc M a c). reflexivity.
  Qed.

  Lemma big_op_nil X (f : X -> A) : big_op m f [] = ε.
  Proof. reflexivity. Qed.

  Lemma big_op_cons X (f : X -> A) x l : big_op m f (x :: l) = f x ⊕ big_op m f l.
  Proof. reflexivity. Qed.

  Lemma big_op_app X (f : X -> A) l1 l2 : big_op m f (l1 ++ l2) = big_op m f l1 ⊕ big_op m f l2.
  Proof.
    induction l1 as [|x l1 IH]; simpl.
    - now rewrite (cm_unit_l M).
    - now rewrite IH, (cm_assoc M).
  Qed.

  Lemma big_op_ext X (f g : X -> A) l :
    (forall x, In x l -> f x = g x) -> big_op m f l = big_op m g l.
  Proof.
    induction l as [|x l IH]; simpl; intros H; [reflexivity|].
    rewrite H by auto. f_equal. apply IH; auto.
  Qed.

  Lemma big_op_map X Y (g : X -> Y) (f : Y -> A) l :
    big_op m f (map g l) = big_op m (fun x => f (g x)) l.
  Proof. induction l as [|x l IH]; simpl; [reflexivity| now rewrite IH]. Qed.

  Lemma big_op_flat_map X Y (g : X -> list Y) (f : Y -> A) l :
    big_op m f (flat_map g l) = big_op m (fun x => big_op m f (g x)) l.
  Proof. induction l as [|x l IH]; simpl; [reflexivity| now rewrite big_op_app, IH]. Qed.

  Lemma big_op_perm X (f : X -> A) l l' : Permutation l l' -> big_op m f l = big_op m f l'.
  Proof.
    induction 1 as [|x l l' _ IH|x y l|l l' l'' _ IH1 _ IH2]; simpl.
    - reflexivity.
    - now rewrite IH.
    - rewrite !(cm_assoc M), (cm_comm M (f y) (f x)). reflexivity.
    - now rewrite IH1.
  Qed.

  Lemma big_op_unit X l : big_op m (fun _ : X => ε) l = ε.
  Proof. induction l as [|x l IH]; simpl; [reflexivity| now rewrite IH, (cm_unit_l M)]. Qed.

  Lemma big_op_op X (f g : X -> A) l :
    big_op m (fun x => f x ⊕ g x) l = big_op m f l ⊕ big_op m g l.
  Proof.
    induction l as [|x l IH]; simpl.
    - now rewrite (cm_unit_l M).
    - rewrite IH. apply cm_swap_mid.
  Qed.

  (** exchange of two finite sums *)
  Lemma big_op_swap X Y (f : X -> Y -> A) lx ly :
    big_op m (fun x => big_op m (fun y => f x y) ly) lx
    = big_op m (fun y => big_op m (fun x => f x y) lx) ly.
  Proof.
    induction lx as [|x lx IH]; simpl.
    - now rewrite big_op_unit.
    - rewrite IH, <- big_op_op. reflexivity.
  Qed.

  Lemma big_op_rev X (f : X -> A) l : big_op m f (rev l) = big_op m f l.
  Proof. apply big_op_perm. apply Permutation_sym, Permutation_rev. Qed.

  (** [fold_left] form (as a left-to-right loop accumulates) equals [big_op] *)
  Lemma fold_left_big_op X (f : X -> A) l a :
    fold_left (fun acc x => acc ⊕ f x) l a = a ⊕ big_op m f l.
  Proof.
    revert a; induction l as [|x l IH]; intros a; simpl.
    - now rewrite cm_unit_r.
    - now rewrite IH, (cm_assoc M).
  Qed.

  (* nscale *)
  Lemma nscale_0 x : nscale m 0 x = ε.
  Proof. reflexivity. Qed.

  Lemma nscale_1 x : nscale m 1 x = x.
  Proof. simpl. apply cm_unit_r. Qed.

  Lemma nscale_add a b x : nscale m (a + b) x = nscale m a x ⊕ nscale m b x.
  Proof.
    induction a as [|a IH]; simpl.
    - now rewrite (cm_unit_l M).
    - now rewrite IH, (cm_assoc M).
  Qed.

  Lemma nscale_unit n : nscale m n ε = ε.
  Proof. induction n as [|n IH]; simpl; [reflexivity| now rewrite IH, (cm_unit_l M)]. Qed.

  Lemma nscale_op n x y : nscale m n (x ⊕ y) = nscale m n x ⊕ nscale m n y.
  Proof.
    induction n as [|n IH]; simpl.
    - now rewrite (cm_unit_l M).
    - rewrite IH. apply cm_swap_mid.
  Qed.

  Lemma nscale_mul a b x : nscale m (a * b) x = nscale m a (nscale m b x).
  Proof.
    induction a as [|a IH]; simpl; [reflexivity|].
    now rewrite nscale_add, IH.
  Qed.

  Lemma nscale_big_op X n (f : X -> A) l :
    nscale m n (big_op m f l) = big_op m (fun x => nscale m n (f x)) l.
  Proof.
    induction l as [|x l IH]; simpl.
    - apply nscale_unit.
    - now rewrite nscale_op, IH.
  Qed.

  Lemma big_op_repeat X (f : X -> A) x n : big_op m f (repeat x n) = nscale m n (f x).
  Proof. induction n as [|n IH]; simpl; [reflexivity| now rewrite IH]. Qed.

  Lemma big_op_const X (a : A) (l : list X) : big_op m (fun _ => a) l = nscale m (length l) a.
  Proof. induction l as [|x l IH]; simpl; [reflexivity| now rewrite IH]. Qed.
End Monoid.

(* ------------------------------------------------------------------ semirings *)

Record sr_ops (R : Type) : Type := mk_sr {
  sr_add : R -> R -> R;
  sr_mul : R -> R -> R;
  sr_zero : R;
  sr_one : R
}.

Record sr_laws (R : Type) (o : sr_ops R) : Prop := mk_sr_laws {
  sr_add_comm : forall a b, sr_add o a b = sr_add o b a;
  sr_add_assoc : forall a b c, sr_add o a (sr_add o b c) = sr_add o (sr_add o a b) c;
  sr_add_0_l : forall a, sr_add o (sr_zero o) a = a;
  sr_mul_comm : forall a b, sr_mul o a b = sr_mul o b a;
  sr_mul_assoc : forall a b c, sr_mul o a (sr_mul o b c) = sr_mul o (sr_mul o a b) c;
  sr_mul_1_l : forall a, sr_mul o (sr_one o) a = a;
  sr_mul_0_l : forall a, sr_mul o (sr_zero o) a = sr_zero o;
  sr_distr_l : forall a b c, sr_mul o a (sr_add o b c) = sr_add o (sr_mul o a b) (sr_mul o a c)
}.

Definition sr_addm (R : Type) (o : sr_ops R) : cm_ops R := mk_cm (sr_add o) (sr_zero o).
Definition sr_mulm (R : Type) (o : sr_ops R) : cm_ops R := mk_cm (sr_mul o) (sr_one o).

Definition big_sum (R : Type) (o : sr_ops R) (X : Type) (f : X -> R) (l : list X) : R :=
  big_op (sr_addm o) f l.
Definition big_prod (R : Type) (o : sr_ops R) (X : Type) (f : X -> R) (l : list X) : R :=
  big_op (sr_mulm o) f l.

(** the image of a natural number in a semiring: 1 + (1 + ... + 0) *)
Definition sr_of_nat (R : Type) (o : sr_ops R) (n : nat) : R := nscale (sr_addm o) n (sr_one o).

Section Semiring.
  Variable R : Type.
  Variable o : sr_ops R.
  Hypothesis L : sr_laws o.
  Local Infix "+" := (sr_add o).
  Local Infix "*" := (sr_mul o).
  Local Notation "0" := (sr_zero o).
  Local Notation "1" := (sr_one o).

  Lemma sr_addm_laws : cm_laws (sr_addm o).
  Proof. constructor; simpl; [apply (sr_add_comm L)|apply (sr_add_assoc L)|apply (sr_add_0_l L)]. Qed.
  Lemma sr_mulm_laws : cm_laws (sr_mulm o).
  Proof. constructor; simpl; [apply (sr_mul_comm L)|apply (sr_mul_assoc L)|apply (sr_mul_1_l L)]. Qed.

  Lemma sr_add_0_r a : a + 0 = a.
  Proof. rewrite (sr_add_comm L). apply (sr_add_0_l L). Qed.
  Lemma sr_mul_0_r a : a * 0 = 0.
  Proof. rewrite (sr_mul_comm L). apply (sr_mul_0_l L). Qed.
  Lemma sr_mul_1_r a : a * 1 = a.
  Proof. rewrite (sr_mul_comm L). apply (sr_mul_1_l L). Qed.
  Lemma sr_distr_r a b c : (a + b) * c = a * c + b * c.
  Proof.
    rewrite (sr_mul_comm L (a + b)), (sr_distr_l L), (sr_mul_comm L c a), (sr_mul_comm L c b).
    reflexivity.
  Qed.

  (* sums *)
  Lemma big_sum_nil X (f : X -> R) : big_sum o f [] = 0.
  Proof. reflexivity. Qed.
  Lemma big_sum_cons X (f : X -> R) x l : big_sum o f (x :: l) = f x + big_sum o f l.
  Proof. reflexivity. Qed.
  Lemma big_sum_app X (f : X -> R) l1 l2 : big_sum o f (l1 ++ l2) = big_sum o f l1 + big_sum o f l2.
  Proof. apply (big_op_app sr_addm_laws). Qed.
  Lemma big_sum_ext X (f g : X -> R) l :
    (forall x, In x l -> f x = g x) -> big_sum o f l = big_sum o g l.
  Proof. apply big_op_ext. Qed.
  Lemma big_sum_map X Y (g : X -> Y) (f : Y -> R) l :
    big_sum o f (map g l) = big_sum o (fun x => f (g x)) l.
  Proof. apply big_op_map. Qed.
  Lemma big_sum_flat_map X Y (g : X -> list Y) (f : Y -> R) l :
    big_sum o f (flat_map g l) = big_sum o (fun x => big_sum o f (g x)) l.
  Proof. apply (big_op_flat_map sr_addm_laws). Qed.
  Lemma big_sum_perm X (f : X -> R) l l' : Permutation l l' -> big_sum o f l = big_sum o f l'.
  Proof. apply (big_op_perm sr_addm_laws). Qed.
  Lemma big_sum_zero X (l : list X) : big_sum o (fun _ => 0) l = 0.
  Proof. apply (big_op_unit sr_addm_laws). Qed.
  Lemma big_sum_add X (f g : X -> R) l :
    big_sum o (fun x => f x + g x) l = big_sum o f l + big_sum o g l.
  Proof. apply (big_op_op sr_addm_laws). Qed.
  Lemma big_sum_swap X Y (f : X -> Y -> R) lx ly :
    big_sum o (fun x => big_sum o (fun y => f x y) ly) lx
    = big_sum o (fun y => big_sum o (fun x => f x y) lx) ly.
  Proof. apply (big_op_swap sr_addm_laws). Qed.

  Lemma big_sum_mul_l X (f : X -> R) c l : c * big_sum o f l = big_sum o (fun x => c * f x) l.
  Proof.
    induction l as [|x l IH]; cbn.
    - apply sr_mul_0_r.
    - change (c * (f x + big_sum o f l) = c * f x + big_sum o (fun x => c * f x) l).
      now rewrite (sr_distr_l L), IH.
  Qed.
  Lemma big_sum_mul_r X (f : X -> R) c l : big_sum o f l * c = big_sum o (fun x => f x * c) l.
  Proof.
    rewrite (sr_mul_comm L), big_sum_mul_l. apply big_sum_ext; intros; apply (sr_mul_comm L).
  Qed.

  (** a sum in which only the terms selected by [p] survive *)
  Lemma big_sum_filter X (p : X -> bool) (f : X -> R) l :
    big_sum o f (filter p l) = big_sum o (fun x => if p x then f x else 0) l.
  Proof.
    induction l as [|x l IH]; cbn; [reflexivity|].
    destruct (p x); cbn.
    - change (f x + big_sum o f (filter p l) = f x + big_sum o (fun x => if p x then f x else 0) l).
      now rewrite IH.
    - change (big_sum o f (filter p l) = 0 + big_sum o (fun x => if p x then f x else 0) l).
      now rewrite IH, (sr_add_0_l L).
  Qed.

  (** Σ_{j<n} [j = k]·f j = f k *)
  Lemma big_sum_seq_indicator n k (f : nat -> R) : (k < n)%nat ->
    big_sum o (fun j => if Nat.eqb j k then f j else 0) (seq 0 n) = f k.
  Proof.
    intros Hk.
    assert (G : forall s len, (s <= k < s + len)%nat ->
              big_sum o (fun j => if Nat.eqb j k then f j else 0) (seq s len) = f k
              /\ forall s', (k < s')%nat -> big_sum o (fun j => if Nat.eqb j k then f j else 0) (seq s' len) = 0).
    { intros s len; revert s; induction len as [|len IH]; intros s Hs; [lia|].
      split.
      - cbn [seq]. rewrite big_sum_cons.
        destruct (Nat.eqb s k) eqn:E.
        + apply Nat.eqb_eq in E; subst s.
          destruct len as [|len'].
          * cbn. apply sr_add_0_r.
          * destruct (IH k) as [_ Hz]; [lia|]. rewrite Hz by lia. apply sr_add_0_r.
        + apply Nat.eqb_neq in E. destruct (IH (S s)) as [Hv _]; [lia|].
          rewrite Hv. apply (sr_add_0_l L).
      - intros s' Hs'. clear IH Hs. revert s' Hs'.
        induction (S len) as [|m IHm]; intros s' Hs'; [reflexivity|].
        cbn [seq]. rewrite big_sum_cons.
        replace (Nat.eqb s' k) with false by (symmetry; apply Nat.eqb_neq; lia).
        rewrite IHm by lia. apply (sr_add_0_l L). }
    destruct (G 0%nat n) as [Hv _]; [lia|]. exact Hv.
  Qed.

  (* products *)
  Lemma big_prod_nil X (f : X -> R) : big_prod o f [] = 1.
  Proof. reflexivity. Qed.
  Lemma big_prod_cons X (f : X -> R) x l : big_prod o f (x :: l) = f x * big_prod o f l.
  Proof. reflexivity. Qed.
  Lemma big_prod_app X (f : X -> R) l1 l2 : big_prod o f (l1 ++ l2) = big_prod o f l1 * big_prod o f l2.
  Proof. apply (big_op_app sr_mulm_laws). Qed.
  Lemma big_prod_ext X (f g : X -> R) l :
    (forall x, In x l -> f x = g x) -> big_prod o f l = big_prod o g l.
  Proof. apply big_op_ext. Qed.
  Lemma big_prod_map X Y (g : X -> Y) (f : Y -> R) l :
    big_prod o f (map g l) = big_prod o (fun x => f (g x)) l.
  Proof. apply big_op_map. Qed.
  Lemma big_prod_perm X (f : X -> R) l l' : Permutation l l' -> big_prod o f l = big_prod o f l'.
  Proof. apply (big_op_perm sr_mulm_laws). Qed.
  Lemma big_prod_one X (l : list X) : big_prod o (fun _ => 1) l = 1.
  Proof. apply (big_op_unit sr_mulm_laws). Qed.
  Lemma big_prod_mul X (f g : X -> R) l :
    big_prod o (fun x => f x * g x) l = big_prod o f l * big_prod o g l.
  Proof. apply (big_op_op sr_mulm_laws). Qed.

  (** general distributivity: a product of sums is the sum, over all choice
      lists, of the products of the chosen terms *)
  Theorem sum_prod_distr X Y (f : X -> Y -> R) (ys : list Y) (l : list X) :
    big_prod o (fun x => big_sum o (f x) ys) l
    = big_sum o (fun c => big_prod o (fun p => f (fst p) (snd p)) (combine l c)) (choices ys (length l)).
  Proof.
    induction l as [|x l IH].
    - cbn. symmetry. apply sr_add_0_r.
    - cbn [length choices]. rewrite big_prod_cons, IH, big_sum_flat_map.
      rewrite big_sum_mul_r. apply big_sum_ext; intros y _.
      rewrite big_sum_map, big_sum_mul_l. apply big_sum_ext; intros c _.
      reflexivity.
  Qed.

  (** Σ_{a∈la} Σ_{b∈lb} f a · g b = (Σ f)(Σ g) *)
  Lemma big_sum_product X Y (f : X -> R) (g : Y -> R) la lb :
    big_sum o (fun a => big_sum o (fun b => f a * g b) lb) la = big_sum o f la * big_sum o g lb.
  Proof.
    rewrite big_sum_mul_r. apply big_sum_ext; intros a _. now rewrite big_sum_mul_l.
  Qed.

  Lemma sr_of_nat_mul n x : nscale (sr_addm o) n x = sr_of_nat o n * x.
  Proof.
    unfold sr_of_nat. induction n as [|n IH]; cbn.
    - symmetry. apply (sr_mul_0_l L).
    - change (x + nscale (sr_addm o) n x = (1 + nscale (sr_addm o) n 1) * x).
      now rewrite sr_distr_r, (sr_mul_1_l L), IH.
  Qed.
End Semiring.

(* ------------------------------------------------------------------ instances *)

Definition Z_ops : sr_ops Z := mk_sr Z.add Z.mul 0%Z 1%Z.
Lemma Z_laws : sr_laws Z_ops.
Proof. constructor; cbv [Z_ops sr_add sr_mul sr_zero sr_one]; intros; ring. Qed.

Definition Qc_ops : sr_ops Qc := mk_sr Qcplus Qcmult (Q2Qc 0) (Q2Qc 1).
Lemma Qc_laws : sr_laws Qc_ops.
Proof.
  constructor; cbn; intros.
  - apply Qcplus_comm.
  - apply Qcplus_assoc.
  - apply Qcplus_0_l.
  - apply Qcmult_comm.
  - apply Qcmult_assoc.
  - apply Qcmult_1_l.
  - apply Qcmult_0_l.
  - apply Qcmult_plus_distr_r.
Qed.

Definition nat_ops : sr_ops nat := mk_sr Nat.add Nat.mul 0%nat 1%nat.
Lemma nat_laws : sr_laws nat_ops.
Proof. constructor; cbv [nat_ops sr_add sr_mul sr_zero sr_one]; intros; ring. Qed.

(** additive monoids used as codomain of the abstract logarithm *)
Definition Zadd_cm : cm_ops Z := mk_cm Z.add 0%Z.
Lemma Zadd_cm_laws : cm_laws Zadd_cm.
Proof. constructor; cbv [Zadd_cm cm_op cm_unit]; intros; ring. Qed.
