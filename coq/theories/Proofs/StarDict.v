(** C18 — the dictionary half of the star-merge proof: sorted association
    lists, the sparse dict of a row, and what [_GapOffset] computes in both
    orientations (for the pinned rule and for the repaired one). *)
From CG3 Require Import Lib.PyZ Lib.Val Model.PairAlign Spec.AlignSpec Model.StarMerge Proofs.StarRows.

(** ------------------------------------------------------------------ sorted association lists *)

Definition kabove (k : Z) (d : gdict) : Prop := Forall (fun kv => k < fst kv) d.

Fixpoint ksorted (d : gdict) : Prop :=
  match d with [] => True | kv :: d' => kabove (fst kv) d' /\ ksorted d' end.

Lemma kabove_weaken k k' d : k' <= k -> kabove k d -> kabove k' d.
Proof. intros H. unfold kabove. apply Forall_impl. intros; lia. Qed.

Lemma dget_above d : forall k k', kabove k d -> k' <= k -> dget d k' = None.
Proof.
  induction d as [|[k0 v0] d IH]; intros k k' Ha Hk; [reflexivity|].
  inversion Ha; subst. cbn [fst] in *. cbn [dget].
  destruct (k0 =? k') eqn:E; [apply Z.eqb_eq in E; lia|]. eapply IH; eauto.
Qed.

Lemma dset_above d : forall k0 k v, kabove k0 d -> k0 < k -> kabove k0 (dset d k v).
Proof.
  induction d as [|[k1 v1] d IH]; intros k0 k v Ha Hk; cbn [dset].
  - repeat constructor. exact Hk.
  - inversion Ha; subst. cbn [fst] in *.
    destruct (k <? k1); [constructor; [exact Hk | exact Ha]|].
    destruct (k =? k1); constructor; auto. apply IH; auto.
Qed.

Lemma dset_sorted d : forall k v, ksorted d -> ksorted (dset d k v).
Proof.
  induction d as [|[k1 v1] d IH]; intros k v Hs; cbn [dset].
  - cbn. split; [constructor | exact I].
  - destruct Hs as (Ha & Hs). cbn [fst] in Ha.
    destruct (k <? k1) eqn:E1.
    + apply Z.ltb_lt in E1. cbn [ksorted fst]. split; [|split; assumption].
      constructor; [exact E1|]. eapply kabove_weaken; [|exact Ha]. lia.
    + destruct (k =? k1) eqn:E2.
      * apply Z.eqb_eq in E2. subst k1. cbn [ksorted fst]. split; assumption.
      * apply Z.ltb_ge in E1. apply Z.eqb_neq in E2. cbn [ksorted fst]. split; [|apply IH; exact Hs].
        apply dset_above; [exact Ha | lia].
Qed.

Lemma dget_dset d : forall k v k', ksorted d ->
  dget (dset d k v) k' = if k' =? k then Some v else dget d k'.
Proof.
  induction d as [|[k1 v1] d IH]; intros k v k' Hs; cbn [dset].
  - cbn [dget]. rewrite (Z.eqb_sym k k'). reflexivity.
  - destruct Hs as (Ha & Hs). cbn [fst] in Ha.
    destruct (k <? k1) eqn:E1.
    + cbn [dget]. rewrite (Z.eqb_sym k k'). reflexivity.
    + destruct (k =? k1) eqn:E2.
      * apply Z.eqb_eq in E2. subst k1. cbn [dget]. rewrite (Z.eqb_sym k k').
        destruct (k' =? k); reflexivity.
      * apply Z.ltb_ge in E1. apply Z.eqb_neq in E2. cbn [dget]. rewrite IH by exact Hs.
        destruct (k1 =? k') eqn:E3; [|reflexivity].
        apply Z.eqb_eq in E3. subst k'. destruct (k1 =? k) eqn:E4; [apply Z.eqb_eq in E4; lia | reflexivity].
Qed.

Lemma dget0_dset d k v k' : ksorted d ->
  dget0 (dset d k v) k' = if k' =? k then v else dget0 d k'.
Proof. intros Hs. unfold dget0. rewrite dget_dset by exact Hs. destruct (k' =? k); reflexivity. Qed.

Lemma dset_nonempty d k v : dset d k v <> [].
Proof. destruct d as [|[k1 v1] d]; cbn [dset]; [discriminate|]. destruct (k <? k1); [discriminate|]. destruct (k =? k1); discriminate. Qed.

Lemma dset_append d : forall k v, Forall (fun kv => fst kv < k) d -> dset d k v = d ++ [(k, v)].
Proof.
  induction d as [|[k1 v1] d IH]; intros k v H; [reflexivity|].
  inversion H; subst. cbn [fst] in *. cbn [dset].
  destruct (k <? k1) eqn:E1; [apply Z.ltb_lt in E1; lia|].
  destruct (k =? k1) eqn:E2; [apply Z.eqb_eq in E2; lia|].
  cbn [app]. f_equal. apply IH. assumption.
Qed.

Lemma dget_In d k v : dget d k = Some v -> In (k, v) d.
Proof.
  induction d as [|[k1 v1] d IH]; cbn [dget]; [discriminate|].
  destruct (k1 =? k) eqn:E; intros H.
  - apply Z.eqb_eq in E. inversion H; subst. left. reflexivity.
  - right. apply IH. exact H.
Qed.

Lemma In_dget d k v : ksorted d -> In (k, v) d -> dget d k = Some v.
Proof.
  induction d as [|[k1 v1] d IH]; intros Hs Hin; [destruct Hin|].
  destruct Hs as (Ha & Hs). cbn [fst] in Ha. cbn [dget]. destruct Hin as [E | Hin].
  - inversion E; subst. rewrite Z.eqb_refl. reflexivity.
  - destruct (k1 =? k) eqn:E.
    + apply Z.eqb_eq in E. subst k1. unfold kabove in Ha. rewrite Forall_forall in Ha.
      specialize (Ha _ Hin). cbn in Ha. lia.
    + apply IH; assumption.
Qed.

(** ------------------------------------------------------------------ the sparse dict of a list of run lengths *)

Lemma sparse_above l : forall p, kabove (p - 1) (sparse p l).
Proof.
  induction l as [|c l IH]; intros p; cbn [sparse]; [constructor|].
  destruct (0 <? c).
  - constructor; [cbn; lia|]. eapply kabove_weaken; [|apply IH]. lia.
  - eapply kabove_weaken; [|apply IH]. lia.
Qed.

Lemma sparse_sorted l : forall p, ksorted (sparse p l).
Proof.
  induction l as [|c l IH]; intros p; cbn [sparse]; [exact I|].
  destruct (0 <? c); [|apply IH].
  cbn [ksorted fst]. split; [|apply IH]. eapply kabove_weaken; [|apply sparse_above]. lia.
Qed.

Lemma sparse_pos l : forall p, Forall (fun kv => 0 < snd kv) (sparse p l).
Proof.
  induction l as [|c l IH]; intros p; cbn [sparse]; [constructor|].
  destruct (0 <? c) eqn:E; [|apply IH]. apply Z.ltb_lt in E. constructor; [exact E | apply IH].
Qed.

Lemma sparse_get l : forall p q, Forall (fun c => 0 <= c) l -> (q < length l)%nat ->
  dget0 (sparse p l) (p + Z.of_nat q) = nth q l 0.
Proof.
  induction l as [|c l IH]; intros p q Hl Hq; [cbn in Hq; lia|].
  inversion Hl; subst. cbn [sparse]. destruct q as [|q].
  - cbn [nth]. replace (p + Z.of_nat 0) with p by lia.
    destruct (0 <? c) eqn:E.
    + unfold dget0. cbn [dget]. rewrite Z.eqb_refl. reflexivity.
    + apply Z.ltb_ge in E. unfold dget0. rewrite (dget_above _ p p); [lia | | lia].
      eapply kabove_weaken; [|apply sparse_above]. lia.
  - cbn [nth]. replace (p + Z.of_nat (S q)) with ((p + 1) + Z.of_nat q) by lia.
    destruct (0 <? c).
    + unfold dget0. cbn [dget]. destruct (p =? p + 1 + Z.of_nat q) eqn:E; [apply Z.eqb_eq in E; lia|].
      apply IH; [assumption | cbn in Hq; lia].
    + apply IH; [assumption | cbn in Hq; lia].
Qed.

Lemma sparse_get_out l : forall p k, (k < p \/ p + Z.of_nat (length l) <= k) -> dget (sparse p l) k = None.
Proof.
  induction l as [|c l IH]; intros p k Hk; [reflexivity|].
  cbn [sparse]. cbn [length] in Hk.
  assert (Hrec : dget (sparse (p + 1) l) k = None).
  { destruct Hk as [Hk | Hk].
    - apply (dget_above _ p); [eapply kabove_weaken; [|apply sparse_above]; lia | lia].
    - apply IH. right. lia. }
  destruct (0 <? c); [|exact Hrec].
  cbn [dget]. destruct (p =? k) eqn:E; [apply Z.eqb_eq in E; lia | exact Hrec].
Qed.

Lemma sparse_keys_range l : forall p, Forall (fun kv => p <= fst kv < p + Z.of_nat (length l)) (sparse p l).
Proof.
  induction l as [|c l IH]; intros p; cbn [sparse]; [constructor|].
  assert (H : Forall (fun kv => p <= fst kv < p + Z.of_nat (length (c :: l))) (sparse (p + 1) l)).
  { eapply Forall_impl; [|apply IH]. cbn [length]. intros kv; cbn; lia. }
  destruct (0 <? c); [|exact H]. constructor; [cbn [fst length]; lia | exact H].
Qed.

(** well-formed gap lists: what [sorted(gaps_lengths.items())] is for a real row *)
Definition gwf (gl : gdict) : Prop :=
  ksorted gl /\ Forall (fun kv => 0 < snd kv) gl /\ Forall (fun kv => 0 <= fst kv) gl.

Lemma gaps_of_row_gwf row : gwf (gaps_of_row row).
Proof.
  unfold gwf, gaps_of_row. split; [apply sparse_sorted|]. split; [apply sparse_pos|].
  eapply Forall_impl; [|apply (sparse_keys_range (counts row) 0)]. intros kv; cbn; lia.
Qed.

(** ------------------------------------------------------------------ Python list indexing / bisect helpers *)

Lemma zlen_cons {A} (x : A) l : zlen (x :: l) = 1 + zlen l.
Proof. unfold zlen. cbn [length]. lia. Qed.

Lemma zlen_nonneg {A} (l : list A) : 0 <= zlen l.
Proof. unfold zlen. lia. Qed.

Lemma nth_py_nonneg o i : 0 <= i -> nth_py o i = if zlen o <=? i then 0 else nth (Z.to_nat i) o 0.
Proof.
  intros Hi. unfold nth_py.
  assert (E : (i <? 0) = false) by (apply Z.ltb_ge; lia). rewrite E. cbv zeta. rewrite E. reflexivity.
Qed.

Lemma nth_py_0 k o : nth_py (k :: o) 0 = k.
Proof.
  rewrite nth_py_nonneg by lia. pose proof (zlen_nonneg o). rewrite zlen_cons.
  replace (1 + zlen o <=? 0) with false by (symmetry; apply Z.leb_gt; lia). reflexivity.
Qed.

Lemma nth_py_S k o i : 0 <= i -> nth_py (k :: o) (1 + i) = nth_py o i.
Proof.
  intros Hi. rewrite !nth_py_nonneg by lia. pose proof (zlen_nonneg o). rewrite zlen_cons.
  destruct (zlen o <=? i) eqn:E4.
  - apply Z.leb_le in E4. replace (1 + zlen o <=? 1 + i) with true by (symmetry; apply Z.leb_le; lia). reflexivity.
  - apply Z.leb_gt in E4. replace (1 + zlen o <=? 1 + i) with false by (symmetry; apply Z.leb_gt; lia).
    replace (Z.to_nat (1 + i)) with (S (Z.to_nat i)) by lia. reflexivity.
Qed.

Lemma nth_py_In o i : 0 <= i < zlen o -> In (nth_py o i) o.
Proof.
  intros Hi. rewrite nth_py_nonneg by lia.
  replace (zlen o <=? i) with false by (symmetry; apply Z.leb_gt; lia).
  apply nth_In. unfold zlen in Hi. lia.
Qed.

Lemma bisect_left_range o x : 0 <= bisect_left o x <= zlen o.
Proof.
  induction o as [|k o IH]; cbn [bisect_left]; [unfold zlen; cbn; lia|].
  rewrite zlen_cons. destruct (k <? x); lia.
Qed.

(** ------------------------------------------------------------------ _GapOffset, sequence -> alignment orientation *)

Fixpoint fwd_store (gl : gdict) (cum : Z) : gdict :=
  match gl with [] => [] | (gp, L) :: gl' => (gp, cum) :: fwd_store gl' (cum + L) end.

Fixpoint total (gl : gdict) : Z := match gl with [] => 0 | (_, L) :: gl' => L + total gl' end.

Fixpoint lastkey (gl : gdict) (d : Z) : Z := match gl with [] => d | (gp, _) :: gl' => lastkey gl' gp end.

(** sum of the lengths of the gaps at sequence positions < p *)
Fixpoint sumlt (gl : gdict) (p : Z) : Z :=
  match gl with [] => 0 | (gp, L) :: gl' => (if gp <? p then L else 0) + sumlt gl' p end.

Definition fstep (invert : bool) (acc : gdict * Z * Z) (it : Z * Z) : gdict * Z * Z :=
  let '(res, cum, _) := acc in
  let '(gp, L) := it in
  if invert
  then (dset (dset res (gp + cum) cum) (gp + cum + L) (cum + L), cum + L, gp)
  else (dset res gp cum, cum + L, gp).

Lemma mk_gap_offset_unfold gl invert :
  mk_gap_offset gl invert =
  let '(res, cum, gap_pos) := fold_left (fstep invert) gl ([], 0, -1) in
  {| go_store := res;
     go_min := match gl with [] => None | (k, _) :: _ => Some k end;
     go_max := if invert then gap_pos + cum else gap_pos;
     go_total := cum;
     go_invert := invert |}.
Proof. reflexivity. Qed.

Lemma fold_fwd : forall gl res cum lst,
  ksorted gl -> (forall kv, In kv res -> kabove (fst kv) gl) ->
  fold_left (fstep false) gl (res, cum, lst) = (res ++ fwd_store gl cum, cum + total gl, lastkey gl lst).
Proof.
  induction gl as [|[gp L] gl IH]; intros res cum lst Hs Hres.
  - cbn. rewrite app_nil_r. f_equal. f_equal. lia.
  - destruct Hs as (Ha & Hs). cbn [fst] in Ha.
    cbn [fold_left fstep fwd_store total lastkey].
    rewrite dset_append.
    + rewrite IH.
      * rewrite <- app_assoc. cbn [app]. f_equal. f_equal. lia.
      * exact Hs.
      * intros kv Hin. apply in_app_or in Hin. destruct Hin as [Hin | [<- | []]].
        -- specialize (Hres _ Hin). inversion Hres; subst. assumption.
        -- exact Ha.
    + apply Forall_forall. intros kv Hin. specialize (Hres _ Hin). inversion Hres; subst. cbn [fst] in *. lia.
Qed.

Lemma sumlt_above gl : forall k p, kabove k gl -> p <= k + 1 -> sumlt gl p = 0.
Proof.
  induction gl as [|[gp L] gl IH]; intros k p Ha Hp; [reflexivity|].
  inversion Ha; subst. cbn [fst] in *. cbn [sumlt].
  destruct (gp <? p) eqn:E; [apply Z.ltb_lt in E; lia|]. rewrite (IH k); [lia | assumption | lia].
Qed.

Lemma sumlt_all gl : forall p, ksorted gl -> lastkey gl (p - 1) < p -> sumlt gl p = total gl.
Proof.
  induction gl as [|[gp L] gl IH]; intros p Hs Hl; [reflexivity|].
  destruct Hs as (Ha & Hs). cbn [fst] in Ha. cbn [sumlt total lastkey] in *.
  assert (Hgp : gp < p).
  { destruct gl as [|[gp' L'] gl']; cbn [lastkey] in Hl; [lia|].
    assert (gp' <= lastkey gl' gp').
    { clear -Hs. revert gp' Hs. induction gl' as [|[g2 L2] gl' IH]; intros gp' Hs; cbn [lastkey]; [lia|].
      destruct Hs as (Ha & Hs). inversion Ha; subst. cbn [fst] in *.
      destruct Hs as (Ha2 & Hs2). specialize (IH g2 (conj Ha2 Hs2)). lia. }
    inversion Ha; subst. cbn [fst] in *. lia. }
  destruct (gp <? p) eqn:E; [|apply Z.ltb_ge in E; lia]. f_equal.
  destruct gl as [|[gp' L'] gl']; [reflexivity|].
  apply IH; [exact Hs|]. cbn [lastkey] in *. exact Hl.
Qed.

Lemma dget_fwd gl : forall cum p v, ksorted gl -> dget (fwd_store gl cum) p = Some v -> v = cum + sumlt gl p.
Proof.
  induction gl as [|[gp L] gl IH]; intros cum p v Hs Hd; [discriminate|].
  destruct Hs as (Ha & Hs). cbn [fst] in Ha. cbn [fwd_store dget sumlt] in *.
  destruct (gp =? p) eqn:E.
  - apply Z.eqb_eq in E. subst p. inversion Hd; subst.
    rewrite Z.ltb_irrefl. rewrite (sumlt_above gl gp gp Ha); lia.
  - apply Z.eqb_neq in E. specialize (IH _ _ _ Hs Hd).
    assert (Hin : In p (map fst (fwd_store gl (cum + L)))).
    { apply dget_In in Hd. apply in_map_iff. exists (p, v). auto. }
    assert (Hk : gp < p).
    { clear -Ha Hin. revert Hin. generalize (cum + L). induction gl as [|[g2 L2] gl IH]; intros c Hin; [destruct Hin|].
      inversion Ha; subst. cbn [fst] in *. cbn [fwd_store map In fst] in Hin. destruct Hin as [<- | Hin]; [lia|]. eapply IH; eauto. }
    destruct (gp <? p) eqn:E2; [|apply Z.ltb_ge in E2; lia]. lia.
Qed.

Lemma fwd_store_keys gl : forall cum, map fst (fwd_store gl cum) = map fst gl.
Proof. induction gl as [|[gp L] gl IH]; intros cum; cbn; [reflexivity|]. f_equal. apply IH. Qed.

(** the bisect branch: the value stored at the first key >= p *)
Lemma bis_fwd gl : forall cum p,
  ksorted gl -> gl <> [] -> p <= lastkey gl 0 ->
  let k := nth_py (map fst gl) (bisect_left (map fst gl) p) in
  In k (map fst gl) /\ dget0 (fwd_store gl cum) k = cum + sumlt gl p.
Proof.
  induction gl as [|[gp L] gl IH]; intros cum p Hs Hne Hp; [congruence|].
  destruct Hs as (Ha & Hs). cbn [fst] in Ha.
  cbn [map fst bisect_left fwd_store sumlt lastkey] in *.
  destruct (gp <? p) eqn:E.
  - apply Z.ltb_lt in E.
    destruct gl as [|[g2 L2] gl'] eqn:Egl; [cbn [lastkey] in Hp; lia|]. rewrite <- Egl in *.
    assert (Hne' : gl <> []) by (rewrite Egl; discriminate).
    assert (Hp' : p <= lastkey gl 0) by (rewrite Egl in *; cbn [lastkey] in *; exact Hp).
    destruct (IH (cum + L) p Hs Hne' Hp') as (Hin & Hv).
    pose proof (bisect_left_range (map fst gl) p) as Hr.
    rewrite nth_py_S by lia. split; [right; exact Hin|].
    unfold dget0 in *. cbn [dget].
    destruct (gp =? nth_py (map fst gl) (bisect_left (map fst gl) p)) eqn:E2.
    + apply Z.eqb_eq in E2. exfalso. apply in_map_iff in Hin. destruct Hin as (kv & Hk & Hin).
      unfold kabove in Ha. rewrite Forall_forall in Ha. specialize (Ha _ Hin). lia.
    + rewrite Hv. lia.
  - apply Z.ltb_ge in E. rewrite nth_py_0. split; [left; reflexivity|].
    unfold dget0. cbn [dget]. rewrite Z.eqb_refl. rewrite (sumlt_above gl gp p Ha); lia.
Qed.

Lemma go_get_fwd fixed gl p : gwf gl -> go_get fixed (mk_gap_offset gl false) p = sumlt gl p.
Proof.
  intros (Hs & Hpos & Hnn).
  rewrite mk_gap_offset_unfold, (fold_fwd gl [] 0 (-1) Hs) by (intros kv []).
  cbn [app]. unfold go_get. cbn [go_store go_min go_max go_total go_invert].
  destruct gl as [|[g1 L1] gl'] eqn:Egl; [reflexivity|]. rewrite <- Egl. rewrite <- Egl in Hs, Hpos, Hnn.
  assert (Hne : gl <> []) by (rewrite Egl; discriminate).
  assert (Est : fwd_store gl 0 = (g1, 0) :: fwd_store gl' (0 + L1)) by (rewrite Egl; reflexivity).
  rewrite Est at 1.
  destruct (dget (fwd_store gl 0) p) as [v|] eqn:Ed.
  - apply dget_fwd in Ed; [lia | exact Hs].
  - destruct (p <? g1) eqn:E1.
    + apply Z.ltb_lt in E1. symmetry. apply (sumlt_above gl (g1 - 1)); [|lia].
      rewrite Egl in Hs |- *. destruct Hs as (Ha & _). cbn [fst] in Ha.
      constructor; [cbn; lia | eapply kabove_weaken; [|exact Ha]; lia].
    + destruct (lastkey gl (-1) <? p) eqn:E2.
      * apply Z.ltb_lt in E2. symmetry. replace (0 + total gl) with (total gl) by lia. apply sumlt_all; [exact Hs|].
        rewrite Egl in *. cbn [lastkey] in *. exact E2.
      * apply Z.ltb_ge in E2. rewrite fwd_store_keys. cbn [andb].
        destruct (bis_fwd gl 0 p Hs Hne) as (_ & Hv).
        { rewrite Egl in *. cbn [lastkey] in *. exact E2. }
        rewrite Hv. lia.
Qed.

(** ------------------------------------------------------------------ _GapOffset, alignment -> sequence orientation *)

Fixpoint inv_store (gl : gdict) (cum : Z) : gdict :=
  match gl with
  | [] => []
  | (gp, L) :: gl' => (gp + cum, cum) :: (gp + cum + L, cum + L) :: inv_store gl' (cum + L)
  end.

(** number of gap characters in front of alignment column [index] ([f] = true);
    with [f] = false: what the pinned rule answers (the same, except strictly
    inside a gap, where it forgets the part of the gap already passed) *)
Fixpoint nbx (f : bool) (gl : gdict) (cum index : Z) : Z :=
  match gl with
  | [] => cum
  | (gp, L) :: gl' =>
      let s := gp + cum in
      if index <=? s then cum
      else if index <? s + L then (if f then cum + (index - s) else cum)
      else nbx f gl' (cum + L) index
  end.

Fixpoint lastend (gl : gdict) (cum d : Z) : Z :=
  match gl with [] => d | (gp, L) :: gl' => lastend gl' (cum + L) (gp + cum + L) end.

Lemma fold_inv : forall gl res cum lst,
  ksorted gl -> Forall (fun kv => 0 < snd kv) gl ->
  (forall kv kv', In kv res -> In kv' gl -> fst kv < fst kv' + cum) ->
  fold_left (fstep true) gl (res, cum, lst) = (res ++ inv_store gl cum, cum + total gl, lastkey gl lst).
Proof.
  induction gl as [|[gp L] gl IH]; intros res cum lst Hs Hpos Hres.
  - cbn. rewrite app_nil_r. f_equal. f_equal. lia.
  - destruct Hs as (Ha & Hs). cbn [fst] in Ha. inversion Hpos as [|? ? HL Hpos']; subst. cbn [snd] in HL.
    cbn [fold_left fstep inv_store total lastkey].
    rewrite (dset_append res (gp + cum) cum).
    2:{ apply Forall_forall. intros kv Hin. apply (Hres kv (gp, L) Hin). left. reflexivity. }
    rewrite (dset_append (res ++ [(gp + cum, cum)]) (gp + cum + L) (cum + L)).
    2:{ apply Forall_forall. intros kv Hin. apply in_app_or in Hin. destruct Hin as [Hin | [<- | []]].
        - specialize (Hres kv (gp, L) Hin (or_introl eq_refl)). cbn [fst] in *. lia.
        - cbn [fst]. lia. }
    rewrite IH.
    + rewrite <- !app_assoc. cbn [app]. f_equal. f_equal. lia.
    + exact Hs.
    + exact Hpos'.
    + intros kv kv' Hin Hin'. unfold kabove in Ha. rewrite Forall_forall in Ha. specialize (Ha _ Hin').
      apply in_app_or in Hin. destruct Hin as [Hin | [<- | []]].
      * apply in_app_or in Hin. destruct Hin as [Hin | [<- | []]].
        -- specialize (Hres kv (gp, L) Hin (or_introl eq_refl)). cbn [fst] in *. lia.
        -- cbn [fst]. lia.
      * cbn [fst]. lia.
Qed.

Lemma lastend_default gl : forall cum d d', gl <> [] -> lastend gl cum d = lastend gl cum d'.
Proof. destruct gl as [|[gp L] gl]; intros; [congruence | reflexivity]. Qed.

Lemma lastend_eq gl : forall cum d d', gl <> [] -> lastend gl cum d = lastkey gl d' + cum + total gl.
Proof.
  induction gl as [|[gp L] gl IH]; intros cum d d' Hne; [congruence|].
  cbn [lastend lastkey total]. destruct gl as [|[g2 L2] gl'].
  - cbn. lia.
  - rewrite (IH (cum + L) (gp + cum + L) gp) by discriminate. lia.
Qed.

Lemma end_le_lastend gl : forall gp L cum d,
  ksorted ((gp, L) :: gl) -> Forall (fun kv => 0 < snd kv) ((gp, L) :: gl) ->
  gp + cum + L <= lastend ((gp, L) :: gl) cum d.
Proof.
  induction gl as [|[g2 L2] gl IH]; intros gp L cum d Hs Hpos; cbn [lastend]; [lia|].
  destruct Hs as (Ha & Hs). inversion Ha; subst. cbn [fst] in *.
  inversion Hpos as [|? ? HL Hpos']; subst. inversion Hpos' as [|? ? HL2 _]; subst. cbn [snd] in *.
  specialize (IH g2 L2 (cum + L) (gp + cum + L) Hs Hpos'). cbn [lastend] in IH. lia.
Qed.

Lemma inv_store_above gl : forall k cum,
  kabove k gl -> Forall (fun kv => 0 < snd kv) gl -> kabove (k + cum) (inv_store gl cum).
Proof.
  induction gl as [|[gp L] gl IH]; intros k cum Ha Hpos; cbn [inv_store]; [constructor|].
  inversion Ha; subst. inversion Hpos as [|? ? HL Hpos']; subst. cbn [fst snd] in *.
  constructor; [cbn; lia|]. constructor; [cbn; lia|].
  eapply kabove_weaken; [|apply IH; eassumption]. lia.
Qed.

Lemma dget_None_notin d k : dget d k = None -> ~ In k (map fst d).
Proof.
  induction d as [|[k1 v1] d IH]; cbn [dget map fst In]; [tauto|].
  destruct (k1 =? k) eqn:E; [discriminate|]. apply Z.eqb_neq in E. intros H [H1 | H2]; [congruence | exact (IH H H2)].
Qed.

Lemma nbx_le f gl cum index :
  match gl with [] => True | (gp, _) :: _ => index <= gp + cum end -> nbx f gl cum index = cum.
Proof.
  destruct gl as [|[gp L] gl]; intros H; [reflexivity|]. cbn [nbx].
  replace (index <=? gp + cum) with true by (symmetry; apply Z.leb_le; lia). reflexivity.
Qed.

Lemma nbx_beyond f gl : forall cum index d,
  ksorted gl -> Forall (fun kv => 0 < snd kv) gl -> gl <> [] -> lastend gl cum d <= index ->
  nbx f gl cum index = cum + total gl.
Proof.
  induction gl as [|[gp L] gl IH]; intros cum index d Hs Hpos Hne Hl; [congruence|].
  pose proof (end_le_lastend gl gp L cum d Hs Hpos) as He.
  inversion Hpos as [|? ? HL Hpos']; subst. cbn [snd] in HL.
  cbn [nbx total].
  replace (index <=? gp + cum) with false by (symmetry; apply Z.leb_gt; lia).
  replace (index <? gp + cum + L) with false by (symmetry; apply Z.ltb_ge; lia).
  destruct gl as [|[g2 L2] gl'].
  - cbn. lia.
  - destruct Hs as (_ & Hs). rewrite (IH (cum + L) index (gp + cum + L)); [lia | exact Hs | exact Hpos' | discriminate |].
    cbn [lastend] in *. exact Hl.
Qed.

Lemma dget_inv f gl : forall cum index v,
  ksorted gl -> Forall (fun kv => 0 < snd kv) gl ->
  dget (inv_store gl cum) index = Some v -> v = nbx f gl cum index.
Proof.
  induction gl as [|[gp L] gl IH]; intros cum index v Hs Hpos Hd; [discriminate|].
  destruct Hs as (Ha & Hs). cbn [fst] in Ha. inversion Hpos as [|? ? HL Hpos']; subst. cbn [snd] in HL.
  cbn [inv_store dget nbx] in *.
  destruct (gp + cum =? index) eqn:E1.
  - apply Z.eqb_eq in E1. injection Hd as <-. rewrite <- E1.
    replace (gp + cum <=? gp + cum) with true by (symmetry; apply Z.leb_le; lia). reflexivity.
  - apply Z.eqb_neq in E1. destruct (gp + cum + L =? index) eqn:E2.
    + apply Z.eqb_eq in E2. injection Hd as <-. rewrite <- E2.
      replace (gp + cum + L <=? gp + cum) with false by (symmetry; apply Z.leb_gt; lia).
      rewrite Z.ltb_irrefl. symmetry. apply nbx_le.
      destruct gl as [|[g2 L2] gl']; [exact I|]. inversion Ha; subst. cbn [fst] in *. lia.
    + apply Z.eqb_neq in E2.
      pose proof (inv_store_above gl gp (cum + L) Ha Hpos') as Hab.
      assert (Hgt : gp + (cum + L) < index).
      { apply dget_In in Hd. unfold kabove in Hab. rewrite Forall_forall in Hab. specialize (Hab _ Hd). exact Hab. }
      replace (index <=? gp + cum) with false by (symmetry; apply Z.leb_gt; lia).
      replace (index <? gp + cum + L) with false by (symmetry; apply Z.ltb_ge; lia).
      eapply IH; eauto.
Qed.

(** the bisect branch of [__getitem__] for [invert=True] *)
Definition bexpr_core (f : bool) (st : gdict) (index pos pos' par : Z) : Z :=
  if true && negb ((pos =? index) || (pos =? 0))
  then (if f && (par mod 2 =? 0) then dget0 st pos' + index - pos' else dget0 st pos')
  else dget0 st pos.

Definition bexpr (f : bool) (st : gdict) (index : Z) : Z :=
  let o := map fst st in
  let i := bisect_left o index in
  bexpr_core f st index (nth_py o i) (nth_py o (i - 1)) (i - 1).

Lemma dget0_skip2 s vs e ve st k : k <> s -> k <> e -> dget0 ((s, vs) :: (e, ve) :: st) k = dget0 st k.
Proof.
  intros H1 H2. unfold dget0. cbn [dget].
  destruct (s =? k) eqn:E1; [apply Z.eqb_eq in E1; congruence|].
  destruct (e =? k) eqn:E2; [apply Z.eqb_eq in E2; congruence|]. reflexivity.
Qed.

Lemma bis_inv f gl : forall cum index,
  ksorted gl -> Forall (fun kv => 0 < snd kv) gl -> Forall (fun kv => 0 <= fst kv) gl -> 0 <= cum ->
  gl <> [] ->
  match gl with [] => True | (gp, _) :: _ => gp + cum < index end ->
  index < lastend gl cum 0 ->
  dget (inv_store gl cum) index = None ->
  bisect_left (map fst (inv_store gl cum)) index < zlen (map fst (inv_store gl cum)) /\
  bexpr f (inv_store gl cum) index = nbx f gl cum index.
Proof.
  induction gl as [|[gp L] gl IH]; intros cum index Hs Hpos Hnn Hcum Hne Hfirst Hlast Hd; [congruence|].
  destruct Hs as (Ha & Hs). cbn [fst] in Ha.
  inversion Hpos as [|? ? HL Hpos']; subst. cbn [snd] in HL.
  inversion Hnn as [|? ? Hgp Hnn']; subst. cbn [fst] in Hgp.
  cbn [inv_store] in *. cbn [dget] in Hd.
  destruct (gp + cum =? index) eqn:E1; [discriminate|]. apply Z.eqb_neq in E1.
  destruct (gp + cum + L =? index) eqn:E2; [discriminate|]. apply Z.eqb_neq in E2.
  set (s := gp + cum) in *. set (e := s + L) in *.
  set (st' := inv_store gl (cum + L)) in *.
  unfold bexpr. cbn [map fst bisect_left nbx]. fold s. fold e.
  replace (s <? index) with true by (symmetry; apply Z.ltb_lt; lia).
  replace (index <=? s) with false by (symmetry; apply Z.leb_gt; lia). cbv iota.
  rewrite !zlen_cons.
  destruct (Z.lt_ge_cases index e) as [Hie | Hie].
  - (* strictly inside the first gap *)
    replace (e <? index) with false by (symmetry; apply Z.ltb_ge; lia). cbv iota.
    replace (index <? e) with true by (symmetry; apply Z.ltb_lt; lia).
    pose proof (zlen_nonneg (map fst st')).
    split; [lia|].
    replace (1 + 0 - 1) with 0 by lia.
    rewrite (nth_py_S s (e :: map fst st') 0) by lia. rewrite !nth_py_0.
    unfold bexpr_core.
    replace (e =? index) with false by (symmetry; apply Z.eqb_neq; lia).
    replace (e =? 0) with false by (symmetry; apply Z.eqb_neq; unfold e, s in *; lia).
    cbn [orb negb andb]. replace (0 mod 2 =? 0) with true by reflexivity.
    unfold dget0. cbn [dget]. rewrite Z.eqb_refl.
    destruct f; cbn [andb]; cbv iota; lia.
  - (* beyond the first gap *)
    assert (Hie' : e < index) by lia.
    replace (e <? index) with true by (symmetry; apply Z.ltb_lt; lia). cbv iota.
    replace (index <? e) with false by (symmetry; apply Z.ltb_ge; lia).
    destruct gl as [|[g2 L2] gl'].
    { cbn [lastend] in Hlast. unfold e, s in *. lia. }
    set (gl := (g2, L2) :: gl') in *.
    assert (Egl : gl = (g2, L2) :: gl') by reflexivity.
    assert (Hne' : gl <> []) by (rewrite Egl; discriminate).
    assert (Hg2' : gp < g2).
    { rewrite Egl in Ha. inversion Ha; subst. cbn [fst] in *. assumption. }
    pose proof (inv_store_above gl gp (cum + L) Ha Hpos') as Hab. fold st' in Hab.
    assert (Hkeys : forall k, In k (map fst st') -> e < k).
    { intros k Hk. apply in_map_iff in Hk. destruct Hk as (kv & <- & Hin).
      unfold kabove in Hab. rewrite Forall_forall in Hab. specialize (Hab _ Hin). unfold e. lia. }
    pose proof (bisect_left_range (map fst st') index) as Hr.
    set (i' := bisect_left (map fst st') index) in *.
    assert (Hlast' : index < lastend gl (cum + L) 0).
    { cbn [lastend] in Hlast. rewrite (lastend_default gl (cum + L) 0 (gp + cum + L) Hne'). exact Hlast. }
    set (s' := g2 + (cum + L)).
    assert (Est' : st' = (s', cum + L) :: (s' + L2, cum + L + L2) :: inv_store gl' (cum + L + L2)).
    { unfold st'. rewrite Egl. reflexivity. }
    destruct (Z.lt_ge_cases index s') as [His | His].
    + (* between the first gap and the second *)
      assert (Ei' : i' = 0).
      { unfold i'. rewrite Est'. cbn [map fst bisect_left].
        replace (s' <? index) with false by (symmetry; apply Z.ltb_ge; lia). reflexivity. }
      rewrite Ei'. split.
      { rewrite Est'. cbn [map fst]. rewrite !zlen_cons. pose proof (zlen_nonneg (map fst (inv_store gl' (cum + L + L2)))). lia. }
      replace (1 + (1 + 0) - 1) with (1 + 0) by lia.
      rewrite (nth_py_S s (e :: map fst st') (1 + 0)) by lia.
      rewrite (nth_py_S e (map fst st') 0) by lia.
      rewrite (nth_py_S s (e :: map fst st') 0) by lia. rewrite nth_py_0.
      assert (Enth : nth_py (map fst st') 0 = s') by (rewrite Est'; cbn [map fst]; apply nth_py_0).
      rewrite Enth.
      unfold bexpr_core.
      replace (s' =? index) with false.
      2:{ symmetry. apply Z.eqb_neq. intros ->. rewrite Est' in Hd. cbn [dget] in Hd. rewrite Z.eqb_refl in Hd. discriminate. }
      replace (s' =? 0) with false by (symmetry; apply Z.eqb_neq; unfold s', e, s in *; lia).
      cbn [orb negb andb]. replace ((1 + 0) mod 2 =? 0) with false by reflexivity. rewrite andb_false_r.
      rewrite (nbx_le f gl (cum + L) index) by (rewrite Egl; unfold s' in *; lia).
      unfold dget0. cbn [dget]. replace (s =? e) with false by (symmetry; apply Z.eqb_neq; unfold e, s; lia).
      rewrite Z.eqb_refl. reflexivity.
    + (* at or beyond the second gap: induction *)
      assert (His' : s' < index).
      { destruct (Z.eq_dec index s') as [->|]; [|lia]. rewrite Est' in Hd. cbn [dget] in Hd. rewrite Z.eqb_refl in Hd. discriminate. }
      destruct (IH (cum + L) index Hs Hpos' Hnn' ltac:(lia) Hne' His' Hlast' Hd) as (Hi' & Hb).
      fold st' in Hi', Hb. fold i' in Hi'.
      assert (Hi1 : 1 <= i').
      { unfold i'. rewrite Est'. cbn [map fst bisect_left].
        replace (s' <? index) with true by (symmetry; apply Z.ltb_lt; lia).
        pose proof (bisect_left_range (s' + L2 :: map fst (inv_store gl' (cum + L + L2))) index) as Hr2.
        cbn [bisect_left] in Hr2. lia. }
      split; [lia|].
      rewrite <- Hb. unfold bexpr. fold i'.
      replace (1 + (1 + i') - 1) with (1 + (1 + (i' - 1))) by lia.
      rewrite (nth_py_S s (e :: map fst st') (1 + i')) by lia.
      rewrite (nth_py_S e (map fst st') i') by lia.
      rewrite (nth_py_S s (e :: map fst st') (1 + (i' - 1))) by lia.
      rewrite (nth_py_S e (map fst st') (i' - 1)) by lia.
      set (P := nth_py (map fst st') i'). set (Q := nth_py (map fst st') (i' - 1)).
      assert (HP : In P (map fst st')) by (apply nth_py_In; lia).
      assert (HQ : In Q (map fst st')) by (apply nth_py_In; lia).
      pose proof (Hkeys _ HP) as HPe. pose proof (Hkeys _ HQ) as HQe.
      unfold bexpr_core.
      replace ((1 + (1 + (i' - 1))) mod 2 =? 0) with ((i' - 1) mod 2 =? 0).
      2:{ f_equal. replace (1 + (1 + (i' - 1))) with ((i' - 1) + 1 * 2) by lia. rewrite Z.mod_add by lia. reflexivity. }
      rewrite !(dget0_skip2 s cum e (cum + L) st') by (unfold e, s in *; lia).
      reflexivity.
Qed.

Lemma lastend_in gl : forall cum d, gl <> [] -> In (lastend gl cum d) (map fst (inv_store gl cum)).
Proof.
  induction gl as [|[gp L] gl IH]; intros cum d Hne; [congruence|].
  cbn [lastend inv_store map fst]. destruct gl as [|[g2 L2] gl'].
  - cbn. auto.
  - right. right. apply IH. discriminate.
Qed.

Lemma go_get_inv f gl index :
  gwf gl -> 0 <= index -> go_get f (mk_gap_offset gl true) index = nbx f gl 0 index.
Proof.
  intros (Hs & Hpos & Hnn) Hidx.
  rewrite mk_gap_offset_unfold, (fold_inv gl [] 0 (-1) Hs Hpos) by (intros kv kv' []).
  cbn [app]. unfold go_get. cbn [go_store go_min go_max go_total go_invert].
  destruct gl as [|[g1 L1] gl'] eqn:Egl; [reflexivity|]. rewrite <- Egl. rewrite <- Egl in Hs, Hpos, Hnn.
  assert (Hne : gl <> []) by (rewrite Egl; discriminate).
  assert (Est : inv_store gl 0 = (g1 + 0, 0) :: (g1 + 0 + L1, 0 + L1) :: inv_store gl' (0 + L1)) by (rewrite Egl; reflexivity).
  rewrite Est at 1.
  destruct (dget (inv_store gl 0) index) as [v|] eqn:Ed.
  - eapply dget_inv; eauto.
  - destruct (index <? g1) eqn:E1.
    + apply Z.ltb_lt in E1. symmetry. apply nbx_le. rewrite Egl. lia.
    + apply Z.ltb_ge in E1.
      replace (lastkey gl (-1) + (0 + total gl)) with (lastend gl 0 0)
        by (rewrite (lastend_eq gl 0 0 (-1) Hne); lia).
      destruct (lastend gl 0 0 <? index) eqn:E2.
      * apply Z.ltb_lt in E2. symmetry. rewrite (nbx_beyond f gl 0 index 0 Hs Hpos Hne); lia.
      * apply Z.ltb_ge in E2.
        pose proof (dget_None_notin _ _ Ed) as Hnot.
        assert (H1 : g1 + 0 < index).
        { destruct (Z.eq_dec index (g1 + 0)) as [->|]; [|lia]. exfalso. apply Hnot. rewrite Est. left. reflexivity. }
        assert (H2 : index < lastend gl 0 0).
        { destruct (Z.eq_dec index (lastend gl 0 0)) as [->|]; [|lia]. exfalso. apply Hnot. apply lastend_in. exact Hne. }
        assert (H1' : match gl with [] => True | (gp, _) :: _ => gp + 0 < index end) by (rewrite Egl; exact H1).
        destruct (bis_inv f gl 0 index Hs Hpos Hnn ltac:(lia) Hne H1' H2 Ed) as (_ & Hb).
        exact Hb.
Qed.

(** ------------------------------------------------------------------ from dictionaries back to rows *)

Fixpoint zsum (l : list Z) : Z := match l with [] => 0 | c :: l' => c + zsum l' end.

Lemma sumlt_sparse l : forall p n, Forall (fun c => 0 <= c) l ->
  sumlt (sparse p l) (p + Z.of_nat n) = zsum (firstn n l).
Proof.
  induction l as [|c l IH]; intros p n Hl; [destruct n; reflexivity|].
  inversion Hl; subst. cbn [sparse]. destruct n as [|n].
  - cbn [firstn zsum]. replace (p + Z.of_nat 0) with p by lia.
    destruct (0 <? c).
    + cbn [sumlt]. rewrite Z.ltb_irrefl. rewrite (sumlt_above _ p p); [lia | | lia].
      eapply kabove_weaken; [|apply sparse_above]. lia.
    + apply (sumlt_above _ p p); [|lia]. eapply kabove_weaken; [|apply sparse_above]. lia.
  - cbn [firstn zsum]. replace (p + Z.of_nat (S n)) with ((p + 1) + Z.of_nat n) by lia.
    destruct (0 <? c) eqn:E.
    + cbn [sumlt]. replace (p <? p + 1 + Z.of_nat n) with true by (symmetry; apply Z.ltb_lt; lia).
      rewrite IH by assumption. reflexivity.
    + apply Z.ltb_ge in E. rewrite IH by assumption. lia.
Qed.

Lemma zsum_nonneg l : Forall (fun c => 0 <= c) l -> 0 <= zsum l.
Proof. induction 1; cbn; lia. Qed.

Lemma firstn_nonneg {n} l : Forall (fun c => 0 <= c) l -> Forall (fun c => 0 <= c) (firstn n l).
Proof.
  revert n. induction l as [|c l IH]; intros n H; destruct n; cbn; auto. inversion H; subst. constructor; auto.
Qed.

Lemma resbefore_within n X c : (c <= n)%nat -> resbefore (repeat GAP n ++ X) c = 0%nat.
Proof. intros H. unfold resbefore. rewrite firstn_repeat_app by exact H. rewrite degap_repeat. reflexivity. Qed.

Lemma resbefore_gaps n X k : resbefore (repeat GAP n ++ X) (n + k) = resbefore X k.
Proof.
  unfold resbefore. rewrite <- (repeat_length GAP n) at 1. rewrite firstn_app_2.
  rewrite degap_app, degap_repeat. reflexivity.
Qed.

(** the column of residue n (or the end of the row for n = number of residues):
    n residues and the first n+1 gap runs are in front of it *)
Lemma rescol : forall n seq l,
  Forall isres seq -> Forall (fun c => 0 <= c) l -> length l = S (length seq) -> (n <= length seq)%nat ->
  let c := (n + Z.to_nat (zsum (firstn (S n) l)))%nat in
  (c <= length (build seq l))%nat /\ resbefore (build seq l) c = n.
Proof.
  induction n as [|n IH]; intros seq l Hres Hl Hlen Hn; destruct l as [|l0 l']; try discriminate;
    inversion Hl as [|? ? Hl0 Hl']; subst.
  - cbn [firstn zsum]. replace (l0 + 0) with l0 by lia. rewrite build_cons. cbn [Nat.add].
    split; [rewrite app_length, repeat_length; lia|]. apply resbefore_within. lia.
  - destruct seq as [|s seq]; [cbn in Hn; lia|].
    inversion Hres as [|? ? Hs Hres']; subst.
    cbn [length] in Hlen, Hn.
    destruct (IH seq l' Hres' Hl' ltac:(lia) ltac:(lia)) as (Hc & Hr).
    change (firstn (S (S n)) (l0 :: l')) with (l0 :: firstn (S n) l'). cbn [zsum].
    pose proof (zsum_nonneg (firstn (S n) l') (firstn_nonneg l' Hl')) as Hz.
    replace (S n + Z.to_nat (l0 + zsum (firstn (S n) l')))%nat
      with (Z.to_nat l0 + S (n + Z.to_nat (zsum (firstn (S n) l'))))%nat by lia.
    rewrite build_cons. split.
    + rewrite app_length, repeat_length. cbn [length]. lia.
    + rewrite resbefore_gaps. rewrite (resbefore_cons_res s _ _ Hs). f_equal. exact Hr.
Qed.

(** the repaired [_GapOffset(invert=True)] counts the gap characters in front of a column *)
Lemma nbx_sparse : forall l p cum c' seq,
  Forall isres seq -> Forall (fun c => 0 <= c) l -> length l = S (length seq) -> 0 <= cum ->
  (c' <= length (build seq l))%nat ->
  nbx true (sparse p l) cum (p + cum + Z.of_nat c') =
  cum + Z.of_nat c' - Z.of_nat (resbefore (build seq l) c').
Proof.
  induction l as [|l0 l' IH]; intros p cum c' seq Hres Hl Hlen Hcum Hc; [discriminate|].
  inversion Hl as [|? ? Hl0 Hl']; subst.
  rewrite build_cons in *. cbn [sparse].
  assert (Hnext : forall x, x <= p + 1 + (cum + l0) - 1 + 0 -> nbx true (sparse (p + 1) l') (cum + l0) x = cum + l0).
  { intros x Hx. apply nbx_le. pose proof (sparse_above l' (p + 1)) as Hab.
    destruct (sparse (p + 1) l') as [|[g2 L2] r]; [exact I|]. inversion Hab; subst. cbn [fst] in *. lia. }
  destruct (Nat.le_gt_cases c' (Z.to_nat l0)) as [Hin | Hout].
  - (* inside (or at the end of) the first gap run *)
    rewrite resbefore_within by exact Hin.
    destruct (0 <? l0) eqn:E.
    + apply Z.ltb_lt in E. cbn [nbx].
      destruct (p + cum + Z.of_nat c' <=? p + cum) eqn:E1.
      * apply Z.leb_le in E1. lia.
      * apply Z.leb_gt in E1. destruct (p + cum + Z.of_nat c' <? p + cum + l0) eqn:E2.
        -- lia.
        -- apply Z.ltb_ge in E2. rewrite Hnext by lia. lia.
    + apply Z.ltb_ge in E. assert (l0 = 0) by lia. subst l0. assert (c' = 0)%nat by lia. subst c'.
      replace (cum + 0) with cum in Hnext by lia. rewrite Hnext by lia. lia.
  - (* beyond the first gap run: there is a residue *)
    destruct seq as [|s seq].
    { rewrite app_nil_r, repeat_length in Hc. lia. }
    inversion Hres as [|? ? Hs Hres']; subst. cbn [length] in Hlen.
    rewrite app_length, repeat_length in Hc. cbn [length] in Hc.
    set (c'' := (c' - Z.to_nat l0 - 1)%nat).
    replace c' with (Z.to_nat l0 + S c'')%nat by (unfold c''; lia).
    rewrite resbefore_gaps, (resbefore_cons_res s _ _ Hs).
    specialize (IH (p + 1) (cum + l0) c'' seq Hres' Hl' ltac:(lia) ltac:(lia) ltac:(unfold c''; lia)).
    replace (p + cum + Z.of_nat (Z.to_nat l0 + S c'')) with (p + 1 + (cum + l0) + Z.of_nat c'') by lia.
    destruct (0 <? l0) eqn:E.
    + apply Z.ltb_lt in E. cbn [nbx].
      replace (p + 1 + (cum + l0) + Z.of_nat c'' <=? p + cum) with false by (symmetry; apply Z.leb_gt; lia).
      replace (p + 1 + (cum + l0) + Z.of_nat c'' <? p + cum + l0) with false by (symmetry; apply Z.ltb_ge; lia).
      rewrite IH. lia.
    + apply Z.ltb_ge in E. assert (l0 = 0) by lia. subst l0.
      replace (cum + 0) with cum in * by lia. rewrite IH. lia.
Qed.
