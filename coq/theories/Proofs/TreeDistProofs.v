(** C09 — proofs about the Robinson-Foulds model of [Model/TreeDist.v]:
    the distances are zero exactly for equal topologies (same clade sets /
    same split sets), symmetric, non-negative, and equal an independent
    split-set computation that mentions neither the reference tip nor the
    normalisation of [compute_splits]. *)
From Coq Require Import Permutation.
From CG3 Require Import Lib.PyZ Lib.Val Lib.Rose Model.Tree Model.TreeDist.

(* ------------------------------------------------------------------ *)
(** * (A) sets of names, sets of sets *)

Lemma bool_eq_iff (a b : bool) : (a = true <-> b = true) -> a = b.
Proof.
  destruct a, b; intros [H1 H2]; try reflexivity.
  - symmetry. apply H1. reflexivity.
  - apply H2. reflexivity.
Qed.

Lemma in_name_dec (x : name) (c : list name) : In x c \/ ~ In x c.
Proof.
  destruct (memb x c) eqn:E.
  - left. apply memb_In. exact E.
  - right. apply memb_false_In. exact E.
Qed.

Definition seteq (a b : list name) : Prop := forall x, In x a <-> In x b.

Lemma subset_b_iff a b : subset_b a b = true <-> incl a b.
Proof.
  unfold subset_b. rewrite forallb_forall. split; intros H x Hx.
  - apply memb_In. apply H. exact Hx.
  - apply memb_In. apply H. exact Hx.
Qed.

Lemma set_eqb_iff a b : set_eqb a b = true <-> seteq a b.
Proof.
  unfold set_eqb. rewrite andb_true_iff, !subset_b_iff. unfold seteq, incl. split.
  - intros [H1 H2] x. split; auto.
  - intros H. split; intros x Hx; apply H; exact Hx.
Qed.

Lemma set_eqb_refl a : set_eqb a a = true.
Proof. apply set_eqb_iff. intros x. reflexivity. Qed.

Lemma set_eqb_sym a b : set_eqb a b = set_eqb b a.
Proof. unfold set_eqb. apply andb_comm. Qed.

Lemma set_eqb_trans a b c : set_eqb a b = true -> set_eqb b c = true -> set_eqb a c = true.
Proof.
  rewrite !set_eqb_iff. intros H1 H2 x. rewrite (H1 x). apply H2.
Qed.

Lemma set_eqb_compat_l a a' b : set_eqb a a' = true -> set_eqb a b = set_eqb a' b.
Proof.
  intros H. apply bool_eq_iff. split; intros H1.
  - apply set_eqb_trans with a; [|exact H1]. rewrite set_eqb_sym. exact H.
  - apply set_eqb_trans with a'; [exact H|exact H1].
Qed.

Lemma set_eqb_compat_r a b b' : set_eqb b b' = true -> set_eqb a b = set_eqb a b'.
Proof.
  intros H. rewrite (set_eqb_sym a b), (set_eqb_sym a b'). apply set_eqb_compat_l. exact H.
Qed.

Lemma set_eqb_false_l r a b : In r a -> ~ In r b -> set_eqb a b = false.
Proof.
  intros Ha Hb. destruct (set_eqb a b) eqn:E; [|reflexivity].
  apply set_eqb_iff in E. exfalso. apply Hb. apply E. exact Ha.
Qed.

Lemma set_eqb_false_r r a b : ~ In r a -> In r b -> set_eqb a b = false.
Proof.
  intros Ha Hb. rewrite set_eqb_sym. apply set_eqb_false_l with r; assumption.
Qed.

Lemma existsb_ext_in {A} (f g : A -> bool) l :
  (forall x, In x l -> f x = g x) -> existsb f l = existsb g l.
Proof.
  induction l as [|x l IH]; intros H; simpl; [reflexivity|].
  rewrite (H x (or_introl eq_refl)). rewrite IH; [reflexivity|].
  intros y Hy. apply H. right. exact Hy.
Qed.

Lemma existsb_map {A B} (f : A -> B) (g : B -> bool) l :
  existsb g (map f l) = existsb (fun x => g (f x)) l.
Proof. induction l as [|x l IH]; simpl; [reflexivity|]. rewrite IH. reflexivity. Qed.

Lemma smemb_iff c S : smemb c S = true <-> exists c', In c' S /\ set_eqb c c' = true.
Proof. unfold smemb. apply existsb_exists. Qed.

Lemma smemb_self c S : In c S -> smemb c S = true.
Proof. intros H. apply smemb_iff. exists c. split; [exact H|apply set_eqb_refl]. Qed.

Lemma smemb_compat_l c c' S : set_eqb c c' = true -> smemb c S = smemb c' S.
Proof.
  intros H. unfold smemb. apply existsb_ext_in. intros x _. apply set_eqb_compat_l. exact H.
Qed.

(** the second argument of [smemb] is a set of sets; replacing one of its
    elements by an equal set does not change membership *)
Lemma smemb_compat_cons c x x' S : set_eqb x x' = true -> smemb c (x :: S) = smemb c (x' :: S).
Proof. intros H. simpl. rewrite (set_eqb_compat_r c x x' H). reflexivity. Qed.

Definition respects (f : list name -> bool) : Prop :=
  forall a b, set_eqb a b = true -> f a = f b.

Lemma existsb_sdedupe f S : respects f -> existsb f (sdedupe S) = existsb f S.
Proof.
  intros Hf. induction S as [|x r IH]; simpl; [reflexivity|].
  destruct (smemb x r) eqn:E; simpl; rewrite IH; [|reflexivity].
  destruct (f x) eqn:Fx; simpl; [|reflexivity].
  apply smemb_iff in E. destruct E as (x' & Hin & He).
  apply existsb_exists. exists x'. split; [exact Hin|].
  rewrite <- (Hf _ _ He). exact Fx.
Qed.

Lemma smemb_sdedupe c S : smemb c (sdedupe S) = smemb c S.
Proof.
  unfold smemb. apply existsb_sdedupe. intros a b H. apply set_eqb_compat_r. exact H.
Qed.

Lemma In_sdedupe c S : In c (sdedupe S) -> In c S.
Proof.
  induction S as [|x r IH]; simpl; [tauto|].
  destruct (smemb x r); simpl; intros H.
  - right. apply IH. exact H.
  - destruct H as [H|H]; [left; exact H|right; apply IH; exact H].
Qed.

Lemma In_sdedupe_ex c S : In c S -> exists c', In c' (sdedupe S) /\ set_eqb c c' = true.
Proof.
  intros H. apply smemb_iff. rewrite smemb_sdedupe. apply smemb_self. exact H.
Qed.

Lemma forall_sdedupe f S : respects f ->
  ((forall c, In c (sdedupe S) -> f c = true) <-> (forall c, In c S -> f c = true)).
Proof.
  intros Hf. split; intros H c Hc.
  - destruct (In_sdedupe_ex c S Hc) as (c' & Hin & He).
    rewrite (Hf _ _ He). apply H. exact Hin.
  - apply H. apply In_sdedupe. exact Hc.
Qed.

Lemma length_filter_zero {A} (p : A -> bool) l :
  length (filter p l) = 0%nat <-> (forall x, In x l -> p x = false).
Proof.
  induction l as [|x l IH]; simpl.
  - split; [intros _ y []|reflexivity].
  - destruct (p x) eqn:E; simpl.
    + split; [discriminate|]. intros H. rewrite (H x (or_introl eq_refl)) in E. discriminate.
    + rewrite IH. split.
      * intros H y [<-|Hy]; [exact E|apply H; exact Hy].
      * intros H y Hy. apply H. right. exact Hy.
Qed.

Lemma filter_map {A B} (f : A -> B) (p : B -> bool) l :
  filter p (map f l) = map f (filter (fun x => p (f x)) l).
Proof.
  induction l as [|x l IH]; simpl; [reflexivity|].
  destruct (p (f x)); simpl; rewrite IH; reflexivity.
Qed.

(* ------------------------------------------------------------------ *)
(** * symmetric-difference count *)

Lemma symdiff_count_comm A B : symdiff_count A B = symdiff_count B A.
Proof. unfold symdiff_count. apply Z.add_comm. Qed.

Lemma symdiff_count_nonneg A B : 0 <= symdiff_count A B.
Proof. unfold symdiff_count. lia. Qed.

Lemma symdiff_count_zero_iff A B :
  symdiff_count A B = 0 <->
  (forall c, In c A -> smemb c B = true) /\ (forall c, In c B -> smemb c A = true).
Proof.
  unfold symdiff_count. split.
  - intros H.
    assert (H1 : length (filter (fun c => negb (smemb c B)) A) = 0%nat) by lia.
    assert (H2 : length (filter (fun c => negb (smemb c A)) B) = 0%nat) by lia.
    rewrite length_filter_zero in H1, H2.
    split; intros c Hc; apply negb_false_iff; [apply H1|apply H2]; exact Hc.
  - intros [H1 H2].
    assert (H1' : length (filter (fun c => negb (smemb c B)) A) = 0%nat).
    { apply length_filter_zero. intros c Hc. apply negb_false_iff. apply H1. exact Hc. }
    assert (H2' : length (filter (fun c => negb (smemb c A)) B) = 0%nat).
    { apply length_filter_zero. intros c Hc. apply negb_false_iff. apply H2. exact Hc. }
    rewrite H1', H2'. reflexivity.
Qed.

Lemma symdiff_count_self A : symdiff_count A A = 0.
Proof.
  apply symdiff_count_zero_iff. split; intros c Hc; apply smemb_self; exact Hc.
Qed.

(* ------------------------------------------------------------------ *)
(** * (B) rooted RF *)

Definition same_clades (t1 t2 : tree) : Prop :=
  forall c, smemb c (leaf_sets_below t1) = smemb c (leaf_sets_below t2).

Lemma same_tip_set_sym t1 t2 : same_tip_set t1 t2 = same_tip_set t2 t1.
Proof. unfold same_tip_set. apply set_eqb_sym. Qed.

Lemma same_tip_set_refl t : same_tip_set t t = true.
Proof. unfold same_tip_set. apply set_eqb_refl. Qed.

Lemma rooted_rf_inv t1 t2 d :
  rooted_rf t1 t2 = Ok d ->
  same_tip_set t1 t2 = true /\ length (kids t1) = 2%nat /\ length (kids t2) = 2%nat /\
  d = symdiff_count (subsets t1) (subsets t2).
Proof.
  unfold rooted_rf.
  destruct (same_tip_set t1 t2); simpl; [|discriminate].
  destruct (Nat.eqb (length (kids t1)) 2) eqn:E1; simpl; [|discriminate].
  destruct (Nat.eqb (length (kids t2)) 2) eqn:E2; simpl; [|discriminate].
  intros H. inversion H; subst.
  apply Nat.eqb_eq in E1. apply Nat.eqb_eq in E2. auto.
Qed.

Theorem rooted_rf_sym : forall t1 t2, rooted_rf t1 t2 = rooted_rf t2 t1.
Proof.
  intros t1 t2. unfold rooted_rf.
  rewrite (same_tip_set_sym t1 t2).
  rewrite (orb_comm (negb (Nat.eqb (length (kids t1)) 2))).
  rewrite (symdiff_count_comm (subsets t1)). reflexivity.
Qed.

Theorem rooted_rf_nonneg : forall t1 t2 d, rooted_rf t1 t2 = Ok d -> 0 <= d.
Proof.
  intros t1 t2 d H. apply rooted_rf_inv in H. destruct H as (_ & _ & _ & ->).
  apply symdiff_count_nonneg.
Qed.

Theorem rooted_rf_self : forall t, length (kids t) = 2%nat -> rooted_rf t t = Ok 0.
Proof.
  intros t H. unfold rooted_rf. rewrite same_tip_set_refl, H. simpl.
  rewrite symdiff_count_self. reflexivity.
Qed.

Lemma subsets_incl_iff L1 L2 :
  (forall c, In c (sdedupe L1) -> smemb c (sdedupe L2) = true) <->
  (forall c, smemb c L1 = true -> smemb c L2 = true).
Proof.
  split.
  - intros H c Hc. apply smemb_iff in Hc. destruct Hc as (c' & Hin & He).
    destruct (In_sdedupe_ex c' L1 Hin) as (c'' & Hin' & He').
    rewrite (smemb_compat_l c c' L2 He), (smemb_compat_l c' c'' L2 He').
    rewrite <- smemb_sdedupe. apply H. exact Hin'.
  - intros H c Hc. rewrite smemb_sdedupe. apply H. apply smemb_self.
    apply In_sdedupe. exact Hc.
Qed.

Theorem rooted_rf_zero_iff : forall t1 t2 d,
  rooted_rf t1 t2 = Ok d -> (d = 0 <-> same_clades t1 t2).
Proof.
  intros t1 t2 d H. apply rooted_rf_inv in H. destruct H as (_ & _ & _ & ->).
  rewrite symdiff_count_zero_iff. unfold subsets. rewrite !subsets_incl_iff.
  unfold same_clades. split.
  - intros [H1 H2] c. apply bool_eq_iff. split; [apply H1|apply H2].
  - intros H. split; intros c Hc; [rewrite <- H|rewrite H]; exact Hc.
Qed.

Theorem rooted_rf_is_symdiff : forall t1 t2 d,
  rooted_rf t1 t2 = Ok d ->
  d = Z.of_nat (length (filter (fun c => negb (smemb c (leaf_sets_below t2)))
                               (sdedupe (leaf_sets_below t1))))
    + Z.of_nat (length (filter (fun c => negb (smemb c (leaf_sets_below t1)))
                               (sdedupe (leaf_sets_below t2)))).
Proof.
  intros t1 t2 d H. apply rooted_rf_inv in H. destruct H as (_ & _ & _ & ->).
  unfold symdiff_count, subsets.
  rewrite (filter_ext (fun c => negb (smemb c (sdedupe (leaf_sets_below t2))))
                      (fun c => negb (smemb c (leaf_sets_below t2))))
    by (intros c; rewrite smemb_sdedupe; reflexivity).
  rewrite (filter_ext (fun c => negb (smemb c (sdedupe (leaf_sets_below t1))))
                      (fun c => negb (smemb c (leaf_sets_below t1))))
    by (intros c; rewrite smemb_sdedupe; reflexivity).
  reflexivity.
Qed.

(* ------------------------------------------------------------------ *)
(** * (C) unrooted RF: splits *)

Definition same_split (names c c' : list name) : bool :=
  set_eqb c c' || set_eqb c (other_side names c').
Definition has_split (names : list name) (S : list (list name)) (c : list name) : bool :=
  existsb (same_split names c) S.
Definition same_splits (names : list name) (t1 t2 : tree) : Prop :=
  (forall c, In c (leaf_sets_below t1) -> has_split names (leaf_sets_below t2) c = true) /\
  (forall c, In c (leaf_sets_below t2) -> has_split names (leaf_sets_below t1) c = true).

(** the normalisation of [compute_splits] *)
Definition norm (ref : name) (names c : list name) : list name :=
  if memb ref c then c else other_side names c.

Lemma compute_splits_norm ref names S :
  compute_splits ref names S = sdedupe (map (norm ref names) S).
Proof. reflexivity. Qed.

Lemma other_side_In names c x : In x (other_side names c) <-> In x names /\ ~ In x c.
Proof.
  unfold other_side. rewrite filter_In, negb_true_iff, memb_false_In. reflexivity.
Qed.

Lemma other_side_seteq n n' a b :
  seteq n n' -> seteq a b -> seteq (other_side n a) (other_side n' b).
Proof.
  intros Hn Hab x. rewrite !other_side_In. rewrite (Hn x), (Hab x). reflexivity.
Qed.

Lemma seteq_refl a : seteq a a.
Proof. intros x. reflexivity. Qed.

Lemma other_side_swap names c c' :
  incl c names -> seteq (other_side names c) c' -> seteq c (other_side names c').
Proof.
  intros Hc H x. rewrite other_side_In. split.
  - intros Hx. split; [apply Hc; exact Hx|].
    intros Hx'. apply H in Hx'. apply other_side_In in Hx'. destruct Hx' as [_ Hn]. auto.
  - intros [Hn Hnc']. destruct (in_name_dec x c) as [Hx|Hx]; [exact Hx|].
    exfalso. apply Hnc'. apply H. apply other_side_In. auto.
Qed.

Lemma set_eqb_other_side_swap names c c' :
  incl c names -> incl c' names ->
  set_eqb (other_side names c) c' = set_eqb c (other_side names c').
Proof.
  intros Hc Hc'. apply bool_eq_iff. rewrite !set_eqb_iff. split; intros H.
  - apply other_side_swap; assumption.
  - assert (H' : seteq (other_side names c') c) by (intros x; symmetry; apply H).
    apply other_side_swap in H'; [|exact Hc'].
    intros x. symmetry. apply H'.
Qed.

Lemma set_eqb_other_side_both names c c' :
  incl c names -> incl c' names ->
  set_eqb (other_side names c) (other_side names c') = set_eqb c c'.
Proof.
  intros Hc Hc'. apply bool_eq_iff. rewrite !set_eqb_iff. split; intros H.
  - intros x. split; intros Hx.
    + destruct (in_name_dec x c') as [Hx'|Hx']; [exact Hx'|]. exfalso.
      assert (Ho : In x (other_side names c')) by (apply other_side_In; auto).
      apply H in Ho. apply other_side_In in Ho. destruct Ho as [_ Ho]. auto.
    + destruct (in_name_dec x c) as [Hx'|Hx']; [exact Hx'|]. exfalso.
      assert (Ho : In x (other_side names c)) by (apply other_side_In; auto).
      apply H in Ho. apply other_side_In in Ho. destruct Ho as [_ Ho]. auto.
  - apply other_side_seteq; [apply seteq_refl|exact H].
Qed.

(** KEY: after normalisation, set equality is "same bipartition" *)
Lemma norm_same_split ref names c c' :
  In ref names -> incl c names -> incl c' names ->
  set_eqb (norm ref names c) (norm ref names c') = same_split names c c'.
Proof.
  intros Hr Hc Hc'. unfold norm, same_split.
  destruct (memb ref c) eqn:Ec; destruct (memb ref c') eqn:Ec'.
  - apply memb_In in Ec. apply memb_In in Ec'.
    rewrite (set_eqb_false_l ref c (other_side names c')); [rewrite orb_false_r; reflexivity|exact Ec|].
    rewrite other_side_In. tauto.
  - apply memb_In in Ec. apply memb_false_In in Ec'.
    rewrite (set_eqb_false_l ref c c' Ec Ec'). reflexivity.
  - apply memb_false_In in Ec. apply memb_In in Ec'.
    rewrite (set_eqb_false_r ref c c' Ec Ec'). simpl.
    apply set_eqb_other_side_swap; assumption.
  - apply memb_false_In in Ec. apply memb_false_In in Ec'.
    rewrite set_eqb_other_side_both by assumption.
    rewrite (set_eqb_false_r ref c (other_side names c')); [rewrite orb_false_r; reflexivity|exact Ec|].
    apply other_side_In. auto.
Qed.

Lemma same_split_respects_r names c : respects (same_split names c).
Proof.
  intros a b H. unfold same_split.
  rewrite (set_eqb_compat_r c a b H).
  rewrite (set_eqb_compat_r c (other_side names a) (other_side names b)); [reflexivity|].
  apply set_eqb_iff. apply other_side_seteq; [apply seteq_refl|apply set_eqb_iff; exact H].
Qed.

Lemma same_split_compat_l names a b c' :
  set_eqb a b = true -> same_split names a c' = same_split names b c'.
Proof.
  intros H. unfold same_split. rewrite !(set_eqb_compat_l a b _ H). reflexivity.
Qed.

Lemma has_split_respects names S : respects (has_split names S).
Proof.
  intros a b H. unfold has_split. apply existsb_ext_in. intros x _.
  apply same_split_compat_l. exact H.
Qed.

Lemma has_split_sdedupe names S c : has_split names (sdedupe S) c = has_split names S c.
Proof. unfold has_split. apply existsb_sdedupe. apply same_split_respects_r. Qed.

Lemma same_split_names n n' c c' : seteq n n' -> same_split n c c' = same_split n' c c'.
Proof.
  intros H. unfold same_split. f_equal. apply set_eqb_compat_r.
  apply set_eqb_iff. apply other_side_seteq; [exact H|apply seteq_refl].
Qed.

(** every leaf set below [t] is a subset of the tips of [t] *)
Lemma leaf_sets_below_incl t : forall c, In c (leaf_sets_below t) -> incl c (tips t).
Proof.
  induction t as [n l cs IH] using tree_ind'. intros c Hc.
  simpl in Hc. apply in_flat_map in Hc. destruct Hc as (ch & Hch & Hc).
  assert (Hsub : incl (tips ch) (tips (Node n l cs))).
  { rewrite tips_node by (intros ->; inversion Hch). unfold tips_of.
    intros x Hx. apply in_flat_map. exists ch. auto. }
  apply in_app_or in Hc. destruct Hc as [Hc|Hc].
  - rewrite Forall_forall in IH. intros x Hx. apply Hsub. apply (IH ch Hch c Hc x Hx).
  - destruct (Nat.ltb 1 (nodup_count (tips ch))); simpl in Hc; [|contradiction].
    destruct Hc as [<-|[]]. exact Hsub.
Qed.

Lemma subsets_incl t : forall c, In c (subsets t) -> incl c (tips t).
Proof. intros c Hc. apply leaf_sets_below_incl. apply In_sdedupe. exact Hc. Qed.

(** membership in a normalised split set is [has_split] *)
Lemma smemb_compute_splits ref names T c :
  In ref names -> incl c names -> (forall c', In c' T -> incl c' names) ->
  smemb (norm ref names c) (compute_splits ref names T) = has_split names T c.
Proof.
  intros Hr Hc HT. rewrite compute_splits_norm, smemb_sdedupe.
  unfold smemb, has_split. rewrite existsb_map. apply existsb_ext_in.
  intros c' Hc'. apply norm_same_split; auto.
Qed.

Lemma smemb_respects S : respects (fun c => smemb c S).
Proof. intros a b H. apply smemb_compat_l. exact H. Qed.

Lemma compute_splits_sub ref names S T :
  In ref names -> (forall c, In c S -> incl c names) -> (forall c, In c T -> incl c names) ->
  ((forall x, In x (compute_splits ref names S) -> smemb x (compute_splits ref names T) = true) <->
   (forall c, In c S -> has_split names T c = true)).
Proof.
  intros Hr HS HT. rewrite (compute_splits_norm ref names S).
  rewrite (forall_sdedupe (fun x => smemb x (compute_splits ref names T))) by apply smemb_respects.
  split.
  - intros H c Hc. rewrite <- (smemb_compute_splits ref names T c); auto.
    apply H. apply in_map. exact Hc.
  - intros H x Hx. apply in_map_iff in Hx. destruct Hx as (c & <- & Hc).
    rewrite smemb_compute_splits; auto.
Qed.

Lemma unrooted_rf_inv t1 t2 d :
  unrooted_rf t1 t2 = Ok d ->
  same_tip_set t1 t2 = true /\
  exists ref, In ref (tips t1) /\
    d = symdiff_count (compute_splits ref (tips t1) (subsets t1))
                      (compute_splits ref (tips t1) (subsets t2)).
Proof.
  unfold unrooted_rf.
  destruct (same_tip_set t1 t2); simpl; [|discriminate].
  destruct (Nat.eqb (length (kids t1)) 2 || Nat.eqb (length (kids t2)) 2); [discriminate|].
  destruct (tips t1) as [|ref rest] eqn:E; [discriminate|].
  intros H. inversion H; subst. split; [reflexivity|].
  exists ref. split; [left; reflexivity|reflexivity].
Qed.

Lemma same_tip_set_incl t1 t2 :
  same_tip_set t1 t2 = true -> forall c, In c (subsets t2) -> incl c (tips t1).
Proof.
  intros Hs c Hc x Hx. unfold same_tip_set in Hs. apply set_eqb_iff in Hs.
  apply Hs. apply (subsets_incl t2 c Hc x Hx).
Qed.

Theorem unrooted_rf_zero_iff_gen : forall t1 t2 d,
  unrooted_rf t1 t2 = Ok d -> (d = 0 <-> same_splits (tips t1) t1 t2).
Proof.
  intros t1 t2 d H. apply unrooted_rf_inv in H. destruct H as (Hs & ref & Hr & ->).
  rewrite symdiff_count_zero_iff.
  pose proof (subsets_incl t1) as H1. pose proof (same_tip_set_incl t1 t2 Hs) as H2.
  rewrite !compute_splits_sub by assumption.
  unfold same_splits, subsets.
  rewrite !(forall_sdedupe (has_split (tips t1) _)) by apply has_split_respects.
  split; intros [Ha Hb]; split; intros c Hc.
  - rewrite <- has_split_sdedupe. apply Ha. exact Hc.
  - rewrite <- has_split_sdedupe. apply Hb. exact Hc.
  - rewrite has_split_sdedupe. apply Ha. exact Hc.
  - rewrite has_split_sdedupe. apply Hb. exact Hc.
Qed.

Theorem unrooted_rf_zero_iff : forall t1 t2 d,
  NoDup (tips t1) -> same_tip_set t1 t2 = true ->
  unrooted_rf t1 t2 = Ok d -> (d = 0 <-> same_splits (tips t1) t1 t2).
Proof. intros t1 t2 d _ _ H. apply unrooted_rf_zero_iff_gen. exact H. Qed.

Theorem unrooted_rf_nonneg : forall t1 t2 d, unrooted_rf t1 t2 = Ok d -> 0 <= d.
Proof.
  intros t1 t2 d H. apply unrooted_rf_inv in H. destruct H as (_ & ref & _ & ->).
  apply symdiff_count_nonneg.
Qed.

Theorem unrooted_rf_self : forall t,
  Nat.eqb (length (kids t)) 2 = false -> unrooted_rf t t = Ok 0.
Proof.
  intros t H. unfold unrooted_rf. rewrite same_tip_set_refl, H. simpl.
  destruct (tips t) as [|ref rest] eqn:E; [exfalso; apply (tips_nonempty t E)|].
  rewrite symdiff_count_self. reflexivity.
Qed.

(* ------------------------------------------------------------------ *)
(** * (D) unrooted RF: independent split-set computation, symmetry *)

(** keep the last representative of every class of a boolean relation *)
Fixpoint gdedupe {A} (e : A -> A -> bool) (S : list A) : list A :=
  match S with
  | [] => []
  | c :: r => if existsb (e c) r then gdedupe e r else c :: gdedupe e r
  end.

Lemma sdedupe_map (f : list name -> list name) S :
  sdedupe (map f S) = map f (gdedupe (fun a b => set_eqb (f a) (f b)) S).
Proof.
  induction S as [|x r IH]; simpl; [reflexivity|].
  unfold smemb. rewrite existsb_map.
  destruct (existsb (fun b => set_eqb (f x) (f b)) r); simpl; rewrite IH; reflexivity.
Qed.

Lemma gdedupe_In {A} (e : A -> A -> bool) S c : In c (gdedupe e S) -> In c S.
Proof.
  induction S as [|x r IH]; simpl; [tauto|].
  destruct (existsb (e x) r); simpl; intros H.
  - right. apply IH. exact H.
  - destruct H as [H|H]; [left; exact H|right; apply IH; exact H].
Qed.

Lemma gdedupe_ext_in {A} (e1 e2 : A -> A -> bool) S :
  (forall a b, In a S -> In b S -> e1 a b = e2 a b) -> gdedupe e1 S = gdedupe e2 S.
Proof.
  induction S as [|x r IH]; intros H; simpl; [reflexivity|].
  rewrite (existsb_ext_in (e1 x) (e2 x) r)
    by (intros y Hy; apply H; [left; reflexivity|right; exact Hy]).
  rewrite IH by (intros a b Ha Hb; apply H; right; assumption).
  reflexivity.
Qed.

(** the one-sided count of [symdiff_count] over normalised split sets does not
    depend on the reference tip: it is the number of split classes of [S]
    (one representative each) that have no equal split in [T] *)
Lemma count_splits ref names S T :
  In ref names -> (forall c, In c S -> incl c names) -> (forall c, In c T -> incl c names) ->
  length (filter (fun c => negb (smemb c (compute_splits ref names T))) (compute_splits ref names S))
  = length (filter (fun c => negb (has_split names T c)) (gdedupe (same_split names) S)).
Proof.
  intros Hr HS HT. rewrite (compute_splits_norm ref names S).
  rewrite sdedupe_map, filter_map, map_length.
  rewrite (gdedupe_ext_in _ (same_split names) S)
    by (intros a b Ha Hb; apply norm_same_split; auto).
  f_equal. apply filter_ext_in. intros c Hc. apply gdedupe_In in Hc.
  f_equal. apply smemb_compute_splits; auto.
Qed.

Lemma count_splits_names n n' S T :
  seteq n n' ->
  length (filter (fun c => negb (has_split n T c)) (gdedupe (same_split n) S))
  = length (filter (fun c => negb (has_split n' T c)) (gdedupe (same_split n') S)).
Proof.
  intros H.
  rewrite (gdedupe_ext_in (same_split n) (same_split n') S)
    by (intros a b _ _; apply same_split_names; exact H).
  f_equal. apply filter_ext. intros c. f_equal. unfold has_split.
  apply existsb_ext_in. intros x _. apply same_split_names. exact H.
Qed.

(** the unrooted distance as an independent computation on split classes *)
Theorem unrooted_rf_is_splitdiff : forall t1 t2 d,
  unrooted_rf t1 t2 = Ok d ->
  d = Z.of_nat (length (filter (fun c => negb (has_split (tips t1) (subsets t2) c))
                               (gdedupe (same_split (tips t1)) (subsets t1))))
    + Z.of_nat (length (filter (fun c => negb (has_split (tips t1) (subsets t1) c))
                               (gdedupe (same_split (tips t1)) (subsets t2)))).
Proof.
  intros t1 t2 d H. apply unrooted_rf_inv in H. destruct H as (Hs & ref & Hr & ->).
  pose proof (subsets_incl t1) as H1. pose proof (same_tip_set_incl t1 t2 Hs) as H2.
  unfold symdiff_count. rewrite !count_splits by assumption. reflexivity.
Qed.

Lemma incl_seteq n n' (S : list (list name)) :
  seteq n n' -> (forall c, In c S -> incl c n) -> (forall c, In c S -> incl c n').
Proof. intros H HS c Hc x Hx. apply H. apply (HS c Hc x Hx). Qed.

Lemma unrooted_core r1 r2 n1 n2 S1 S2 :
  In r1 n1 -> In r2 n2 -> seteq n1 n2 ->
  (forall c, In c S1 -> incl c n1) -> (forall c, In c S2 -> incl c n1) ->
  symdiff_count (compute_splits r1 n1 S1) (compute_splits r1 n1 S2)
  = symdiff_count (compute_splits r2 n2 S2) (compute_splits r2 n2 S1).
Proof.
  intros Hr1 Hr2 Hn H1 H2.
  pose proof (incl_seteq n1 n2 S1 Hn H1) as H1'.
  pose proof (incl_seteq n1 n2 S2 Hn H2) as H2'.
  unfold symdiff_count. rewrite !count_splits by assumption.
  rewrite (count_splits_names n1 n2 S1 S2 Hn), (count_splits_names n1 n2 S2 S1 Hn).
  apply Z.add_comm.
Qed.

Theorem unrooted_rf_sym_gen : forall t1 t2, unrooted_rf t1 t2 = unrooted_rf t2 t1.
Proof.
  intros t1 t2. unfold unrooted_rf.
  rewrite (same_tip_set_sym t2 t1).
  destruct (same_tip_set t1 t2) eqn:Hs; simpl; [|reflexivity].
  rewrite (orb_comm (Nat.eqb (length (kids t2)) 2)).
  destruct (Nat.eqb (length (kids t1)) 2 || Nat.eqb (length (kids t2)) 2); [reflexivity|].
  pose proof (subsets_incl t1) as H1. pose proof (same_tip_set_incl t1 t2 Hs) as H2.
  assert (Hn : seteq (tips t1) (tips t2)) by (apply set_eqb_iff; exact Hs).
  destruct (tips t1) as [|r1 l1] eqn:E1; [exfalso; apply (tips_nonempty t1 E1)|].
  destruct (tips t2) as [|r2 l2] eqn:E2; [exfalso; apply (tips_nonempty t2 E2)|].
  f_equal. apply unrooted_core; auto; left; reflexivity.
Qed.

Theorem unrooted_rf_sym : forall t1 t2,
  NoDup (tips t1) -> NoDup (tips t2) -> unrooted_rf t1 t2 = unrooted_rf t2 t1.
Proof. intros t1 t2 _ _. apply unrooted_rf_sym_gen. Qed.

(* ------------------------------------------------------------------ *)
(** * (E) the dispatching distance *)

Theorem tree_distance_rf_sym_gen : forall t1 t2, tree_distance_rf t1 t2 = tree_distance_rf t2 t1.
Proof.
  intros t1 t2. unfold tree_distance_rf.
  destruct (Nat.eqb (length (kids t1)) 2) eqn:E1; destruct (Nat.eqb (length (kids t2)) 2) eqn:E2;
    simpl; try reflexivity.
  - apply rooted_rf_sym.
  - apply unrooted_rf_sym_gen.
Qed.

Theorem tree_distance_rf_sym : forall t1 t2,
  NoDup (tips t1) -> NoDup (tips t2) -> tree_distance_rf t1 t2 = tree_distance_rf t2 t1.
Proof. intros t1 t2 _ _. apply tree_distance_rf_sym_gen. Qed.

(* ------------------------------------------------------------------ *)
(** * examples: the hypotheses are satisfiable *)

Definition tp (z : Z) : tree := Node [z] None [].
Definition nd (cs : list tree) : tree := Node [] None cs.

(** rooted: (((a,b),c),(d,e)) vs (((a,c),b),(d,e)) *)
Definition ex_r1 : tree := nd [nd [nd [tp 97; tp 98]; tp 99]; nd [tp 100; tp 101]].
Definition ex_r2 : tree := nd [nd [nd [tp 97; tp 99]; tp 98]; nd [tp 100; tp 101]].
(** unrooted: ((a,b),c,(d,e)) vs ((a,c),b,(d,e)) *)
Definition ex_u1 : tree := nd [nd [tp 97; tp 98]; tp 99; nd [tp 100; tp 101]].
Definition ex_u2 : tree := nd [nd [tp 97; tp 99]; tp 98; nd [tp 100; tp 101]].

Example ex_rooted :
  rooted_rf ex_r1 ex_r2 = Ok 2 /\ rooted_rf ex_r2 ex_r1 = Ok 2 /\ rooted_rf ex_r1 ex_r1 = Ok 0 /\
  tree_distance_rf ex_r1 ex_r2 = Ok 2.
Proof. vm_compute. repeat split. Qed.

Example ex_unrooted :
  same_tip_set ex_u1 ex_u2 = true /\
  unrooted_rf ex_u1 ex_u2 = Ok 2 /\ unrooted_rf ex_u2 ex_u1 = Ok 2 /\ unrooted_rf ex_u1 ex_u1 = Ok 0 /\
  tree_distance_rf ex_u1 ex_u2 = Ok 2.
Proof. vm_compute. repeat split. Qed.

Example ex_nodup : NoDup (tips ex_u1) /\ NoDup (tips ex_u2) /\ NoDup (tips ex_r1) /\ NoDup (tips ex_r2).
Proof.
  vm_compute. repeat split;
    repeat (constructor; [simpl; intros H; repeat (destruct H as [H|H]; [discriminate H|]); exact H|]);
    constructor.
Qed.

(** rerooting an unrooted tree at another node leaves the split distance zero:
    ((a,b),c,(d,e)) and (a,b,(c,(d,e))) have the same splits *)
Definition ex_u3 : tree := nd [tp 97; tp 98; nd [tp 99; nd [tp 100; tp 101]]].
Example ex_unrooted_zero : unrooted_rf ex_u1 ex_u3 = Ok 0 /\ unrooted_rf ex_u3 ex_u1 = Ok 0.
Proof. vm_compute. repeat split. Qed.
