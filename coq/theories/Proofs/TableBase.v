(** Basic facts about the column store of Model/Table.v shared by the C20 proofs:
    lookups, [set_cols], sub-tables, rows of index selections. *)
From Coq Require Import Permutation.
From CG3 Require Import Lib.PyZ Lib.Chars Lib.StableSort Lib.Val Model.Csv Model.Table Spec.TableSpec.
Import ListNotations.

Lemma mem_str_In x l : mem_str x l = true <-> In x l.
Proof.
  unfold mem_str. rewrite existsb_exists. split.
  - intros [y [Hy He]]. apply str_eqb_eq in He. subst. exact Hy.
  - intros H. exists x. split; [exact H|apply str_eqb_refl].
Qed.

Lemma mem_str_false x l : mem_str x l = false <-> ~ In x l.
Proof.
  rewrite <- mem_str_In. destruct (mem_str x l); split; intros H.
  - discriminate.
  - exfalso. apply H. reflexivity.
  - intros H'. discriminate.
  - reflexivity.
Qed.

(* ------------------------------------------------------------------ lookups *)

Lemma assoc_get_pos {B} (h : list str) (vs : list B) c d :
  In c h -> length h = length vs -> assoc_get h vs c = Some (nth (pos c h) vs d).
Proof.
  revert vs. induction h as [|x h IH]; intros vs Hin Hlen; [destruct Hin|].
  destruct vs as [|v vs]; [discriminate|].
  cbn [assoc_get pos]. destruct (str_eqb c x) eqn:E; [reflexivity|].
  destruct Hin as [Hx|Hin]; [subst; rewrite str_eqb_refl in E; discriminate|].
  cbn [nth]. apply IH; [exact Hin|]. cbn in Hlen. lia.
Qed.

Lemma assoc_get_none {B} (h : list str) (vs : list B) c :
  ~ In c h -> assoc_get h vs c = None.
Proof.
  revert vs. induction h as [|x h IH]; intros vs Hn; [destruct vs; reflexivity|].
  destruct vs as [|v vs]; [reflexivity|].
  cbn [assoc_get]. destruct (str_eqb c x) eqn:E.
  - apply str_eqb_eq in E. subst. exfalso. apply Hn. left. reflexivity.
  - apply IH. intros H. apply Hn. right. exact H.
Qed.

Definition col_of (t : table) (c : str) : list cell := nth (pos c (hdr t)) (cols t) [].

Lemma get_col_ok t c : wf t -> In c (hdr t) -> get_col t c = Ok (col_of t c).
Proof.
  intros [Hl _] Hin. unfold get_col, col_of. rewrite (assoc_get_pos _ _ _ [] Hin Hl). reflexivity.
Qed.

Lemma get_col_absent t c : ~ In c (hdr t) -> get_col t c = Er E_Key.
Proof. intros H. unfold get_col. rewrite (assoc_get_none _ _ _ H). reflexivity. Qed.

Lemma get_cols_ok t names :
  wf t -> incl names (hdr t) -> get_cols t names = Ok (map (col_of t) names).
Proof.
  intros Hwf. induction names as [|c names IH]; intros Hincl; [reflexivity|].
  cbn [get_cols map]. rewrite (get_col_ok t c Hwf); [|apply Hincl; left; reflexivity].
  cbn [bind]. rewrite IH; [reflexivity|]. intros x Hx. apply Hincl. right. exact Hx.
Qed.

Lemma pos_lt c h : In c h -> (pos c h < length h)%nat.
Proof.
  induction h as [|x h IH]; intros Hin; [destruct Hin|].
  cbn [pos length]. destruct (str_eqb c x) eqn:E; [lia|].
  destruct Hin as [Hx|Hin]; [subst; rewrite str_eqb_refl in E; discriminate|].
  specialize (IH Hin). lia.
Qed.

Lemma col_of_length t c : wf t -> In c (hdr t) -> length (col_of t c) = nrows t.
Proof.
  intros [Hl [Hf _]] Hin. unfold col_of. rewrite Forall_forall in Hf. apply Hf.
  apply nth_In. rewrite <- Hl. apply pos_lt. exact Hin.
Qed.

(* ------------------------------------------------------------------ set_cols *)

Lemma set_cols_ok names : forall vs h c m n,
  length names = length vs ->
  Forall (fun v => length v = n) vs ->
  (m = n \/ m = 0%nat) ->
  NoDup (h ++ names) ->
  set_cols (mkT h c m) names vs =
  Ok (mkT (h ++ names) (c ++ vs) (match names with [] => m | _ => n end)).
Proof.
  induction names as [|x names IH]; intros vs h c m n Hlen Hf Hm Hnd.
  - destruct vs; [|discriminate]. cbn [set_cols]. rewrite !app_nil_r. reflexivity.
  - destruct vs as [|v vs]; [discriminate|].
    inversion Hf as [|? ? Hv Hf']; subst.
    cbn [set_cols]. unfold set_col. cbn [nrows hdr cols].
    assert (Hn : (if Nat.eqb m 0 then length v else m) = length v).
    { destruct Hm as [Hm|Hm]; subst; [destruct (Nat.eqb (length v) 0) eqn:E; [apply Nat.eqb_eq in E; lia|reflexivity]|reflexivity]. }
    rewrite Hn. rewrite Nat.eqb_refl. cbn [negb].
    assert (Hx : mem_str x h = false).
    { apply mem_str_false. intros Hin. apply NoDup_remove_2 in Hnd. apply Hnd. apply in_or_app. left. exact Hin. }
    rewrite Hx. cbn [bind].
    rewrite (IH vs (h ++ [x]) (c ++ [v]) (length v) (length v)).
    + rewrite <- !app_assoc. cbn [app]. destruct names; reflexivity.
    + cbn in Hlen. lia.
    + exact Hf'.
    + left. reflexivity.
    + rewrite <- app_assoc. exact Hnd.
Qed.

Lemma set_cols_empty names vs n :
  length names = length vs -> Forall (fun v => length v = n) vs -> NoDup names ->
  set_cols empty_table names vs = Ok (mkT names vs (match names with [] => 0%nat | _ => n end)).
Proof.
  intros Hlen Hf Hnd. unfold empty_table.
  rewrite (set_cols_ok names vs [] [] 0%nat n Hlen Hf); [reflexivity|right; reflexivity|exact Hnd].
Qed.

(* ------------------------------------------------------------------ rows *)

Lemma row_at_app a b i : row_at (a ++ b) i = row_at a i ++ row_at b i.
Proof. unfold row_at. apply map_app. Qed.

Lemma nth_row_at cs i k : nth k (row_at cs i) CN = nth i (nth k cs []) CN.
Proof.
  unfold row_at. destruct (Nat.ltb k (length cs)) eqn:E.
  - apply Nat.ltb_lt in E.
    rewrite (nth_indep _ CN (nth i [] CN)); [|rewrite map_length; exact E].
    rewrite (map_nth (fun c => nth i c CN)). reflexivity.
  - apply Nat.ltb_ge in E. rewrite !nth_overflow; [destruct i; reflexivity| |rewrite map_length]; try exact E.
    rewrite nth_overflow; [cbn; lia|exact E].
Qed.

Lemma row_at_cols_proj t names i :
  row_at (map (col_of t) names) i = proj (hdr t) names (row_at (cols t) i).
Proof.
  unfold row_at at 1. unfold proj. rewrite map_map. apply map_ext. intros c.
  unfold col_of. rewrite nth_row_at. reflexivity.
Qed.

Lemma map_nth_seq {A} (l : list A) d : map (fun i => nth i l d) (seq 0 (length l)) = l.
Proof.
  induction l as [|a l IH]; [reflexivity|].
  cbn [length seq map nth]. f_equal. rewrite <- seq_shift, map_map. exact IH.
Qed.

(* rows of an index selection = the selected rows *)
Lemma take_rows cs sel :
  map (row_at (map (take sel) cs)) (seq 0 (length sel)) = map (row_at cs) sel.
Proof.
  rewrite <- (map_nth_seq sel 0%nat) at 3. rewrite map_map.
  apply map_ext_in. intros i Hi. apply in_seq in Hi.
  unfold row_at. rewrite map_map. apply map_ext. intros c. unfold take.
  rewrite (nth_indep _ CN (nth 0 c CN)); [|rewrite map_length; lia].
  rewrite (map_nth (fun j => nth j c CN)). reflexivity.
Qed.

Lemma take_length sel c : length (take sel c) = length sel.
Proof. unfold take. apply map_length. Qed.

Lemma rows_mkT h cs n : rows (mkT h cs n) = map (row_at cs) (seq 0 n).
Proof. reflexivity. Qed.

Lemma rows_length t : length (rows t) = nrows t.
Proof. unfold rows, array. rewrite map_length, seq_length. reflexivity. Qed.

(* ------------------------------------------------------------------ sub tables *)

Lemma sub_table_ok t names :
  wf t -> incl names (hdr t) -> NoDup names -> nrows t <> 0%nat -> names <> [] ->
  sub_table t names = Ok (mkT names (map (col_of t) names) (nrows t)).
Proof.
  intros Hwf Hincl Hnd Hn Hne. unfold sub_table. rewrite (get_cols_ok t names Hwf Hincl). cbn [bind].
  destruct (Nat.eqb (nrows t) 0) eqn:E; [apply Nat.eqb_eq in E; contradiction|].
  rewrite (set_cols_empty names (map (col_of t) names) (nrows t)).
  - destruct names; [contradiction|reflexivity].
  - rewrite map_length. reflexivity.
  - rewrite Forall_forall. intros v Hv. apply in_map_iff in Hv. destruct Hv as [c [Hc Hin]]. subst.
    apply col_of_length; [exact Hwf|apply Hincl; exact Hin].
  - exact Hnd.
Qed.

(* self[:, names].array = [ r[names] | r <- rows ] *)
Lemma sub_array_ok t names :
  wf t -> incl names (hdr t) -> NoDup names -> names <> [] ->
  sub_array t names = Ok (map (proj (hdr t) names) (rows t)).
Proof.
  intros Hwf Hincl Hnd Hne. unfold sub_array.
  destruct (Nat.eq_dec (nrows t) 0) as [Hz|Hnz].
  - unfold sub_table. rewrite (get_cols_ok t names Hwf Hincl). cbn [bind].
    rewrite Hz. cbn [Nat.eqb bind]. unfold rows, array. rewrite Hz. reflexivity.
  - rewrite (sub_table_ok t names Hwf Hincl Hnd Hnz Hne). cbn [bind]. f_equal.
    unfold rows, array. cbn [cols nrows]. rewrite map_map. apply map_ext. intros i.
    apply row_at_cols_proj.
Qed.

(* the whole row under the whole header is the row *)
Lemma proj_self_row t i : wf t -> proj (hdr t) (hdr t) (row_at (cols t) i) = row_at (cols t) i.
Proof.
  intros Hwf. rewrite <- row_at_cols_proj. f_equal.
  destruct Hwf as [Hl [_ Hnd]]. unfold col_of.
  revert Hl Hnd. generalize (cols t) as cs. generalize (hdr t) as h.
  induction h as [|x h IH]; intros cs Hl Hnd; destruct cs as [|c cs]; try discriminate; [reflexivity|].
  cbn [map pos]. rewrite str_eqb_refl. cbn [nth]. f_equal.
  inversion Hnd as [|? ? Hx Hnd']; subst.
  transitivity (map (fun c0 => nth (pos c0 h) cs []) h).
  - apply map_ext_in. intros y Hy. cbn [pos]. destruct (str_eqb y x) eqn:E.
    + apply str_eqb_eq in E. subst. contradiction.
    + reflexivity.
  - apply IH; [cbn in Hl; lia|exact Hnd'].
Qed.
