(** C04, alignment side - lemmas about Model/AnnotAln.v on top of the C08
    theorems about FeatureMap composition / inversion and the C03 fact that the
    spans of a well-formed indel map tile the sequence. *)
From CG3 Require Import Lib.PyZ Lib.Val Lib.PySlice Model.View Spec.ViewSpec Proofs.ViewProofs Proofs.ViewSeqProofs.
From CG3 Require Import Model.Annot Spec.AnnotSpec Proofs.AnnotProofs.
From CG3 Require Import Model.IndelMap Model.IndelMapFixed Model.FeatureMap Model.Aligned Model.AnnotAln.
From CG3 Require Import Spec.IndelMapSpec Spec.FeatureMapSpec Spec.AlignedSpec.
From CG3 Require Import Proofs.IndelMapProofs Proofs.IndelMapOps Proofs.FeatureMapProofs Proofs.FeatureMapCovInv Proofs.AlignedProofs.

(** * the row's map as a FeatureMap *)

(** real spans of a tiling, as (start, end) pairs *)
Definition pairs_of (sp : list ispan) : list (Z * Z) :=
  flat_map (fun s => match s with ISpan a b => [(a, b)] | ILost _ => [] end) sp.

Fixpoint chain (p : Z) (L : list (Z * Z)) : Prop :=
  match L with [] => True | (a, b) :: t => a = p /\ a <= b /\ chain b t end.

Lemma tiled_chain sp : forall p q, tiled p sp q -> chain p (pairs_of sp).
Proof.
  induction sp as [|[a b|n] sp IH]; intros p q H; cbn [tiled pairs_of flat_map app] in *; [exact I| |].
  - destruct H as (E & L & H). cbn [chain]. repeat split; try assumption. exact (IH b q H).
  - destruct H as (_ & H). exact (IH p q H).
Qed.

Lemma chain_sorted L : forall p, chain p L -> fold_right FeatureMapSpec.ins_pair [] L = L /\ FeatureMapSpec.chain_ok L = true.
Proof.
  induction L as [|[a b] t IH]; intros p H; [split; reflexivity|].
  cbn [chain] in H. destruct H as (E & Hab & Ht). destruct (IH b Ht) as (IH1 & IH2).
  cbn [fold_right]. rewrite IH1. destruct t as [|[c d] t'].
  - split; reflexivity.
  - cbn [chain] in Ht. destruct Ht as (Ec & Hcd & _). subst c.
    cbn [FeatureMapSpec.ins_pair fst snd].
    replace ((a <? b) || (a =? b) && (b <=? d)) with true by lia.
    split; [reflexivity|]. cbn [FeatureMapSpec.chain_ok]. cbn [FeatureMapSpec.chain_ok] in IH2. rewrite IH2.
    replace (b <=? b) with true by lia. reflexivity.
Qed.

Lemma tiled_fs sp : forall p q, tiled p sp q ->
  map ispan_fspan sp = map (fun s => match s with ISpan a b => FS a b false | ILost n => FL n end) sp.
Proof.
  induction sp as [|[a b|n] sp IH]; intros p q H; cbn [tiled map] in *; [reflexivity| |].
  - destruct H as (E & L & H). rewrite (IH b q H). unfold ispan_fspan at 1, mk_span.
    replace (a >? b) with false by lia. reflexivity.
  - destruct H as (_ & H). rewrite (IH p q H). reflexivity.
Qed.

Lemma tiled_in_parent sp : forall p q, tiled p sp q -> 0 <= p ->
  forallb (FeatureMapSpec.span_in q) (map ispan_fspan sp) = true.
Proof.
  induction sp as [|[a b|n] sp IH]; intros p q H Hp; cbn [tiled map forallb] in *; [reflexivity| |].
  - destruct H as (E & L & H). pose proof (tiled_le _ _ _ H) as Hbq.
    rewrite (IH b q H) by lia. unfold ispan_fspan, mk_span. replace (a >? b) with false by lia.
    cbn [FeatureMapSpec.span_in]. lia.
  - destruct H as (L & H). rewrite (IH p q H Hp). cbn [ispan_fspan FeatureMapSpec.span_in]. lia.
Qed.

Lemma tfm_in_parent m : IndelMapSpec.WF m -> in_parent (to_feature_map m) = true.
Proof.
  intros H. unfold in_parent, to_feature_map. cbn [fspans fplen].
  pose proof (spans_tiled m H) as Ht. exact (tiled_in_parent _ _ _ Ht (Z.le_refl 0)).
Qed.

Lemma tfm_disjoint m : IndelMapSpec.WF m -> disjoint_spans (to_feature_map m) = true.
Proof.
  intros H. pose proof (spans_tiled m H) as Ht. unfold disjoint_spans, to_feature_map. cbn [fspans].
  rewrite (tiled_fs _ _ _ Ht).
  assert (E : flat_map (fun sp => match sp with FS s e _ => [(s, e)] | FL _ => [] end)
                (map (fun s => match s with ISpan a b => FS a b false | ILost n => FL n end) (spans m))
              = pairs_of (spans m)).
  { clear Ht. unfold pairs_of. induction (spans m) as [|[a b|n] l IH]; cbn; [reflexivity| |]; rewrite IH; reflexivity. }
  rewrite E. destruct (chain_sorted _ 0 (tiled_chain _ _ _ Ht)) as (E1 & E2). rewrite E1. exact E2.
Qed.

(** numbering the residues of a mask from [p]: the sequence position each column reads *)
Fixpoint number (p : Z) (k : list bool) : list (option Z) :=
  match k with
  | [] => []
  | true :: t => Some p :: number (p + 1) t
  | false :: t => None :: number p t
  end.

Lemma number_app k1 : forall p k2, number p (k1 ++ k2) = number p k1 ++ number (p + residues k1) k2.
Proof.
  induction k1 as [|[|] k1 IH]; intros p k2; cbn [app number residues].
  - f_equal. lia.
  - rewrite IH. f_equal. f_equal. f_equal. lia.
  - rewrite IH. reflexivity.
Qed.

Lemma number_trues n : forall p, number p (repeat true n) = map Some (zrange_aux p n).
Proof. induction n as [|n IH]; intros p; cbn; [reflexivity|]. rewrite IH. reflexivity. Qed.

Lemma number_falses n p : number p (repeat false n) = repeat None n.
Proof. induction n as [|n IH]; cbn; [reflexivity|]. rewrite IH. reflexivity. Qed.

Lemma residues_trues n : residues (repeat true n) = Z.of_nat n.
Proof. induction n as [|n IH]; cbn [repeat residues]; lia. Qed.

Lemma residues_falses n : residues (repeat false n) = 0.
Proof. induction n as [|n IH]; cbn [repeat residues]; lia. Qed.

Lemma tiled_den sp : forall p q, tiled p sp q ->
  flat_map den_span (map ispan_fspan sp) = number p (concat (map span_mask sp)).
Proof.
  induction sp as [|[a b|n] sp IH]; intros p q H; cbn [tiled map flat_map concat] in *; [reflexivity| |].
  - destruct H as (E & L & H). subst a. rewrite number_app, (IH b q H).
    unfold ispan_fspan, mk_span. replace (p >? b) with false by lia. cbn [den_span span_mask].
    rewrite number_trues, residues_trues. unfold zrange. f_equal. f_equal. lia.
  - destruct H as (L & H). rewrite number_app, (IH p q H). cbn [ispan_fspan den_span span_mask].
    rewrite number_falses, residues_falses. f_equal. f_equal. lia.
Qed.

(** the row's map read as a FeatureMap: column -> sequence position, [None] at gap columns *)
Lemma den_tfm m : IndelMapSpec.WF m -> den (to_feature_map m) = number 0 (abs m).
Proof.
  intros H. unfold den, to_feature_map. cbn [fspans].
  rewrite (tiled_den _ _ _ (spans_tiled m H)). fold (spans_mask m). rewrite (spans_mask_spec m H). reflexivity.
Qed.

(** * the sequence-level map is a FeatureMap inside the row's sequence *)

Definition good (n : Z) (s : Annot.span) : Prop :=
  match s with SSpan a b => 0 <= a <= b /\ b <= n | SLost k => 0 <= k end.

Lemma sfl_lost_nn n l : forall m, Annot.sfl_loop n l = View.Ok m ->
  Forall (fun s => match s with SLost k => 0 <= k | SSpan _ _ => True end) m.
Proof.
  induction l as [|[s e] r IH]; intros m; cbn [Annot.sfl_loop].
  - intros [= <-]. constructor.
  - destruct ((s >? e) || (Z.min s e <? 0)); [discriminate|]. destruct (s >? n); [discriminate|].
    destruct (Annot.sfl_loop n r) as [m2|c]; cbn [View.bind]; [|discriminate]. specialize (IH m2 eq_refl).
    destruct (e >? n); intros [= <-]; repeat constructor; try assumption. lia.
Qed.

Lemma good_combine n m : Forall (AnnotProofs.span_in n) m ->
  Forall (fun s => match s with SLost k => 0 <= k | SSpan _ _ => True end) m -> Forall (good n) m.
Proof.
  intros H1 H2. apply Forall_forall. intros s Hs.
  pose proof (proj1 (Forall_forall _ _) H1 s Hs) as A. pose proof (proj1 (Forall_forall _ _) H2 s Hs) as B.
  destruct s; cbn in *; assumption.
Qed.

Lemma make_feature_good fx n rced sp minus fv : 0 <= n -> proper sp ->
  Annot.make_feature fx n rced sp minus = View.Ok fv -> Forall (good n) (fv_map fv).
Proof.
  intros Hn Hp. unfold Annot.make_feature.
  destruct (all_coords sp) as [|x r]; [discriminate|].
  set (pre := if fold_right Z.min x r <? 0 then _ else 0).
  set (post := if fold_right Z.max x r >? n then _ else 0).
  assert (Hpre : 0 <= pre) by (subst pre; destruct (_ <? 0); lia).
  assert (Hpost : 0 <= post) by (subst post; destruct (_ >? n); lia).
  destruct (Annot.spans_from_locations n (clamp_spans fx n sp)) as [m0|c] eqn:E; [|discriminate].
  cbn [View.bind]. intros [= <-]. cbn [fv_map].
  assert (E0 : Annot.sfl_loop n (clamp_spans fx n sp) = View.Ok m0).
  { unfold Annot.spans_from_locations in E. destruct (clamp_spans fx n sp) as [|[s0 e0] l0] eqn:El.
    - injection E as <-. reflexivity.
    - destruct (s0 >? _); [discriminate|exact E]. }
  destruct (sfl_clamp fx n sp Hn Hp m0 E0) as (_ & Hin).
  pose proof (good_combine n m0 Hin (sfl_lost_nn n _ m0 E0)) as Hg0.
  assert (Hg1 : Forall (good n) (if negb (pre =? 0) || negb (post =? 0)
                 then (if negb (pre =? 0) then [SLost pre] else []) ++ m0 ++ (if negb (post =? 0) then [SLost post] else [])
                 else m0)).
  { destruct (negb (pre =? 0) || negb (post =? 0)); [|exact Hg0].
    apply Forall_app. split; [destruct (negb (pre =? 0)); repeat constructor; exact Hpre|].
    apply Forall_app. split; [exact Hg0|destruct (negb (post =? 0)); repeat constructor; exact Hpost]. }
  destruct rced; [|exact Hg1].
  unfold Annot.nucleic_reversed. apply Forall_rev. apply Forall_map.
  apply (Forall_impl _ (P := good n)); [|exact Hg1]. intros [a b|k] Hs; cbn in *; lia.
Qed.

Lemma good_in_parent n m : Forall (good n) m -> in_parent (fmap_of n m) = true.
Proof.
  intros H. unfold in_parent, fmap_of. cbn [fspans fplen]. apply forallb_forall. intros s Hs.
  apply in_map_iff in Hs. destruct Hs as (x & <- & Hx).
  pose proof (proj1 (Forall_forall _ _) H x Hx) as Hg. destruct x as [a b|k]; cbn in Hg.
  - unfold span_fspan, mk_span. replace (a >? b) with false by lia. cbn. lia.
  - cbn. lia.
Qed.

(** * the alignment-level feature map *)

Lemma zlen_number k : forall p, zlen (number p k) = zlen k.
Proof. induction k as [|[|] k IH]; intros p; cbn [number]; rewrite ?zlen_cons, ?IH; reflexivity. Qed.

Lemma zlen_inverse_den n d : 0 <= n -> zlen (inverse_den n d) = n.
Proof. intros Hn. unfold inverse_den. rewrite zlen_map, zlen_zrange by lia. lia. Qed.

Lemma den_nil_spans fm : fspans fm = [] -> den fm = [].
Proof. unfold den. intros ->. reflexivity. Qed.

(** HEADLINE A: [Aligned.make_feature] succeeds whenever the sequence-level
    [make_feature] does, and cell [j] of the resulting map reads the alignment
    column at which the row's map reads the sequence position that cell [j] of
    the sequence feature reads (lost where the sequence feature is lost) *)
Lemma aligned_feature_den fx r spans minus fv :
  IndelMapSpec.WF (amap r) -> parent_length (amap r) = vlen (sv (adata r)) -> 0 < vlen (sv (adata r)) ->
  proper spans ->
  Annot.make_feature fx (vlen (sv (adata r))) (is_reversed (sv (adata r))) spans minus = View.Ok fv ->
  exists am, aligned_make_feature fx r spans minus = Ok (fv_minus fv, am) /\
    den am = compose (inverse_den (parent_length (amap r)) (den (to_feature_map (amap r))))
                     (den (fmap_of (vlen (sv (adata r))) (fv_map fv))) /\
    fplen am = zlen (abs (amap r)) /\ in_parent am = true.
Proof.
  intros Hwf Hlen Hpos Hp Hmf. set (m := amap r) in *. set (v := sv (adata r)) in *.
  unfold aligned_make_feature. fold m v. rewrite Hmf. cbn [of_view bind].
  pose proof (tfm_in_parent m Hwf) as Hip. pose proof (tfm_disjoint m Hwf) as Hdj.
  destruct (fm_inverse_spec (to_feature_map m) Hip Hdj) as (inv & Einv & Hden & Hfpl & Hipinv).
  rewrite Einv. cbn [bind]. cbn [to_feature_map fplen] in Hden.
  pose proof (make_feature_good fx (vlen v) (is_reversed v) spans minus fv (vlen_nonneg v) Hp Hmf) as Hg.
  pose proof (good_in_parent (vlen v) (fv_map fv) Hg) as Hsub.
  assert (Hdl : zlen (den inv) = vlen v).
  { rewrite Hden, zlen_inverse_den by lia. exact Hlen. }
  assert (Hne : fspans inv <> []).
  { intros E. rewrite (den_nil_spans inv E) in Hdl. change (zlen (@nil (option Z))) with 0 in Hdl. lia. }
  assert (Hfl : fplen (fmap_of (vlen v) (fv_map fv)) = flen inv).
  { rewrite (flen_dlen inv Hipinv), Hdl. reflexivity. }
  destruct (composition_spec inv (fmap_of (vlen v) (fv_map fv)) Hipinv Hne Hsub Hfl) as (c & Ec & Hdc & Hfc & Hic).
  rewrite Ec. cbn [bind]. exists c. split; [reflexivity|]. split; [rewrite Hdc, Hden; reflexivity|].
  split; [|exact Hic]. rewrite Hfc, Hfpl, (den_tfm m Hwf), zlen_number. reflexivity.
Qed.

(** * columns: the inverse of the row's map sends residue [q] to its alignment column *)

(** in a numbered mask, residue [q] sits at exactly one column [a]: the C08
    alignment index of [q] ([is_align_index]) *)
Lemma index_of_number k : forall p i q, p <= q < p + residues k ->
  exists a, index_of q i (number p k) = Some (i + a) /\ 0 <= a < zlen k /\
    znth false k a = true /\ residues (firstn (Z.to_nat a) k) = q - p /\
    znth None (number p k) a = Some q.
Proof.
  induction k as [|[|] k IH]; intros p i q Hq; cbn [residues] in Hq.
  - lia.
  - cbn [number index_of]. destruct (Z.eq_dec p q) as [->|Hne].
    + rewrite Z.eqb_refl. exists 0. rewrite zlen_cons, !znth_0. pose proof (zlen_nonneg k).
      split; [f_equal; lia|]. split; [lia|]. split; [reflexivity|]. split; [cbn; lia|reflexivity].
    + replace (p =? q) with false by lia.
      destruct (IH (p + 1) (i + 1) q ltac:(lia)) as (a & E & Ha & Ht & Hr & Hz).
      exists (a + 1). rewrite zlen_cons, !znth_pos by lia. replace (a + 1 - 1) with a by lia.
      repeat split; try lia; try assumption.
      * rewrite E. f_equal. lia.
      * replace (Z.to_nat (a + 1)) with (S (Z.to_nat a)) by lia. cbn [firstn residues]. lia.
  - cbn [number index_of].
    destruct (IH p (i + 1) q Hq) as (a & E & Ha & Ht & Hr & Hz).
    exists (a + 1). rewrite zlen_cons, !znth_pos by lia. replace (a + 1 - 1) with a by lia.
    repeat split; try lia; try assumption.
    + rewrite E. f_equal. lia.
    + replace (Z.to_nat (a + 1)) with (S (Z.to_nat a)) by lia. cbn [firstn residues]. lia.
Qed.

Lemma residues_abs m : IndelMapSpec.WF m -> residues (abs m) = parent_length m.
Proof.
  intros H. pose proof (spans_tiled m H) as Ht. rewrite <- (spans_mask_spec m H). unfold spans_mask.
  assert (G : forall sp p q, tiled p sp q -> residues (concat (map span_mask sp)) = q - p).
  { induction sp as [|[a b|n] sp IH]; intros p q T; cbn [tiled map concat] in *.
    - cbn. lia.
    - destruct T as (E & L & T). rewrite residues_app'. cbn [span_mask]. rewrite residues_trues, (IH b q T). lia.
    - destruct T as (L & T). rewrite residues_app'. cbn [span_mask]. rewrite residues_falses, (IH p q T). lia. }
  rewrite (G _ _ _ Ht). lia.
Qed.

(** the column of residue [q] of a row *)
Lemma column_of_residue m q : IndelMapSpec.WF m -> 0 <= q < parent_length m ->
  exists a, znth None (inverse_den (parent_length m) (den (to_feature_map m))) q = Some a /\
    is_align_index (abs m) q a /\ znth None (den (to_feature_map m)) a = Some q.
Proof.
  intros H Hq. rewrite (den_tfm m H).
  destruct (index_of_number (abs m) 0 0 q ltac:(rewrite (residues_abs m H); lia)) as (a & E & Ha & Ht & Hr & Hz).
  exists a. split; [|split; [|exact Hz]].
  - unfold inverse_den. rewrite (znth_map _ 0) by (rewrite zlen_zrange; lia).
    rewrite znth_zrange by lia. rewrite Z.add_0_l, E. reflexivity.
  - unfold is_align_index. repeat split; try lia; try assumption.
Qed.

(** * reading the alignment feature back through a row *)

Lemma den_cells_in_range fm q : in_parent fm = true -> In (Some q) (den fm) -> 0 <= q < fplen fm.
Proof.
  intros Hip Hin. apply den_in in Hin. destruct Hin as (s & e & r & Hsp & Hq).
  unfold in_parent in Hip. pose proof (proj1 (forallb_forall _ _) Hip _ Hsp) as H. cbn in H. lia.
Qed.

(** own row: the row's map composed with its inverse is the identity on the sequence *)
Lemma compose_tfm_inverse m d : IndelMapSpec.WF m ->
  (forall q, In (Some q) d -> 0 <= q < parent_length m) ->
  compose (den (to_feature_map m))
          (compose (inverse_den (parent_length m) (den (to_feature_map m))) d) = d.
Proof.
  intros H Hd. unfold compose. rewrite map_map. rewrite <- (map_id d) at 2. apply map_ext_in.
  intros [q|] Hin; [|reflexivity]. specialize (Hd q Hin).
  pose proof (proj1 H) as Hn.
  rewrite zlen_inverse_den by lia. replace ((0 <=? q) && (q <? parent_length m)) with true by lia.
  destruct (column_of_residue m q H Hd) as (a & -> & (Ha & _) & Hz).
  rewrite (den_tfm m H), zlen_number in *. replace ((0 <=? a) && (a <? zlen (abs m))) with true by lia.
  exact Hz.
Qed.

Lemma tfm_spans_ne m : IndelMapSpec.WF m -> 0 < parent_length m -> fspans (to_feature_map m) <> [].
Proof.
  intros H Hp E. pose proof (den_nil_spans _ E) as Hd. rewrite (den_tfm m H) in Hd.
  pose proof (residues_abs m H) as Hr. destruct (abs m) as [|b k]; [cbn in Hr; lia|].
  destruct b; discriminate.
Qed.

(** HEADLINE B: [get_projected_feature]: cell [j] of the projected map reads the
    target row's sequence position at the column cell [j] of the alignment
    feature reads - [None] where the feature is lost or the target has a gap *)
Lemma projected_den t am : IndelMapSpec.WF (amap t) -> 0 < parent_length (amap t) ->
  in_parent am = true -> fplen am = zlen (abs (amap t)) ->
  exists pm, projected_map t am = Ok pm /\
    den pm = compose (number 0 (abs (amap t))) (den am) /\ fplen pm = parent_length (amap t) /\ in_parent pm = true.
Proof.
  intros H Hp Hip Hfp. unfold projected_map.
  pose proof (tfm_in_parent _ H) as Hi.
  assert (Hfl : fplen am = flen (to_feature_map (amap t))).
  { rewrite (flen_dlen _ Hi), (den_tfm _ H), zlen_number. exact Hfp. }
  destruct (composition_spec _ am Hi (tfm_spans_ne _ H Hp) Hip Hfl) as (c & Ec & Hdc & Hfc & Hic).
  exists c. split; [exact Ec|]. split; [rewrite Hdc, (den_tfm _ H); reflexivity|]. split; [exact Hfc|exact Hic].
Qed.

(** HEADLINE C: projected back onto its own row, the alignment feature reads
    exactly the sequence positions of the sequence-level feature *)
Lemma own_row_roundtrip fx r spans minus fv :
  IndelMapSpec.WF (amap r) -> parent_length (amap r) = vlen (sv (adata r)) -> 0 < vlen (sv (adata r)) ->
  proper spans ->
  Annot.make_feature fx (vlen (sv (adata r))) (is_reversed (sv (adata r))) spans minus = View.Ok fv ->
  exists am pm, aligned_make_feature fx r spans minus = Ok (fv_minus fv, am) /\
    projected_map r am = Ok pm /\
    den pm = den (fmap_of (vlen (sv (adata r))) (fv_map fv)).
Proof.
  intros Hwf Hlen Hpos Hp Hmf.
  destruct (aligned_feature_den fx r spans minus fv Hwf Hlen Hpos Hp Hmf) as (am & Eam & Hden & Hfp & Hip).
  destruct (projected_den r am Hwf ltac:(lia) Hip Hfp) as (pm & Epm & Hdp & _ & _).
  exists am, pm. split; [exact Eam|]. split; [exact Epm|].
  rewrite Hdp, Hden, <- (den_tfm _ Hwf). apply compose_tfm_inverse; [exact Hwf|].
  intros q Hq. rewrite Hlen.
  pose proof (make_feature_good fx _ _ spans minus fv (vlen_nonneg _) Hp Hmf) as Hg.
  exact (den_cells_in_range _ q (good_in_parent _ _ Hg) Hq).
Qed.

(** the columns: cell by cell, the alignment feature is lost exactly where the
    sequence feature is, and otherwise reads the C08 alignment index of the
    sequence position the sequence feature reads *)
Definition cell_column (k : list bool) (oa oq : option Z) : Prop :=
  match oa, oq with
  | None, None => True
  | Some a, Some q => is_align_index k q a
  | _, _ => False
  end.

Lemma aln_feature_columns fx r spans minus fv :
  IndelMapSpec.WF (amap r) -> parent_length (amap r) = vlen (sv (adata r)) -> 0 < vlen (sv (adata r)) ->
  proper spans ->
  Annot.make_feature fx (vlen (sv (adata r))) (is_reversed (sv (adata r))) spans minus = View.Ok fv ->
  exists am, aligned_make_feature fx r spans minus = Ok (fv_minus fv, am) /\
    Forall2 (cell_column (abs (amap r))) (den am) (den (fmap_of (vlen (sv (adata r))) (fv_map fv))).
Proof.
  intros Hwf Hlen Hpos Hp Hmf.
  destruct (aligned_feature_den fx r spans minus fv Hwf Hlen Hpos Hp Hmf) as (am & Eam & Hden & Hfp & Hip).
  exists am. split; [exact Eam|]. rewrite Hden.
  pose proof (make_feature_good fx _ _ spans minus fv (vlen_nonneg _) Hp Hmf) as Hg.
  pose proof (good_in_parent _ _ Hg) as Hsub.
  assert (Hr : forall q, In (Some q) (den (fmap_of (vlen (sv (adata r))) (fv_map fv))) -> 0 <= q < parent_length (amap r)).
  { intros q Hq. rewrite Hlen. exact (den_cells_in_range _ q Hsub Hq). }
  revert Hr. generalize (den (fmap_of (vlen (sv (adata r))) (fv_map fv))) as d.
  induction d as [|[q|] d IH]; intros Hr; cbn [compose map]; constructor.
  - specialize (Hr q (or_introl eq_refl)). pose proof (proj1 Hwf) as Hn.
    rewrite zlen_inverse_den by lia. replace ((0 <=? q) && (q <? parent_length (amap r))) with true by lia.
    destruct (column_of_residue _ q Hwf Hr) as (a & -> & Hai & _). exact Hai.
  - apply IH. intros q' Hq'. apply Hr. now right.
  - exact I.
  - apply IH. intros q' Hq'. apply Hr. now right.
Qed.

(** * Alignment.get_features(seqid=row) for one db record *)

Lemma shift_spans_0 l : shift_spans 0 l = l.
Proof. unfold shift_spans. rewrite <- (map_id l) at 2. apply map_ext. intros [a b]. cbn. f_equal; lia. Qed.

Lemma feature_on_view_unfold fx v f : contig v -> 0 < vlen v -> spans_ok 0 (f_spans f) ->
  feature_on_view fx v f =
  Annot.make_feature fx (vlen v) (is_reversed v) (shift_spans (parent_start v) (f_spans f)) (f_minus f).
Proof.
  intros Hc Hlen Hok. unfold feature_on_view.
  rewrite (rel_spans_contig v (f_spans f) 0 Hc Hlen (Z.le_refl 0) Hok). reflexivity.
Qed.

(** HEADLINE D: the whole query path for one row.  [fv] is the Feature the
    sequence-level query of phase 1 builds on the row's sequence view (so
    [feature_slice_spec] says what it denotes); the alignment-level query
    returns the record iff its bounding box overlaps / lies inside the
    absolute segment the row displays, never raises when the sequence-level
    construction does not, and the returned map reads, cell by cell, the
    alignment columns of the sequence positions [fv] reads *)
Lemma aln_feature_spec fx r f partial fv :
  IndelMapSpec.WF (amap r) -> contig (sv (adata r)) ->
  parent_length (amap r) = vlen (sv (adata r)) -> 0 < vlen (sv (adata r)) ->
  spans_ok 0 (f_spans f) ->
  feature_on_view fx (sv (adata r)) f = View.Ok fv ->
  let v := sv (adata r) in
  if db_match partial (parent_start v) (parent_stop v) f then
    exists am pm, aln_feature fx r f partial = Ok (Some (fv_minus fv, am)) /\
      Forall2 (cell_column (abs (amap r))) (den am) (den (fmap_of (vlen v) (fv_map fv))) /\
      projected_map r am = Ok pm /\ den pm = den (fmap_of (vlen v) (fv_map fv))
  else aln_feature fx r f partial = Ok None.
Proof.
  intros Hwf Hc Hlen Hpos Hok Hfv v. subst v.
  rewrite (feature_on_view_unfold fx _ f Hc Hpos Hok) in Hfv.
  pose proof (spans_ok_proper 0 (f_spans f) (parent_start (sv (adata r))) Hok) as Hp.
  unfold aln_feature. replace (vlen (sv (adata r)) =? 0) with false by lia.
  destruct (db_match partial (parent_start (sv (adata r))) (parent_stop (sv (adata r))) f); [|reflexivity].
  assert (Hsp : (if parent_start (sv (adata r)) =? 0 then f_spans f
                 else map (fun p => (fst p - parent_start (sv (adata r)), snd p - parent_start (sv (adata r)))) (f_spans f))
                = shift_spans (parent_start (sv (adata r))) (f_spans f)).
  { destruct (parent_start (sv (adata r)) =? 0) eqn:E; [|reflexivity].
    assert (E0 : parent_start (sv (adata r)) = 0) by lia. rewrite E0, shift_spans_0. reflexivity. }
  rewrite Hsp.
  destruct (aln_feature_columns fx r _ (f_minus f) fv Hwf Hlen Hpos Hp Hfv) as (am & Eam & Hcols).
  destruct (own_row_roundtrip fx r _ (f_minus f) fv Hwf Hlen Hpos Hp Hfv) as (am' & pm & Eam' & Epm & Hdpm).
  rewrite Eam in Eam'. injection Eam' as <-.
  exists am, pm. rewrite Eam. cbn [bind]. repeat split; assumption.
Qed.

(** with the boundary repair the alignment-level query never raises *)
Lemma aln_never_raises_lemma fx r f partial :
  IndelMapSpec.WF (amap r) -> contig (sv (adata r)) ->
  parent_length (amap r) = vlen (sv (adata r)) -> feat_ok f ->
  fx_bound fx = true \/ no_span_ends_at (parent_start (sv (adata r))) (f_spans f) ->
  exists o, aln_feature fx r f partial = Ok o.
Proof.
  intros Hwf Hc Hlen Hf Hfx. pose proof (vlen_nonneg (sv (adata r))) as Hnn.
  destruct (Z.eq_dec (vlen (sv (adata r))) 0) as [E0|E0].
  - unfold aln_feature. rewrite E0. cbn. eexists. reflexivity.
  - assert (Hpos : 0 < vlen (sv (adata r))) by lia.
    destruct (never_raises_lemma fx _ f Hc Hpos Hf Hfx) as (fv & Hfv).
    pose proof (aln_feature_spec fx r f partial fv Hwf Hc Hlen Hpos (proj2 Hf) Hfv) as H. cbv zeta in H.
    destruct (db_match partial _ _ f).
    + destruct H as (am & _ & -> & _). eexists. reflexivity.
    + rewrite H. eexists. reflexivity.
Qed.

(** * every row of every alignment view meets the hypotheses *)

From CG3 Require Import Model.AnnotAlnRun.

(** the row invariant along alignment histories: the C03 class invariant, DNA,
    [n] columns, and the phase-1 view invariant for the row's sequence view *)
Definition ROK (n : Z) (r : arow) : Prop :=
  RowWF r /\ skind (adata r) = KDna /\ row_len r = n /\ vinv (parent (adata r)) 0 (sv (adata r)).

Lemma with_view_inv s keeps rv s' : with_view s keeps rv = View.Ok s' ->
  rv = View.Ok (sv s') /\ parent s' = parent s /\ skind s' = skind s.
Proof. unfold with_view. destruct rv as [v'|e]; [|discriminate]. intros [= <-]. cbn. auto. Qed.

Lemma seq_slice_inv d x y d' : seq_slice d x y = Ok d' ->
  View.getitem_slice FSeqView (sv d) x y None = View.Ok (sv d') /\ parent d' = parent d.
Proof.
  unfold seq_slice, of_view. destruct (apply_op Fixed d (Slice x y None)) as [s'|e] eqn:E; [|discriminate].
  intros [= <-]. cbn [apply_op] in E. destruct (with_view_inv _ _ _ _ E) as (A & B & _). split; assumption.
Qed.

Lemma row_slice_data vr r a b r' : row_getitem_slice vr r a b = Ok r' ->
  exists x y, seq_slice (adata r) x y = Ok (adata r').
Proof.
  unfold row_getitem_slice.
  destruct (imap_slice vr (amap r) a b) as [nm|e]; cbn [bind]; [|discriminate].
  destruct (get_seq_index (amap r) (or0 a)) as [s0|e]; cbn [bind]; [|discriminate].
  destruct (get_seq_index (amap r) (or_len b (len (amap r)))) as [s1|e]; cbn [bind]; [|discriminate].
  destruct (negb (parent_length nm =? 0)).
  - destruct (seq_slice (adata r) (Some s0) (Some s1)) as [d|e] eqn:E; cbn [bind]; [|discriminate].
    destruct (true && (s0 >? s1)); [discriminate|]. intros [= <-]. cbn. eauto.
  - destruct (seq_slice (adata r) None (Some 0)) as [d|e] eqn:E; cbn [bind]; [|discriminate].
    cbn [andb]. intros [= <-]. cbn. eauto.
Qed.

Lemma zlen_unit_slice {A} (D : list A) a b : 0 <= a <= b -> b <= zlen D ->
  zlen (py_slice D (Some a) (Some b) 1) = b - a.
Proof.
  intros Hab Hb. rewrite py_slice_unit by assumption. unfold zlen. rewrite gather_length.
  - unfold zr. rewrite prog_length. lia.
  - intros i Hi. apply zr_In in Hi. lia.
Qed.

Lemma ROK_slice n r a b r' : ROK n r -> 0 <= a <= b -> b <= n ->
  row_getitem_slice repaired r (Some a) (Some b) = Ok r' -> ROK (b - a) r'.
Proof.
  intros (Hwf & Hk & Hn & Hv) Hab Hb H.
  destruct (row_slice_python repaired r (Some a) (Some b) Hwf) as (r2 & E & Hwf' & Hk' & Hstr);
    [cbn; lia|cbn; lia|]. rewrite E in H. injection H as Heq. subst r2.
  split; [exact Hwf'|]. split; [congruence|]. split.
  - rewrite <- (zlen_row_str r' Hwf'), Hstr. apply zlen_unit_slice; [lia|]. rewrite (zlen_row_str r Hwf). lia.
  - destruct (row_slice_data _ _ _ _ _ E) as (x & y & Hs). destruct (seq_slice_inv _ _ _ _ Hs) as (Hg & Hp).
    rewrite Hp. exact (vinv_getitem _ 0 _ x y None _ Hv eq_refl Hg).
Qed.

Lemma ROK_rc n r r' : ROK n r -> row_rc r = Ok r' -> ROK n r'.
Proof.
  intros (Hwf & Hk & Hn & Hv) H.
  destruct (row_rc_spec r Hwf ltac:(rewrite Hk; discriminate)) as (r2 & E & Hwf' & Hk' & Hstr).
  rewrite E in H. injection H as Heq. subst r2.
  split; [exact Hwf'|]. split; [congruence|]. split.
  - rewrite <- (zlen_row_str r' Hwf'), Hstr. unfold rc_str. rewrite zlen_map, zlen_rev, (zlen_row_str r Hwf). exact Hn.
  - unfold row_rc in E. destruct (nucleic_reversed (amap r)) as [nm|e]; cbn [bind] in E; [|discriminate].
    unfold of_view in E. destruct (apply_op Fixed (adata r) Rc) as [d|e] eqn:Ed; cbn [bind] in E; [|discriminate].
    injection E as <-. cbn [adata]. cbn [apply_op] in Ed. rewrite Hk in Ed.
    destruct (with_view_inv _ _ _ _ Ed) as (Hg & Hp & _). rewrite Hp.
    exact (vinv_getitem _ 0 _ None None (Some (-1)) _ Hv eq_refl Hg).
Qed.

Lemma ROK_init s r : row_of_string KDna s = Ok r -> ROK (zlen s) r.
Proof.
  intros H. destruct (row_of_string_spec KDna s) as (r2 & E & Hwf & Hk & Hstr). rewrite E in H. injection H as Heq. subst r2.
  split; [exact Hwf|]. split; [exact Hk|]. split; [rewrite <- (zlen_row_str r Hwf), Hstr; reflexivity|].
  unfold row_of_string, of_view in E. destruct (fresh KDna (strip s)) as [d|e] eqn:Ed; cbn [bind] in E; [|discriminate].
  injection E as <-. cbn [adata]. unfold fresh in Ed. destruct (with_view_inv _ _ _ _ Ed) as (Hg & Hp & _).
  cbn [parent] in Hp. rewrite Hp. exact (vinv_init (strip s) 0 (Z.le_refl 0) _ Hg).
Qed.

Lemma mapM_Forall {A B} (f : A -> res B) (P : A -> Prop) (Q : B -> Prop) l :
  (forall x y, P x -> f x = Ok y -> Q y) -> Forall P l -> forall l', mapM f l = Ok l' -> Forall Q l'.
Proof.
  intros Hf. induction l as [|x t IH]; intros HP l'; cbn [mapM].
  - intros [= <-]. constructor.
  - inversion HP as [|a b Hx Ht]; subst.
    destruct (f x) as [y|e] eqn:E; cbn [bind]; [|discriminate].
    destruct (mapM f t) as [ys|e] eqn:Et; cbn [bind]; [|discriminate]. intros [= <-].
    constructor; [exact (Hf x y Hx E)|exact (IH Ht ys eq_refl)].
Qed.

(** slices [a:b] with 0 <= a <= b <= current number of columns, and rc *)
Fixpoint hist_ok (n : Z) (ops : list alop) : Prop :=
  match ops with
  | [] => True
  | ASlice a b :: t => 0 <= a <= b /\ b <= n /\ hist_ok (b - a) t
  | ARc :: t => hist_ok n t
  end.

Fixpoint hist_len (n : Z) (ops : list alop) : Z :=
  match ops with [] => n | ASlice a b :: t => hist_len (b - a) t | ARc :: t => hist_len n t end.

Lemma fold_alop_err e ops : fold_left apply_alop ops (Err e) = Err e.
Proof. induction ops as [|o ops IH]; [reflexivity|exact IH]. Qed.

Lemma alignment_history_rows ops : forall n rows rows', Forall (ROK n) rows -> hist_ok n ops ->
  fold_left apply_alop ops (Ok rows) = Ok rows' -> Forall (ROK (hist_len n ops)) rows'.
Proof.
  induction ops as [|o ops IH]; intros n rows rows' Hr Hh H.
  - cbn in H. injection H as <-. exact Hr.
  - cbn [fold_left] in H. destruct (apply_alop (Ok rows) o) as [rows1|e] eqn:E; [|rewrite fold_alop_err in H; discriminate].
    cbn [apply_alop bind] in E. destruct o as [a b|]; cbn [hist_ok hist_len] in *.
    + destruct Hh as (Hab & Hb & Hh).
      apply (IH (b - a) rows1 rows'); [|exact Hh|exact H].
      apply (mapM_Forall (fun r => row_getitem_slice repaired r (Some a) (Some b)) (ROK n) (ROK (b - a)) rows); [|exact Hr|exact E].
      intros x y Hx Hy. exact (ROK_slice n x a b y Hx Hab Hb Hy).
    + apply (IH n rows1 rows'); [|exact Hh|exact H].
      apply (mapM_Forall row_rc (ROK n) (ROK n) rows); [|exact Hr|exact E].
      intros x y Hx Hy. exact (ROK_rc n x y Hx Hy).
Qed.

Lemma alignment_init_rows strs n rows : Forall (fun s => zlen s = n) strs ->
  mapM (row_of_string KDna) strs = Ok rows -> Forall (ROK n) rows.
Proof.
  intros Hs H. apply (mapM_Forall (row_of_string KDna) (fun s => zlen s = n) (ROK n) strs); [|exact Hs|exact H].
  intros s r Hz Hr. rewrite <- Hz. exact (ROK_init s r Hr).
Qed.

(** a row that displays residues meets the hypotheses of the alignment theorems *)
Lemma ROK_hyps n r : ROK n r -> 0 < vlen (sv (adata r)) ->
  IndelMapSpec.WF (amap r) /\ contig (sv (adata r)) /\ parent_length (amap r) = vlen (sv (adata r)) /\
  zlen (parent (adata r)) = seq_len (sv (adata r)) /\ offset (sv (adata r)) = 0.
Proof.
  intros ((Hm & Hs & Hp) & Hk & Hn & Hv) Hpos.
  destruct (vinv_contig _ 0 _ Hv Hpos) as (Hc & Hz & Ho).
  split; [exact Hm|]. split; [exact Hc|]. split; [|split; assumption].
  rewrite Hp. unfold realise. destruct Hc as (Hwf & _).
  destruct (is_reversed (sv (adata r))); rewrite ?zlen_map; exact (len_value_lemma _ _ Hwf Hz).
Qed.

(** HEADLINE E: everything together, for every gap layout, every history of
    alignment slices and reverse complements, every row that still displays
    residues, every well-formed feature of that row's sequence *)
Lemma alignment_view_features_lemma fx strs n ops rows r f partial fv :
  Forall (fun s => zlen s = n) strs -> hist_ok n ops ->
  fold_left apply_alop ops (mapM (row_of_string KDna) strs) = Ok rows ->
  In r rows -> 0 < vlen (sv (adata r)) -> spans_ok 0 (f_spans f) ->
  feature_on_view fx (sv (adata r)) f = View.Ok fv ->
  let v := sv (adata r) in
  fv_minus fv = xorb (f_minus f) (is_reversed v) /\
  get_slice_str v (parent (adata r)) fv = View.Ok (denoted (parent (adata r)) 0 (parent_start v) (parent_stop v) f) /\
  if db_match partial (parent_start v) (parent_stop v) f then
    exists am pm, aln_feature fx r f partial = Ok (Some (fv_minus fv, am)) /\
      Forall2 (cell_column (abs (amap r))) (den am) (den (fmap_of (vlen v) (fv_map fv))) /\
      projected_map r am = Ok pm /\ den pm = den (fmap_of (vlen v) (fv_map fv))
  else aln_feature fx r f partial = Ok None.
Proof.
  intros Hs Hh Hfold Hin Hpos Hok Hfv v.
  destruct (mapM (row_of_string KDna) strs) as [rows0|e] eqn:E0; [|rewrite fold_alop_err in Hfold; discriminate].
  pose proof (alignment_history_rows ops n rows0 rows (alignment_init_rows strs n rows0 Hs E0) Hh Hfold) as Hall.
  pose proof (proj1 (Forall_forall _ _) Hall r Hin) as Hr.
  destruct (ROK_hyps _ r Hr Hpos) as (Hm & Hc & Hpl & Hz & Ho).
  destruct (feature_slice_lemma fx (sv (adata r)) (parent (adata r)) f fv Hc Hpos Hz Hok Hfv) as (H1 & H2).
  rewrite Ho in H2. split; [exact H1|]. split; [exact H2|].
  exact (aln_feature_spec fx r f partial fv Hm Hc Hpl Hpos Hok Hfv).
Qed.

(** non-vacuity: rows "AC-GTA" / "-CG-TA", columns [1:6] then rc; the two-span
    minus-strand feature [(0,2),(3,5)] of the first row's sequence *)
Definition wa_rows : list (list Z) := [[65; 67; 45; 71; 84; 65]; [45; 67; 71; 45; 84; 65]].
Definition wa_ops : list alop := [ASlice 1 6; ARc].
Definition wa_feat : feat := mkF [(0, 2); (3, 5)] true.

Example alignment_instance :
  Forall (fun s => zlen s = 6) wa_rows /\ hist_ok 6 wa_ops /\
  exists rows r fv am, fold_left apply_alop wa_ops (mapM (row_of_string KDna) wa_rows) = Ok rows /\
    nth_error rows 0 = Some r /\ 0 < vlen (sv (adata r)) /\
    feature_on_view Annot.pinned (sv (adata r)) wa_feat = View.Ok fv /\
    aln_feature Annot.pinned r wa_feat true = Ok (Some (false, am)) /\
    fm_get_coordinates am = [(0, 2); (4, 5)] /\
    map (fun r' => row_feature_slice r' false am) rows = [Ok [84; 65; 71]; Ok [84; 65; 71]].
Proof.
  split; [repeat constructor|]. split; [cbn; lia|].
  eexists. eexists. eexists. eexists.
  split; [vm_compute; reflexivity|]. split; [vm_compute; reflexivity|]. split; [vm_compute; reflexivity|].
  split; [vm_compute; reflexivity|]. split; [vm_compute; reflexivity|]. split; vm_compute; reflexivity.
Qed.

(** * string level: the row's characters at the feature's columns *)

Definition somes (d : list (option Z)) : list Z :=
  flat_map (fun o => match o with Some x => [x] | None => [] end) d.

Lemma zget_cons_pos {A} (x : A) l i : 0 < i -> zget (x :: l) i = zget l (i - 1).
Proof.
  intros H. unfold zget. replace (i <? 0) with false by lia. replace (i - 1 <? 0) with false by lia.
  replace (Z.to_nat i) with (S (Z.to_nat (i - 1))) by lia. reflexivity.
Qed.

(** the mask filled with residues holds residue number [residues k[:a]] at a residue column [a] *)
Lemma fill_at k : forall d a, 0 <= a < zlen k -> znth false k a = true -> residues k <= zlen d ->
  zget (fill k d) a = zget d (residues (firstn (Z.to_nat a) k)).
Proof.
  induction k as [|[|] k IH]; intros d a Ha Ht Hr.
  - change (zlen (@nil bool)) with 0 in Ha. lia.
  - rewrite zlen_cons in Ha. cbn [residues] in Hr. destruct d as [|x d]; [change (zlen (@nil Z)) with 0 in Hr; pose proof (residues_nonneg' k); lia|].
    rewrite zlen_cons in Hr. cbn [fill]. destruct (Z.eq_dec a 0) as [->|Hne]; [reflexivity|].
    rewrite znth_pos in Ht by lia. rewrite zget_cons_pos by lia.
    replace (Z.to_nat a) with (S (Z.to_nat (a - 1))) by lia. cbn [firstn residues].
    rewrite (IH d (a - 1)) by (try assumption; lia).
    pose proof (residues_nonneg' (firstn (Z.to_nat (a - 1)) k)).
    rewrite (zget_cons_pos x d (1 + _)) by lia. f_equal. lia.
  - rewrite zlen_cons in Ha. cbn [residues] in Hr. cbn [fill]. destruct (Z.eq_dec a 0) as [->|Hne]; [rewrite znth_0 in Ht; discriminate|].
    rewrite znth_pos in Ht by lia. rewrite zget_cons_pos by lia.
    replace (Z.to_nat a) with (S (Z.to_nat (a - 1))) by lia. cbn [firstn residues].
    apply IH; try assumption; lia.
Qed.

(** HEADLINE F: read in column order, the characters of the row's gapped string
    at the columns the alignment feature denotes are the residues the row's
    sequence view displays at the positions the sequence feature reads *)
Lemma columns_hold_residues k D dam dsub : residues k = zlen D ->
  Forall2 (cell_column k) dam dsub ->
  gather (fill k D) (somes dam) = gather D (somes dsub).
Proof.
  intros Hr H. induction H as [|oa oq la lq Hc _ IH]; [reflexivity|].
  destruct oa as [a|], oq as [q|]; cbn [cell_column] in Hc; try contradiction; cbn [somes flat_map app].
  - fold (somes la) (somes lq). rewrite !gather_cons, IH. f_equal.
    destruct Hc as (Ha & Ht & Hq). rewrite (fill_at k D a Ha Ht) by lia. rewrite Hq. reflexivity.
  - exact IH.
Qed.

Lemma prog_zrange_aux a k : prog a 1 k = zrange_aux a k.
Proof. revert a. induction k as [|k IH]; intros a; cbn; [reflexivity|]. rewrite IH. reflexivity. Qed.

Lemma somes_map_some l : somes (map Some l) = l.
Proof. induction l as [|x l IH]; cbn; [reflexivity|]. f_equal. exact IH. Qed.

Lemma somes_app a b : somes (a ++ b) = somes a ++ somes b.
Proof. unfold somes. apply flat_map_app. Qed.

Lemma somes_nones n : somes (repeat None n) = [].
Proof. induction n as [|n IH]; cbn; [reflexivity|exact IH]. Qed.

(** the Some-cells of a sequence-level map are the positions phase 1 calls [mpos] *)
Lemma somes_den_fmap_of n m : Forall (good n) m -> somes (den (fmap_of n m)) = mpos m.
Proof.
  unfold den, fmap_of. cbn [fspans]. induction m as [|[a b|k] m IH]; intros H; [reflexivity| |];
    inversion H as [|x y Hx Hr]; subst; cbn [map flat_map mpos]; fold (mpos m); rewrite somes_app, (IH Hr).
  - cbn in Hx. unfold span_fspan, mk_span. replace (a >? b) with false by lia. cbn [den_span].
    rewrite somes_map_some. f_equal. unfold zr, zrange. apply eq_sym, prog_zrange_aux.
  - cbn [span_fspan den_span]. rewrite somes_nones. reflexivity.
Qed.

Lemma good_span_in n m : Forall (good n) m -> Forall (AnnotProofs.span_in n) m.
Proof. apply Forall_impl. intros [a b|k] H; cbn in *; [lia|exact I]. Qed.

(** HEADLINE G: the slice of the sequence-level feature is, up to the strand
    flip, the row's gapped string read at the columns the alignment-level
    feature denotes - i.e. those columns hold exactly the feature's residues *)
Lemma feature_columns_string fx r spans minus fv am :
  RowWF r -> skind (adata r) = KDna -> contig (sv (adata r)) ->
  zlen (parent (adata r)) = seq_len (sv (adata r)) -> proper spans ->
  Annot.make_feature fx (vlen (sv (adata r))) (is_reversed (sv (adata r))) spans minus = View.Ok fv ->
  Forall2 (cell_column (abs (amap r))) (den am) (den (fmap_of (vlen (sv (adata r))) (fv_map fv))) ->
  get_slice_str (sv (adata r)) (parent (adata r)) fv =
    View.Ok (let s := gather (row_str r) (somes (den am)) in if fv_minus fv then cmpl (rev s) else s).
Proof.
  intros (Hm & Hs & Hpl) Hk Hc Hz Hp Hmf Hcols. set (v := sv (adata r)) in *. set (p := parent (adata r)) in *.
  pose proof (make_feature_good fx (vlen v) (is_reversed v) spans minus fv (vlen_nonneg v) Hp Hmf) as Hg.
  unfold get_slice_str. destruct Hc as (Hwf & Habs & Hoff).
  rewrite (segments_spec v p (without_gaps (fv_map fv)) Hwf Hz)
    by (try apply Forall_without_gaps; try apply without_gaps_no_lost; now apply good_span_in).
  cbn [View.bind]. rewrite mpos_without_gaps. f_equal.
  assert (E : orient v (gather (value v p) (mpos (fv_map fv))) = gather (row_str r) (somes (den am))).
  { unfold row_str. rewrite (columns_hold_residues _ (realise (adata r)) _ _ ltac:(rewrite (residues_abs _ Hm); exact Hpl) Hcols).
    rewrite (somes_den_fmap_of _ _ Hg). unfold realise, orient. fold v p. rewrite Hk.
    destruct (is_reversed v); [unfold cmpl; rewrite gather_map|]; reflexivity. }
  rewrite E. reflexivity.
Qed.

(** * PHASE 3 (1): copies - histories of slice / rc / copy / deepcopy on alignments *)

From CG3 Require Model.AnnotRun.
Import Model.AnnotRun.

(** row invariant relative to the ORIGINAL degapped row [p0]: the C03 class
    invariant, DNA, [n] columns, and the phase-1 history invariant (the row's
    (view, parent) reads [p0]'s residues at every absolute coordinate it covers) *)
Definition RH (p0 : list Z) (n : Z) (r : arow) : Prop :=
  RowWF r /\ skind (adata r) = KDna /\ row_len r = n /\ hinv p0 0 (sv (adata r), parent (adata r)).

Lemma RH_init s r : row_of_string KDna s = Ok r -> RH (strip s) (zlen s) r.
Proof.
  intros H. destruct (ROK_init s r H) as (Hwf & Hk & Hn & Hv).
  assert (Hp : parent (adata r) = strip s).
  { unfold row_of_string, of_view in H. destruct (fresh KDna (strip s)) as [d|e] eqn:Ed; cbn [bind] in H; [|discriminate].
    injection H as <-. cbn [adata]. unfold fresh in Ed. destruct (with_view_inv _ _ _ _ Ed) as (_ & Hp & _). exact Hp. }
  split; [exact Hwf|]. split; [exact Hk|]. split; [exact Hn|].
  rewrite Hp in *. destruct Hv as (W & O & P). split; [exact W|]. split; [exact O|].
  intros Hl. destruct (P Hl) as (A & B & C). split; [exact A|]. split; [exact B|]. intros x _. rewrite C. reflexivity.
Qed.

Lemma hinv_getitem p0 v p x y c v' : hinv p0 0 (v, p) -> c = None \/ c = Some 1 \/ c = Some (-1) ->
  View.getitem_slice FSeqView v x y c = View.Ok v' -> hinv p0 0 (v', p).
Proof.
  intros Hv Hc Hg. destruct Hc as [->|[->| ->]].
  - apply (hinv_step p0 0 (v, p) (HOp (VSlice x y None)) (v', p) Hv); [cbn; auto|].
    cbn [apply_hop apply_vop View.bind]. rewrite Hg. reflexivity.
  - apply (hinv_step p0 0 (v, p) (HOp (VSlice x y (Some 1))) (v', p) Hv); [cbn; auto|].
    cbn [apply_hop apply_vop View.bind]. rewrite Hg. reflexivity.
  - (* rc is the [::-1] slice with both bounds omitted *)
    destruct Hv as (Hwf & Hoff & Hpos).
    assert (Hvv : vinv p (offset v) v).
    { split; [assumption|]. split; [assumption|]. intros Hl. destruct (Hpos Hl) as (A & B & _). tauto. }
    destruct (vinv_getitem p (offset v) v x y (Some (-1)) v' Hvv eq_refl Hg) as (Hwf' & Hoff' & Hpos').
    split; [assumption|]. split; [assumption|]. intros Hl'. destruct (Hpos' Hl') as (A & B & C).
    destruct (shape_getitem_slice _ _ _ _ _ _ Hwf Hg) as [_ Hz]. pose proof (vlen_nonneg v).
    assert (Hl : 0 < vlen v) by (destruct (Z.eq_dec (vlen v) 0) as [E0|E0]; [specialize (Hz E0); lia|lia]).
    destruct (Hpos Hl) as (_ & _ & Hres). split; [assumption|]. split; [assumption|]. rewrite C. exact Hres.
Qed.

Lemma RH_slice p0 n r a b r' : RH p0 n r -> 0 <= a <= b -> b <= n ->
  row_getitem_slice repaired r (Some a) (Some b) = Ok r' -> RH p0 (b - a) r'.
Proof.
  intros (Hwf & Hk & Hn & Hv) Hab Hb H.
  destruct (row_slice_python repaired r (Some a) (Some b) Hwf) as (r2 & E & Hwf' & Hk' & Hstr);
    [cbn; lia|cbn; lia|]. rewrite E in H. injection H as Heq. subst r2.
  split; [exact Hwf'|]. split; [congruence|]. split.
  - rewrite <- (zlen_row_str r' Hwf'), Hstr. apply zlen_unit_slice; [lia|]. rewrite (zlen_row_str r Hwf). lia.
  - destruct (row_slice_data _ _ _ _ _ E) as (x & y & Hs). destruct (seq_slice_inv _ _ _ _ Hs) as (Hg & Hp).
    rewrite Hp. exact (hinv_getitem p0 _ _ x y None _ Hv (or_introl eq_refl) Hg).
Qed.

Lemma RH_rc p0 n r r' : RH p0 n r -> row_rc r = Ok r' -> RH p0 n r'.
Proof.
  intros (Hwf & Hk & Hn & Hv) H.
  destruct (row_rc_spec r Hwf ltac:(rewrite Hk; discriminate)) as (r2 & E & Hwf' & Hk' & Hstr).
  rewrite E in H. injection H as Heq. subst r2.
  split; [exact Hwf'|]. split; [congruence|]. split.
  - rewrite <- (zlen_row_str r' Hwf'), Hstr. unfold rc_str. rewrite zlen_map, zlen_rev, (zlen_row_str r Hwf). exact Hn.
  - unfold row_rc in E. destruct (nucleic_reversed (amap r)) as [nm|e]; cbn [bind] in E; [|discriminate].
    unfold of_view in E. destruct (apply_op Fixed (adata r) Rc) as [d|e] eqn:Ed; cbn [bind] in E; [|discriminate].
    injection E as <-. cbn [adata]. cbn [apply_op] in Ed. rewrite Hk in Ed.
    destruct (with_view_inv _ _ _ _ Ed) as (Hg & Hp & _). rewrite Hp.
    exact (hinv_getitem p0 _ _ None None (Some (-1)) _ Hv (or_intror (or_intror eq_refl)) Hg).
Qed.

(** [data.copy(sliced=True)] does not look at name / moltype flags *)
Lemma copy_sliced_core s s' : apply_op Fixed s CopySliced = View.Ok s' ->
  apply_op Fixed (mkS (sv s) (parent s) KDna true) CopySliced = View.Ok (mkS (sv s') (parent s') KDna true) /\
  skind s' = skind s.
Proof.
  cbn [apply_op sv parent skind has_id]. destruct (copy_sliced false (sv s) (parent s)) as [[v'|e] sg]; [|discriminate].
  destruct (negb (parent_start (sv s) =? 0) && negb (offset v' =? 0)); [discriminate|].
  intros [= <-]. cbn. split; reflexivity.
Qed.

(** [Aligned.deepcopy(sliced=True)]: same map, re-based sequence; the pinned
    comparison [strand == "-"] of an int with a str never holds, so the db is kept *)
Lemma RH_copy p0 n r d : RH p0 n r -> of_view (apply_op Fixed (adata r) CopySliced) = Ok d ->
  RH p0 n (mkRow (amap r) d).
Proof.
  intros ((Hm & Hs & Hp) & Hk & Hn & Hv) H. unfold of_view in H.
  destruct (apply_op Fixed (adata r) CopySliced) as [d'|e] eqn:E; [|discriminate]. injection H as <-.
  pose proof (apply_op_spec Fixed (adata r) CopySliced Hs I) as Hspec. rewrite E in Hspec.
  destruct Hspec as (Hs' & Hplain). cbn [spec_op] in Hplain. unfold plain_of in Hplain.
  injection Hplain as Hre Hkk.
  destruct (copy_sliced_core _ _ E) as (Ecore & _).
  split; [split; [exact Hm|split; [exact Hs'|cbn [amap adata]; rewrite <- Hre; exact Hp]]|].
  split; [cbn [adata]; congruence|]. split; [exact Hn|]. cbn [adata].
  apply (hinv_step p0 0 (sv (adata r), parent (adata r)) HCopy (sv d', parent d') Hv I).
  cbn [apply_hop View.bind]. rewrite Ecore. reflexivity.
Qed.

(** histories: slices inside the current columns, rc, and copies
    ([deepcopy(sliced=True)], [deepcopy(sliced=False)], [copy()]) *)
Fixpoint hhist_ok (n : Z) (ops : list alhop) : Prop :=
  match ops with
  | [] => True
  | AOp (ASlice a b) :: t => 0 <= a <= b /\ b <= n /\ hhist_ok (b - a) t
  | _ :: t => hhist_ok n t
  end.

Fixpoint hhist_len (n : Z) (ops : list alhop) : Z :=
  match ops with [] => n | AOp (ASlice a b) :: t => hhist_len (b - a) t | _ :: t => hhist_len n t end.

Lemma mapM_Forall2 {A B C} (f : B -> res C) (P : A -> B -> Prop) (Q : A -> C -> Prop) :
  (forall a x y, P a x -> f x = Ok y -> Q a y) ->
  forall la l, Forall2 P la l -> forall l', mapM f l = Ok l' -> Forall2 Q la l'.
Proof.
  intros Hf la l H. induction H as [|a x la l Hax _ IH]; intros l'; cbn [mapM].
  - intros [= <-]. constructor.
  - destruct (f x) as [y|e] eqn:E; cbn [bind]; [|discriminate].
    destruct (mapM f l) as [ys|e] eqn:Et; cbn [bind]; [|discriminate]. intros [= <-].
    constructor; [exact (Hf a x y Hax E)|exact (IH ys eq_refl)].
Qed.

Lemma fold_alhop_err e ops : fold_left apply_alhop ops (Err e) = Err e.
Proof.
  induction ops as [|o ops IH]; [reflexivity|]. cbn [fold_left].
  assert (E : apply_alhop (Err e) o = Err e) by (destruct o as [o'|[|]]; reflexivity). rewrite E. exact IH.
Qed.

Lemma alignment_copy_history ops : forall n (p0s : list (list Z)) rows rows',
  Forall2 (fun p0 r => RH p0 n r) p0s rows -> hhist_ok n ops ->
  fold_left apply_alhop ops (Ok rows) = Ok rows' ->
  Forall2 (fun p0 r => RH p0 (hhist_len n ops) r) p0s rows'.
Proof.
  induction ops as [|o ops IH]; intros n p0s rows rows' Hr Hh H.
  - cbn in H. injection H as <-. exact Hr.
  - cbn [fold_left] in H. destruct (apply_alhop (Ok rows) o) as [rows1|e] eqn:E; [|rewrite fold_alhop_err in H; discriminate].
    destruct o as [[a b|]|[|]]; cbn [hhist_ok hhist_len] in *.
    + destruct Hh as (Hab & Hb & Hh). cbn [apply_alhop apply_alop bind] in E.
      apply (IH (b - a) p0s rows1 rows'); [|exact Hh|exact H].
      apply (mapM_Forall2 (fun r => row_getitem_slice repaired r (Some a) (Some b)) (fun p0 r => RH p0 n r)
               (fun p0 r => RH p0 (b - a) r)) with (l := rows); [|exact Hr|exact E].
      intros p0 x y Hx Hy. exact (RH_slice p0 n x a b y Hx Hab Hb Hy).
    + cbn [apply_alhop apply_alop bind] in E. apply (IH n p0s rows1 rows'); [|exact Hh|exact H].
      apply (mapM_Forall2 row_rc (fun p0 r => RH p0 n r) (fun p0 r => RH p0 n r)) with (l := rows); [|exact Hr|exact E].
      intros p0 x y Hx Hy. exact (RH_rc p0 n x y Hx Hy).
    + cbn [apply_alhop bind] in E. apply (IH n p0s rows1 rows'); [|exact Hh|exact H].
      apply (mapM_Forall2 (fun r => bind (of_view (apply_op Fixed (adata r) CopySliced)) (fun d => Ok (mkRow (amap r) d)))
               (fun p0 r => RH p0 n r) (fun p0 r => RH p0 n r)) with (l := rows); [|exact Hr|exact E].
      intros p0 x y Hx Hy. destruct (of_view (apply_op Fixed (adata x) CopySliced)) as [d|e] eqn:Ed; cbn [bind] in Hy; [|discriminate].
      injection Hy as <-. exact (RH_copy p0 n x d Hx Ed).
    + cbn [apply_alhop] in E. injection E as <-. exact (IH n p0s rows rows' Hr Hh H).
Qed.

Lemma alignment_copy_init strs n rows : Forall (fun s => zlen s = n) strs ->
  mapM (row_of_string KDna) strs = Ok rows -> Forall2 (fun p0 r => RH p0 n r) (map strip strs) rows.
Proof.
  intros Hs. revert rows. induction strs as [|s t IH]; intros rows; cbn [mapM map].
  - intros [= <-]. constructor.
  - inversion Hs as [|x y Hz Ht]; subst.
    destruct (row_of_string KDna s) as [r|e] eqn:E; cbn [bind]; [|discriminate].
    destruct (mapM (row_of_string KDna) t) as [rs|e] eqn:Et; cbn [bind]; [|discriminate]. intros [= <-].
    constructor; [exact (RH_init s r E)|exact (IH Ht rs eq_refl)].
Qed.

Lemma RH_hyps p0 n r : RH p0 n r -> 0 < vlen (sv (adata r)) ->
  IndelMapSpec.WF (amap r) /\ contig (sv (adata r)) /\ parent_length (amap r) = vlen (sv (adata r)) /\
  zlen (parent (adata r)) = seq_len (sv (adata r)) /\
  forall x, parent_start (sv (adata r)) <= x < parent_stop (sv (adata r)) ->
    residue (parent (adata r)) (offset (sv (adata r))) x = residue p0 0 x.
Proof.
  intros ((Hm & Hs & Hp) & Hk & Hn & (Hwf & Ho & Hpos)) Hl.
  destruct (Hpos Hl) as (Habs & Hz & Hres).
  split; [exact Hm|]. split; [split; [assumption|split; assumption]|]. split.
  - rewrite Hp. unfold realise. destruct (is_reversed (sv (adata r))); rewrite ?zlen_map; exact (len_value_lemma _ _ Hwf Hz).
  - split; [exact Hz|]. intros x Hx. apply Hres.
    pose proof (seg_bounds _ Hwf) as Hb. unfold seg_lo, seg_hi in Hb. lia.
Qed.

(** HEADLINE (copies, alignments): every history of slices, reverse complements,
    deepcopy(sliced=True|False) and copy() of an alignment: on every row that
    still displays residues, every feature of that row's sequence is returned
    under the same condition, reads the same columns, and its sequence-level
    slice is the ORIGINAL row's residues restricted to the displayed segment *)
Lemma copies_preserve_features_aln_lemma fx strs n ops rows i s r f partial fv :
  Forall (fun s => zlen s = n) strs -> hhist_ok n ops ->
  fold_left apply_alhop ops (mapM (row_of_string KDna) strs) = Ok rows ->
  nth_error strs i = Some s -> nth_error rows i = Some r ->
  0 < vlen (sv (adata r)) -> spans_ok 0 (f_spans f) ->
  feature_on_view fx (sv (adata r)) f = View.Ok fv ->
  let v := sv (adata r) in
  fv_minus fv = xorb (f_minus f) (is_reversed v) /\
  get_slice_str v (parent (adata r)) fv = View.Ok (denoted (strip s) 0 (parent_start v) (parent_stop v) f) /\
  if db_match partial (parent_start v) (parent_stop v) f then
    exists am pm, aln_feature fx r f partial = Ok (Some (fv_minus fv, am)) /\
      Forall2 (cell_column (abs (amap r))) (den am) (den (fmap_of (vlen v) (fv_map fv))) /\
      projected_map r am = Ok pm /\ den pm = den (fmap_of (vlen v) (fv_map fv))
  else aln_feature fx r f partial = Ok None.
Proof.
  intros Hs Hh Hfold Hsi Hri Hpos Hok Hfv v. subst v.
  destruct (mapM (row_of_string KDna) strs) as [rows0|e] eqn:E0; [|rewrite fold_alhop_err in Hfold; discriminate].
  pose proof (alignment_copy_history ops n (map strip strs) rows0 rows (alignment_copy_init strs n rows0 Hs E0) Hh Hfold) as Hall.
  assert (Hr : RH (strip s) (hhist_len n ops) r).
  { clear - Hall Hsi Hri. revert i strs Hsi Hri Hall. generalize (hhist_len n ops) as m.
    intros m i. revert rows. induction i as [|i IH]; intros rows strs Hsi Hri Hall.
    - destruct strs as [|s0 t]; [discriminate|]. destruct rows as [|r0 rs]; [discriminate|].
      cbn in Hsi, Hri. injection Hsi as ->. injection Hri as ->. cbn [map] in Hall. inversion Hall; subst. assumption.
    - destruct strs as [|s0 t]; [discriminate|]. destruct rows as [|r0 rs]; [discriminate|].
      cbn in Hsi, Hri. cbn [map] in Hall. inversion Hall; subst. eapply IH; eauto. }
  destruct (RH_hyps _ _ r Hr Hpos) as (Hm & Hc & Hpl & Hz & Hres).
  destruct (feature_slice_lemma fx (sv (adata r)) (parent (adata r)) f fv Hc Hpos Hz Hok Hfv) as (H1 & H2).
  split; [exact H1|]. split.
  - rewrite H2. f_equal. apply denoted_same_residues. exact Hres.
  - exact (aln_feature_spec fx r f partial fv Hm Hc Hpl Hpos Hok Hfv).
Qed.

(** * PHASE 3 (2): spans of the alignment-level map - what Feature.get_slice() reads *)

Definition fwd (sp : fspan) : bool := match sp with FS _ _ true => false | _ => true end.

Lemma mk_span_fwd a b : fwd (mk_span a b false) = true.
Proof. unfold mk_span. destruct (a >? b); reflexivity. Qed.

Lemma span_getitem_fwd sp a b x : fwd sp = true -> span_getitem sp a b = Ok x -> fwd x = true.
Proof.
  unfold span_getitem. destruct sp as [s e [|]|n]; cbn [fwd]; intros Hf; [discriminate| |].
  - destruct (_ >? _); [discriminate|]. intros [= <-]. apply mk_span_fwd.
  - intros [= <-]. reflexivity.
Qed.

Lemma forallb_firstn {A} (f : A -> bool) n l : forallb f l = true -> forallb f (firstn n l) = true.
Proof.
  revert l. induction n as [|n IH]; intros [|x l]; cbn; try reflexivity. intros H.
  apply andb_prop in H. destruct H as (Hx & Hl). rewrite Hx, (IH l Hl). reflexivity.
Qed.

Lemma forallb_skipn {A} (f : A -> bool) n l : forallb f l = true -> forallb f (skipn n l) = true.
Proof.
  revert l. induction n as [|n IH]; intros [|x l]; cbn; try reflexivity; [tauto|]. intros H.
  apply andb_prop in H. destruct H as (_ & Hl). exact (IH l Hl).
Qed.

Lemma forallb_zslice {A} (f : A -> bool) l a b : forallb f l = true -> forallb f (zslice l a b) = true.
Proof. intros H. unfold zslice. apply forallb_firstn, forallb_skipn, H. Qed.

Lemma forallb_set_at {A} (f : A -> bool) l : forall i x, forallb f l = true -> f x = true -> forallb f (set_at l i x) = true.
Proof.
  induction l as [|y l IH]; intros i x H Hx; cbn [set_at]; [reflexivity|].
  cbn [forallb] in H. apply andb_prop in H. destruct H as (Hy & Hl).
  destruct (i =? 0); cbn [forallb]; [rewrite Hx, Hl; reflexivity|rewrite Hy, (IH _ _ Hl Hx); reflexivity].
Qed.

Lemma nth_span_fwd l i : forallb fwd l = true -> fwd (nth_span l i) = true.
Proof.
  intros H. unfold nth_span. destruct (nth_in_or_default (Z.to_nat i) l (FL 0)) as [Hin| ->]; [|reflexivity].
  exact (proj1 (forallb_forall _ _) H _ Hin).
Qed.

Lemma forallb_app_true {A} (f : A -> bool) a b : forallb f a = true -> forallb f b = true -> forallb f (a ++ b) = true.
Proof. intros Ha Hb. rewrite forallb_app, Ha, Hb. reflexivity. Qed.

(** [Span.remap_with] over forward spans gives forward spans *)
Lemma remap_with_fwd sp fm r : forallb fwd (fspans fm) = true -> fwd sp = true ->
  remap_with sp fm = Ok r -> forallb fwd r = true.
Proof.
  intros Hfm Hsp. destruct sp as [s e [|]|n]; cbn [fwd] in Hsp; [discriminate| |].
  2:{ cbn. intros [= <-]. reflexivity. }
  unfold remap_with. cbv zeta. destruct (zlen (fspans fm) =? 0); [discriminate|].
  set (res0 := zslice (fspans fm) _ _).
  assert (H0 : forallb fwd res0 = true) by (apply forallb_zslice; exact Hfm).
  match goal with |- bind ?X ?F = Ok r -> _ => destruct X as [res1|c] eqn:E1; cbn [bind]; [|discriminate] end.
  assert (H1 : forallb fwd res1 = true).
  { destruct (zlen res0 =? 0); [injection E1 as <-; exact H0|].
    match type of E1 with bind ?X ?F = Ok res1 => destruct X as [res2|c] eqn:E2; cbn [bind] in E1; [|discriminate] end.
    assert (H2 : forallb fwd res2 = true).
    { destruct (_ >? 0) in E2; [|injection E2 as <-; exact H0].
      match type of E2 with bind ?X ?F = Ok res2 => destruct X as [x|c] eqn:E3; cbn [bind] in E2; [|discriminate] end.
      injection E2 as <-. apply forallb_set_at; [exact H0|].
      exact (span_getitem_fwd _ _ _ _ (nth_span_fwd _ _ H0) E3). }
    destruct (_ >? 0) in E1; [|injection E1 as <-; exact H2].
    match type of E1 with bind ?X ?F = Ok res1 => destruct X as [x|c] eqn:E3; cbn [bind] in E1; [|discriminate] end.
    injection E1 as <-. apply forallb_set_at; [exact H2|].
    exact (span_getitem_fwd _ _ _ _ (nth_span_fwd _ _ H2) E3). }
  intros [= <-].
  destruct (s <? 0); destruct (e >? _); cbn [forallb fwd]; rewrite ?forallb_app; cbn [forallb fwd]; rewrite H1; reflexivity.
Qed.

Lemma remap_all_fwd fm l : forallb fwd (fspans fm) = true -> forallb fwd l = true ->
  forall r, remap_all l fm = Ok r -> forallb fwd r = true.
Proof.
  intros Hfm. induction l as [|sp t IH]; intros Hl r; cbn [remap_all].
  - intros [= <-]. reflexivity.
  - cbn [forallb] in Hl. apply andb_prop in Hl. destruct Hl as (Hsp & Ht).
    destruct (remap_with sp fm) as [hd|c] eqn:E; cbn [bind]; [|discriminate].
    destruct (remap_all t fm) as [tl|c] eqn:Et; cbn [bind]; [|discriminate]. intros [= <-].
    apply forallb_app_true; [exact (remap_with_fwd sp fm hd Hfm Hsp E)|exact (IH Ht tl eq_refl)].
Qed.

(** the inverse of a map of forward in-parent spans has forward spans *)
Lemma inv_temp_le plen l : forallb fwd l = true -> forallb (FeatureMapSpec.span_in plen) l = true ->
  forall cum, Forall (fun q : quad => let '(_, _, cs, ce) := q in cs <= ce) (inv_temp cum l).
Proof.
  induction l as [|[s e r|n] t IH]; intros Hf Hi cum; cbn [inv_temp]; [constructor| |].
  - cbn [forallb] in Hf, Hi. apply andb_prop in Hf. destruct Hf as (Hr & Hf). apply andb_prop in Hi. destruct Hi as (Hs & Hi).
    destruct r; [discriminate|]. cbn in Hs. constructor; [lia|exact (IH Hf Hi _)].
  - cbn [forallb] in Hf, Hi. apply andb_prop in Hf. destruct Hf as (_ & Hf). apply andb_prop in Hi. destruct Hi as (_ & Hi).
    exact (IH Hf Hi _).
Qed.

Lemma inv_loop_fwd temp : Forall (fun q : quad => let '(_, _, cs, ce) := q in cs <= ce) temp ->
  forall ls sp ls', inv_loop temp ls = Ok (sp, ls') -> forallb fwd sp = true.
Proof.
  induction temp as [|[[[s e] cs] ce] t IH]; intros H ls sp ls'; cbn [inv_loop].
  - intros [= <- _]. reflexivity.
  - inversion H as [|x y Hq Ht]; subst. destruct (s <? ls); [discriminate|].
    destruct (inv_loop t e) as [[tl l2]|c] eqn:E; cbn [bind]; [|discriminate]. intros [= <- _].
    apply forallb_app_true; [destruct (s >? ls); reflexivity|]. cbn [forallb].
    replace (cs >? ce) with false by lia. rewrite mk_span_fwd. exact (IH Ht e tl l2 E).
Qed.

Lemma fm_inverse_fwd fm inv : forallb fwd (fspans fm) = true -> in_parent fm = true ->
  fm_inverse fm = Ok inv -> forallb fwd (fspans inv) = true.
Proof.
  intros Hf Hi. unfold fm_inverse.
  destruct (inv_loop (sort_quads (inv_temp 0 (fspans fm))) 0) as [[sp ls]|c] eqn:E; cbn [bind]; [|discriminate].
  intros [= <-]. cbn [fspans]. apply forallb_app_true; [|destruct (_ >? _); reflexivity].
  apply (inv_loop_fwd (sort_quads (inv_temp 0 (fspans fm)))) with (ls := 0) (ls' := ls); [|exact E].
  apply Forall_forall. intros q Hq. apply (proj1 (sort_quads_In q _)) in Hq.
  exact (proj1 (Forall_forall _ _) (inv_temp_le (fplen fm) _ Hf Hi 0) q Hq).
Qed.

Lemma tfm_fwd m : IndelMapSpec.WF m -> forallb fwd (fspans (to_feature_map m)) = true.
Proof.
  intros H. unfold to_feature_map. cbn [fspans]. rewrite (tiled_fs _ _ _ (spans_tiled m H)).
  apply forallb_forall. intros sp Hsp. apply in_map_iff in Hsp. destruct Hsp as ([a b|n] & <- & _); reflexivity.
Qed.

Lemma fmap_of_fwd n m : forallb fwd (fspans (fmap_of n m)) = true.
Proof.
  unfold fmap_of. cbn [fspans]. apply forallb_forall. intros sp Hsp. apply in_map_iff in Hsp.
  destruct Hsp as ([a b|k] & <- & _); [apply mk_span_fwd|reflexivity].
Qed.

(** reading the spans of a forward map in order = reading its cells in order *)
Lemma coordinates_read_cells l : forallb fwd l = true ->
  flat_map (fun se => zrange (fst se) (snd se))
           (flat_map (fun sp => match sp with FS s e _ => [(s, e)] | FL _ => [] end) l)
  = somes (flat_map den_span l).
Proof.
  induction l as [|[s e r|n] t IH]; intros H; [reflexivity| |]; cbn [forallb] in H; apply andb_prop in H; destruct H as (Hr & Ht);
    cbn [flat_map app]; rewrite somes_app, <- (IH Ht).
  - destruct r; [discriminate|]. cbn [den_span fst snd]. rewrite somes_map_some. reflexivity.
  - cbn [den_span]. rewrite somes_nones. reflexivity.
Qed.

(** HEADLINE (spans): the alignment-level map consists of forward spans only,
    so the column ranges Feature.get_slice() reads, [get_coordinates()] in order,
    enumerate exactly the Some-cells of the map in order: every span is a run of
    consecutive columns of the cell-level denotation, and nothing else is read.
    (Touching runs are NOT merged: a feature with abutting spans keeps two spans.) *)
Lemma aln_map_spans_read_cells fx r spans minus fv am :
  IndelMapSpec.WF (amap r) ->
  Annot.make_feature fx (vlen (sv (adata r))) (is_reversed (sv (adata r))) spans minus = View.Ok fv ->
  aligned_make_feature fx r spans minus = Ok (fv_minus fv, am) ->
  forallb fwd (fspans am) = true /\
  flat_map (fun se => zrange (fst se) (snd se)) (fm_get_coordinates (fm_without_gaps am)) = somes (den am).
Proof.
  intros Hwf Hmf H. unfold aligned_make_feature in H. rewrite Hmf in H. cbn [of_view bind] in H.
  destruct (fm_inverse (to_feature_map (amap r))) as [inv|c] eqn:Einv; cbn [bind] in H; [|discriminate].
  destruct (fm_getitem_map inv (fmap_of (vlen (sv (adata r))) (fv_map fv))) as [c|e] eqn:Ec; cbn [bind] in H; [|discriminate].
  injection H as <-.
  pose proof (fm_inverse_fwd _ inv (tfm_fwd _ Hwf) (tfm_in_parent _ Hwf) Einv) as Hinv.
  unfold fm_getitem_map in Ec. destruct (remap_all _ inv) as [parts|e] eqn:Ep; cbn [bind] in Ec; [|discriminate].
  injection Ec as <-. cbn [fspans].
  pose proof (remap_all_fwd inv _ Hinv (fmap_of_fwd _ _) parts Ep) as Hparts.
  split; [exact Hparts|].
  unfold fm_get_coordinates, fm_without_gaps, den. cbn [fspans].
  assert (Hfilt : forallb fwd (filter (fun sp => negb (FeatureMap.is_lost sp)) parts) = true).
  { apply forallb_forall. intros sp Hsp. apply filter_In in Hsp. exact (proj1 (forallb_forall _ _) Hparts sp (proj1 Hsp)). }
  rewrite (coordinates_read_cells _ Hfilt).
  (* dropping the lost spans drops only None cells *)
  clear. induction parts as [|[s e rr|n] t IH]; [reflexivity| |]; cbn [filter FeatureMap.is_lost negb flat_map]; rewrite !somes_app, IH.
  - reflexivity.
  - cbn [den_span]. rewrite somes_nones. reflexivity.
Qed.

(** * PHASE 3 (1): copies on sequences and collection members *)

(** the history steps of a Sequence: [seq[a:b]], [rc()], [copy(sliced=True|False)],
    [copy.deepcopy(seq)].  A sliced copy re-bases the view on the cut-down parent
    and hands the old parent_start on as annotation offset (C01's CopySliced);
    an unsliced copy and a Python deepcopy rebuild the view with the same
    numbers, which is what the [:] slice does ([copy_view]).  The annotation db
    is deep-copied with the same records in every case (the test
    [strand == "-"] in the collection / Aligned deepcopy compares an int with a
    str and never holds), so the db argument of the theorems is unchanged. *)
Inductive seq_step := SSlice (a b : option Z) | SRc | SCopy (sliced : bool) | SDeepcopy.

Definition seq_step_hop (s : seq_step) : hop :=
  match s with
  | SSlice a b => HOp (VSlice a b None)
  | SRc => HOp VRc
  | SCopy true => HCopy
  | SCopy false | SDeepcopy => HOp (VSlice None None None)
  end.

Lemma seq_steps_unit l : Forall unit_hop (map seq_step_hop l).
Proof.
  apply Forall_forall. intros h Hh. apply in_map_iff in Hh. destruct Hh as (s & <- & _).
  destruct s as [a b| |[|]|]; cbn; auto.
Qed.

Lemma copies_preserve_features_seq_lemma fx p0 off0 steps v0 v p f fv :
  0 <= off0 -> mk_view (zlen p0) None None None off0 = View.Ok v0 ->
  fold_left apply_hop (map seq_step_hop steps) (View.Ok (v0, p0)) = View.Ok (v, p) -> 0 < vlen v ->
  spans_ok 0 (f_spans f) -> feature_on_view fx v f = View.Ok fv ->
  fv_minus fv = xorb (f_minus f) (is_reversed v) /\
  get_slice_str v p fv = View.Ok (denoted p0 off0 (parent_start v) (parent_stop v) f).
Proof.
  intros Hoff H0 Hfold Hlen Hok Hfv.
  exact (history_with_copies_lemma fx p0 off0 _ v0 v p f fv Hoff H0 (seq_steps_unit steps) Hfold Hlen Hok Hfv).
Qed.
